#!/bin/bash
# validates MANIFEST.json and every evidence file against the schemas
python3-vt - <<'PY'
import json,jsonschema,glob,sys
jsonschema.validate(json.load(open('/verif/MANIFEST.json')), json.load(open('/root/.vp/MANIFEST.schema.json')))
es=json.load(open('/root/.vp/EVIDENCE.schema.json'))
m=json.load(open('/verif/MANIFEST.json'))
for c in m['checks']:
    jsonschema.validate(json.load(open(c['evidence_file'])), es)
print('valid: manifest +', len(m['checks']), 'evidence files;', len(m.get('not_applicable',[])), 'not applicable')
PY
