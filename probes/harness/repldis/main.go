package main

import (
	"fmt"
	"os"

	_ "github.com/elk-language/elk"
	"github.com/elk-language/elk/types/checker"
	"github.com/elk-language/elk/vm"
)

func dis(fn *vm.BytecodeFunction, seen map[*vm.BytecodeFunction]bool) {
	if seen[fn] {
		return
	}
	seen[fn] = true
	fmt.Println(fn.MustDisassembleString())
}

func main() {
	src, _ := os.ReadFile(os.Args[1])
	tc := checker.New()
	tc.SetAdditionalAbortChecks(true)
	tc.SetIncremental(true)
	fn, dl := tc.CheckSourceBytecode("<repl:0>", string(src))
	if dl != nil {
		fmt.Println(dl.Error())
	}
	dis(fn, map[*vm.BytecodeFunction]bool{})
}
