package main

import (
	"fmt"
	"os"

	"github.com/elk-language/elk/lexer"
	"github.com/elk-language/elk/token"
)

func main() {
	src := os.Args[1]
	l := lexer.New(src)
	for {
		t := l.Next()
		sp := t.Span()
		fmt.Printf("%-28s [%d..%d] L%d:C%d-L%d:C%d %q\n", t.Type.Name(), sp.StartPos.ByteOffset, sp.EndPos.ByteOffset, sp.StartPos.Line, sp.StartPos.Column, sp.EndPos.Line, sp.EndPos.Column, t.Value)
		if t.Type == token.END_OF_FILE {
			break
		}
	}
	fmt.Printf("colorize roundtrip: %q\n", lexer.Colorize(src))
}
