package main

import (
	"bufio"
	"fmt"
	"os"
	"strings"

	_ "github.com/elk-language/elk"
	"github.com/elk-language/elk/types/checker"
	"github.com/elk-language/elk/vm"
)

// inputs separated by lines containing only "----"
func main() {
	data, _ := os.ReadFile(os.Args[1])
	inputs := strings.Split(string(data), "\n----\n")
	tc := checker.New()
	tc.SetAdditionalAbortChecks(true)
	tc.SetIncremental(true)
	v := vm.New()
	w := bufio.NewWriter(os.Stdout)
	defer w.Flush()
	for i, in := range inputs {
		fn, dl := tc.CheckSourceBytecode(fmt.Sprintf("<repl:%d>", i), in)
		if dl != nil {
			fmt.Printf("[%d] diagnostics: %s\n", i, dl.Error())
			fail := dl.IsFailure()
			tc.ClearErrors()
			if fail {
				continue
			}
		}
		val, err := v.InterpretREPL(fn)
		if !err.IsUndefined() {
			fmt.Printf("[%d] runtime error: %s\n", i, err.Inspect())
			v.ResetError()
			continue
		}
		fmt.Printf("[%d] => %s\n", i, val.Inspect())
	}
}
