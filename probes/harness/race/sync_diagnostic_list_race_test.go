package diagnostic

import (
	"sync"
	"testing"
)

func TestSyncDiagnosticListIsFailureRace(t *testing.T) {
	dl := NewSyncDiagnosticList()
	var wg sync.WaitGroup
	wg.Add(2)
	go func() {
		defer wg.Done()
		for i := 0; i < 2000; i++ {
			dl.AddFailure("x", nil)
		}
	}()
	go func() {
		defer wg.Done()
		for i := 0; i < 2000; i++ {
			dl.IsFailure()
		}
	}()
	wg.Wait()
}
