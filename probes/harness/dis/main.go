package main

import (
	"fmt"
	"os"

	_ "github.com/elk-language/elk"
	"github.com/elk-language/elk/bitfield"
	"github.com/elk-language/elk/types/checker"
	"github.com/elk-language/elk/vm"
	"github.com/elk-language/elk/value"
)

func dis(fn *vm.BytecodeFunction, seen map[*vm.BytecodeFunction]bool) {
	if seen[fn] { return }
	seen[fn] = true
	fmt.Println(fn.MustDisassembleString())
	for _, v := range fn.Values {
		if f, ok := v.SafeAsReference().(*vm.BytecodeFunction); ok {
			dis(f, seen)
		}
	}
}

func main() {
	src, _ := os.ReadFile(os.Args[1])
	fn, diags := checker.CheckSource(os.Args[1], string(src), nil, bitfield.BitField16{}, nil)
	if diags != nil {
		fmt.Println(diags)
	}
	_ = value.Nil
	dis(fn, map[*vm.BytecodeFunction]bool{})
}
