package main

import (
	"fmt"
	"os"

	_ "github.com/elk-language/elk"
	"github.com/elk-language/elk/parser"
	"github.com/elk-language/elk/value"
)

func main() {
	src := os.Args[1]
	a, d := parser.Parse("<a>", src)
	if d != nil {
		fmt.Println("parse1 diag:", d.Error())
		return
	}
	printed := a.String()
	fmt.Printf("printed: %q\n", printed)
	b, d2 := parser.Parse("<b>", printed)
	if d2 != nil {
		fmt.Println("parse2 diag:", d2.Error())
		return
	}
	fmt.Println("equal:", a.Equal(value.Ref(b)), "| reprinted equal:", b.String() == printed)
}
