#!/usr/bin/env bash
# usage: run_preexisting.sh <worktree>
# Replays the sessions of this directory on the UNMODIFIED tree with the same
# driver as the demo (../driver/main.go) and prints what the REPL answers.
set -u
HERE="$(cd "$(dirname "${BASH_SOURCE[0]}")" && pwd)"
OUT="$(dirname "$HERE")"
WT="$(cd "${1:?usage: run_preexisting.sh <worktree>}" && pwd)"
export GOFLAGS=-mod=mod GOPROXY=off
OVERLAY="$OUT/.overlay.$$.json"
BIN="$OUT/.c27driver.$$"
TMP="$OUT/.session.$$.txt"
trap 'rm -f "$OVERLAY" "$BIN" "$TMP"' EXIT
printf '{"Replace": {"%s/cmd/c27driver/main.go": "%s/driver/main.go"}}\n' "$WT" "$OUT" > "$OVERLAY"
cd "$WT" || exit 2
go build -overlay "$OVERLAY" -o "$BIN" ./cmd/c27driver || exit 2
go build -o "$OUT/.elk.$$" ./cmd/elk || exit 2
git checkout -- go.mod go.sum 2>/dev/null
for s in "$HERE"/*.session.txt; do
	echo "== REPL session $(basename "$s")"
	sed "s#@DIR@#$HERE#g" "$s" > "$TMP"
	"$BIN" "$TMP" 2>&1 | cut -c1-300
done
echo "== batch run of ivar_reopen.batch.elk (what the ivar_reopen session should print)"
"$OUT/.elk.$$" run "$HERE/ivar_reopen.batch.elk"
rm -f "$OUT/.elk.$$"
