# writes deep.elk: 200000 nested parentheses; `elk run deep.elk` killed the
# process with "fatal error: stack overflow" before the parser got a nesting limit
n = 200000
open("deep.elk", "w").write("a := " + "(" * n + "1" + ")" * n + "\nprintln a.inspect\n")
