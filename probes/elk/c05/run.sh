#!/usr/bin/env bash
# run.sh <worktree> : round-trips preexisting/cases.txt with the same harness as the seeded demo.
# Every snippet in cases.txt FAILS on the unmodified tree (exit 1).
OUT="$(cd "$(dirname "${BASH_SOURCE[0]}")/.." && pwd)"
WT="$(cd "${1:?usage: run.sh <worktree>}" && pwd)"
export GOFLAGS=-mod=mod GOPROXY=off
mkdir -p "$OUT/build"
cat > "$OUT/build/overlay.json" <<JSON
{"Replace": {"$WT/cmd/c05roundtrip/main.go": "$OUT/demo/main.go"}}
JSON
(cd "$WT" && go build -overlay "$OUT/build/overlay.json" -o "$OUT/build/roundtrip" ./cmd/c05roundtrip) || exit 2
(cd "$WT" && git checkout -- go.mod go.sum 2>/dev/null)
C05_DIFF="${C05_DIFF:-}" "$OUT/build/roundtrip" "$OUT/preexisting/cases.txt"
