#!/usr/bin/env bash
# usage: repro.sh <unmodified worktree>
# Builds the C11 driver (../demo/main.go) with the Go race detector and type checks
# many_methods.elk at limits 1,2,4,100. On the UNMODIFIED tree the race detector
# reports data races between concurrently checked method bodies (exit status 66).
set -u
OUT="$(cd "$(dirname "${BASH_SOURCE[0]}")" && pwd)"
WT="$(cd "${1:?usage: repro.sh <worktree>}" && pwd)"
export GOFLAGS=-mod=mod GOPROXY=off
cat > "$OUT/overlay.json" <<EOJ
{"Replace": {"$WT/cmd/c11demo/main.go": "$OUT/../demo/main.go"}}
EOJ
(cd "$WT" && go build -race -overlay "$OUT/overlay.json" -o "$OUT/c11race.bin" ./cmd/c11demo) || exit 2
(cd "$WT" && git checkout -- go.mod go.sum 2>/dev/null)
cd "$WT" && "$OUT/c11race.bin" -runs 3 "$OUT/many_methods.elk" 2>&1 | grep -A3 "WARNING: DATA RACE\|Previous" | head -80
exit "${PIPESTATUS[0]}"
