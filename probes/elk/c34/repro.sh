#!/usr/bin/env bash
# Usage: repro.sh <worktree> [elk-binary]
# Shows behaviours of the UNMODIFIED tree that already contradict property C34.
# Builds the CLI into this directory unless an existing binary is given.
OUT="$(cd "$(dirname "${BASH_SOURCE[0]}")" && pwd)"
WT="${1:?usage: repro.sh <worktree> [elk-binary]}"
ELK="${2:-$OUT/elk}"
export GOFLAGS=-mod=mod GOPROXY=off
if [ ! -x "$ELK" ]; then
	(cd "$WT" && go build -o "$ELK" ./cmd/elk && git checkout -- go.mod go.sum) || exit 2
fi
F="$OUT/filters.elk.test"
run() { echo "=== elk test $*"; (cd "$WT" && "$ELK" test "$@" 2>&1 | grep -E "RAN|Summary|^[A-Za-z ]* > .*:$"; echo "exit=${PIPESTATUS[0]}"); }

echo "# 1. a --path filter naming the first line of a describe (full suite match) combined with ANY other filter selects nothing"
echo "#    line 11 is 'describe \"A\"'; alone it runs a1,a2,b1,b2"
run --main "$F" --path "$F:11"
echo "#    expected a2,b2 (the cases of suite A whose name matches foo); runs 0 cases and exits 1"
run --main "$F" --path "$F:11" --grep foo
echo "#    expected a1,a2,b1,b2 (second filter matches the whole file); runs 0 cases"
run --main "$F" --path "$F:11" --path "$F"
echo "#    expected b1,b2 (line 22 is 'context \"B\"' inside A); runs 0 cases"
run --main "$F" --path "$F:11" --path "$F:22"

echo "# 2. a case whose before_each hook fails never gets a FINISH_CASE event: summary says 0 cases / 0 failed although two cases failed"
run --main "$OUT/before_each_fail.elk.test"

echo "# 3. suite names: only the last level is joined with ' > ' (\"A B > C > it c1 passes\"), so --grep 'A > B > C' selects nothing;"
echo "#    top-level cases are named ' > name' so --grep '^toplevel' selects nothing"
run --main "$OUT/before_each_fail.elk.test" --grep "A > B > C"
run --main "$OUT/toplevel.elk.test" --grep "^toplevel"

echo "# 4. no case selected -> exit status 1 although no case failed; negative line number is treated as 'no line'"
run --main "$F" --grep nomatch
run --main "$F" --path "$F:-1"
