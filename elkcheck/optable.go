package main

import (
	"fmt"
	"go/ast"
	"go/constant"
	"go/token"
	"go/types"
	"sort"
	"strings"
)

// ---------------------------------------------------------------------------
// shared anchors for the opcode tables

type opcodeTables struct {
	consts   []*types.Const         // all constants of type bytecode.OpCode, by value
	byVal    map[int64]*types.Const // value -> constant
	runLoop  *FuncRef               // the VM run loop
	runSw    *ast.SwitchStmt        // its opcode switch
	runCase  map[int64]*ast.CaseClause
	disasm   *FuncRef
	disSw    *ast.SwitchStmt
	disCase  map[int64]*ast.CaseClause
	names    map[int64]string // opCodeNames
	namesPos token.Pos
}

func isOpCodeType(t types.Type) bool {
	return NamedOf(t) == "bytecode.OpCode"
}

// bigOpcodeSwitch finds, in the methods of recv in package pkgRel, the switch
// statement over a bytecode.OpCode value with the most case clauses.
func (c *Ctx) bigOpcodeSwitch(pkgRel, recv string, min int) (*FuncRef, *ast.SwitchStmt) {
	var bestF *FuncRef
	var bestS *ast.SwitchStmt
	best := 0
	c.Funcs(pkgRel, func(fr *FuncRef) {
		if recvTypeName(fr.Decl) != recv {
			return
		}
		ast.Inspect(fr.Decl.Body, func(n ast.Node) bool {
			sw, ok := n.(*ast.SwitchStmt)
			if !ok || sw.Tag == nil {
				return true
			}
			if !isOpCodeType(fr.Pkg.TypesInfo.TypeOf(sw.Tag)) {
				return true
			}
			n2 := 0
			for _, cl := range sw.Body.List {
				n2 += len(cl.(*ast.CaseClause).List)
			}
			if n2 > best {
				best, bestF, bestS = n2, fr, sw
			}
			return true
		})
	})
	if best < min {
		c.Stale(fmt.Sprintf("switch over bytecode.OpCode with >= %d labels in methods of %s.%s", min, pkgRel, recv))
	}
	return bestF, bestS
}

func caseMap(info *types.Info, sw *ast.SwitchStmt) map[int64]*ast.CaseClause {
	m := map[int64]*ast.CaseClause{}
	for _, cl := range sw.Body.List {
		cc := cl.(*ast.CaseClause)
		for _, e := range cc.List {
			if v, ok := ConstInt(info, e); ok {
				m[v] = cc
			}
		}
	}
	return m
}

func (c *Ctx) opcodeTables() *opcodeTables {
	t := &opcodeTables{byVal: map[int64]*types.Const{}, names: map[int64]string{}}
	bp := c.Pkg("bytecode")
	scope := bp.Types.Scope()
	for _, n := range scope.Names() {
		k, ok := scope.Lookup(n).(*types.Const)
		if !ok || !isOpCodeType(k.Type()) {
			continue
		}
		v, _ := constant.Int64Val(constant.ToInt(k.Val()))
		t.consts = append(t.consts, k)
		if prev := t.byVal[v]; prev != nil {
			c.Bad("dup-"+k.Name(), k.Pos(), "opcodes %s and %s share the value %d", prev.Name(), k.Name(), v)
		}
		t.byVal[v] = k
	}
	sort.Slice(t.consts, func(i, j int) bool {
		a, _ := constant.Int64Val(constant.ToInt(t.consts[i].Val()))
		b, _ := constant.Int64Val(constant.ToInt(t.consts[j].Val()))
		return a < b
	})
	if len(t.consts) == 0 {
		c.Stale("constants of type bytecode.OpCode")
	}
	t.runLoop, t.runSw = c.bigOpcodeSwitch("vm", "Thread", 100)
	t.runCase = caseMap(t.runLoop.Pkg.TypesInfo, t.runSw)
	t.disasm, t.disSw = c.bigOpcodeSwitch("vm", "BytecodeFunction", 100)
	t.disCase = caseMap(t.disasm.Pkg.TypesInfo, t.disSw)
	// opCodeNames: the package-level array/slice/map of strings keyed by OpCode
	for _, f := range bp.Syntax {
		for _, d := range f.Decls {
			gd, ok := d.(*ast.GenDecl)
			if !ok || gd.Tok != token.VAR {
				continue
			}
			for _, sp := range gd.Specs {
				vs := sp.(*ast.ValueSpec)
				for _, val := range vs.Values {
					cl, ok := val.(*ast.CompositeLit)
					if !ok || len(cl.Elts) < 100 {
						continue
					}
					cnt := 0
					m := map[int64]string{}
					for _, el := range cl.Elts {
						kv, ok := el.(*ast.KeyValueExpr)
						if !ok {
							continue
						}
						if !isOpCodeType(bp.TypesInfo.TypeOf(kv.Key)) {
							continue
						}
						k, ok1 := ConstInt(bp.TypesInfo, kv.Key)
						tv := bp.TypesInfo.Types[kv.Value]
						if ok1 && tv.Value != nil && tv.Value.Kind() == constant.String {
							m[k] = constant.StringVal(tv.Value)
							cnt++
						}
					}
					if cnt >= 100 {
						t.names = m
						t.namesPos = cl.Pos()
					}
				}
			}
		}
	}
	if len(t.names) == 0 {
		c.Stale("bytecode: name table keyed by OpCode")
	}
	return t
}

func opVal(k *types.Const) int64 {
	v, _ := constant.Int64Val(constant.ToInt(k.Val()))
	return v
}

// ---------------------------------------------------------------------------
// optable/handled

func init() {
	register(&Rule{
		ID:    "optable/handled",
		Text:  "every bytecode.OpCode constant has a case in the VM run loop, a case in the disassembler and an entry in the opcode name table equal to its identifier",
		Floor: 600,
		Tags:  true,
		Run:   runOptableHandled,
	})
	register(&Rule{
		ID:    "optable/width",
		Text:  "per opcode, the operand bytes consumed on every non-aborting path of its run-loop case equal the operand bytes the disassembler steps over and the operand bytes the compiler emits after it at every emission site",
		Floor: 400,
		Tags:  true,
		Run:   runOptableWidth,
	})
}

func runOptableHandled(c *Ctx) {
	t := c.opcodeTables()
	// uses of each opcode constant outside the three tables themselves
	uses := map[types.Object]int{}
	for _, p := range c.Pkgs {
		for id, obj := range p.TypesInfo.Uses {
			k, ok := obj.(*types.Const)
			if !ok || !isOpCodeType(k.Type()) {
				continue
			}
			if p == t.disasm.Pkg && id.Pos() >= t.disSw.Pos() && id.End() <= t.disSw.End() {
				continue
			}
			if relPkg(p.PkgPath) == "bytecode" {
				continue
			}
			uses[obj]++
		}
	}
	for _, k := range t.consts {
		v := opVal(k)
		if cc := t.runCase[v]; cc != nil {
			c.OK("run/"+k.Name(), cc.Pos(), "case in %s", FuncName(t.runLoop.Decl))
		} else if uses[k] == 0 {
			c.OK("run/"+k.Name(), k.Pos(), "no run-loop case, but the constant is referenced nowhere outside the name table and the disassembler: it can never be emitted")
		} else {
			c.Bad("run/"+k.Name(), t.runSw.Pos(), "opcode %s has no case in the run loop %s: executing it falls to the default arm", k.Name(), FuncName(t.runLoop.Decl))
		}
		if cc := t.disCase[v]; cc != nil {
			c.OK("disasm/"+k.Name(), cc.Pos(), "case in %s", FuncName(t.disasm.Decl))
		} else {
			c.Bad("disasm/"+k.Name(), t.disSw.Pos(), "opcode %s has no case in %s: a function containing it does not disassemble", k.Name(), FuncName(t.disasm.Decl))
		}
		if n, ok := t.names[v]; ok && n == k.Name() {
			c.OK("name/"+k.Name(), t.namesPos, "name table entry")
		} else if ok {
			c.Bad("name/"+k.Name(), t.namesPos, "name table maps %s to %q", k.Name(), n)
		} else {
			c.Bad("name/"+k.Name(), t.namesPos, "opcode %s has no entry in the name table", k.Name())
		}
	}
	c.Stats["opcodes"] = len(t.consts)
}

// ---------------------------------------------------------------------------
// optable/width — VM side

const widthVar = -1 // "variable number of operand bytes"

// widthJumped marks a path on which ip was set absolutely (throw to a catch
// entry, call into or return from a frame): what it read before says nothing
// about the operand layout and what it reads afterwards belongs to another
// instruction. Such paths are dropped from the comparison.
const widthJumpedBase = 10001

func isJumped(x int) bool { return x >= widthJumpedBase-1 }
func jumpedW(x int) int   { return x - widthJumpedBase }
func mkJumped(w int) int  { return widthJumpedBase + w }

type vmWidths struct {
	c      *Ctx
	info   *types.Info
	decls  map[*types.Func]*ast.FuncDecl
	memo   map[*types.Func]set[int]
	active map[*types.Func]bool
	unsupp []ast.Node
	nfuncs int
}

func addW(a, b int) int {
	if isJumped(a) {
		return a // reads after an absolute jump belong to another instruction
	}
	if isJumped(b) {
		return mkJumped(addW(a, jumpedW(b)))
	}
	if a == widthVar || b == widthVar {
		return widthVar
	}
	return a + b
}

// primitive ip-advancing methods of *vm.Thread; everything else is
// summarised from its body. ipIncrement has one body per build tag.
func (w *vmWidths) primitive(fn *types.Func, call *ast.CallExpr) (set[int], bool) {
	switch FuncID(fn) {
	case "vm.Thread.ipIncrement":
		return newSet(1), true
	case "vm.Thread.ipIncrementBy":
		if len(call.Args) == 1 {
			if k, ok := ConstInt(w.info, call.Args[0]); ok {
				return newSet(int(k)), true
			}
		}
		return newSet(0), true // relative jump: operand already read
	case "vm.Thread.run":
		// nested interpretation saves and restores the caller's ip
		return newSet(0), true
	case "vm.Thread.ipSet", "vm.Thread.ipSetOffset":
		return newSet(mkJumped(0)), true
	case "vm.Thread.ipDecrementBy", "vm.Thread.ipGet", "vm.Thread.ipOffset":
		return newSet(0), true
	}
	return nil, false
}

func (w *vmWidths) evaluator(loopCase bool) *PathEval[int] {
	pe := &PathEval[int]{Info: w.info}
	pe.Widen = func(s int) int {
		if isJumped(s) {
			return mkJumped(widthVar)
		}
		return widthVar
	}
	pe.Call = func(s int, call *ast.CallExpr) []int {
		// panic kills the path
		if id, ok := ast.Unparen(call.Fun).(*ast.Ident); ok {
			if b, ok := w.info.Uses[id].(*types.Builtin); ok {
				if b.Name() == "panic" {
					return nil
				}
				return []int{s}
			}
		}
		fn := Callee(w.info, call)
		if fn == nil {
			return []int{s}
		}
		if ws, ok := w.primitive(fn, call); ok {
			var out []int
			for x := range ws {
				out = append(out, addW(s, x))
			}
			return out
		}
		sum := w.summary(fn)
		var out []int
		for x := range sum {
			out = append(out, addW(s, x))
		}
		return out
	}
	return pe
}

// summary: the set of operand-byte totals over the non-panicking paths of fn.
func (w *vmWidths) summary(fn *types.Func) set[int] {
	fn = fn.Origin()
	if s, ok := w.memo[fn]; ok {
		return s
	}
	d := w.decls[fn]
	if d == nil || w.active[fn] {
		return newSet(0)
	}
	w.active[fn] = true
	pe := w.evaluator(false)
	f := pe.Block(newSet(0), d.Body.List)
	out := f.next.clone()
	out.addAll(f.ret)
	if len(out) == 0 {
		out = newSet(0)
	}
	w.unsupp = append(w.unsupp, pe.Unsupported...)
	delete(w.active, fn)
	w.memo[fn] = out
	w.nfuncs++
	return out
}

// canonW: a set that contains "variable" is just {variable}.
func canonW(s set[int]) set[int] {
	if _, ok := s[widthVar]; ok {
		return newSet(widthVar)
	}
	return s
}

func setStr(s set[int]) string {
	var xs []int
	for x := range s {
		xs = append(xs, x)
	}
	sort.Ints(xs)
	var p []string
	for _, x := range xs {
		if x == widthVar {
			p = append(p, "variable")
		} else {
			p = append(p, fmt.Sprint(x))
		}
	}
	return "{" + strings.Join(p, ",") + "}"
}

// vmSkipsNext lists run-loop cases that deliberately step over the opcode
// byte of the instruction that follows them (one named opcode per entry).
var vmSkipsNext = map[string]string{
	"AWAIT": "when the promise is already settled the case steps over the AWAIT_RESULT opcode that always follows (checked by layout/await)",
}

// vmCaseW: operand bytes consumed by one run-loop case, over the paths that
// go on to the next instruction (cont) and over the paths that redirect ip
// absolutely (jumped: bytes read before the redirection).
type vmCaseW struct{ cont, jumped set[int] }

func (c *Ctx) vmOperandWidths(t *opcodeTables) (map[int64]*vmCaseW, *vmWidths) {
	vp := t.runLoop.Pkg
	w := &vmWidths{c: c, info: vp.TypesInfo, decls: map[*types.Func]*ast.FuncDecl{}, memo: map[*types.Func]set[int]{}, active: map[*types.Func]bool{}}
	for _, f := range vp.Syntax {
		for _, d := range f.Decls {
			if fd, ok := d.(*ast.FuncDecl); ok && fd.Body != nil {
				if obj, ok := vp.TypesInfo.Defs[fd.Name].(*types.Func); ok {
					w.decls[obj] = fd
				}
			}
		}
	}
	res := map[int64]*vmCaseW{}
	seen := map[*ast.CaseClause]*vmCaseW{}
	for v, cc := range t.runCase {
		if s, ok := seen[cc]; ok {
			res[v] = s
			continue
		}
		pe := w.evaluator(true)
		f := pe.Block(newSet(0), cc.Body)
		w.unsupp = append(w.unsupp, pe.Unsupported...)
		out := f.next.clone()
		out.addAll(f.brk)  // break leaves the switch: next instruction
		out.addAll(f.cont) // continue: next instruction
		// f.ret (not jumped): the run loop returns (VM stops, error raised,
		// context switch): operands need not be consumed
		cw := &vmCaseW{cont: set[int]{}, jumped: set[int]{}}
		for x := range out {
			if isJumped(x) {
				cw.jumped.add(jumpedW(x))
			} else {
				cw.cont.add(x)
			}
		}
		// the run loop returning after a redirection (rethrow; return) also
		// tells how many bytes were read before it
		for x := range f.ret {
			if isJumped(x) {
				cw.jumped.add(jumpedW(x))
			}
		}
		cw.cont, cw.jumped = canonW(cw.cont), canonW(cw.jumped)
		seen[cc] = cw
		res[v] = cw
	}
	return res, w
}

// ---------------------------------------------------------------------------
// optable/width — disassembler side

// disasmWidth evaluates the total instruction length (opcode byte included)
// the disassembler steps over for one case clause.
func (c *Ctx) disasmWidths(t *opcodeTables) map[*ast.CaseClause]int {
	info := t.disasm.Pkg.TypesInfo
	res := map[*ast.CaseClause]int{}
	for _, cl := range t.disSw.Body.List {
		cc := cl.(*ast.CaseClause)
		if cc.List == nil {
			continue
		}
		// the clause's return statement returns helper(...)
		var call *ast.CallExpr
		for _, st := range cc.Body {
			if r, ok := st.(*ast.ReturnStmt); ok && len(r.Results) >= 1 {
				if ce, ok := r.Results[0].(*ast.CallExpr); ok {
					call = ce
				}
			}
		}
		if call == nil {
			res[cc] = -2
			continue
		}
		res[cc] = c.disasmHelperWidth(info, call)
	}
	return res
}

// disasmHelperWidth: -1 variable, -2 undecided.
func (c *Ctx) disasmHelperWidth(info *types.Info, call *ast.CallExpr) int {
	fn := Callee(info, call)
	if fn == nil {
		return -2
	}
	fr := c.FuncOpt("vm", "BytecodeFunction", fn.Name())
	if fr == nil {
		return -2
	}
	// bind constant arguments to parameter names
	env := map[string]int64{}
	sig := fn.Type().(*types.Signature)
	variadicSum := int64(0)
	for i, a := range call.Args {
		if k, ok := ConstInt(info, a); ok {
			pi := i
			if sig.Variadic() && i >= sig.Params().Len()-1 {
				variadicSum += k
				continue
			}
			env[sig.Params().At(pi).Name()] = k
		}
	}
	return c.evalDisasmBody(fr, env, variadicSum, sig.Variadic())
}

// evalDisasmBody finds the success return `return offset + X, nil` (or
// `return offset + X`) and evaluates X in env; single-assignment locals are
// followed. A helper that forwards to another helper is followed.
func (c *Ctx) evalDisasmBody(fr *FuncRef, env map[string]int64, variadicSum int64, variadic bool) int {
	info := fr.Pkg.TypesInfo
	// collect single assignments of locals, and detect growth (x++, x += ..)
	assigns := map[string][]ast.Expr{}
	grows := map[string]bool{}
	ast.Inspect(fr.Decl.Body, func(n ast.Node) bool {
		switch x := n.(type) {
		case *ast.AssignStmt:
			for i, l := range x.Lhs {
				id, ok := l.(*ast.Ident)
				if !ok {
					continue
				}
				if x.Tok == token.DEFINE || x.Tok == token.ASSIGN {
					if i < len(x.Rhs) && len(x.Lhs) == len(x.Rhs) {
						assigns[id.Name] = append(assigns[id.Name], x.Rhs[i])
					}
				} else {
					grows[id.Name] = true
				}
			}
		case *ast.IncDecStmt:
			if id, ok := x.X.(*ast.Ident); ok {
				grows[id.Name] = true
			}
		case *ast.RangeStmt:
			// `for _, v := range variadic { sum += v }`: handled through grows
		}
		return true
	})
	var eval func(e ast.Expr, depth int) (int64, int) // value, status 0 ok / -1 variable / -2 undecided
	eval = func(e ast.Expr, depth int) (int64, int) {
		if depth > 8 {
			return 0, -2
		}
		if k, ok := ConstInt(info, e); ok {
			return k, 0
		}
		switch x := ast.Unparen(e).(type) {
		case *ast.Ident:
			if v, ok := env[x.Name]; ok {
				return v, 0
			}
			if grows[x.Name] {
				// the uneven-operands helper sums its variadic widths
				if variadic && len(assigns[x.Name]) == 0 {
					return variadicSum, 0
				}
				return 0, -1
			}
			if as := assigns[x.Name]; len(as) == 1 {
				return eval(as[0], depth+1)
			}
			return 0, -2
		case *ast.BinaryExpr:
			a, sa := eval(x.X, depth+1)
			b, sb := eval(x.Y, depth+1)
			if sa != 0 {
				return 0, sa
			}
			if sb != 0 {
				return 0, sb
			}
			switch x.Op {
			case token.ADD:
				return a + b, 0
			case token.SUB:
				return a - b, 0
			case token.MUL:
				return a * b, 0
			}
			return 0, -2
		}
		return 0, -2
	}
	// last return statement of the body is the success return
	var last *ast.ReturnStmt
	for _, st := range fr.Decl.Body.List {
		if r, ok := st.(*ast.ReturnStmt); ok {
			last = r
		}
	}
	if last == nil || len(last.Results) == 0 {
		return -2
	}
	res := ast.Unparen(last.Results[0])
	if ce, ok := res.(*ast.CallExpr); ok {
		// forwarding helper: substitute our env into the callee's arguments
		fn := Callee(info, ce)
		if fn == nil {
			return -2
		}
		fr2 := c.FuncOpt("vm", "BytecodeFunction", fn.Name())
		if fr2 == nil || fr2.Decl == fr.Decl {
			return -2
		}
		sig := fn.Type().(*types.Signature)
		env2 := map[string]int64{}
		for i, a := range ce.Args {
			if i >= sig.Params().Len() {
				break
			}
			if v, st := eval(a, 0); st == 0 {
				env2[sig.Params().At(i).Name()] = v
			}
		}
		return c.evalDisasmBody(fr2, env2, 0, false)
	}
	be, ok := res.(*ast.BinaryExpr)
	if !ok || be.Op != token.ADD {
		return -2
	}
	// one side is the offset parameter
	var other ast.Expr
	if id, ok := be.X.(*ast.Ident); ok && id.Name == "offset" {
		other = be.Y
	} else if id, ok := be.Y.(*ast.Ident); ok && id.Name == "offset" {
		other = be.X
	} else {
		return -2
	}
	v, st := eval(other, 0)
	if st != 0 {
		return st
	}
	return int(v)
}
