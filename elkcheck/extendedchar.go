package main

import (
	"go/ast"
	"go/types"
	"strings"
)

// reflags/extended-char-guard (C21): in extended mode (`x`) unescaped
// whitespace is not part of the pattern. The regex parser does not wrap every
// item in a concatenation: the operand of a quantifier, and a group body or
// alternative consisting of one item, reach the transpiler through the
// per-node dispatcher only. The place where a literal character is emitted is
// therefore the one place that sees every blank; a guard that lives only in
// the walk over a concatenation lets `\d +` through as "digits, then one or
// more blanks".

func init() {
	register(&Rule{
		ID:    "reflags/extended-char-guard",
		Text:  "in package regex, every call that emits the text of a literal character node (the transpiler method that is given the *ast.CharNode in the node dispatcher) is preceded, in the same case or function, by a test of the extended flag that can skip it",
		Floor: 1,
		Run:   runExtendedCharGuard,
	})
}

var extendedCharExempt = map[string]string{
	"transpiler.charClassElement": "inside a character class whitespace is literal in extended mode as well (as in PCRE and Go's own x-less syntax); the element is emitted as it stands",
}

func runExtendedCharGuard(c *Ctx) {
	p := c.ByRel["regex"]
	if p == nil {
		c.Stale("package regex")
		return
	}
	info := p.TypesInfo
	isCharNode := func(e ast.Expr) bool {
		t := info.TypeOf(e)
		return t != nil && strings.HasSuffix(NamedOf(t), "ast.CharNode")
	}
	n := 0
	c.Funcs("regex", func(fr *FuncRef) {
		if recvTypeName(fr.Decl) != "transpiler" {
			return
		}
		// statement lists: case bodies and blocks
		ast.Inspect(fr.Decl.Body, func(nd ast.Node) bool {
			var list []ast.Stmt
			switch x := nd.(type) {
			case *ast.CaseClause:
				list = x.Body
			case *ast.BlockStmt:
				list = x.List
			default:
				return true
			}
			for i, st := range list {
				es, ok := st.(*ast.ExprStmt)
				if !ok {
					continue
				}
				call, ok := es.X.(*ast.CallExpr)
				if !ok || len(call.Args) != 1 || !isCharNode(call.Args[0]) {
					continue
				}
				fn := Callee(info, call)
				if fn == nil || recvNameOf(fn) != "transpiler" {
					continue
				}
				if _, isSig := fn.Type().(*types.Signature); !isSig {
					continue
				}
				// the emitter itself, not a recursive dispatch
				if fn.Name() == fr.Decl.Name.Name {
					continue
				}
				n++
				key := FuncName(fr.Decl) + "/" + fn.Name() + "#" + itoa(n)
				guarded := false
				for _, prev := range list[:i] {
					ifs, ok := prev.(*ast.IfStmt)
					if !ok {
						continue
					}
					if strings.Contains(types.ExprString(ifs.Cond), "ExtendedFlag") && len(ifs.Body.List) > 0 {
						switch ifs.Body.List[len(ifs.Body.List)-1].(type) {
						case *ast.ReturnStmt, *ast.BranchStmt:
							guarded = true
						}
					}
				}
				if reason, ok := extendedCharExempt[FuncName(fr.Decl)]; ok && !guarded {
					c.OK(key, call.Pos(), "reasoned exception: %s", reason)
					continue
				}
				c.Check(guarded, key, call.Pos(), "%s emits the text of a literal character through %s without a preceding test of the extended flag that can skip it: blanks that reach the transpiler outside a concatenation (the operand of a quantifier in `\\d +`, a group or alternative consisting of one blank) are emitted literally in extended mode, so the Go pattern accepts another language", FuncName(fr.Decl), fn.Name())
			}
			return true
		})
	})
}
