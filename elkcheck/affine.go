package main

import (
	"fmt"
	"go/ast"
	"go/constant"
	"go/token"
	"go/types"
	"sort"
	"strings"
)

// AFFINE engine (DESIGN.md §4.5): evaluates an integer / uintptr / pointer
// expression to a linear form  Σ cᵢ·symᵢ + k  over named symbols. It is an
// abstract interpretation in the domain of linear expressions, not constraint
// solving: anything non-linear makes the result undecided.
//
// Pointers are byte addresses; `&X[i]` is ADDR(X) + i·S where S is the
// element size symbol of X. Division by and multiplication with the same
// size constant cancel ((x / S) * S = x): truncation is ignored, which is
// exact because every address handled is a multiple of S from its base.

type linForm struct {
	coef map[string]float64
	k    float64
	ok   bool
	why  string
}

func linConst(k float64) linForm { return linForm{coef: map[string]float64{}, k: k, ok: true} }
func linSym(s string) linForm     { return linForm{coef: map[string]float64{s: 1}, ok: true} }
func linBad(why string) linForm   { return linForm{why: why} }

func (a linForm) add(b linForm, sign float64) linForm {
	if !a.ok {
		return a
	}
	if !b.ok {
		return b
	}
	out := linForm{coef: map[string]float64{}, k: a.k + sign*b.k, ok: true}
	for s, c := range a.coef {
		out.coef[s] += c
	}
	for s, c := range b.coef {
		out.coef[s] += sign * c
	}
	return out
}

func (a linForm) scale(f float64) linForm {
	if !a.ok {
		return a
	}
	out := linForm{coef: map[string]float64{}, k: a.k * f, ok: true}
	for s, c := range a.coef {
		out.coef[s] = c * f
	}
	return out
}

func (a linForm) isConst() bool {
	if !a.ok {
		return false
	}
	for _, c := range a.coef {
		if c != 0 {
			return false
		}
	}
	return true
}

func (a linForm) String() string {
	if !a.ok {
		return "undecided(" + a.why + ")"
	}
	var keys []string
	for s, c := range a.coef {
		if c != 0 {
			keys = append(keys, s)
		}
	}
	sort.Strings(keys)
	var parts []string
	for _, s := range keys {
		c := a.coef[s]
		switch c {
		case 1:
			parts = append(parts, "+"+s)
		case -1:
			parts = append(parts, "-"+s)
		default:
			parts = append(parts, fmt.Sprintf("%+g*%s", c, s))
		}
	}
	if a.k != 0 || len(parts) == 0 {
		parts = append(parts, fmt.Sprintf("%+g", a.k))
	}
	return strings.TrimPrefix(strings.Join(parts, " "), "+")
}

func (a linForm) equal(b linForm) bool {
	if !a.ok || !b.ok {
		return false
	}
	d := a.add(b, -1)
	return d.isConst() && d.k == 0
}

// linEval evaluates expressions of one function.
type linEval struct {
	c    *Ctx
	info *types.Info
	fd   *ast.FuncDecl
	// Sym maps an expression (by its printed form) to a symbol; consulted
	// before structural evaluation. Lets a rule name `vm.sp`, `&vm.stack[0]`.
	Sym map[string]string
	// SizeVal: numeric stand-in for the element size constant (value.ValueSize).
	SizeNames map[string]bool
	// decls of the package for inlining one-line helpers
	decls map[*types.Func]*ast.FuncDecl
	// bindings of parameters during inlining
	env   map[types.Object]linForm
	depth int
	// AtPos: when evaluating a local variable, use its last definition
	// textually before this position (0: must have a single definition)
	AtPos token.Pos
}

// element sizes as the real build computes them (the constants of the
// repository, e.g. value.ValueSize = unsafe.Sizeof(value.Value{}), are folded
// by go/types with the same model)
var stdSizes = types.SizesFor("gc", "amd64")

func (c *Ctx) newLinEval(fr *FuncRef) *linEval {
	le := &linEval{c: c, info: fr.Pkg.TypesInfo, fd: fr.Decl, Sym: map[string]string{}, SizeNames: map[string]bool{"ValueSize": true},
		decls: map[*types.Func]*ast.FuncDecl{}, env: map[types.Object]linForm{}}
	for _, f := range fr.Pkg.Syntax {
		for _, d := range f.Decls {
			if fd, ok := d.(*ast.FuncDecl); ok && fd.Body != nil {
				if o, ok := fr.Pkg.TypesInfo.Defs[fd.Name].(*types.Func); ok {
					le.decls[o] = fd
				}
			}
		}
	}
	return le
}

func (le *linEval) Eval(e ast.Expr) linForm {
	le.depth++
	defer func() { le.depth-- }()
	if le.depth > 24 {
		return linBad("too deep")
	}
	e = ast.Unparen(e)
	if s, ok := le.Sym[types.ExprString(e)]; ok {
		return linSym(s)
	}
	if tv, ok := le.info.Types[e]; ok && tv.Value != nil {
		if v := constant.ToFloat(tv.Value); v.Kind() == constant.Float {
			f, _ := constant.Float64Val(v)
			return linConst(f)
		}
	}
	switch x := e.(type) {
	case *ast.Ident:
		obj := le.info.Uses[x]
		if obj == nil {
			obj = le.info.Defs[x]
		}
		if f, ok := le.env[obj]; ok {
			return f
		}
		v, ok := obj.(*types.Var)
		if !ok {
			return linBad("identifier " + x.Name)
		}
		// local variable: its definition
		def := le.defOf(v, x.Pos())
		if def == nil {
			return linSym(x.Name)
		}
		return le.Eval(def)
	case *ast.SelectorExpr:
		return linSym(types.ExprString(x))
	case *ast.BinaryExpr:
		a, b := le.Eval(x.X), le.Eval(x.Y)
		switch x.Op {
		case token.ADD:
			return a.add(b, 1)
		case token.SUB:
			return a.add(b, -1)
		case token.MUL:
			if b.isConst() {
				return a.scale(b.k)
			}
			if a.isConst() {
				return b.scale(a.k)
			}
			return linBad("non-linear product")
		case token.QUO:
			if b.isConst() && b.k != 0 {
				return a.scale(1 / b.k)
			}
			return linBad("division by a non-constant")
		}
		return linBad("operator " + x.Op.String())
	case *ast.UnaryExpr:
		switch x.Op {
		case token.SUB:
			return le.Eval(x.X).scale(-1)
		case token.AND:
			// &X[i]
			if ix, ok := ast.Unparen(x.X).(*ast.IndexExpr); ok {
				base := linSym("ADDR(" + types.ExprString(ix.X) + ")")
				if s, ok := le.Sym["&"+types.ExprString(ix.X)+"[0]"]; ok {
					base = linSym(s)
				}
				idx := le.Eval(ix.Index)
				size := float64(1)
				if t := le.info.TypeOf(ix.X); t != nil {
					switch u := t.Underlying().(type) {
					case *types.Slice:
						size = float64(stdSizes.Sizeof(u.Elem()))
					case *types.Array:
						size = float64(stdSizes.Sizeof(u.Elem()))
					}
				}
				return base.add(idx.scale(size), 1)
			}
		}
		return linBad("unary " + x.Op.String())
	case *ast.CallExpr:
		// conversions are the identity on addresses and integers
		if tv, ok := le.info.Types[x.Fun]; ok && tv.IsType() && len(x.Args) == 1 {
			return le.Eval(x.Args[0])
		}
		if id, ok := ast.Unparen(x.Fun).(*ast.Ident); ok {
			if _, isB := le.info.Uses[id].(*types.Builtin); isB {
				if id.Name == "len" || id.Name == "cap" {
					return linSym(id.Name + "(" + types.ExprString(x.Args[0]) + ")")
				}
				return linBad("builtin " + id.Name)
			}
		}
		// unsafe.Add is a builtin: no *types.Func
		if sel, ok := ast.Unparen(x.Fun).(*ast.SelectorExpr); ok {
			if pid, ok := sel.X.(*ast.Ident); ok {
				if pn, ok := le.info.Uses[pid].(*types.PkgName); ok && pn.Imported().Path() == "unsafe" {
					if sel.Sel.Name == "Add" && len(x.Args) == 2 {
						return le.Eval(x.Args[0]).add(le.Eval(x.Args[1]), 1)
					}
					if sel.Sel.Name == "Pointer" && len(x.Args) == 1 {
						return le.Eval(x.Args[0])
					}
				}
			}
		}
		// unsafe.Pointer(p) / unsafe.Add
		fn := Callee(le.info, x)
		if fn == nil {
			return linBad("call " + types.ExprString(x.Fun))
		}
		if fn.Pkg() != nil && fn.Pkg().Path() == "unsafe" {
			if fn.Name() == "Pointer" && len(x.Args) == 1 {
				return le.Eval(x.Args[0])
			}
			if fn.Name() == "Add" && len(x.Args) == 2 {
				return le.Eval(x.Args[0]).add(le.Eval(x.Args[1]), 1)
			}
		}
		return le.inline(fn, x)
	case *ast.StarExpr:
		return linBad("dereference")
	}
	return linBad(fmt.Sprintf("%T", e))
}

func lastIdent(e ast.Expr) string {
	switch x := ast.Unparen(e).(type) {
	case *ast.Ident:
		return x.Name
	case *ast.SelectorExpr:
		return x.Sel.Name
	}
	return ""
}

// defOf returns the defining expression of a local variable: its single
// definition, or with AtPos set the last one before the use.
func (le *linEval) defOf(v *types.Var, use token.Pos) ast.Expr {
	var defs []struct {
		pos token.Pos
		e   ast.Expr
	}
	ast.Inspect(le.fd, func(n ast.Node) bool {
		switch as := n.(type) {
		case *ast.AssignStmt:
			if len(as.Lhs) != len(as.Rhs) {
				return true
			}
			for i, l := range as.Lhs {
				if id, ok := l.(*ast.Ident); ok && (le.info.Defs[id] == v || le.info.Uses[id] == v) {
					if as.Tok == token.DEFINE || as.Tok == token.ASSIGN {
						defs = append(defs, struct {
							pos token.Pos
							e   ast.Expr
						}{as.Pos(), as.Rhs[i]})
					}
				}
			}
		case *ast.ValueSpec:
			for i, n := range as.Names {
				if le.info.Defs[n] == v && i < len(as.Values) {
					defs = append(defs, struct {
						pos token.Pos
						e   ast.Expr
					}{as.Pos(), as.Values[i]})
				}
			}
		}
		return true
	})
	if len(defs) == 1 {
		return defs[0].e
	}
	var best ast.Expr
	for _, d := range defs {
		if d.pos < use {
			best = d.e
		}
	}
	return best
}

// inline evaluates a call to a function of the package whose body is a single
// return statement (the VM's pointer helpers), binding parameters to the
// linear forms of the arguments.
func (le *linEval) inline(fn *types.Func, call *ast.CallExpr) linForm {
	d := le.decls[fn.Origin()]
	if d == nil || len(d.Body.List) != 1 {
		return linBad("call to " + fn.Name() + " (not a one-line helper)")
	}
	ret, ok := d.Body.List[0].(*ast.ReturnStmt)
	if !ok || len(ret.Results) != 1 {
		return linBad("call to " + fn.Name())
	}
	saved := le.env
	savedFd := le.fd
	env := map[types.Object]linForm{}
	i := 0
	for _, f := range d.Type.Params.List {
		for _, n := range f.Names {
			if i < len(call.Args) {
				env[le.info.Defs[n]] = le.Eval(call.Args[i])
			}
			i++
		}
	}
	// receiver fields evaluate to symbols like vm.stack: keep names stable by
	// rendering selector expressions textually (receiver is named alike)
	le.env, le.fd = env, d
	out := le.Eval(ret.Results[0])
	le.env, le.fd = saved, savedFd
	return out
}
