package main

import (
	"go/ast"
	"go/types"
	"sort"
	"strings"
)

// cover/reset (C17, C23): Reset() re-synchronises an iterator with its
// collection, which may have changed since the iterator was created. Every
// field the constructor DERIVES from the collection (a cached length, the
// version stamp, a snapshot) must therefore be written again by Reset;
// otherwise the reset iterator walks the new collection with stale bounds and
// silently drops or repeats entries.

func init() {
	register(&Rule{
		ID:    "cover/reset",
		Text:  "for every type of the runtime (vm, value) with a Reset() method and a constructor New<Type> that builds it with a composite literal: each field the constructor initialises with an expression computed from the collection (anything other than a bare constructor parameter or a constant), and each field other methods of the type advance (the cursor), is assigned in Reset",
		Floor: 15,
		Run:   runResetCover,
	})
}

// resetCoverExempt: derived fields that cannot go stale.
var resetCoverExempt = map[string]string{
	"NativeHashRecordIterator.snapshot":    "a HashRecord is immutable (the class has no mutating method), the snapshot taken at creation stays its content",
	"NativeKeyHashRecordIterator.snapshot": "a HashRecord is immutable (the class has no mutating method), the snapshot taken at creation stays its content",
}

func runResetCover(c *Ctx) {
	for _, rel := range []string{"vm", "value"} {
		p := c.Pkg(rel)
		info := p.TypesInfo
		ctors := map[string]*FuncRef{}
		resets := map[string]*FuncRef{}
		// fields of package types that some statement assigns or increments
		modified := map[*types.Var]bool{}
		for _, f := range p.Syntax {
			ast.Inspect(f, func(n ast.Node) bool {
				mark := func(e ast.Expr) {
					if sel, ok := ast.Unparen(e).(*ast.SelectorExpr); ok {
						if s := info.Selections[sel]; s != nil && s.Kind() == types.FieldVal {
							if fv, ok := s.Obj().(*types.Var); ok {
								modified[fv.Origin()] = true
							}
						}
					}
				}
				switch x := n.(type) {
				case *ast.AssignStmt:
					for _, l := range x.Lhs {
						mark(l)
					}
				case *ast.IncDecStmt:
					mark(x.X)
				}
				return true
			})
		}
		c.Funcs(rel, func(fr *FuncRef) {
			if fr.Decl.Recv == nil && strings.HasPrefix(fr.Decl.Name.Name, "New") {
				ctors[strings.TrimPrefix(fr.Decl.Name.Name, "New")] = fr
			}
			if fr.Decl.Recv != nil && fr.Decl.Name.Name == "Reset" && fr.Decl.Type.Params.NumFields() == 0 {
				resets[recvTypeName(fr.Decl)] = fr
			}
		})
		var names []string
		for n := range resets {
			names = append(names, n)
		}
		sort.Strings(names)
		for _, tn := range names {
			rfr := resets[tn]
			ctor := ctors[tn]
			if ctor == nil || len(rfr.Decl.Recv.List[0].Names) == 0 {
				c.Stats["reset_types_without_matching_constructor"]++
				continue
			}
			// parameters of the constructor
			params := map[types.Object]bool{}
			for _, f := range ctor.Decl.Type.Params.List {
				for _, nm := range f.Names {
					params[info.Defs[nm]] = true
				}
			}
			// derived fields from the constructor's composite literal(s) of type T
			derived := map[string]string{}
			ast.Inspect(ctor.Decl.Body, func(n ast.Node) bool {
				cl, ok := n.(*ast.CompositeLit)
				if !ok {
					return true
				}
				if !strings.HasSuffix(NamedOf(info.TypeOf(cl)), "."+tn) {
					return true
				}
				for _, el := range cl.Elts {
					kv, ok := el.(*ast.KeyValueExpr)
					if !ok {
						continue
					}
					k, ok := kv.Key.(*ast.Ident)
					if !ok {
						continue
					}
					v := ast.Unparen(kv.Value)
					if id, ok := v.(*ast.Ident); ok && params[info.Uses[id]] {
						continue // the collection (or another argument) itself
					}
					if tv, ok := info.Types[v]; ok && tv.Value != nil {
						continue // a constant
					}
					if isNilIdent(info, v) {
						continue
					}
					// mentions a parameter: computed from the collection
					mentions := false
					ast.Inspect(v, func(m ast.Node) bool {
						if id, ok := m.(*ast.Ident); ok && params[info.Uses[id]] {
							mentions = true
						}
						return true
					})
					// copied from a field of the collection that nothing ever
					// modifies: cannot become stale
					if sel, ok := v.(*ast.SelectorExpr); ok {
						if s := info.Selections[sel]; s != nil && s.Kind() == types.FieldVal {
							if fv, ok := s.Obj().(*types.Var); ok && !modified[fv.Origin()] {
								c.Stats["reset_fields_copied_from_never_modified_source"]++
								continue
							}
						}
					}
					if mentions {
						derived[k.Name] = types.ExprString(v)
					}
				}
				return true
			})
			// fields a helper method of the same type assigns (captureSnapshot):
			// derived when the constructor calls the helper, written when Reset does
			helperWrites := func(body *ast.BlockStmt) map[string]bool {
				out := map[string]bool{}
				ast.Inspect(body, func(n ast.Node) bool {
					call, ok := n.(*ast.CallExpr)
					if !ok {
						return true
					}
					fn := Callee(info, call)
					if fn == nil || recvNameOf(fn) != tn {
						return true
					}
					var hd *ast.FuncDecl
					c.Funcs(rel, func(fr *FuncRef) {
						if fr.Obj == fn.Origin() {
							hd = fr.Decl
						}
					})
					if hd == nil || hd.Recv == nil || len(hd.Recv.List[0].Names) == 0 || hd.Name.Name == "Reset" {
						return true
					}
					hrecv := info.Defs[hd.Recv.List[0].Names[0]]
					ast.Inspect(hd.Body, func(m ast.Node) bool {
						if as, ok := m.(*ast.AssignStmt); ok {
							for _, l := range as.Lhs {
								if sel, ok := ast.Unparen(l).(*ast.SelectorExpr); ok {
									if id, ok := ast.Unparen(sel.X).(*ast.Ident); ok && info.Uses[id] == hrecv {
										out[sel.Sel.Name] = true
									}
								}
							}
						}
						return true
					})
					return true
				})
				return out
			}
			for f := range helperWrites(ctor.Decl.Body) {
				if _, ok := derived[f]; !ok {
					derived[f] = "computed by a helper the constructor calls"
				}
			}
			// fields Reset assigns
			recv := info.Defs[rfr.Decl.Recv.List[0].Names[0]]
			written := map[string]bool{}
			for f := range helperWrites(rfr.Decl.Body) {
				written[f] = true
			}
			ast.Inspect(rfr.Decl.Body, func(n ast.Node) bool {
				switch x := n.(type) {
				case *ast.AssignStmt:
					for _, l := range x.Lhs {
						// whole-object reset: *it = *NewT(...)
						if st, ok := ast.Unparen(l).(*ast.StarExpr); ok {
							if id, ok := ast.Unparen(st.X).(*ast.Ident); ok && info.Uses[id] == recv {
								for f := range derived {
									written[f] = true
								}
							}
						}
						if sel, ok := ast.Unparen(l).(*ast.SelectorExpr); ok {
							if id, ok := ast.Unparen(sel.X).(*ast.Ident); ok && info.Uses[id] == recv {
								written[sel.Sel.Name] = true
							}
						}
					}
				}
				return true
			})
			if len(derived) == 0 {
				c.OK(rel+"."+tn+"/no-derived-fields", rfr.Decl.Pos(), "the constructor derives no field from the collection")
				continue
			}
			var fs []string
			for f := range derived {
				fs = append(fs, f)
			}
			sort.Strings(fs)
			for _, f := range fs {
				if reason, ok := resetCoverExempt[tn+"."+f]; ok && !written[f] {
					c.OK(rel+"."+tn+"/"+f, rfr.Decl.Pos(), "reasoned exception: %s", reason)
					continue
				}
				c.Check(written[f], rel+"."+tn+"/"+f, rfr.Decl.Pos(), "New%s initialises %s from the collection (%s) but %s.Reset does not assign it: after the collection changed, a reset iterator keeps the value computed for the old contents", tn, f, derived[f], tn)
			}
		}
	}
}
