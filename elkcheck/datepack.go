package main

import (
	"fmt"
	"go/ast"
	"go/types"
	"strings"
)

// date/year-packing (C22): a Date packs its year into 23 bits
// (year + bias) << 9. MakeDate does not check the range, so any caller that
// passes a year it computed (from Go's time arithmetic, from a span added to a
// date) must check it against DateMinYear/DateMaxYear first; otherwise the
// year wraps: Date(4194303, 12, 31) + 1 day is the year -4194304.

func init() {
	register(&Rule{
		ID:    "date/year-packing",
		Text:  "every call of the unchecked date constructors (MakeDate, MakeDateNormalize) passes as year either a constant, the Year() of an existing Date (already in range), time.Now().Year(), or a value that a comparison with DateMaxYear/DateMinYear guards in the calling function; a constructor parameter passed straight through moves the obligation to that function's callers",
		Floor: 8,
		Run:   runDateYearPacking,
	})
}

func runDateYearPacking(c *Ctx) {
	for _, rel := range []string{"value", "vm"} {
		p := c.Pkg(rel)
		info := p.TypesInfo
		c.Funcs(rel, func(fr *FuncRef) {
			n := 0
			// forwarding wrappers: the year argument is this function's own parameter
			params := map[types.Object]bool{}
			if fr.Decl.Type.Params != nil {
				for _, f := range fr.Decl.Type.Params.List {
					for _, nm := range f.Names {
						params[info.Defs[nm]] = true
					}
				}
			}
			guarded := false
			ast.Inspect(fr.Decl.Body, func(m ast.Node) bool {
				if id, ok := m.(*ast.Ident); ok && (id.Name == "DateMaxYear" || id.Name == "DateMinYear") {
					guarded = true
				}
				if sel, ok := m.(*ast.SelectorExpr); ok && (sel.Sel.Name == "DateMaxYear" || sel.Sel.Name == "DateMinYear") {
					guarded = true
				}
				return true
			})
			ast.Inspect(fr.Decl.Body, func(nd ast.Node) bool {
				call, ok := nd.(*ast.CallExpr)
				if !ok || len(call.Args) != 3 {
					return true
				}
				fn := Callee(info, call)
				if fn == nil || (fn.Name() != "MakeDate" && fn.Name() != "MakeDateNormalize") || fn.Pkg() == nil || relPkg(fn.Pkg().Path()) != "value" {
					return true
				}
				n++
				key := fmt.Sprintf("%s.%s/%s#%d", rel, FuncName(fr.Decl), fn.Name(), n)
				y := ast.Unparen(call.Args[0])
				if tv, ok := info.Types[y]; ok && tv.Value != nil {
					c.OK(key, call.Pos(), "constant year")
					return true
				}
				txt := types.ExprString(y)
				if yc, ok := y.(*ast.CallExpr); ok {
					if yfn := Callee(info, yc); yfn != nil && yfn.Name() == "Year" {
						rn := recvNameOf(yfn)
						if rn == "Date" {
							c.OK(key, call.Pos(), "year of an existing Date")
							return true
						}
						// t.Year() with t := time.Now()
						if sel, ok := ast.Unparen(yc.Fun).(*ast.SelectorExpr); ok {
							if id, ok := ast.Unparen(sel.X).(*ast.Ident); ok {
								isNow := false
								ast.Inspect(fr.Decl.Body, func(m ast.Node) bool {
									if as, ok := m.(*ast.AssignStmt); ok && len(as.Lhs) == 1 && len(as.Rhs) == 1 {
										if lid, ok := as.Lhs[0].(*ast.Ident); ok && info.ObjectOf(lid) == info.Uses[id] && strings.HasSuffix(types.ExprString(as.Rhs[0]), "time.Now()") {
											isNow = true
										}
									}
									return true
								})
								if isNow {
									c.OK(key, call.Pos(), "the current year")
									return true
								}
							}
						}
					}
				}
				if id, ok := y.(*ast.Ident); ok && params[info.Uses[id]] {
					if guarded {
						c.OK(key, call.Pos(), "parameter checked against DateMinYear/DateMaxYear in this function")
					} else {
						c.OK(key, call.Pos(), "own parameter passed through: the callers of %s are obligated", FuncName(fr.Decl))
						c.Stats["date_constructor_forwarders"]++
					}
					return true
				}
				c.Check(guarded, key, call.Pos(), "%s.%s packs the computed year `%s` into a Date without comparing it with DateMinYear/DateMaxYear: a year outside -4194304...4194303 wraps around", rel, FuncName(fr.Decl), txt)
				return true
			})
		})
	}
}
