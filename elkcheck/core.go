package main

import (
	"encoding/json"
	"fmt"
	"go/ast"
	"go/token"
	"go/types"
	"os"
	"os/exec"
	"path/filepath"
	"sort"
	"strings"
	"time"

	"golang.org/x/tools/go/packages"
	"golang.org/x/tools/go/ssa"
	"golang.org/x/tools/go/ssa/ssautil"
)

const modPath = "github.com/elk-language/elk"

// Status of one obligation (DESIGN.md §2.1).
type Status string

const (
	Discharged Status = "discharged"
	Violated   Status = "violated"
	Undecided  Status = "undecided" // treated as violated
	Known      Status = "known"
)

// Obligation is one rule instance: a rule template with its slots filled
// from the repository. Key = Rule + "/" + Construct, never a line number.
type Obligation struct {
	Rule      string `json:"rule"`
	Construct string `json:"construct"`
	Status    Status `json:"status"`
	Pos       string `json:"pos,omitempty"`
	Detail    string `json:"detail,omitempty"`
	// Trivial: discharged because the unit contains no construct the rule is
	// about (a function without any call to itself, a native that applies no
	// accessor to the argument); counted, but not as a non-trivial case
	Trivial bool `json:"trivial,omitempty"`
}

func (o *Obligation) Key() string { return o.Rule + "/" + o.Construct }

// staleAnchor is panicked with when a name anchor does not resolve: exit 3,
// no VIOLATION line (a rename is not a property violation).
type staleAnchor struct{ rule, what string }

// Ctx is the analysis context of one run.
type Ctx struct {
	Repo  string
	Tier  string
	Prop  string
	Tags  string
	Fset  *token.FileSet
	Pkgs  []*packages.Package // packages of the elk module
	All   []*packages.Package // initial packages (same as Pkgs)
	ByRel map[string]*packages.Package

	prog    *ssa.Program
	ssaPkgs map[string]*ssa.Package

	curRule string
	Obls    []*Obligation
	Stats   map[string]int
	Notes   []string
}

func relPkg(path string) string {
	if path == modPath {
		return "."
	}
	return strings.TrimPrefix(path, modPath+"/")
}

// Load type-checks /repo's current working tree from source.
func Load(repo, tags string) (*Ctx, error) {
	// go/packages resolves `go` through this process's PATH
	if _, err := os.Stat("/opt/veriftools/go1.26.8/bin/go"); err == nil && !strings.HasPrefix(os.Getenv("PATH"), "/opt/veriftools/go1.26.8/bin") {
		os.Setenv("PATH", "/opt/veriftools/go1.26.8/bin:"+os.Getenv("PATH"))
	}
	env := []string{}
	for _, e := range os.Environ() {
		k := e[:strings.IndexByte(e, '=')+0]
		if i := strings.IndexByte(e, '='); i >= 0 {
			k = e[:i]
		}
		switch k {
		case "GOFLAGS", "GOWORK", "GOPROXY", "GOTOOLCHAIN", "GOSUMDB", "GOARCH", "GOOS":
			continue
		case "PATH":
			// go/packages shells out to `go`; /repo needs go >= 1.25
			if _, err := os.Stat("/opt/veriftools/go1.26.8/bin/go"); err == nil {
				e = "PATH=/opt/veriftools/go1.26.8/bin:" + e[len("PATH="):]
			}
		}
		env = append(env, e)
	}
	env = append(env, "GOFLAGS=-mod=readonly", "GOWORK=off", "GOPROXY=off", "GOTOOLCHAIN=local", "GOSUMDB=off")
	if a := os.Getenv("ELKCHECK_GOARCH"); a != "" {
		env = append(env, "GOARCH="+a)
	}
	cfg := &packages.Config{
		Mode:  packages.LoadAllSyntax,
		Dir:   repo,
		Env:   env,
		Tests: false,
	}
	if tags != "" {
		cfg.BuildFlags = []string{"-tags=" + tags}
	}
	pkgs, err := packages.Load(cfg, "./...")
	if err != nil {
		return nil, fmt.Errorf("load: %w", err)
	}
	if len(pkgs) < 30 {
		return nil, fmt.Errorf("load: only %d packages loaded from %s (expected >= 30)", len(pkgs), repo)
	}
	c := &Ctx{Repo: repo, Tags: tags, ByRel: map[string]*packages.Package{}, Stats: map[string]int{}}
	nerr := 0
	for _, p := range pkgs {
		for _, e := range p.Errors {
			fmt.Fprintf(os.Stderr, "load error: %s: %v\n", p.PkgPath, e)
			nerr++
		}
		if p.Fset != nil {
			c.Fset = p.Fset
		}
		c.ByRel[relPkg(p.PkgPath)] = p
	}
	if nerr > 0 {
		return nil, fmt.Errorf("load: %d type-check errors", nerr)
	}
	sort.Slice(pkgs, func(i, j int) bool { return pkgs[i].PkgPath < pkgs[j].PkgPath })
	c.Pkgs = pkgs
	c.All = pkgs
	c.Stats["packages"] = len(pkgs)
	return c, nil
}

// SSA builds (once) the SSA form of the whole program.
func (c *Ctx) SSA() *ssa.Program {
	if c.prog != nil {
		return c.prog
	}
	prog, spkgs := ssautil.AllPackages(c.All, ssa.InstantiateGenerics)
	prog.Build()
	c.prog = prog
	c.ssaPkgs = map[string]*ssa.Package{}
	for i, p := range c.All {
		if spkgs[i] != nil {
			c.ssaPkgs[relPkg(p.PkgPath)] = spkgs[i]
		}
	}
	return prog
}

func (c *Ctx) SSAPkg(rel string) *ssa.Package {
	c.SSA()
	p := c.ssaPkgs[rel]
	if p == nil {
		c.Stale("package " + rel + " (ssa)")
	}
	return p
}

// Pkg returns a package of the module by its module-relative path.
func (c *Ctx) Pkg(rel string) *packages.Package {
	p := c.ByRel[rel]
	if p == nil {
		c.Stale("package " + rel)
	}
	return p
}

func (c *Ctx) Stale(what string) {
	panic(staleAnchor{c.curRule, what})
}

// Pos renders a position relative to the repository root.
func (c *Ctx) Pos(p token.Pos) string {
	if !p.IsValid() {
		return ""
	}
	pp := c.Fset.Position(p)
	rel, err := filepath.Rel(c.Repo, pp.Filename)
	if err != nil {
		rel = pp.Filename
	}
	return fmt.Sprintf("%s:%d", rel, pp.Line)
}

func (c *Ctx) add(st Status, construct string, pos token.Pos, format string, args ...any) {
	c.Obls = append(c.Obls, &Obligation{Rule: c.curRule, Construct: construct, Status: st, Pos: c.Pos(pos), Detail: fmt.Sprintf(format, args...)})
}

func (c *Ctx) OK(construct string, pos token.Pos, format string, args ...any) {
	c.add(Discharged, construct, pos, format, args...)
}
// OKTrivial records a vacuous discharge (see Obligation.Trivial).
func (c *Ctx) OKTrivial(construct string, pos token.Pos, format string, args ...any) {
	c.add(Discharged, construct, pos, format, args...)
	c.Obls[len(c.Obls)-1].Trivial = true
}
func (c *Ctx) Bad(construct string, pos token.Pos, format string, args ...any) {
	c.add(Violated, construct, pos, format, args...)
}
func (c *Ctx) Unknown(construct string, pos token.Pos, format string, args ...any) {
	c.add(Undecided, construct, pos, format, args...)
}

// Check is sugar: discharged when ok, violated otherwise.
func (c *Ctx) Check(ok bool, construct string, pos token.Pos, format string, args ...any) {
	if ok {
		// the message describes the failure; a discharged obligation only
		// records that the rule holds at this site
		c.OK(construct, pos, "holds")
	} else {
		c.Bad(construct, pos, format, args...)
	}
}

// ---------------------------------------------------------------------------
// AST lookup helpers

type FuncRef struct {
	Pkg  *packages.Package
	Decl *ast.FuncDecl
	Obj  *types.Func
}

func recvTypeName(fd *ast.FuncDecl) string {
	if fd.Recv == nil || len(fd.Recv.List) == 0 {
		return ""
	}
	t := fd.Recv.List[0].Type
	for {
		switch x := t.(type) {
		case *ast.StarExpr:
			t = x.X
			continue
		case *ast.IndexExpr:
			t = x.X
			continue
		case *ast.IndexListExpr:
			t = x.X
			continue
		case *ast.ParenExpr:
			t = x.X
			continue
		case *ast.Ident:
			return x.Name
		}
		return ""
	}
}

// FuncOpt finds a function or method declaration; nil when absent.
func (c *Ctx) FuncOpt(pkgRel, recv, name string) *FuncRef {
	p := c.ByRel[pkgRel]
	if p == nil {
		return nil
	}
	for _, f := range p.Syntax {
		for _, d := range f.Decls {
			fd, ok := d.(*ast.FuncDecl)
			if !ok || fd.Name.Name != name || fd.Body == nil {
				continue
			}
			if recvTypeName(fd) != recv {
				continue
			}
			obj, _ := p.TypesInfo.Defs[fd.Name].(*types.Func)
			return &FuncRef{Pkg: p, Decl: fd, Obj: obj}
		}
	}
	return nil
}

// Func is FuncOpt with a stale-anchor failure when the function is missing.
func (c *Ctx) Func(pkgRel, recv, name string) *FuncRef {
	f := c.FuncOpt(pkgRel, recv, name)
	if f == nil {
		if recv != "" {
			c.Stale(fmt.Sprintf("func (%s.%s).%s", pkgRel, recv, name))
		}
		c.Stale(fmt.Sprintf("func %s.%s", pkgRel, name))
	}
	return f
}

// Funcs iterates over all function declarations of a package.
func (c *Ctx) Funcs(pkgRel string, fn func(fr *FuncRef)) {
	p := c.Pkg(pkgRel)
	for _, f := range p.Syntax {
		for _, d := range f.Decls {
			if fd, ok := d.(*ast.FuncDecl); ok && fd.Body != nil {
				obj, _ := p.TypesInfo.Defs[fd.Name].(*types.Func)
				fn(&FuncRef{Pkg: p, Decl: fd, Obj: obj})
			}
		}
	}
}

// FuncName renders recv.name for reports and keys.
func FuncName(fd *ast.FuncDecl) string {
	if r := recvTypeName(fd); r != "" {
		return r + "." + fd.Name.Name
	}
	return fd.Name.Name
}

// Callee resolves the called function of a call through type information.
func Callee(info *types.Info, call *ast.CallExpr) *types.Func {
	fun := ast.Unparen(call.Fun)
	switch f := fun.(type) {
	case *ast.IndexExpr:
		fun = f.X
	case *ast.IndexListExpr:
		fun = f.X
	}
	var obj types.Object
	switch f := fun.(type) {
	case *ast.Ident:
		obj = info.Uses[f]
	case *ast.SelectorExpr:
		if sel := info.Selections[f]; sel != nil {
			obj = sel.Obj()
		} else {
			obj = info.Uses[f.Sel]
		}
	}
	fn, _ := obj.(*types.Func)
	return fn
}

// FuncID renders a resolved function as pkgrel.Recv.Name / pkgrel.Name.
func FuncID(fn *types.Func) string {
	if fn == nil {
		return ""
	}
	pkg := ""
	if fn.Pkg() != nil {
		pkg = relPkg(fn.Pkg().Path())
	}
	sig, _ := fn.Type().(*types.Signature)
	if sig != nil && sig.Recv() != nil {
		t := sig.Recv().Type()
		if p, ok := t.(*types.Pointer); ok {
			t = p.Elem()
		}
		if n, ok := t.(*types.Named); ok {
			return pkg + "." + n.Obj().Name() + "." + fn.Name()
		}
		if a, ok := t.(*types.Alias); ok {
			return pkg + "." + a.Obj().Name() + "." + fn.Name()
		}
	}
	return pkg + "." + fn.Name()
}

// IsCall reports whether call resolves to one of the given FuncIDs.
func IsCall(info *types.Info, call *ast.CallExpr, ids ...string) bool {
	id := FuncID(Callee(info, call))
	for _, x := range ids {
		if x == id {
			return true
		}
	}
	return false
}

// ConstInt evaluates a constant integer expression.
func ConstInt(info *types.Info, e ast.Expr) (int64, bool) {
	tv, ok := info.Types[e]
	if !ok || tv.Value == nil {
		return 0, false
	}
	return constInt64(tv)
}

// NamedOf strips pointers and returns the named type's "pkgrel.Name".
func NamedOf(t types.Type) string {
	if t == nil {
		return ""
	}
	for {
		if p, ok := t.(*types.Pointer); ok {
			t = p.Elem()
			continue
		}
		break
	}
	t = types.Unalias(t)
	if n, ok := t.(*types.Named); ok {
		if n.Obj().Pkg() == nil {
			return n.Obj().Name()
		}
		return relPkg(n.Obj().Pkg().Path()) + "." + n.Obj().Name()
	}
	return t.String()
}

// ---------------------------------------------------------------------------
// known findings

type KnownFinding struct {
	Property string `json:"property"`
	Key      string `json:"key"`
	What     string `json:"what"`
	Demo     string `json:"demo,omitempty"`
}
type FixedFinding struct {
	Property string `json:"property"`
	Commit   string `json:"commit"`
	Key      string `json:"key,omitempty"`
	What     string `json:"what"`
}
type KnownFile struct {
	Open  []KnownFinding `json:"open"`
	Fixed []FixedFinding `json:"fixed"`
	// Undecided: genuine defects, reproduced by a demo, that no rule of the
	// property decides (value-level or needing an analysis out of reach). They
	// are reported with the property so that they are not forgotten; they
	// suppress nothing.
	Undecided []UndecidedFinding `json:"undecided"`
}

type UndecidedFinding struct {
	Property string `json:"property"`
	Demo     string `json:"demo"`
	What     string `json:"what"`
}

func loadKnown(path string) (*KnownFile, error) {
	b, err := os.ReadFile(path)
	if err != nil {
		return nil, err
	}
	var k KnownFile
	if err := json.Unmarshal(b, &k); err != nil {
		return nil, err
	}
	return &k, nil
}

// ---------------------------------------------------------------------------
// evidence

type RuleEvidence struct {
	ID          string `json:"id"`
	Text        string `json:"text"`
	Instances   int    `json:"instances"`
	Floor       int    `json:"floor"`
	Discharged  int    `json:"discharged"`
	Known       int    `json:"known"`
	Violated    int    `json:"violated"`
	BuildConfig string `json:"build_config"`
}

type Evidence struct {
	PropertyID  string         `json:"property_id"`
	Tier        string         `json:"tier"`
	Seed        int            `json:"seed"`
	Level       string         `json:"level"`
	Coverage    map[string]any `json:"coverage"`
	Assumptions []string       `json:"assumptions"`
	WallS       float64        `json:"wall_s"`
	Violations  int            `json:"violations"`
}

func gitStatus(repo string) string {
	out, err := exec.Command("git", "-C", repo, "status", "--porcelain").Output()
	if err != nil {
		return "ERR:" + err.Error()
	}
	return string(out)
}

func gitHead(repo string) string {
	out, err := exec.Command("git", "-C", repo, "rev-parse", "--short", "HEAD").Output()
	if err != nil {
		return ""
	}
	return strings.TrimSpace(string(out))
}

var startTime = time.Now()
