package main

import (
	"go/ast"
	"go/types"
	"sort"
	"strings"
)

// path/exactlyone (C15, C16): an async call becomes a promise that a worker
// executes. The body's value reaches the awaiting code only if every way the
// worker can leave the body settles the promise exactly once (resolve, reject,
// or - when the body awaits another promise - register as its continuation),
// and the promise's wait group, which synchronous waiters block on, is
// incremented once at creation and decremented once per settlement. Zero
// settlements hang every awaiter; two crash on the wait group or enqueue the
// continuations twice.

func init() {
	register(&Rule{
		ID:    "path/exactlyone",
		Text:  "every path through the worker functions that execute a promise performs exactly one settlement (Resolve, Reject, ResolveReject, or RegisterContinuation* on the awaited promise); every settlement method calls Done on the promise's wait group exactly once and enqueues the continuations exactly once on every path; every constructor that gives a promise a thread pool calls Add(1) exactly once",
		Floor: 8,
		Run:   runExactlyOne,
	})
}

type cntState struct{ n int8 }

func (c *Ctx) countOnPaths(fr *FuncRef, isEvent func(call *ast.CallExpr) bool) (min, max int) {
	info := fr.Pkg.TypesInfo
	pe := &PathEval[cntState]{Info: info}
	pe.Call = func(s cntState, call *ast.CallExpr) []cntState {
		if id, ok := ast.Unparen(call.Fun).(*ast.Ident); ok {
			if b, ok := info.Uses[id].(*types.Builtin); ok && b.Name() == "panic" {
				return nil
			}
		}
		if isEvent(call) && s.n < 3 {
			s.n++
		}
		return []cntState{s}
	}
	pe.Widen = func(s cntState) cntState { return cntState{3} }
	fl := pe.Block(newSet(cntState{}), fr.Decl.Body.List)
	min, max = 99, -1
	upd := func(s cntState) {
		if int(s.n) < min {
			min = int(s.n)
		}
		if int(s.n) > max {
			max = int(s.n)
		}
	}
	for s := range fl.next {
		upd(s)
	}
	for s := range fl.ret {
		upd(s)
	}
	return
}

func runExactlyOne(c *Ctx) {
	p := c.Pkg("vm")
	info := p.TypesInfo
	isSettle := func(call *ast.CallExpr) bool {
		fn := Callee(info, call)
		if fn == nil || recvNameOf(fn) != "Promise" {
			return false
		}
		switch fn.Name() {
		case "Resolve", "Reject", "ResolveReject", "RegisterContinuationUnsafe", "RegisterContinuation":
			return true
		}
		return false
	}
	// workers: package functions with a *Promise parameter that settle it
	var workers, settlers, ctors []*FuncRef
	c.Funcs("vm", func(fr *FuncRef) {
		sig := fr.Obj.Type().(*types.Signature)
		hasPromiseParam := false
		for i := 0; i < sig.Params().Len(); i++ {
			if NamedOf(sig.Params().At(i).Type()) == "vm.Promise" {
				hasPromiseParam = true
			}
		}
		settles := false
		ast.Inspect(fr.Decl.Body, func(n ast.Node) bool {
			if _, ok := n.(*ast.FuncLit); ok {
				return false
			}
			if call, ok := n.(*ast.CallExpr); ok && isSettle(call) {
				settles = true
			}
			return true
		})
		if fr.Decl.Recv == nil && hasPromiseParam && settles && strings.HasPrefix(fr.Decl.Name.Name, "execute") {
			workers = append(workers, fr)
		}
		if recvTypeName(fr.Decl) == "Promise" {
			switch fr.Decl.Name.Name {
			case "Resolve", "Reject", "ResolveReject":
				settlers = append(settlers, fr)
			}
		}
		if fr.Decl.Recv == nil && strings.HasPrefix(fr.Decl.Name.Name, "New") && sig.Results().Len() == 1 && NamedOf(sig.Results().At(0).Type()) == "vm.Promise" {
			ctors = append(ctors, fr)
		}
	})
	if len(workers) == 0 || len(settlers) == 0 || len(ctors) == 0 {
		c.Stale("vm: promise worker functions (execute*), settlement methods, constructors")
	}
	byName := func(a []*FuncRef) {
		sort.Slice(a, func(i, j int) bool { return FuncName(a[i].Decl) < FuncName(a[j].Decl) })
	}
	byName(workers)
	byName(settlers)
	byName(ctors)
	for _, fr := range workers {
		mn, mx := c.countOnPaths(fr, isSettle)
		c.Check(mn == 1 && mx == 1, FuncName(fr.Decl)+"/settles-once", fr.Decl.Pos(), "%s settles its promise between %d and %d times depending on the path (want exactly once): with zero every awaiter of the async call hangs, with two the wait group panics or continuations run twice", FuncName(fr.Decl), mn, mx)
	}
	wgCall := func(name string) func(call *ast.CallExpr) bool {
		return func(call *ast.CallExpr) bool {
			typ, n := syncMethod(Callee(info, call))
			return typ == "WaitGroup" && n == name
		}
	}
	isEnqueue := func(call *ast.CallExpr) bool {
		fn := Callee(info, call)
		return fn != nil && fn.Name() == "enqueueContinuations"
	}
	for _, fr := range settlers {
		mn, mx := c.countOnPaths(fr, wgCall("Done"))
		c.Check(mn == 1 && mx == 1, FuncName(fr.Decl)+"/done-once", fr.Decl.Pos(), "%s calls Done on the promise's wait group %d..%d times (want exactly once): synchronous waiters hang or the wait group panics", FuncName(fr.Decl), mn, mx)
		mn, mx = c.countOnPaths(fr, isEnqueue)
		c.Check(mn == 1 && mx == 1, FuncName(fr.Decl)+"/enqueue-once", fr.Decl.Pos(), "%s enqueues the continuations %d..%d times (want exactly once): awaiting tasks are never resumed, or resumed twice", FuncName(fr.Decl), mn, mx)
	}
	for _, fr := range ctors {
		// constructors that set ThreadPool (an unsettled promise)
		sets := false
		ast.Inspect(fr.Decl.Body, func(n ast.Node) bool {
			if kv, ok := n.(*ast.KeyValueExpr); ok {
				if id, ok := kv.Key.(*ast.Ident); ok && id.Name == "ThreadPool" {
					sets = true
				}
			}
			return true
		})
		mn, mx := c.countOnPaths(fr, wgCall("Add"))
		if sets {
			c.Check(mn == 1 && mx == 1, FuncName(fr.Decl)+"/add-once", fr.Decl.Pos(), "%s creates an unsettled promise but calls Add on its wait group %d..%d times (want exactly once)", FuncName(fr.Decl), mn, mx)
		} else {
			c.Check(mx == 0, FuncName(fr.Decl)+"/no-add", fr.Decl.Pos(), "%s creates an already settled promise but increments its wait group: synchronous waiters would block forever", FuncName(fr.Decl))
		}
	}
}
