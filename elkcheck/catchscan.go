package main

import (
	"go/ast"
	"go/token"
	"go/types"
)

// catch/table-scan-complete (C14): the catch table of a function is filled in
// the order in which the compiler finishes `do` expressions, not in the order
// of their start offsets: the entries of a block nested later in a body, and
// of the inline copy of a `finally` clause, are registered before the entries
// of the enclosing block. A lookup therefore has to examine every entry until
// one covers the instruction; leaving the scan at an entry that does not (an
// "entries further on start past the instruction" shortcut) skips the
// enclosing handler: a matching catch is not found, finally and defer bodies
// do not run.

func init() {
	register(&Rule{
		ID:    "catch/table-scan-complete",
		Text:  "in package vm, in every loop over the CatchEntries of a function, the loop is left (break, return) only with the entry of the current iteration selected (returned, or assigned to a variable of the enclosing function in the same block); unless the compiler's registerCatch keeps the table sorted",
		Floor: 2,
		Run:   runCatchScanComplete,
	})
}

func runCatchScanComplete(c *Ctx) {
	// does the compiler sort the table?
	sorted := false
	if fr := c.FuncOpt("compiler", "BytecodeCompiler", "registerCatch"); fr != nil {
		cinfo := fr.Pkg.TypesInfo
		ast.Inspect(fr.Decl.Body, func(n ast.Node) bool {
			if call, ok := n.(*ast.CallExpr); ok {
				if fn := Callee(cinfo, call); fn != nil && fn.Pkg() != nil && (fn.Pkg().Path() == "sort" || fn.Pkg().Path() == "slices") {
					sorted = true
				}
			}
			return true
		})
	} else {
		c.Stale("compiler.(*BytecodeCompiler).registerCatch")
		return
	}
	p := c.Pkg("vm")
	info := p.TypesInfo
	c.Funcs("vm", func(fr *FuncRef) {
		n := 0
		ast.Inspect(fr.Decl.Body, func(nd ast.Node) bool {
			rs, ok := nd.(*ast.RangeStmt)
			if !ok {
				return true
			}
			sel, ok := ast.Unparen(rs.X).(*ast.SelectorExpr)
			if !ok || sel.Sel.Name != "CatchEntries" {
				return true
			}
			var entry types.Object
			if id, ok := rs.Value.(*ast.Ident); ok {
				entry = info.Defs[id]
			}
			n++
			key := FuncName(fr.Decl) + "/scan#" + itoa(n)
			if entry == nil {
				c.Unknown(key, rs.Pos(), "the loop over CatchEntries does not bind the entry to a variable")
				return true
			}
			if sorted {
				c.OK(key, rs.Pos(), "registerCatch sorts the table; early exits are not examined")
				return true
			}
			var bad ast.Node
			var visit func(list []ast.Stmt, inSwitch bool)
			isEntry := func(e ast.Expr) bool {
				id, ok := ast.Unparen(e).(*ast.Ident)
				return ok && info.Uses[id] == entry
			}
			visit = func(list []ast.Stmt, inSwitch bool) {
				selected := false
				for _, st := range list {
					switch x := st.(type) {
					case *ast.AssignStmt:
						for i, r := range x.Rhs {
							if isEntry(r) && i < len(x.Lhs) {
								if id, ok := x.Lhs[i].(*ast.Ident); ok {
									if o := info.ObjectOf(id); o != nil && o.Pos() < rs.Pos() {
										selected = true
									}
								}
							}
						}
					case *ast.ReturnStmt:
						ok := false
						for _, r := range x.Results {
							if isEntry(r) {
								ok = true
							}
						}
						if !ok && !selected && bad == nil {
							bad = x
						}
					case *ast.BranchStmt:
						if x.Tok == token.BREAK && !inSwitch && !selected && bad == nil {
							bad = x
						}
						if x.Tok == token.GOTO && bad == nil {
							bad = x
						}
					case *ast.IfStmt:
						visit(x.Body.List, inSwitch)
						if blk, ok := x.Else.(*ast.BlockStmt); ok {
							visit(blk.List, inSwitch)
						} else if ei, ok := x.Else.(*ast.IfStmt); ok {
							visit([]ast.Stmt{ei}, inSwitch)
						}
					case *ast.BlockStmt:
						visit(x.List, inSwitch)
					case *ast.SwitchStmt:
						for _, cl := range x.Body.List {
							visit(cl.(*ast.CaseClause).Body, true)
						}
					}
				}
			}
			visit(rs.Body.List, false)
			c.Check(bad == nil, key, func() token.Pos {
				if bad != nil {
					return bad.Pos()
				}
				return rs.Pos()
			}(), "%s leaves the scan of the catch table here without having selected the current entry: the table is in the order in which the compiler finished `do` expressions, not in the order of their start offsets, so an entry that starts past the instruction can precede the enclosing block's entry; the enclosing catch is then not found and finally/defer bodies are skipped", FuncName(fr.Decl))
			return true
		})
	})
}
