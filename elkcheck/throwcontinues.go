package main

import (
	"go/ast"
	"go/types"
	"sort"
	"strings"
)

// path/throw-continues (C14, C15, C01): throwing inside the interpreter loop
// means: find the catch entry covering the current instruction, point the
// instruction pointer at its handler, push the stack trace and the error -
// and go on interpreting (when no handler exists the helper unwinds by
// panicking with stopVM and never comes back). An instruction that leaves the
// loop with `return` after such a call abandons the handler it has just
// jumped to: at the top level the program ends silently, in an async body the
// worker takes the error on the stack for the body's result and resolves the
// promise with it.

func init() {
	register(&Rule{
		ID:    "path/throw-continues",
		Text:  "in the interpreter loop (the Thread method switching over every opcode), no path through the clause of an instruction leaves the loop with `return` after a call from which the catch-handler jump of rethrow is reachable",
		Floor: 8,
		Run:   runThrowContinues,
	})
}

func runThrowContinues(c *Ctx) {
	p := c.Pkg("vm")
	info := p.TypesInfo
	byObj := map[*types.Func]*FuncRef{}
	c.Funcs("vm", func(fr *FuncRef) { byObj[fr.Obj] = fr })
	// the handler jump: a Thread method that sets the instruction pointer from a
	// catch entry's JumpAddress and is not one of the finally helpers (those
	// return a bool and jump for break/continue/return, not for errors)
	jumps := map[*types.Func]bool{}
	for fn, fr := range byObj {
		if recvTypeName(fr.Decl) != "Thread" {
			continue
		}
		sig := fn.Type().(*types.Signature)
		if sig.Results().Len() != 0 {
			continue
		}
		ast.Inspect(fr.Decl.Body, func(n ast.Node) bool {
			if call, ok := n.(*ast.CallExpr); ok && len(call.Args) == 1 {
				if cal := Callee(info, call); cal != nil && cal.Name() == "ipSetOffset" {
					if sel, ok := ast.Unparen(call.Args[0]).(*ast.SelectorExpr); ok && sel.Sel.Name == "JumpAddress" {
						jumps[fn] = true
					}
				}
			}
			return true
		})
	}
	if len(jumps) == 0 {
		c.Stale("vm: a Thread method without result that sets the instruction pointer to a catch entry's JumpAddress (rethrow)")
	}
	mayThrow := map[*types.Func]bool{}
	for fn := range jumps {
		mayThrow[fn] = true
	}
	for changed := true; changed; {
		changed = false
		for fn, fr := range byObj {
			if mayThrow[fn] {
				continue
			}
			ast.Inspect(fr.Decl.Body, func(n ast.Node) bool {
				if mayThrow[fn] {
					return false
				}
				if _, ok := n.(*ast.FuncLit); ok {
					return false
				}
				if call, ok := n.(*ast.CallExpr); ok {
					if cal := Callee(info, call); cal != nil && mayThrow[cal.Origin()] {
						mayThrow[fn] = true
						changed = true
					}
				}
				return true
			})
		}
	}
	c.Stats["vm_functions_reaching_the_handler_jump"] = len(mayThrow)

	// the interpreter loop
	var loopFn *FuncRef
	var sw *ast.SwitchStmt
	best := 0
	c.Funcs("vm", func(fr *FuncRef) {
		if recvTypeName(fr.Decl) != "Thread" {
			return
		}
		ast.Inspect(fr.Decl.Body, func(n ast.Node) bool {
			s, ok := n.(*ast.SwitchStmt)
			if !ok || s.Tag == nil || NamedOf(info.TypeOf(s.Tag)) != "bytecode.OpCode" {
				return true
			}
			if len(s.Body.List) > best {
				best, sw, loopFn = len(s.Body.List), s, fr
			}
			return true
		})
	})
	if sw == nil || best < 100 {
		c.Stale("vm: the Thread method with a switch over bytecode.OpCode of at least 100 clauses (the interpreter loop)")
	}
	// the loop function itself reaches the jump, of course; a recursive call of
	// it is not a throw
	delete(mayThrow, loopFn.Obj)
	type st struct{ thrown string }
	for _, cl := range sw.Body.List {
		cc := cl.(*ast.CaseClause)
		var names []string
		for _, e := range cc.List {
			if k := constName(info, e); k != "" {
				names = append(names, k)
			} else {
				names = append(names, types.ExprString(e))
			}
		}
		sort.Strings(names)
		label := strings.Join(names, ",")
		if cc.List == nil {
			label = "default"
		}
		hasReturn := false
		for _, s := range cc.Body {
			ast.Inspect(s, func(n ast.Node) bool {
				if _, ok := n.(*ast.FuncLit); ok {
					return false
				}
				if _, ok := n.(*ast.ReturnStmt); ok {
					hasReturn = true
				}
				if call, ok := n.(*ast.CallExpr); ok {
					if cal := Callee(info, call); cal != nil && jumps[cal.Origin()] {
						// clauses that throw directly are listed even without a return
						hasReturn = true
					}
				}
				return true
			})
		}
		if !hasReturn {
			continue
		}
		var bad *ast.ReturnStmt
		badAfter := ""
		pe := &PathEval[st]{Info: info}
		pe.Call = func(s st, call *ast.CallExpr) []st {
			if cal := Callee(info, call); cal != nil && mayThrow[cal.Origin()] && s.thrown == "" {
				s.thrown = cal.Name()
			}
			return []st{s}
		}
		pe.Return = func(s st, r *ast.ReturnStmt) []st {
			if s.thrown != "" && bad == nil {
				bad, badAfter = r, s.thrown
			}
			return []st{s}
		}
		pe.Block(newSet(st{}), cc.Body)
		key := FuncName(loopFn.Decl) + "/case " + label
		if bad != nil {
			c.Bad(key, bad.Pos(), "the clause of %s leaves the interpreter loop with `return` after calling %s, which may just have pointed the instruction pointer at a catch handler: the handler is never run, and whoever called the loop takes the error left on the stack for a result", label, badAfter)
		} else {
			c.OK(key, cc.Pos(), "no return after a call that can jump to a catch handler")
		}
	}
}
