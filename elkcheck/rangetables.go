package main

import (
	"go/ast"
	"go/constant"
	"go/token"
	"go/types"
	"sort"
	"strings"
)

// range/literal-and-loop-tables (C23): "which range kind does this literal
// denote" and "which elements does a loop over it visit" are decided in
// several independent places:
//
//   - the checker gives a range literal its class from the operator token and
//     the presence of the bounds,
//   - the constant folder (compiler/resolve.go) builds the value for a
//     literal with constant bounds,
//   - the bytecode compiler emits NEW_RANGE with a flag that the VM maps to
//     a constructor,
//   - `for x in a..b` over a literal is lowered to a counting loop with a
//     comparison against the upper bound and, for kinds that exclude the
//     lower bound, a start at `a.++`,
//   - `for x in r` over a variable of a range type is lowered the same way,
//     from the static range class.
//
// The reference for the meaning of a kind is its containment function in the
// VM (strict or non-strict comparison with Start / End). Every table is
// evaluated for every operator token x {both bounds, no start, no end}, resp.
// for every range class, by partially evaluating the function under that
// assumption; the answers must agree.

func init() {
	register(&Rule{
		ID:    "range/literal-and-loop-tables",
		Text:  "for each range operator token and each combination of present bounds, the class the checker assigns, the value the constant folder builds and the constructor the VM runs for the flag the compiler emits are the same kind; for each kind, the counting loop a `for in` is lowered to (over a literal, and over a variable of that range class) starts after the lower bound exactly when the kind's containment test compares strictly with Start, and tests the loop variable against the upper bound with `<=` exactly when the containment test compares non-strictly with End (`<` when strictly, no test when the kind has no End)",
		Floor: 25,
		Run:   runRangeTables,
	})
}

// ---- a small partial evaluator over one function body ----

type rangeEnv struct {
	tok               string // operator token name, "" = unknown
	haveBounds        bool
	startNil, endNil  bool
	kind              string // static range class, "" = unknown
	vars              map[types.Object]constant.Value
	info              *types.Info
	isKindRef         func(e ast.Expr) string // name of a range class referenced by e ("" if none)
	payload           func(n ast.Node) bool   // does the subtree contain something the client records?
	onStmt            func(st ast.Stmt)
	ambiguous         []ast.Node
	returnedFalse     bool
	returnedFalsePos  token.Pos
	returnedFalseSeen bool
}

type tri int

const (
	triUnknown tri = iota
	triTrue
	triFalse
)

func triOf(b bool) tri {
	if b {
		return triTrue
	}
	return triFalse
}

func (e *rangeEnv) cond(x ast.Expr) tri {
	x = ast.Unparen(x)
	switch v := x.(type) {
	case *ast.UnaryExpr:
		if v.Op == token.NOT {
			switch e.cond(v.X) {
			case triTrue:
				return triFalse
			case triFalse:
				return triTrue
			}
			return triUnknown
		}
	case *ast.BinaryExpr:
		switch v.Op {
		case token.LAND:
			a, b := e.cond(v.X), e.cond(v.Y)
			if a == triFalse || b == triFalse {
				return triFalse
			}
			if a == triTrue && b == triTrue {
				return triTrue
			}
			return triUnknown
		case token.LOR:
			a, b := e.cond(v.X), e.cond(v.Y)
			if a == triTrue || b == triTrue {
				return triTrue
			}
			if a == triFalse && b == triFalse {
				return triFalse
			}
			return triUnknown
		case token.EQL, token.NEQ:
			r := e.equal(v.X, v.Y)
			if r == triUnknown {
				return r
			}
			if v.Op == token.NEQ {
				if r == triTrue {
					return triFalse
				}
				return triTrue
			}
			return r
		}
	case *ast.Ident:
		if val, ok := e.vars[e.info.Uses[v]]; ok && val != nil && val.Kind() == constant.Bool {
			return triOf(constant.BoolVal(val))
		}
		return triUnknown
	case *ast.CallExpr:
		// a test mentioning exactly one range class is a test for that class
		if e.kind != "" {
			names := map[string]bool{}
			ast.Inspect(v, func(n ast.Node) bool {
				if ex, ok := n.(ast.Expr); ok {
					if k := e.isKindRef(ex); k != "" {
						names[k] = true
					}
				}
				return true
			})
			if len(names) == 1 {
				for k := range names {
					return triOf(k == e.kind)
				}
			}
		}
	}
	return triUnknown
}

func (e *rangeEnv) valueOf(x ast.Expr) constant.Value {
	x = ast.Unparen(x)
	if tv, ok := e.info.Types[x]; ok && tv.Value != nil {
		return tv.Value
	}
	if id, ok := x.(*ast.Ident); ok {
		if v, ok := e.vars[e.info.Uses[id]]; ok {
			return v
		}
	}
	return nil
}

func (e *rangeEnv) equal(a, b ast.Expr) tri {
	a, b = ast.Unparen(a), ast.Unparen(b)
	isNil := func(x ast.Expr) bool {
		id, ok := x.(*ast.Ident)
		if !ok {
			return false
		}
		_, isNilObj := e.info.Uses[id].(*types.Nil)
		return isNilObj
	}
	if isNil(a) {
		a, b = b, a
	}
	if isNil(b) {
		if sel, ok := a.(*ast.SelectorExpr); ok && e.haveBounds {
			switch sel.Sel.Name {
			case "Start":
				return triOf(e.startNil)
			case "End":
				return triOf(e.endNil)
			}
		}
		return triUnknown
	}
	// operator token tests: x.Op.Type == token.T
	tokName := func(x ast.Expr) string {
		sel, ok := x.(*ast.SelectorExpr)
		if !ok {
			return ""
		}
		if k, ok := e.info.Uses[sel.Sel].(*types.Const); ok && k.Pkg() != nil && relPkg(k.Pkg().Path()) == "token" {
			return k.Name()
		}
		return ""
	}
	isOpType := func(x ast.Expr) bool {
		return strings.HasSuffix(types.ExprString(x), ".Op.Type")
	}
	if isOpType(b) {
		a, b = b, a
	}
	if isOpType(a) {
		if t := tokName(b); t != "" && e.tok != "" {
			return triOf(t == e.tok)
		}
		return triUnknown
	}
	va, vb := e.valueOf(a), e.valueOf(b)
	if va != nil && vb != nil && va.Kind() == vb.Kind() {
		return triOf(constant.Compare(va, token.EQL, vb))
	}
	return triUnknown
}

// block evaluates a statement list; it reports whether control left the
// function (return) on the path taken.
func (e *rangeEnv) block(stmts []ast.Stmt) bool {
	for _, st := range stmts {
		if e.stmt(st) {
			return true
		}
	}
	return false
}

func (e *rangeEnv) stmt(st ast.Stmt) bool {
	switch x := st.(type) {
	case *ast.BlockStmt:
		return e.block(x.List)
	case *ast.IfStmt:
		if x.Init != nil {
			e.stmt(x.Init)
		}
		switch e.cond(x.Cond) {
		case triTrue:
			return e.block(x.Body.List)
		case triFalse:
			if x.Else != nil {
				return e.stmt(x.Else)
			}
			return false
		}
		if e.payload(x.Body) || (x.Else != nil && e.payload(x.Else)) {
			e.ambiguous = append(e.ambiguous, x)
		}
		return false
	case *ast.SwitchStmt:
		if x.Init != nil {
			e.stmt(x.Init)
		}
		var deflt *ast.CaseClause
		for _, cl := range x.Body.List {
			cc := cl.(*ast.CaseClause)
			if cc.List == nil {
				deflt = cc
				continue
			}
			allFalse := true
			for _, ce := range cc.List {
				var r tri
				if x.Tag == nil {
					r = e.cond(ce)
				} else {
					r = e.equal(x.Tag, ce)
				}
				if r == triTrue {
					return e.block(cc.Body)
				}
				if r == triUnknown {
					allFalse = false
				}
			}
			if !allFalse {
				if e.payload(cc) {
					e.ambiguous = append(e.ambiguous, cc)
				}
			}
		}
		if deflt != nil {
			return e.block(deflt.Body)
		}
		return false
	case *ast.DeclStmt:
		if gd, ok := x.Decl.(*ast.GenDecl); ok {
			for _, sp := range gd.Specs {
				vs, ok := sp.(*ast.ValueSpec)
				if !ok {
					continue
				}
				for i, n := range vs.Names {
					o := e.info.Defs[n]
					if o == nil {
						continue
					}
					if i < len(vs.Values) {
						if v := e.valueOf(vs.Values[i]); v != nil {
							e.vars[o] = v
						}
						continue
					}
					switch b := o.Type().Underlying().(type) {
					case *types.Basic:
						switch {
						case b.Info()&types.IsBoolean != 0:
							e.vars[o] = constant.MakeBool(false)
						case b.Info()&types.IsInteger != 0:
							e.vars[o] = constant.MakeInt64(0)
						}
					}
				}
			}
		}
		e.onStmt(st)
		return false
	case *ast.AssignStmt:
		if len(x.Lhs) == len(x.Rhs) {
			for i, l := range x.Lhs {
				id, ok := l.(*ast.Ident)
				if !ok {
					continue
				}
				o := e.info.Defs[id]
				if o == nil {
					o = e.info.Uses[id]
				}
				if o == nil {
					continue
				}
				if v := e.valueOf(x.Rhs[i]); v != nil {
					e.vars[o] = v
				} else {
					delete(e.vars, o)
				}
			}
		}
		e.onStmt(st)
		return false
	case *ast.ReturnStmt:
		if len(x.Results) == 1 {
			if v := e.valueOf(x.Results[0]); v != nil && v.Kind() == constant.Bool && !constant.BoolVal(v) {
				e.returnedFalse = true
			}
		}
		e.onStmt(st)
		return true
	case *ast.ExprStmt:
		e.onStmt(st)
		return false
	case *ast.ForStmt, *ast.RangeStmt, *ast.TypeSwitchStmt, *ast.SelectStmt:
		if e.payload(st) {
			e.ambiguous = append(e.ambiguous, st)
		}
		return false
	}
	return false
}

// ---- the rule ----

func runRangeTables(c *Ctx) {
	toks := []string{"CLOSED_RANGE_OP", "OPEN_RANGE_OP", "LEFT_OPEN_RANGE_OP", "RIGHT_OPEN_RANGE_OP"}
	type bounds struct {
		name             string
		startNil, endNil bool
	}
	bnds := []bounds{{"both", false, false}, {"beginless", true, false}, {"endless", false, true}}

	// reference: containment functions of the VM
	type ref struct{ startCmp, endCmp string }
	refs := map[string]ref{}
	{
		p := c.Pkg("vm")
		info := p.TypesInfo
		c.Funcs("vm", func(fr *FuncRef) {
			name := fr.Decl.Name.Name
			if fr.Decl.Recv != nil || !strings.HasSuffix(name, "RangeContains") {
				return
			}
			r := ref{}
			ast.Inspect(fr.Decl.Body, func(n ast.Node) bool {
				call, ok := n.(*ast.CallExpr)
				if !ok || len(call.Args) != 3 {
					return true
				}
				fn := Callee(info, call)
				if fn == nil {
					return true
				}
				switch fn.Name() {
				case "GreaterThan", "GreaterThanEqual", "LessThan", "LessThanEqual":
				default:
					return true
				}
				arg := types.ExprString(ast.Unparen(call.Args[2]))
				switch {
				case strings.HasSuffix(arg, ".Start"):
					r.startCmp = fn.Name()
				case strings.HasSuffix(arg, ".End"):
					r.endCmp = fn.Name()
				}
				return true
			})
			refs[strings.TrimSuffix(name, "Contains")] = r
		})
	}
	if len(refs) < 8 {
		c.Stale("vm: the eight *RangeContains functions")
	}

	kindOfSymbol := func(info *types.Info) func(ast.Expr) string {
		return func(e ast.Expr) string {
			sel, ok := ast.Unparen(e).(*ast.SelectorExpr)
			if !ok {
				return ""
			}
			v, ok := info.Uses[sel.Sel].(*types.Var)
			if !ok || v.Pkg() == nil || relPkg(v.Pkg().Path()) != "value/symbol" || !strings.HasSuffix(v.Name(), "Range") {
				return ""
			}
			if _, known := refs[v.Name()]; !known {
				return ""
			}
			return v.Name()
		}
	}
	// constructor calls value.NewXRange(...) -> "XRange" (by result type)
	kindOfCtor := func(info *types.Info, n ast.Node) string {
		out := ""
		ast.Inspect(n, func(m ast.Node) bool {
			call, ok := m.(*ast.CallExpr)
			if !ok {
				return true
			}
			fn := Callee(info, call)
			if fn == nil || fn.Pkg() == nil || relPkg(fn.Pkg().Path()) != "value" || !strings.HasPrefix(fn.Name(), "New") {
				return true
			}
			sig := fn.Type().(*types.Signature)
			if sig.Results().Len() != 1 {
				return true
			}
			name := strings.TrimPrefix(NamedOf(sig.Results().At(0).Type()), "value.")
			if _, known := refs[name]; known {
				out = name
			}
			return true
		})
		return out
	}
	newEnv := func(info *types.Info) *rangeEnv {
		return &rangeEnv{info: info, vars: map[types.Object]constant.Value{}, isKindRef: kindOfSymbol(info)}
	}
	mentionsRangeToken := func(info *types.Info, body ast.Node) bool {
		found := false
		ast.Inspect(body, func(n ast.Node) bool {
			if sel, ok := n.(*ast.SelectorExpr); ok {
				if k, ok := info.Uses[sel.Sel].(*types.Const); ok && k.Name() == "LEFT_OPEN_RANGE_OP" {
					found = true
				}
			}
			return true
		})
		return found
	}

	// T1: checker - token x bounds -> class symbol
	t1 := map[string]string{}
	{
		p := c.Pkg("types/checker")
		info := p.TypesInfo
		var fn *FuncRef
		c.Funcs("types/checker", func(fr *FuncRef) {
			if fn != nil || !mentionsRangeToken(info, fr.Decl.Body) {
				return
			}
			n := 0
			ast.Inspect(fr.Decl.Body, func(m ast.Node) bool {
				if as, ok := m.(*ast.AssignStmt); ok && len(as.Rhs) == 1 && kindOfSymbol(info)(as.Rhs[0]) != "" {
					n++
				}
				return true
			})
			if n >= 8 {
				fn = fr
			}
		})
		if fn == nil {
			c.Stale("types/checker: the function assigning a range class symbol per range operator token")
		}
		for _, t := range toks {
			for _, b := range bnds {
				e := newEnv(info)
				e.tok, e.haveBounds, e.startNil, e.endNil = t, true, b.startNil, b.endNil
				got := ""
				e.payload = func(n ast.Node) bool {
					f := false
					ast.Inspect(n, func(m ast.Node) bool {
						if as, ok := m.(*ast.AssignStmt); ok && len(as.Rhs) == 1 && kindOfSymbol(info)(as.Rhs[0]) != "" {
							f = true
						}
						return true
					})
					return f
				}
				e.onStmt = func(st ast.Stmt) {
					if as, ok := st.(*ast.AssignStmt); ok && len(as.Rhs) == 1 {
						if k := kindOfSymbol(info)(as.Rhs[0]); k != "" {
							got = k
						}
					}
				}
				e.block(fn.Decl.Body.List)
				if len(e.ambiguous) > 0 {
					got = "?"
				}
				t1[t+"/"+b.name] = got
			}
		}
	}

	// T2: constant folder - token x bounds -> constructor
	t2 := map[string]string{}
	// T3: compiler flag and VM constructor
	t3 := map[string]string{}
	var t2pos, t3pos token.Pos
	{
		p := c.Pkg("compiler")
		info := p.TypesInfo
		// VM: flag -> constructor
		vmInfo := c.Pkg("vm").TypesInfo
		flagCtor := map[string]string{}
		c.Funcs("vm", func(fr *FuncRef) {
			ast.Inspect(fr.Decl.Body, func(n ast.Node) bool {
				cc, ok := n.(*ast.CaseClause)
				if !ok {
					return true
				}
				for _, ce := range cc.List {
					name := constName(vmInfo, ce)
					if strings.HasSuffix(name, "_RANGE_FLAG") {
						for _, s := range cc.Body {
							if k := kindOfCtor(vmInfo, s); k != "" {
								flagCtor[name] = k
							}
						}
					}
				}
				return true
			})
		})
		if len(flagCtor) < 8 {
			c.Stale("vm: the switch mapping the eight *_RANGE_FLAG operands of NEW_RANGE to constructors")
		}
		flagOf := func(n ast.Node) string {
			out := ""
			ast.Inspect(n, func(m ast.Node) bool {
				if ex, ok := m.(ast.Expr); ok {
					if name := constName(info, ex); strings.HasSuffix(name, "_RANGE_FLAG") {
						out = name
					}
				}
				return true
			})
			return out
		}
		var folder, emitter *FuncRef
		c.Funcs("compiler", func(fr *FuncRef) {
			if !mentionsRangeToken(info, fr.Decl.Body) {
				return
			}
			if fr.Decl.Recv == nil && kindOfCtor(info, fr.Decl.Body) != "" && folder == nil {
				folder = fr
			}
			if recvTypeName(fr.Decl) == "BytecodeCompiler" && flagOf(fr.Decl.Body) != "" && emitter == nil {
				emitter = fr
			}
		})
		if folder == nil {
			c.Stale("compiler: the constant folder of range literals (a function building value.New*Range per operator token)")
		}
		if emitter == nil {
			c.Stale("compiler: the BytecodeCompiler method emitting NEW_RANGE flags per operator token")
		}
		t2pos, t3pos = folder.Decl.Pos(), emitter.Decl.Pos()
		for _, t := range toks {
			for _, b := range bnds {
				// folder
				e := newEnv(info)
				e.tok, e.haveBounds, e.startNil, e.endNil = t, true, b.startNil, b.endNil
				got := ""
				e.payload = func(n ast.Node) bool { return kindOfCtor(info, n) != "" }
				e.onStmt = func(st ast.Stmt) {
					if k := kindOfCtor(info, st); k != "" && got == "" {
						got = k
					}
				}
				e.block(folder.Decl.Body.List)
				if len(e.ambiguous) > 0 {
					got = "?"
				}
				t2[t+"/"+b.name] = got
				// emitter
				e = newEnv(info)
				e.tok, e.haveBounds, e.startNil, e.endNil = t, true, b.startNil, b.endNil
				flag := ""
				e.payload = func(n ast.Node) bool { return flagOf(n) != "" }
				e.onStmt = func(st ast.Stmt) {
					if f := flagOf(st); f != "" && flag == "" {
						flag = f
					}
				}
				e.block(emitter.Decl.Body.List)
				if len(e.ambiguous) > 0 {
					t3[t+"/"+b.name] = "?"
				} else {
					t3[t+"/"+b.name] = flagCtor[flag]
				}
			}
		}
	}
	for _, t := range toks {
		for _, b := range bnds {
			k := t + "/" + b.name
			ok := t1[k] != "" && t1[k] != "?" && t1[k] == t2[k] && t2[k] == t3[k]
			pos := t2pos
			if t1[k] == t2[k] {
				pos = t3pos
			}
			c.Check(ok, "literal-kind/"+k, pos, "a range literal with operator %s (%s bounds present) is a %q for the type checker, a %q for the constant folder and a %q for the compiled NEW_RANGE instruction: the same literal is a different kind of range depending on whether its bounds are constants, and `contains` / iteration / the static type disagree", t, b.name, t1[k], t2[k], t3[k])
		}
	}

	// expected loop shape of a kind
	type shape struct {
		lowered bool
		skip    bool
		cmp     string // "", "LESS", "LESS_EQUAL"
		ambig   bool
	}
	want := func(kind string) shape {
		r := refs[kind]
		s := shape{lowered: true, skip: r.startCmp == "GreaterThan"}
		switch r.endCmp {
		case "LessThan":
			s.cmp = "LESS"
		case "LessThanEqual":
			s.cmp = "LESS_EQUAL"
		}
		return s
	}
	{
		p := c.Pkg("compiler")
		info := p.TypesInfo
		cmpConst := func(e ast.Expr) string {
			if name := constName(info, e); name == "LESS" || name == "LESS_EQUAL" {
				if sel, ok := ast.Unparen(e).(*ast.SelectorExpr); ok {
					if k, ok := info.Uses[sel.Sel].(*types.Const); ok && k.Pkg() != nil && relPkg(k.Pkg().Path()) == "token" {
						return name
					}
				}
			}
			return ""
		}
		hasIncrement := func(n ast.Node) bool {
			f := false
			ast.Inspect(n, func(m ast.Node) bool {
				if bl, ok := m.(*ast.BasicLit); ok && bl.Kind == token.STRING && bl.Value == `"++"` {
					f = true
				}
				return true
			})
			return f
		}
		buildsCond := func(n ast.Node) bool {
			f := false
			ast.Inspect(n, func(m ast.Node) bool {
				if call, ok := m.(*ast.CallExpr); ok {
					if fn := Callee(info, call); fn != nil && fn.Name() == "NewBinaryExpressionNode" {
						f = true
					}
				}
				return true
			})
			return f
		}
		assignsCmp := func(n ast.Node) bool {
			f := false
			ast.Inspect(n, func(m ast.Node) bool {
				if as, ok := m.(*ast.AssignStmt); ok {
					for _, r := range as.Rhs {
						if cmpConst(r) != "" {
							f = true
						}
					}
				}
				return true
			})
			return f
		}
		evalLoop := func(fr *FuncRef, e *rangeEnv) shape {
			var cmpVar types.Object
			s := shape{}
			e.payload = func(n ast.Node) bool { return assignsCmp(n) || hasIncrement(n) || buildsCond(n) }
			condBuilt := false
			e.onStmt = func(st ast.Stmt) {
				if as, ok := st.(*ast.AssignStmt); ok {
					for i, r := range as.Rhs {
						if k := cmpConst(r); k != "" && i < len(as.Lhs) {
							if id, ok := as.Lhs[i].(*ast.Ident); ok {
								o := info.Defs[id]
								if o == nil {
									o = info.Uses[id]
								}
								cmpVar = o
								s.cmp = k
							}
						}
					}
					if hasIncrement(as) {
						// `x = ...("++")...` : the loop variable starts after the lower bound
						s.skip = true
					}
				}
				if buildsCond(st) {
					condBuilt = true
				}
			}
			left := e.block(fr.Decl.Body.List)
			_ = cmpVar
			s.lowered = !(left && e.returnedFalse)
			if !condBuilt {
				s.cmp = ""
			}
			s.ambig = len(e.ambiguous) > 0
			return s
		}
		describe := func(s shape) string {
			if s.ambig {
				return "not decidable"
			}
			if !s.lowered {
				return "not lowered (iterator)"
			}
			d := "start at the lower bound"
			if s.skip {
				d = "start after the lower bound"
			}
			switch s.cmp {
			case "LESS":
				d += ", loop while x < end"
			case "LESS_EQUAL":
				d += ", loop while x <= end"
			default:
				d += ", no upper test"
			}
			return d
		}
		// T5: literal lowering
		var lit, vr *FuncRef
		c.Funcs("compiler", func(fr *FuncRef) {
			if recvTypeName(fr.Decl) != "BytecodeCompiler" || !assignsCmp(fr.Decl.Body) || !hasIncrement(fr.Decl.Body) {
				return
			}
			if mentionsRangeToken(info, fr.Decl.Body) && lit == nil {
				lit = fr
			}
			nk := 0
			ast.Inspect(fr.Decl.Body, func(m ast.Node) bool {
				if ex, ok := m.(ast.Expr); ok && kindOfSymbol(info)(ex) != "" {
					nk++
				}
				return true
			})
			if nk >= 6 && vr == nil {
				vr = fr
			}
		})
		if lit == nil {
			c.Stale("compiler: the BytecodeCompiler method lowering `for in` over a range literal to a counting loop")
		}
		if vr == nil {
			c.Stale("compiler: the BytecodeCompiler method lowering `for in` over a value of a range class to a counting loop")
		}
		for _, t := range toks {
			for _, b := range bnds {
				kind := t1[t+"/"+b.name]
				if _, known := refs[kind]; !known {
					continue
				}
				e := newEnv(info)
				e.tok, e.haveBounds, e.startNil, e.endNil = t, true, b.startNil, b.endNil
				got := evalLoop(lit, e)
				w := want(kind)
				key := "forin-literal/" + t + "/" + b.name
				if !got.lowered && !got.ambig {
					c.OK(key, lit.Decl.Pos(), "not lowered: the loop uses the range's iterator")
					continue
				}
				if b.startNil {
					c.Bad(key, lit.Decl.Pos(), "a `for in` over a literal without a lower bound (%s) is lowered to a counting loop although there is no element to start from", kind)
					continue
				}
				c.Check(!got.ambig && got.skip == w.skip && got.cmp == w.cmp, key, lit.Decl.Pos(), "`for x in a %s b` (%s bounds present) is a %s; its containment test says: %s. The counting loop the literal is lowered to does: %s. The loop visits a different set of elements than `contains` admits and than iterating the same range held in a variable yields", t, b.name, kind, describe(w), describe(got))
			}
		}
		// T6: variable lowering
		var kinds []string
		for k := range refs {
			kinds = append(kinds, k)
		}
		sort.Strings(kinds)
		for _, k := range kinds {
			e := newEnv(info)
			e.kind = k
			got := evalLoop(vr, e)
			w := want(k)
			key := "forin-variable/" + k
			if !got.lowered && !got.ambig {
				c.OK(key, vr.Decl.Pos(), "not lowered: the loop uses the range's iterator")
				continue
			}
			if refs[k].startCmp == "" {
				c.Bad(key, vr.Decl.Pos(), "a `for in` over a %s, which has no lower bound, is lowered to a counting loop although there is no element to start from", k)
				continue
			}
			c.Check(!got.ambig && got.skip == w.skip && got.cmp == w.cmp, key, vr.Decl.Pos(), "a `for in` over a value of class %s: the containment test says: %s. The counting loop it is lowered to does: %s. The loop visits a different set of elements than `contains` admits and than the range's own iterator yields", k, describe(w), describe(got))
		}
	}
}
