package main

import (
	"go/ast"
	"go/token"
	"go/types"
)

// nil/stacktrace-deref (C01, C32): a promise can be rejected without a stack
// trace - every rejection that originates in native code passes nil
// (Promise.rejected, a native promise body that returns an error). Whatever
// receives the stored trace later (AWAIT prepends the awaiting thread's
// frames to it) must not dereference it unchecked.

func init() {
	register(&Rule{
		ID:    "nil/stacktrace-deref",
		Text:  "in package vm, a function that dereferences a parameter of type *value.StackTrace (`*p`) compares that parameter with nil before the first dereference; the rule is armed by the existence of a call that passes a nil stack trace to a rejection",
		Floor: 1,
		Run:   runStackTraceNil,
	})
}

func runStackTraceNil(c *Ctx) {
	p := c.Pkg("vm")
	info := p.TypesInfo
	// armed only if some call passes an untyped nil where a *StackTrace is expected
	armed := false
	c.Funcs("vm", func(fr *FuncRef) {
		ast.Inspect(fr.Decl.Body, func(n ast.Node) bool {
			call, ok := n.(*ast.CallExpr)
			if !ok {
				return true
			}
			fn := Callee(info, call)
			if fn == nil {
				return true
			}
			sig, ok := fn.Type().(*types.Signature)
			if !ok {
				return true
			}
			for i, a := range call.Args {
				if i >= sig.Params().Len() {
					break
				}
				if tv, ok := info.Types[a]; ok && tv.IsNil() {
					if pt, ok := sig.Params().At(i).Type().(*types.Pointer); ok && NamedOf(pt.Elem()) == "value.StackTrace" {
						armed = true
					}
				}
			}
			return true
		})
	})
	c.Stats["nil_stack_trace_is_passed_somewhere"] = 0
	if armed {
		c.Stats["nil_stack_trace_is_passed_somewhere"] = 1
	}
	c.Funcs("vm", func(fr *FuncRef) {
		if fr.Decl.Type.Params == nil {
			return
		}
		for _, f := range fr.Decl.Type.Params.List {
			pt, ok := info.TypeOf(f.Type).(*types.Pointer)
			if !ok || NamedOf(pt.Elem()) != "value.StackTrace" {
				continue
			}
			for _, name := range f.Names {
				param := info.Defs[name]
				firstDeref, firstCheck := token.NoPos, token.NoPos
				ast.Inspect(fr.Decl.Body, func(n ast.Node) bool {
					switch x := n.(type) {
					case *ast.StarExpr:
						if id, ok := ast.Unparen(x.X).(*ast.Ident); ok && info.Uses[id] == param && firstDeref == token.NoPos {
							firstDeref = x.Pos()
						}
					case *ast.BinaryExpr:
						if x.Op == token.EQL || x.Op == token.NEQ {
							if id, ok := ast.Unparen(x.X).(*ast.Ident); ok && info.Uses[id] == param {
								if tv, ok := info.Types[x.Y]; ok && tv.IsNil() && firstCheck == token.NoPos {
									firstCheck = x.Pos()
								}
							}
						}
					}
					return true
				})
				if firstDeref == token.NoPos {
					continue
				}
				key := FuncName(fr.Decl) + "/" + name.Name
				ok := !armed || (firstCheck != token.NoPos && firstCheck < firstDeref)
				c.Check(ok, key, firstDeref, "%s dereferences its stack trace parameter `%s` without comparing it with nil first, although promises rejected from native code store a nil stack trace: awaiting such a promise ends in a Go nil dereference", FuncName(fr.Decl), name.Name)
			}
		}
	})
}
