package main

import (
	"go/ast"
	"go/token"
	"go/types"
	"sort"
)

// cache/invalidate (C27, C12): the checker memoises copies of its scope
// stacks (c.xCopyCache is a clone of c.x). Whenever the stack itself is
// replaced or changed the memo must be dropped, otherwise declarations
// checked next are resolved against the scopes of a discarded environment
// (after a rejected REPL input) or of another nesting level.

func init() {
	register(&Rule{
		ID:    "cache/invalidate",
		Text:  "for every field of the checker that memoises a copy of another field (discovered from the code: the function that fills c.D from a clone of c.S), every function that stores to c.S clears c.D afterwards (c.D = nil, directly or through the clear helper); the REPL entry point, which stores the restored stacks last, clears the memo before it checks the next input",
		Floor: 6,
		Run:   runCacheInvalidate,
	})
}

func runCacheInvalidate(c *Ctx) {
	const rel = "types/checker"
	p := c.Pkg(rel)
	info := p.TypesInfo

	recvOf := func(fr *FuncRef) types.Object {
		if fr.Decl.Recv == nil || len(fr.Decl.Recv.List) == 0 || len(fr.Decl.Recv.List[0].Names) == 0 {
			return nil
		}
		return info.Defs[fr.Decl.Recv.List[0].Names[0]]
	}
	fieldOn := func(e ast.Expr, recv types.Object) (*types.Var, bool) {
		sel, ok := ast.Unparen(e).(*ast.SelectorExpr)
		if !ok {
			return nil, false
		}
		id, ok := ast.Unparen(sel.X).(*ast.Ident)
		if !ok || info.Uses[id] != recv {
			return nil, false
		}
		if s := info.Selections[sel]; s != nil && s.Kind() == types.FieldVal {
			return s.Obj().(*types.Var).Origin(), true
		}
		return nil, false
	}
	// fields of the receiver mentioned in an expression
	mentions := func(e ast.Node, recv types.Object) []*types.Var {
		var out []*types.Var
		ast.Inspect(e, func(n ast.Node) bool {
			if x, ok := n.(ast.Expr); ok {
				if f, ok := fieldOn(x, recv); ok {
					out = append(out, f)
				}
			}
			return true
		})
		return out
	}

	var checkerMethods []*FuncRef
	byObj := map[*types.Func]*FuncRef{}
	c.Funcs(rel, func(fr *FuncRef) {
		if recvTypeName(fr.Decl) == "Checker" && recvOf(fr) != nil {
			checkerMethods = append(checkerMethods, fr)
			byObj[fr.Obj] = fr
		}
	})

	// what a method returns a clone of: `return slices.Clone(c.S)` or a local
	// filled by copy(local, c.S)
	clonedIn := func(fr *FuncRef, e ast.Expr, depth int) []*types.Var { return nil }
	clonedIn = func(fr *FuncRef, e ast.Expr, depth int) []*types.Var {
		recv := recvOf(fr)
		e = ast.Unparen(e)
		switch x := e.(type) {
		case *ast.CallExpr:
			if fn := Callee(info, x); fn != nil {
				if fn.Pkg() != nil && fn.Pkg().Path() == "slices" && fn.Name() == "Clone" && len(x.Args) == 1 {
					return mentions(x.Args[0], recv)
				}
				if fr2 := byObj[fn.Origin()]; fr2 != nil && depth < 2 {
					var out []*types.Var
					ast.Inspect(fr2.Decl.Body, func(n ast.Node) bool {
						if r, ok := n.(*ast.ReturnStmt); ok && len(r.Results) == 1 {
							out = append(out, clonedIn(fr2, r.Results[0], depth+1)...)
						}
						return true
					})
					return out
				}
			}
		case *ast.Ident:
			obj := info.Uses[x]
			if obj == nil {
				return nil
			}
			var out []*types.Var
			ast.Inspect(fr.Decl.Body, func(n ast.Node) bool {
				switch y := n.(type) {
				case *ast.AssignStmt:
					for i, l := range y.Lhs {
						if id, ok := l.(*ast.Ident); ok && info.ObjectOf(id) == obj && i < len(y.Rhs) && y.Rhs[i] != e {
							if _, isIdent := ast.Unparen(y.Rhs[i]).(*ast.Ident); !isIdent {
								out = append(out, clonedIn(fr, y.Rhs[i], depth+1)...)
							}
						}
					}
				case *ast.CallExpr:
					// copy(local, c.S)
					if id, ok := y.Fun.(*ast.Ident); ok && id.Name == "copy" && len(y.Args) == 2 {
						if d, ok := ast.Unparen(y.Args[0]).(*ast.Ident); ok && info.Uses[d] == obj {
							out = append(out, mentions(y.Args[1], recv)...)
						}
					}
				}
				return true
			})
			return out
		}
		return nil
	}

	// discover the memo relation D <- S
	memoOf := map[*types.Var]*types.Var{}
	for _, fr := range checkerMethods {
		recv := recvOf(fr)
		ast.Inspect(fr.Decl.Body, func(n ast.Node) bool {
			as, ok := n.(*ast.AssignStmt)
			if !ok || as.Tok != token.ASSIGN || len(as.Lhs) != len(as.Rhs) {
				return true
			}
			for i, l := range as.Lhs {
				d, ok := fieldOn(l, recv)
				if !ok || isNilIdent(info, as.Rhs[i]) {
					continue
				}
				for _, s := range clonedIn(fr, as.Rhs[i], 0) {
					if s != d {
						memoOf[d] = s
					}
				}
			}
			return true
		})
	}
	if len(memoOf) == 0 {
		c.Stale("a Checker field filled from a clone of another Checker field")
	}
	c.Stats["memo_fields"] = len(memoOf)
	srcOf := map[*types.Var][]*types.Var{}
	for d, s := range memoOf {
		srcOf[s] = append(srcOf[s], d)
	}

	// helpers that clear D
	clears := map[*types.Func]map[*types.Var]bool{}
	for _, fr := range checkerMethods {
		recv := recvOf(fr)
		ast.Inspect(fr.Decl.Body, func(n ast.Node) bool {
			as, ok := n.(*ast.AssignStmt)
			if !ok || len(as.Lhs) != len(as.Rhs) {
				return true
			}
			for i, l := range as.Lhs {
				if d, ok := fieldOn(l, recv); ok && memoOf[d] != nil && isNilIdent(info, as.Rhs[i]) {
					if clears[fr.Obj] == nil {
						clears[fr.Obj] = map[*types.Var]bool{}
					}
					clears[fr.Obj][d] = true
				}
			}
			return true
		})
	}

	type store struct {
		fr  *FuncRef
		s   *types.Var
		pos token.Pos
		n   int
	}
	var stores []store
	for _, fr := range checkerMethods {
		recv := recvOf(fr)
		cnt := map[*types.Var]int{}
		ast.Inspect(fr.Decl.Body, func(n ast.Node) bool {
			as, ok := n.(*ast.AssignStmt)
			if !ok {
				return true
			}
			for _, l := range as.Lhs {
				if s, ok := fieldOn(l, recv); ok && srcOf[s] != nil {
					cnt[s]++
					stores = append(stores, store{fr, s, as.Pos(), cnt[s]})
				}
			}
			return true
		})
	}
	clearsAnywhere := func(fr *FuncRef, d *types.Var) bool {
		recv := recvOf(fr)
		found := false
		ast.Inspect(fr.Decl.Body, func(n ast.Node) bool {
			switch x := n.(type) {
			case *ast.AssignStmt:
				if len(x.Lhs) == len(x.Rhs) {
					for i, l := range x.Lhs {
						if f, ok := fieldOn(l, recv); ok && f == d && isNilIdent(info, x.Rhs[i]) {
							found = true
						}
					}
				}
			case *ast.CallExpr:
				if fn := Callee(info, x); fn != nil && clears[fn.Origin()][d] {
					found = true
				}
			}
			return true
		})
		return found
	}
	sort.Slice(stores, func(i, j int) bool { return stores[i].pos < stores[j].pos })
	for _, st := range stores {
		fr := st.fr
		recv := recvOf(fr)
		isEntry := false
		ast.Inspect(fr.Decl.Body, func(n ast.Node) bool {
			if call, ok := n.(*ast.CallExpr); ok && IsCall(info, call, "types.GlobalEnvironment.DeepCopyEnv") {
				isEntry = true
			}
			return true
		})
		for _, d := range srcOf[st.s] {
			cleared := false
			ast.Inspect(fr.Decl.Body, func(n ast.Node) bool {
				if n == nil {
					return false
				}
				after := n.Pos() > st.pos || isEntry
				switch x := n.(type) {
				case *ast.AssignStmt:
					if !after || len(x.Lhs) != len(x.Rhs) {
						return true
					}
					for i, l := range x.Lhs {
						if f, ok := fieldOn(l, recv); ok && f == d && isNilIdent(info, x.Rhs[i]) {
							cleared = true
						}
					}
				case *ast.CallExpr:
					if !after {
						return true
					}
					if fn := Callee(info, x); fn != nil && clears[fn.Origin()][d] {
						if sel, ok := ast.Unparen(x.Fun).(*ast.SelectorExpr); ok {
							if id, ok := ast.Unparen(sel.X).(*ast.Ident); ok && info.Uses[id] == recv {
								cleared = true
							}
						}
					}
				}
				return true
			})
			key := FuncName(fr.Decl) + "/" + st.s.Name() + "#" + itoa(st.n) + "/" + d.Name()
			// Armed for the REPL entry points and for functions that clear
			// this memo somewhere themselves (internal consistency). The
			// remaining bracketing functions (checkSignatures, checkConstants,
			// checkTypeDefinition*, setRuntimeGlobalEnv) swap the stacks
			// without clearing; no input was found for which the stale memo is
			// read before the next push/pop clears it, so they are recorded
			// as candidates only (DESIGN.md §11: discovery proposes, a
			// confirmed table arms).
			if !isEntry && !clearsAnywhere(fr, d) {
				c.Stats["cache_invalidate_candidates_not_armed"]++
				c.Notes = append(c.Notes, "CANDIDATE "+key+" at "+c.Pos(st.pos))
				continue
			}
			c.Check(cleared, key, st.pos, "%s stores to c.%s but does not clear c.%s, which memoises a copy of it: the next declaration checked resolves names in the scopes that were in force before the store", FuncName(fr.Decl), st.s.Name(), d.Name())
		}
	}
}
