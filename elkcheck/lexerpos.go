package main

import (
	"fmt"
	"go/ast"
	"go/token"
	"go/types"
	"sort"
	"strings"
)

// C04: token spans come from the byte cursor and the line/column counters of
// the lexer. Two structural conditions keep them in agreement:
//  lexer/position-owners  only the position primitives write the counters;
//  lexer/backup-ascii     rewinding k characters moves k bytes and k columns,
//                         so every rewind must provably undo ASCII characters
//                         only (or rewind to a recorded byte offset), and no
//                         line increment may lie between consuming and
//                         rewinding.
// Colouring: lexer/colorize-slices.

func init() {
	register(&Rule{
		ID:    "lexer/position-owners",
		Text:  "in both lexers (Elk and regex) the fields cursor, column, line, start, startColumn, startLine are written only by the position primitives (the constructor and the small functions advanceChar, backupChar(s)(To), incrementLine, skipByte, skipToken, tokenWithValue); a scanner that adjusts them itself bypasses the byte/column bookkeeping",
		Floor: 12,
		Run:   runLexerOwners,
	})
	register(&Rule{
		ID:    "lexer/backup-ascii",
		Text:  "every rewind of the lexers undoes only characters known to be one byte wide: backupChars(k) with constant k sits in a case arm of a switch over the consumed character whose labels are ASCII constants (never default), with k <= 1 + the one-byte introducer; backupChars(i) of a counting loop only counts matches from caller-supplied sets, and every caller passes an ASCII constant; backupCharsTo rewinds to a recorded offset with a column count equal to the characters consumed since; and no incrementLine precedes the rewind in the same arm",
		Floor: 8,
		Run:   runLexerBackup,
	})
	register(&Rule{
		ID:    "lexer/colorize-slices",
		Text:  "the colouring functions build their output only from slices of the source string between recorded offsets (the gap before a token and the token's own span), the colour wrapper applied to such a slice, and the final tail; the previous-end offset is advanced to the token's end + 1; both colouring functions have the same shape",
		Floor: 2,
		Run:   runColorizeSlices,
	})
}

var lexerPosFields = map[string]bool{"cursor": true, "column": true, "line": true, "start": true, "startColumn": true, "startLine": true}

// lexerPrimitives: the functions allowed to write position fields.
var lexerPrimitives = map[string]string{
	"advanceChar":    "moves the cursor by the decoded rune's size and the column by one",
	"backupChar":     "moves one byte and one column back (callers obligated by lexer/backup-ascii)",
	"backupChars":    "moves n bytes and n columns back (callers obligated by lexer/backup-ascii)",
	"backupCharsTo":  "moves to a recorded byte offset and n columns back (callers obligated by lexer/backup-ascii)",
	"incrementLine":  "line += 1, column = 1",
	"skipByte":       "start and startColumn advance together by one byte (callers skip ASCII bytes)",
	"skipToken":      "start* := current position",
	"tokenWithValue": "start* := current position after building the token",
}

func runLexerOwners(c *Ctx) {
	for _, rel := range []string{"lexer", "regex/lexer"} {
		p := c.Pkg(rel)
		info := p.TypesInfo
		c.Funcs(rel, func(fr *FuncRef) {
			written := map[string]token.Pos{}
			mark := func(e ast.Expr) {
				sel, ok := ast.Unparen(e).(*ast.SelectorExpr)
				if !ok || !lexerPosFields[sel.Sel.Name] {
					return
				}
				if s := info.Selections[sel]; s != nil && s.Kind() == types.FieldVal && strings.HasSuffix(NamedOf(s.Recv()), ".Lexer") {
					if _, seen := written[sel.Sel.Name]; !seen {
						written[sel.Sel.Name] = sel.Pos()
					}
				}
			}
			ast.Inspect(fr.Decl.Body, func(n ast.Node) bool {
				switch x := n.(type) {
				case *ast.AssignStmt:
					for _, l := range x.Lhs {
						mark(l)
					}
				case *ast.IncDecStmt:
					mark(x.X)
				case *ast.UnaryExpr:
					if x.Op == token.AND {
						mark(x.X)
					}
				}
				return true
			})
			if len(written) == 0 {
				return
			}
			var fs []string
			for f := range written {
				fs = append(fs, f)
			}
			sort.Strings(fs)
			for _, f := range fs {
				key := rel + "." + FuncName(fr.Decl) + "/" + f
				if reason, ok := lexerPrimitives[fr.Decl.Name.Name]; ok && recvTypeName(fr.Decl) == "Lexer" {
					c.OK(key, written[f], "position primitive: %s", reason)
					continue
				}
				c.Bad(key, written[f], "%s.%s writes the lexer's %s directly; only the position primitives may, because they keep byte offset and line/column in step", rel, FuncName(fr.Decl), f)
			}
		})
		// constructors build a fresh Lexer with a composite literal: not a write
		// to a live lexer (composite literal keys are not selector expressions)
	}
}

func isASCIIConstRune(info *types.Info, e ast.Expr) bool {
	v, ok := ConstInt(info, e)
	return ok && v >= 0 && v < 0x80
}

func runLexerBackup(c *Ctx) {
	for _, rel := range []string{"lexer", "regex/lexer"} {
		p := c.Pkg(rel)
		info := p.TypesInfo
		// functions whose rewind count is a loop counter over matches from a
		// caller-supplied set: obligation moves to the callers' arguments
		counting := map[*types.Func]int{} // func -> index of the set parameter
		c.Funcs(rel, func(fr *FuncRef) {
			if recvTypeName(fr.Decl) != "Lexer" {
				return
			}
			n := 0
			var stack []ast.Node
			ast.Inspect(fr.Decl.Body, func(nd ast.Node) bool {
				if nd == nil {
					stack = stack[:len(stack)-1]
					return true
				}
				stack = append(stack, nd)
				call, ok := nd.(*ast.CallExpr)
				if !ok {
					return true
				}
				fn := Callee(info, call)
				if fn == nil || recvNameOf(fn) != "Lexer" {
					return true
				}
				switch fn.Name() {
				case "backupChar", "backupChars", "backupCharsTo":
				case "skipByte":
					// skipByte moves the token start one byte and one column on:
					// the character just consumed must be one byte wide
					n++
					key := fmt.Sprintf("%s.%s/%s#%d", rel, FuncName(fr.Decl), fn.Name(), n)
					var clause *ast.CaseClause
					for i := len(stack) - 2; i >= 0 && clause == nil; i-- {
						if cc, ok := stack[i].(*ast.CaseClause); ok && i >= 2 {
							if sw, ok := stack[i-2].(*ast.SwitchStmt); ok && sw.Tag != nil {
								if b, ok := info.TypeOf(sw.Tag).Underlying().(*types.Basic); ok && b.Kind() == types.Int32 {
									clause = cc
								}
							}
						}
					}
					ascii := clause != nil && clause.List != nil
					if ascii {
						for _, e := range clause.List {
							if !isASCIIConstRune(info, e) {
								ascii = false
							}
						}
					}
					c.Check(ascii, key, call.Pos(), "skipByte() outside a case arm whose labels are ASCII constants: after a character wider than one byte the next token would start in the middle of that character")
					return true
				default:
					return true
				}
				n++
				key := fmt.Sprintf("%s.%s/%s#%d", rel, FuncName(fr.Decl), fn.Name(), n)
				// enclosing case clause of a switch over a rune variable
				var clause *ast.CaseClause
				for i := len(stack) - 2; i >= 0 && clause == nil; i-- {
					if cc, ok := stack[i].(*ast.CaseClause); ok && i >= 2 {
						if sw, ok := stack[i-2].(*ast.SwitchStmt); ok && sw.Tag != nil {
							if b, ok := info.TypeOf(sw.Tag).Underlying().(*types.Basic); ok && b.Kind() == types.Int32 {
								clause = cc
							}
						}
					}
				}
				noLineInc := func() bool {
					if clause == nil {
						return true
					}
					ok := true
					for _, st := range clause.Body {
						if st.Pos() >= call.Pos() {
							break
						}
						ast.Inspect(st, func(m ast.Node) bool {
							if c2, isCall := m.(*ast.CallExpr); isCall {
								if f2 := Callee(info, c2); f2 != nil && f2.Name() == "incrementLine" {
									ok = false
								}
							}
							return true
						})
					}
					return ok
				}
				switch fn.Name() {
				case "backupChars", "backupChar":
					k := int64(1)
					constK := true
					if fn.Name() == "backupChars" {
						k, constK = ConstInt(info, call.Args[0])
					}
					if !constK {
						// counting idiom: for i ... { if !l.matchChars(set) {break} }; backupChars(i)
						idx := -1
						ast.Inspect(fr.Decl.Body, func(m ast.Node) bool {
							if c2, ok := m.(*ast.CallExpr); ok {
								if f2 := Callee(info, c2); f2 != nil && (f2.Name() == "matchChars" || f2.Name() == "matchChar") && len(c2.Args) == 1 {
									if id, ok := ast.Unparen(c2.Args[0]).(*ast.Ident); ok {
										for pi, f := range fr.Decl.Type.Params.List {
											for _, nm := range f.Names {
												if info.Defs[nm] == info.Uses[id] {
													idx = pi
												}
											}
										}
									}
								}
							}
							return true
						})
						if idx >= 0 {
							counting[fr.Obj] = idx
							c.OK(key, call.Pos(), "rewinds the characters it matched from the caller-supplied set (callers obligated)")
						} else {
							c.Unknown(key, call.Pos(), "backupChars with a non-constant count outside the counting idiom")
						}
						return true
					}
					if clause == nil || clause.List == nil {
						c.Bad(key, call.Pos(), "%s(%d) outside a case arm with ASCII labels (default arm or no switch over the consumed character): the characters being un-consumed may be wider than one byte, so the cursor lands inside a character and the column no longer matches the byte offset", fn.Name(), k)
						return true
					}
					ascii := true
					for _, e := range clause.List {
						if !isASCIIConstRune(info, e) {
							ascii = false
						}
					}
					c.Check(ascii && k <= 2 && noLineInc(), key, call.Pos(), "%s(%d): the case labels are not all ASCII constants, or more than label+introducer is rewound, or incrementLine precedes the rewind in this arm", fn.Name(), k)
				case "backupCharsTo":
					// offset must be a local defined as <lexer>.cursor - K; n == K + number of
					// advanceChar() calls between the definition and the enclosing switch
					id, ok := ast.Unparen(call.Args[0]).(*ast.Ident)
					nn, okN := ConstInt(info, call.Args[1])
					if !ok || !okN {
						c.Unknown(key, call.Pos(), "backupCharsTo arguments are not (local offset, constant)")
						return true
					}
					obj := info.Uses[id]
					var defPos token.Pos
					K := int64(-1)
					ast.Inspect(fr.Decl.Body, func(m ast.Node) bool {
						if as, ok := m.(*ast.AssignStmt); ok && as.Tok == token.DEFINE && len(as.Lhs) == 1 {
							if lid, ok := as.Lhs[0].(*ast.Ident); ok && info.Defs[lid] == obj {
								if be, ok := ast.Unparen(as.Rhs[0]).(*ast.BinaryExpr); ok && be.Op == token.SUB && strings.HasSuffix(types.ExprString(be.X), ".cursor") {
									if v, ok := ConstInt(info, be.Y); ok {
										K, defPos = v, as.Pos()
									}
								} else if strings.HasSuffix(types.ExprString(ast.Unparen(as.Rhs[0])), ".cursor") {
									K, defPos = 0, as.Pos()
								}
							}
						}
						return true
					})
					if K < 0 {
						c.Unknown(key, call.Pos(), "offset passed to backupCharsTo is not a local defined from the cursor")
						return true
					}
					// advanceChar calls between the definition and the switch statement holding the call
					limit := call.Pos()
					for i := len(stack) - 2; i >= 0; i-- {
						if sw, ok := stack[i].(*ast.SwitchStmt); ok {
							limit = sw.Pos()
							break
						}
					}
					adv := int64(0)
					ast.Inspect(fr.Decl.Body, func(m ast.Node) bool {
						if c2, ok := m.(*ast.CallExpr); ok && c2.Pos() > defPos && c2.Pos() < limit {
							if f2 := Callee(info, c2); f2 != nil && f2.Name() == "advanceChar" {
								adv++
							}
						}
						return true
					})
					c.Check(nn == K+adv && noLineInc(), key, call.Pos(), "backupCharsTo rewinds %d columns, but %d byte(s) before the recorded offset plus %d advanceChar() call(s) since make %d characters (or incrementLine precedes the rewind in this arm)", nn, K, adv, K+adv)
				}
				return true
			})
		})
		// callers of counting functions pass ASCII constant sets (one level of
		// forwarding through another counting function's parameter is allowed)
		c.Funcs(rel, func(fr *FuncRef) {
			n := 0
			ast.Inspect(fr.Decl.Body, func(nd ast.Node) bool {
				call, ok := nd.(*ast.CallExpr)
				if !ok {
					return true
				}
				fn := Callee(info, call)
				if fn == nil {
					return true
				}
				idx, ok := counting[fn.Origin()]
				if !ok || idx >= len(call.Args) {
					return true
				}
				n++
				key := fmt.Sprintf("%s.%s/calls-%s#%d", rel, FuncName(fr.Decl), fn.Name(), n)
				tv := info.Types[call.Args[idx]]
				if tv.Value == nil {
					c.Bad(key, call.Pos(), "%s rewinds one byte per matched character; the set passed here is not a constant, so it cannot be shown to be ASCII", fn.Name())
					return true
				}
				s := tv.Value.ExactString()
				ascii := true
				for i := 0; i < len(s); i++ {
					if s[i] >= 0x80 {
						ascii = false
					}
				}
				c.Check(ascii, key, call.Pos(), "%s rewinds one byte per matched character but the set passed here contains a non-ASCII character", fn.Name())
				return true
			})
		})
	}
}

func runColorizeSlices(c *Ctx) {
	p := c.Pkg("lexer")
	info := p.TypesInfo
	var shapes []string
	var frs []*FuncRef
	c.Funcs("lexer", func(fr *FuncRef) {
		if fr.Decl.Recv != nil || !strings.HasPrefix(fr.Decl.Name.Name, "Colorize") {
			return
		}
		sig := fr.Obj.Type().(*types.Signature)
		if sig.Params().Len() < 1 || sig.Results().Len() != 1 {
			return
		}
		if b, ok := sig.Results().At(0).Type().Underlying().(*types.Basic); !ok || b.Kind() != types.String {
			return
		}
		// only functions that lex: contain a loop calling Next()
		lexes := false
		ast.Inspect(fr.Decl.Body, func(n ast.Node) bool {
			if call, ok := n.(*ast.CallExpr); ok {
				if fn := Callee(info, call); fn != nil && fn.Name() == "Next" && recvNameOf(fn) == "Lexer" {
					lexes = true
				}
			}
			return true
		})
		if lexes {
			frs = append(frs, fr)
		}
	})
	if len(frs) < 2 {
		c.Stale("lexer: two Colorize* functions that lex their input")
	}
	for _, fr := range frs {
		src := info.Defs[fr.Decl.Type.Params.List[0].Names[0]]
		bad := []string{}
		// every WriteString/Write* argument: source[a:b], f(source[a:b]) or a constant
		var okArg func(e ast.Expr) bool
		okArg = func(e ast.Expr) bool {
			e = ast.Unparen(e)
			switch x := e.(type) {
			case *ast.SliceExpr:
				id, ok := ast.Unparen(x.X).(*ast.Ident)
				return ok && info.Uses[id] == src
			case *ast.CallExpr:
				if tv, ok := info.Types[x.Fun]; ok && tv.IsType() && len(x.Args) == 1 {
					return okArg(x.Args[0])
				}
				for _, a := range x.Args {
					if okArg(a) {
						return true
					}
				}
				return false
			case *ast.Ident:
				// a local holding a slice of the source
				obj := info.Uses[x]
				found := false
				ast.Inspect(fr.Decl.Body, func(n ast.Node) bool {
					if as, ok := n.(*ast.AssignStmt); ok && len(as.Lhs) == len(as.Rhs) {
						for i, l := range as.Lhs {
							if lid, ok := l.(*ast.Ident); ok && info.ObjectOf(lid) == obj && okArg(as.Rhs[i]) {
								found = true
							}
						}
					}
					return true
				})
				return found
			case *ast.BasicLit:
				return true
			}
			if tv, ok := info.Types[e]; ok && tv.Value != nil {
				return true
			}
			return false
		}
		writes := 0
		ast.Inspect(fr.Decl.Body, func(n ast.Node) bool {
			call, ok := n.(*ast.CallExpr)
			if !ok {
				return true
			}
			fn := Callee(info, call)
			if fn == nil || !strings.HasPrefix(fn.Name(), "Write") || len(call.Args) != 1 {
				return true
			}
			writes++
			if !okArg(call.Args[0]) {
				bad = append(bad, c.Pos(call.Pos()))
			}
			return true
		})
		// previousEnd = <tok span end> + 1
		advanced := false
		ast.Inspect(fr.Decl.Body, func(n ast.Node) bool {
			if as, ok := n.(*ast.AssignStmt); ok && as.Tok == token.ASSIGN && len(as.Rhs) == 1 {
				if be, ok := ast.Unparen(as.Rhs[0]).(*ast.BinaryExpr); ok && be.Op == token.ADD {
					if v, ok := ConstInt(info, be.Y); ok && v == 1 && strings.Contains(types.ExprString(be.X), "End") {
						advanced = true
					}
				}
			}
			return true
		})
		key := FuncName(fr.Decl)
		c.Check(len(bad) == 0 && writes >= 3 && advanced, key, fr.Decl.Pos(), "%s writes something other than slices of its input (or a colour wrapper around one) to its output at %v, or does not advance the previous-end offset to the token's end + 1 (writes=%d advanced=%v): stripping the colour codes would not give back the input", key, bad, writes, advanced)
		// shape signature: sequence of statement kinds in the loop
		var sb strings.Builder
		ast.Inspect(fr.Decl.Body, func(n ast.Node) bool {
			switch n.(type) {
			case *ast.ForStmt:
				sb.WriteString("F")
			case *ast.IfStmt:
				sb.WriteString("I")
			case *ast.AssignStmt:
				sb.WriteString("A")
			case *ast.ReturnStmt:
				sb.WriteString("R")
			case *ast.BranchStmt:
				sb.WriteString("B")
			}
			return true
		})
		shapes = append(shapes, sb.String())
	}
	same := true
	for _, s := range shapes[1:] {
		if s != shapes[0] {
			same = false
		}
	}
	c.Check(same, "siblings-same-shape", frs[0].Decl.Pos(), "the colouring functions no longer have the same statement structure (%v): one of them was changed without the other", shapes)
}
