package main

import (
	"go/ast"
	"go/types"
	"strings"
)

// types/shallow-identity (C02): the checker has a helper that calls two
// generic types identical as soon as they instantiate the same class - it does
// not look at their type arguments (ArrayList[Int] "is" ArrayList[String]).
// That is what its one caller wants (recognising the self/throw type pair of
// the implicit-interface mode). Used as a sufficient condition anywhere in the
// subtype relation it makes containers of different element types assignable
// to each other: an expression of static type Int then holds a String.

func init() {
	register(&Rule{
		ID:    "types/shallow-identity",
		Text:  "in the type checker, every call of a shallow identity predicate (a function that answers true for two *types.Generic as soon as their Namespace fields are equal, without consulting their type arguments) stands in a condition that also tests the checker's mode against implicitInterfaceSubtypeMode",
		Floor: 1,
		Run:   runShallowIdentity,
	})
}

func runShallowIdentity(c *Ctx) {
	p := c.ByRel["types/checker"]
	if p == nil {
		c.Stale("package types/checker")
		return
	}
	info := p.TypesInfo
	shallow := map[*types.Func]bool{}
	c.Funcs("types/checker", func(fr *FuncRef) {
		sig := fr.Obj.Type().(*types.Signature)
		if sig.Results().Len() != 1 {
			return
		}
		if b, ok := sig.Results().At(0).Type().Underlying().(*types.Basic); !ok || b.Kind() != types.Bool {
			return
		}
		cmpNamespace, looksAtArgs := false, false
		ast.Inspect(fr.Decl.Body, func(n ast.Node) bool {
			switch x := n.(type) {
			case *ast.BinaryExpr:
				l, lok := ast.Unparen(x.X).(*ast.SelectorExpr)
				r, rok := ast.Unparen(x.Y).(*ast.SelectorExpr)
				if lok && rok && l.Sel.Name == "Namespace" && r.Sel.Name == "Namespace" &&
					strings.HasSuffix(NamedOf(info.TypeOf(l.X)), "types.Generic") && strings.HasSuffix(NamedOf(info.TypeOf(r.X)), "types.Generic") {
					cmpNamespace = true
				}
			case *ast.SelectorExpr:
				if x.Sel.Name == "TypeArguments" || x.Sel.Name == "ArgumentMap" || x.Sel.Name == "ArgumentOrder" {
					looksAtArgs = true
				}
			case *ast.CallExpr:
				// delegating to a deeper comparison counts as looking at the arguments
				if fn := Callee(info, x); fn != nil && fn != fr.Obj && (strings.Contains(fn.Name(), "TypeArg") || strings.Contains(fn.Name(), "isTheSameType") || strings.Contains(fn.Name(), "IsTheSameType")) {
					looksAtArgs = true
				}
			}
			return true
		})
		if cmpNamespace && !looksAtArgs {
			shallow[fr.Obj] = true
		}
	})
	c.Stats["shallow_identity_predicates"] = len(shallow)
	if len(shallow) == 0 {
		c.Stale("types/checker: a predicate comparing two *types.Generic by Namespace only")
		return
	}
	c.Funcs("types/checker", func(fr *FuncRef) {
		if shallow[fr.Obj] {
			return
		}
		n := 0
		var stack []ast.Node
		ast.Inspect(fr.Decl.Body, func(nd ast.Node) bool {
			if nd == nil {
				stack = stack[:len(stack)-1]
				return true
			}
			stack = append(stack, nd)
			call, ok := nd.(*ast.CallExpr)
			if !ok {
				return true
			}
			fn := Callee(info, call)
			if fn == nil || !shallow[fn.Origin()] {
				return true
			}
			// outermost enclosing boolean expression
			var cond ast.Expr = call
			for i := len(stack) - 2; i >= 0; i-- {
				if be, ok := stack[i].(*ast.BinaryExpr); ok {
					cond = be
					continue
				}
				if pe, ok := stack[i].(*ast.ParenExpr); ok {
					cond = pe
					continue
				}
				break
			}
			if strings.Contains(types.ExprString(cond), "implicitInterfaceSubtypeMode") {
				if n == 0 {
					c.OK(FuncName(fr.Decl)+"/"+fn.Name(), call.Pos(), "under the implicit-interface mode test")
				}
				n++
				return true
			}
			n++
			c.Bad(FuncName(fr.Decl)+"/"+fn.Name()+"#"+itoa(n), call.Pos(), "%s uses %s, which calls two generic types identical without looking at their type arguments, outside the implicit-interface mode test: ArrayList[Int] and ArrayList[Int | String] then pass as the same type, a container can be aliased at a wider element type, and a value of the wrong class reaches code typed for the narrow one", FuncName(fr.Decl), fn.Name())
			return true
		})
	})
}
