package main

import (
	"fmt"
	"go/ast"
	"go/types"
	"strings"
)

// arith/result-follows-operand (C28, C06): the headers declare the arithmetic
// operators of the numeric classes with overloads whose result class depends
// on the operand class (Int ** Float is Float, Int ** BigFloat is BigFloat,
// Int ** Int is Int). The implementations (`XVal(other Value)` methods in
// package value) decide the operand's kind with a switch over its
// representation. A non-error result returned OUTSIDE that dispatch is
// returned for every operand kind alike and therefore has the wrong class for
// all but one of them (`1 ** 2.5` returning the Int 1).

func init() {
	register(&Rule{
		ID:    "arith/result-follows-operand",
		Text:  "in the mixed-kind arithmetic methods of the numeric value types (AddVal, SubtractVal, MultiplyVal, DivideVal, ModuloVal, ExponentiateVal taking the operand as a value.Value), every return whose first result is not Undefined lies inside a case arm of a switch over the operand's representation (its ValueFlag or the dynamic type of its reference)",
		Floor: 40,
		Arch:  true,
		Run:   runArithResult,
	})
}

func runArithResult(c *Ctx) {
	p := c.Pkg("value")
	info := p.TypesInfo
	ops := map[string]bool{"AddVal": true, "SubtractVal": true, "MultiplyVal": true, "DivideVal": true, "ModuloVal": true, "ExponentiateVal": true}
	c.Funcs("value", func(fr *FuncRef) {
		if fr.Decl.Recv == nil || !ops[fr.Decl.Name.Name] || fr.Decl.Type.Params == nil || len(fr.Decl.Type.Params.List) != 1 {
			return
		}
		pf := fr.Decl.Type.Params.List[0]
		if NamedOf(info.TypeOf(pf.Type)) != "value.Value" || len(pf.Names) != 1 {
			return
		}
		other := info.Defs[pf.Names[0]]
		sig := fr.Obj.Type().(*types.Signature)
		if sig.Results().Len() != 2 || NamedOf(sig.Results().At(0).Type()) != "value.Value" {
			// the sized kinds (Int8 .. Float64) only operate on their own kind and
			// return their own Go type: their result class cannot vary
			return
		}
		mentionsOther := func(n ast.Node) bool {
			m := false
			ast.Inspect(n, func(x ast.Node) bool {
				if id, ok := x.(*ast.Ident); ok && info.Uses[id] == other {
					m = true
				}
				return true
			})
			return m
		}
		n := 0
		var stack []ast.Node
		ast.Inspect(fr.Decl.Body, func(nd ast.Node) bool {
			if nd == nil {
				stack = stack[:len(stack)-1]
				return true
			}
			stack = append(stack, nd)
			ret, ok := nd.(*ast.ReturnStmt)
			if !ok || len(ret.Results) != 2 {
				return true
			}
			// error returns: first result is Undefined
			if id, ok := ast.Unparen(ret.Results[0]).(*ast.Ident); ok && id.Name == "Undefined" {
				return true
			}
			n++
			inArm := false
			for i := len(stack) - 2; i >= 2; i-- {
				if _, ok := stack[i].(*ast.CaseClause); ok {
					switch sw := stack[i-2].(type) {
					case *ast.SwitchStmt:
						if sw.Tag != nil && mentionsOther(sw.Tag) {
							inArm = true
						}
					case *ast.TypeSwitchStmt:
						if mentionsOther(sw.Assign) {
							inArm = true
						}
					}
				}
			}
			key := fmt.Sprintf("%s/return#%d", FuncName(fr.Decl), n)
			c.Check(inArm, key, ret.Pos(), "%s returns %s outside the dispatch on the operand's representation: the same result (of one fixed class) is returned whatever the class of the operand, although the headers declare a different result class per operand class", FuncName(fr.Decl), strings.TrimSpace(types.ExprString(ret.Results[0])))
			return true
		})
	})
}
