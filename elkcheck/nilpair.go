package main

import (
	"fmt"
	"go/ast"
	"go/token"
	"go/types"
	"sort"
)

// path/nilpair (C03, C01): a function that returns (pointer, bool) and returns
// nil together with false hands its callers a pointer that is only valid when
// the bool is true. Every caller must therefore dereference the pointer only
// on paths where the bool has been tested and found true.

func init() {
	register(&Rule{
		ID:    "path/nilpair",
		Text:  "for every function of the front end that returns (pointer, bool) and returns nil with false, every caller dereferences the pointer (field access, method call, *p) only on paths where the bool was tested and is true; the nil pointer otherwise crashes the front end on malformed input instead of producing a diagnostic",
		Floor: 40,
		Run:   runNilPair,
	})
}

// nilPairPackages: where producers are looked for. Call sites are checked in
// the whole module.
var nilPairPackages = []string{"parser", "lexer", "regex/parser", "regex/lexer", "regex/transpiler", "types/checker", "compiler", "macro"}

type npState struct {
	st int // 0 not yet defined, 1 defined & untested, 2 ok known true, 3 ok known false
}

func isNilIdent(info *types.Info, e ast.Expr) bool {
	id, ok := ast.Unparen(e).(*ast.Ident)
	if !ok {
		return false
	}
	_, isNil := info.Uses[id].(*types.Nil)
	return isNil
}

func isFalseIdent(info *types.Info, e ast.Expr) bool {
	tv, ok := info.Types[ast.Unparen(e)]
	return ok && tv.Value != nil && tv.Value.String() == "false"
}

// nilPairProducers: functions returning (pointer|interface, bool) with a
// `return nil, false`.
func (c *Ctx) nilPairProducers() map[*types.Func]bool {
	out := map[*types.Func]bool{}
	for _, rel := range nilPairPackages {
		if c.ByRel[rel] == nil {
			continue
		}
		c.Funcs(rel, func(fr *FuncRef) {
			sig := fr.Obj.Type().(*types.Signature)
			if sig.Results().Len() != 2 {
				return
			}
			if _, isPtr := sig.Results().At(0).Type().Underlying().(*types.Pointer); !isPtr {
				return
			}
			if b, ok := sig.Results().At(1).Type().Underlying().(*types.Basic); !ok || b.Kind() != types.Bool {
				return
			}
			info := fr.Pkg.TypesInfo
			nilFalse := false
			ast.Inspect(fr.Decl.Body, func(n ast.Node) bool {
				if _, ok := n.(*ast.FuncLit); ok {
					return false
				}
				if r, ok := n.(*ast.ReturnStmt); ok && len(r.Results) == 2 && isNilIdent(info, r.Results[0]) && isFalseIdent(info, r.Results[1]) {
					nilFalse = true
				}
				return true
			})
			if nilFalse {
				out[fr.Obj] = true
			}
		})
	}
	return out
}

// okCondition classifies cond with respect to the bool variable okObj:
// +1 cond true implies ok; -1 cond false implies ok (cond is !ok or !ok || ..);
func okImplied(info *types.Info, cond ast.Expr, okObj types.Object, branch bool) bool {
	cond = ast.Unparen(cond)
	switch x := cond.(type) {
	case *ast.Ident:
		return branch && info.Uses[x] == okObj
	case *ast.UnaryExpr:
		if x.Op == token.NOT {
			if id, ok := ast.Unparen(x.X).(*ast.Ident); ok && info.Uses[id] == okObj {
				return !branch
			}
		}
	case *ast.BinaryExpr:
		if x.Op == token.LAND && branch {
			return okImplied(info, x.X, okObj, true) || okImplied(info, x.Y, okObj, true)
		}
		if x.Op == token.LOR && !branch {
			return okImplied(info, x.X, okObj, false) || okImplied(info, x.Y, okObj, false)
		}
	}
	return false
}

func okRefuted(info *types.Info, cond ast.Expr, okObj types.Object, branch bool) bool {
	cond = ast.Unparen(cond)
	switch x := cond.(type) {
	case *ast.Ident:
		return !branch && info.Uses[x] == okObj
	case *ast.UnaryExpr:
		if x.Op == token.NOT {
			if id, ok := ast.Unparen(x.X).(*ast.Ident); ok && info.Uses[id] == okObj {
				return branch
			}
		}
	}
	return false
}

func runNilPair(c *Ctx) {
	producers := c.nilPairProducers()
	c.Stats["nilpair_producers"] = len(producers)
	if len(producers) == 0 {
		c.Stale("a front-end function returning (pointer, bool) with `return nil, false`")
	}
	type site struct {
		key string
		pos token.Pos
		bad []string
	}
	var sites []site
	for _, p := range c.Pkgs {
		info := p.TypesInfo
		for _, file := range p.Syntax {
			for _, d := range file.Decls {
				fd, ok := d.(*ast.FuncDecl)
				if !ok || fd.Body == nil {
					continue
				}
				// call sites `v, ok := producer(...)` anywhere in the function
				n := 0
				ast.Inspect(fd.Body, func(nd ast.Node) bool {
					as, ok := nd.(*ast.AssignStmt)
					if !ok || len(as.Lhs) != 2 || len(as.Rhs) != 1 {
						return true
					}
					call, ok := ast.Unparen(as.Rhs[0]).(*ast.CallExpr)
					if !ok {
						return true
					}
					fn := Callee(info, call)
					if fn == nil || !producers[fn.Origin()] {
						return true
					}
					n++
					key := fmt.Sprintf("%s.%s/%s#%d", relPkg(p.PkgPath), FuncName(fd), fn.Name(), n)
					vId, _ := as.Lhs[0].(*ast.Ident)
					okId, _ := as.Lhs[1].(*ast.Ident)
					if vId == nil || vId.Name == "_" {
						sites = append(sites, site{key: key, pos: as.Pos()})
						return true
					}
					vObj := info.ObjectOf(vId)
					var okObj types.Object
					if okId != nil && okId.Name != "_" {
						okObj = info.ObjectOf(okId)
					}
					bad := checkNilPairSite(c, info, fd, as, vObj, okObj)
					sites = append(sites, site{key: key, pos: as.Pos(), bad: bad})
					return true
				})
			}
		}
	}
	sort.Slice(sites, func(i, j int) bool { return sites[i].key < sites[j].key })
	for _, s := range sites {
		if len(s.bad) == 0 {
			c.OK(s.key, s.pos, "holds")
		} else {
			c.Bad(s.key, s.pos, "the pointer is dereferenced where the bool result is false or untested: %v", s.bad)
		}
	}
}

// checkNilPairSite walks the enclosing function with the path-set
// interpreter; state tracks what is known about ok since the defining
// assignment `def`.
func checkNilPairSite(c *Ctx, info *types.Info, fd *ast.FuncDecl, def *ast.AssignStmt, vObj, okObj types.Object) []string {
	// selector nodes on the right of `ok && ...` / `!ok || ...` are guarded
	guarded := map[ast.Node]bool{}
	if okObj != nil {
		ast.Inspect(fd.Body, func(n ast.Node) bool {
			be, ok := n.(*ast.BinaryExpr)
			if !ok {
				return true
			}
			if (be.Op == token.LAND && okImplied(info, be.X, okObj, true)) || (be.Op == token.LOR && okImplied(info, be.X, okObj, false)) {
				ast.Inspect(be.Y, func(m ast.Node) bool {
					guarded[m] = true
					return true
				})
			}
			return true
		})
	}
	var bad []string
	seenBad := map[token.Pos]bool{}
	derefOfV := func(e ast.Expr) bool {
		var x ast.Expr
		switch y := e.(type) {
		case *ast.SelectorExpr:
			x = y.X
		case *ast.StarExpr:
			x = y.X
		default:
			return false
		}
		id, ok := ast.Unparen(x).(*ast.Ident)
		return ok && info.Uses[id] == vObj
	}
	pe := &PathEval[npState]{Info: info}
	pe.Stmt = func(s npState, st ast.Stmt) ([]npState, bool) {
		if st == ast.Stmt(def) {
			return []npState{{1}}, true
		}
		// any other assignment to v or ok ends the tracked region
		if as, ok := st.(*ast.AssignStmt); ok && s.st != 0 {
			for _, l := range as.Lhs {
				if id, ok := ast.Unparen(l).(*ast.Ident); ok {
					if o := info.ObjectOf(id); o == vObj || (okObj != nil && o == okObj) {
						// the pair is redefined: the region tracked for this
						// definition ends (the new definition is its own site)
						return []npState{{0}}, true
					}
				}
			}
		}
		return nil, false
	}
	pe.Other = func(s npState, e ast.Expr) []npState {
		if s.st == 1 || s.st == 3 {
			if derefOfV(e) && !guarded[e] && !seenBad[e.Pos()] {
				seenBad[e.Pos()] = true
				what := "untested"
				if s.st == 3 {
					what = "false"
				}
				bad = append(bad, fmt.Sprintf("%s (bool %s)", c.Pos(e.Pos()), what))
			}
		}
		return []npState{s}
	}
	pe.Cond = func(s npState, cond ast.Expr, branch bool) []npState {
		if s.st == 0 || okObj == nil {
			return []npState{s}
		}
		if okImplied(info, cond, okObj, branch) {
			return []npState{{2}}
		}
		if okRefuted(info, cond, okObj, branch) {
			return []npState{{3}}
		}
		return []npState{s}
	}
	pe.Widen = func(s npState) npState { return s }
	pe.Call = func(s npState, call *ast.CallExpr) []npState {
		if id, ok := ast.Unparen(call.Fun).(*ast.Ident); ok {
			if b, ok := info.Uses[id].(*types.Builtin); ok && b.Name() == "panic" {
				return nil // the path ends here
			}
		}
		return []npState{s}
	}
	// reassignment of v or ok after the definition: handled conservatively by
	// cutting the function at the reassignment is not needed on today's tree;
	// a reassigned pair is reported as undecidable
	reassigned := false
	ast.Inspect(fd.Body, func(n ast.Node) bool {
		as, ok := n.(*ast.AssignStmt)
		if !ok || as == def {
			return true
		}
		for _, l := range as.Lhs {
			if id, ok := ast.Unparen(l).(*ast.Ident); ok {
				if o := info.ObjectOf(id); o != nil && (o == vObj || (okObj != nil && o == okObj)) {
					reassigned = true
				}
			}
		}
		return true
	})
	pe.Block(newSet(npState{0}), fd.Body.List)
	// function literals are not entered by the interpreter: uses of v inside a
	// closure are checked syntactically (must be guarded by position: after a
	// dominating test is not provable here)
	ast.Inspect(fd.Body, func(n ast.Node) bool {
		fl, ok := n.(*ast.FuncLit)
		if !ok {
			return true
		}
		ast.Inspect(fl.Body, func(m ast.Node) bool {
			if e, ok := m.(ast.Expr); ok && derefOfV(e) && fl.Pos() > def.Pos() {
				// the closure containing def itself is walked separately below
				if !(def.Pos() >= fl.Pos() && def.End() <= fl.End()) {
					bad = append(bad, fmt.Sprintf("%s (inside a function literal: not followed)", c.Pos(e.Pos())))
				}
			}
			return true
		})
		return true
	})
	// a definition inside a function literal: walk that literal's body
	ast.Inspect(fd.Body, func(n ast.Node) bool {
		fl, ok := n.(*ast.FuncLit)
		if ok && def.Pos() >= fl.Pos() && def.End() <= fl.End() {
			pe.Block(newSet(npState{0}), fl.Body.List)
		}
		return true
	})
	if reassigned && len(bad) > 0 {
		bad = append(bad, "(the pair is reassigned in this function; the analysis keeps the first definition's state)")
	}
	return bad
}
