package main

import (
	"go/ast"
	"go/token"
	"go/types"
	"sort"
)

// cover/deepcopy (C27, C02): the REPL type-checks every input against a deep
// copy of the global environment so that a rejected input leaves no trace.
// Every DeepCopyEnv method must therefore write every field of the copy.

func init() {
	register(&Rule{
		ID:    "cover/deepcopy",
		Text:  "every DeepCopyEnv method of the type environment writes every field of the copy it returns (directly, in its composite literal, or through the constructor that builds it); a field left at its zero value makes the environment after a rejected REPL input differ from the one before it",
		Floor: 60,
		Run:   runCoverDeepCopy,
	})
}

// deepCopyFieldExempt: fields that must not or need not be copied.
var deepCopyFieldExempt = map[string]string{
	"ConstantPlaceholder.Sibling": "candidate, not armed: placeholders pair up only while one `using` statement is being resolved and are marked Checked/Replaced before the check that created them ends; the REPL copies the environment between inputs, and no input was found whose verdict depends on the Sibling link of an already resolved placeholder",
	"SingletonClass.singleton": "a singleton class never has a singleton of its own: NewSingletonClass is only ever given a class, mixin, module, interface or placeholder as the attached object, and SetSingleton is only called on attached objects",
}

// fieldsReadInModule: struct fields of package types that some selector
// expression outside a composite-literal key and outside the left-hand side of
// an assignment resolves to. A field nobody reads cannot influence a verdict.
func (c *Ctx) fieldsReadInModule(pkgRel string) map[*types.Var]bool {
	read := map[*types.Var]bool{}
	for _, p := range c.Pkgs {
		info := p.TypesInfo
		for _, f := range p.Syntax {
			lhs := map[ast.Expr]bool{}
			ast.Inspect(f, func(n ast.Node) bool {
				switch x := n.(type) {
				case *ast.AssignStmt:
					if x.Tok == token.ASSIGN || x.Tok == token.DEFINE {
						for _, l := range x.Lhs {
							lhs[ast.Unparen(l)] = true
						}
					}
				case *ast.SelectorExpr:
					if lhs[x] {
						return true
					}
					if s := info.Selections[x]; s != nil && s.Kind() == types.FieldVal {
						if v, ok := s.Obj().(*types.Var); ok && v.Pkg() != nil && relPkg(v.Pkg().Path()) == pkgRel {
							read[v.Origin()] = true
						}
					}
				}
				return true
			})
		}
	}
	return read
}

// copyRegistersChild: the copy re-enters the Children set of its superclass
// through registerAsChild right after its parent is stored; Children of the
// copy itself is then filled by the copies of its subclasses the same way.
func copyRegistersChild(fr *FuncRef, copyVar types.Object) bool {
	info := fr.Pkg.TypesInfo
	ok := false
	ast.Inspect(fr.Decl.Body, func(n ast.Node) bool {
		blk, isBlk := n.(*ast.BlockStmt)
		if !isBlk {
			return true
		}
		parentStored := false
		for _, st := range blk.List {
			switch x := st.(type) {
			case *ast.AssignStmt:
				for _, l := range x.Lhs {
					if sel, isSel := ast.Unparen(l).(*ast.SelectorExpr); isSel && sel.Sel.Name == "parent" {
						if id, isId := ast.Unparen(sel.X).(*ast.Ident); isId && info.Uses[id] == copyVar {
							parentStored = true
						}
					}
				}
			case *ast.ExprStmt:
				if call, isCall := x.X.(*ast.CallExpr); isCall && parentStored && IsCall(info, call, "types.Class.registerAsChild") {
					if sel, isSel := call.Fun.(*ast.SelectorExpr); isSel {
						if id, isId := ast.Unparen(sel.X).(*ast.Ident); isId && info.Uses[id] == copyVar {
							ok = true
						}
					}
				}
			}
		}
		return true
	})
	return ok
}

// flattenFields lists the leaf fields of a struct type, descending into
// embedded structs of the same package.
func flattenFields(t types.Type, seen map[types.Type]bool) []*types.Var {
	if p, ok := t.(*types.Pointer); ok {
		t = p.Elem()
	}
	st, ok := t.Underlying().(*types.Struct)
	if !ok || seen[t] {
		return nil
	}
	seen[t] = true
	var out []*types.Var
	for i := 0; i < st.NumFields(); i++ {
		f := st.Field(i)
		if f.Embedded() {
			// an embedded pointer shares the target; only embedded struct
			// values are part of this object's own storage
			_, isPtr := f.Type().(*types.Pointer)
			if _, isStruct := f.Type().Underlying().(*types.Struct); isStruct && !isPtr {
				out = append(out, flattenFields(f.Type(), seen)...)
				continue
			}
		}
		out = append(out, f)
	}
	return out
}

func isStructValue(t types.Type) bool {
	if _, isPtr := t.(*types.Pointer); isPtr {
		return false
	}
	_, ok := t.Underlying().(*types.Struct)
	return ok
}

func derefType(t types.Type) types.Type {
	if p, ok := t.(*types.Pointer); ok {
		return p.Elem()
	}
	return t
}

// ctorWrites: leaf field names a constructor function initialises on the
// value it returns (keyed composite literal and assignments to the local
// holding it), following nested constructor calls for embedded structs.
func (c *Ctx) ctorWrites(fn *types.Func, depth int) map[string]bool {
	out := map[string]bool{}
	if fn == nil || fn.Pkg() == nil || depth > 3 {
		return out
	}
	var fr *FuncRef
	c.Funcs(relPkg(fn.Pkg().Path()), func(x *FuncRef) {
		if x.Obj == fn.Origin() {
			fr = x
		}
	})
	if fr == nil {
		return out
	}
	c.writesIn(fr, nil, out, depth)
	return out
}

// writesIn collects leaf fields written on `target` (nil: any composite
// literal of a struct type plus the local variable it is assigned to).
func (c *Ctx) writesIn(fr *FuncRef, target types.Object, out map[string]bool, depth int) {
	info := fr.Pkg.TypesInfo
	locals := map[types.Object]bool{}
	if target != nil {
		locals[target] = true
	}
	var handleLit func(cl *ast.CompositeLit)
	handleLit = func(cl *ast.CompositeLit) {
		for _, el := range cl.Elts {
			kv, ok := el.(*ast.KeyValueExpr)
			if !ok {
				continue
			}
			kid, ok := kv.Key.(*ast.Ident)
			if !ok {
				continue
			}
			fv, _ := info.Uses[kid].(*types.Var)
			if fv != nil && fv.Embedded() && isStructValue(fv.Type()) {
				// embedded struct initialised by a constructor call or literal
				switch v := ast.Unparen(kv.Value).(type) {
				default:
					// value copy of the whole embedded struct (Module: u.Module)
					for _, lf := range flattenFields(fv.Type(), map[types.Type]bool{}) {
						out[lf.Name()] = true
					}
				case *ast.CallExpr:
					for k := range c.ctorWrites(Callee(info, v), depth+1) {
						out[k] = true
					}
				case *ast.CompositeLit:
					handleLit(v)
				case *ast.UnaryExpr:
					if inner, ok := v.X.(*ast.CompositeLit); ok {
						handleLit(inner)
					}
				}
				continue
			}
			out[kid.Name] = true
		}
	}
	ast.Inspect(fr.Decl.Body, func(n ast.Node) bool {
		switch x := n.(type) {
		case *ast.ReturnStmt:
			// constructor: return T{...} / &T{...}
			if target == nil && len(x.Results) >= 1 {
				r := ast.Unparen(x.Results[0])
				if u, ok := r.(*ast.UnaryExpr); ok && u.Op == token.AND {
					r = ast.Unparen(u.X)
				}
				if cl, ok := r.(*ast.CompositeLit); ok {
					handleLit(cl)
				}
			}
		case *ast.AssignStmt:
			for i, l := range x.Lhs {
				// v := &T{...} / T{...} / ctor(...)
				if id, ok := l.(*ast.Ident); ok && i < len(x.Rhs) && len(x.Lhs) == len(x.Rhs) {
					o := info.Defs[id]
					if o == nil {
						o = info.Uses[id]
					}
					rhs := ast.Unparen(x.Rhs[i])
					if u, ok := rhs.(*ast.UnaryExpr); ok && u.Op == token.AND {
						rhs = ast.Unparen(u.X)
					}
					if cl, ok := rhs.(*ast.CompositeLit); ok {
						if _, isStruct := derefType(info.TypeOf(cl)).Underlying().(*types.Struct); isStruct && (target == nil || o == target) {
							locals[o] = true
							handleLit(cl)
						}
					}
					if call, ok := rhs.(*ast.CallExpr); ok && target != nil && o == target {
						for k := range c.ctorWrites(Callee(info, call), depth+1) {
							out[k] = true
						}
					}
				}
				// v.f = ...
				if sel, ok := ast.Unparen(l).(*ast.SelectorExpr); ok {
					if id, ok := ast.Unparen(sel.X).(*ast.Ident); ok && locals[info.Uses[id]] {
						if s := info.Selections[sel]; s != nil && s.Kind() == types.FieldVal {
							fv := s.Obj().(*types.Var)
							if fv.Embedded() && isStructValue(fv.Type()) && i < len(x.Rhs) {
								if call, ok := ast.Unparen(x.Rhs[i]).(*ast.CallExpr); ok {
									for k := range c.ctorWrites(Callee(info, call), depth+1) {
										out[k] = true
									}
									continue
								}
							}
							out[sel.Sel.Name] = true
						}
					}
				}
			}
		case *ast.CallExpr:
			// v.SetX(...) style setters of the copy: method calls on the local
			if sel, ok := x.Fun.(*ast.SelectorExpr); ok {
				if id, ok := ast.Unparen(sel.X).(*ast.Ident); ok && locals[info.Uses[id]] {
					if fn := Callee(info, x); fn != nil && depth < 3 {
						if fr2 := c.FuncOpt(relPkg(fn.Pkg().Path()), recvNameOf(fn), fn.Name()); fr2 != nil && len(fr2.Decl.Recv.List[0].Names) > 0 {
							recv := fr2.Pkg.TypesInfo.Defs[fr2.Decl.Recv.List[0].Names[0]]
							c.writesIn(fr2, recv, out, depth+1)
						}
					}
				}
			}
		}
		return true
	})
}

func recvNameOf(fn *types.Func) string {
	sig := fn.Type().(*types.Signature)
	if sig.Recv() == nil {
		return ""
	}
	t := derefType(sig.Recv().Type())
	if n, ok := types.Unalias(t).(*types.Named); ok {
		return n.Obj().Name()
	}
	return ""
}

func runCoverDeepCopy(c *Ctx) {
	var frs []*FuncRef
	c.Funcs("types", func(fr *FuncRef) {
		if fr.Decl.Name.Name != "DeepCopyEnv" || fr.Decl.Recv == nil {
			return
		}
		frs = append(frs, fr)
	})
	sort.Slice(frs, func(i, j int) bool { return FuncName(frs[i].Decl) < FuncName(frs[j].Decl) })
	c.Stats["deepcopy_methods"] = len(frs)
	read := c.fieldsReadInModule("types")
	for _, fr := range frs {
		info := fr.Pkg.TypesInfo
		sig := fr.Obj.Type().(*types.Signature)
		if sig.Results().Len() != 1 {
			continue
		}
		rt := derefType(sig.Results().At(0).Type())
		if _, isStruct := rt.Underlying().(*types.Struct); !isStruct {
			continue
		}
		if !types.Identical(rt, derefType(sig.Recv().Type())) {
			continue
		}
		// the copy: the local returned by the last return statement
		var copyVar types.Object
		var lastRet *ast.ReturnStmt
		for _, st := range fr.Decl.Body.List {
			if r, ok := st.(*ast.ReturnStmt); ok {
				lastRet = r
			}
		}
		written := map[string]bool{}
		if lastRet != nil && len(lastRet.Results) == 1 {
			switch r := ast.Unparen(lastRet.Results[0]).(type) {
			case *ast.Ident:
				copyVar = info.Uses[r]
			case *ast.UnaryExpr:
				if cl, ok := r.X.(*ast.CompositeLit); ok {
					_ = cl
				}
			}
		}
		tname := recvTypeName(fr.Decl)
		if copyVar == nil {
			// returns a literal or the receiver itself (immutable leaf types)
			c.Stats["deepcopy_methods_without_copy_variable"]++
			continue
		}
		c.writesIn(fr, copyVar, written, 0)
		seenName := map[string]bool{}
		for _, f := range flattenFields(rt, map[types.Type]bool{}) {
			if seenName[f.Name()] {
				continue // shadowed by an outer field of the same name
			}
			seenName[f.Name()] = true
			key := tname + "." + f.Name()
			if reason, ok := deepCopyFieldExempt[key]; ok {
				c.OK(key, fr.Decl.Pos(), "reasoned exception: %s", reason)
				continue
			}
			if !read[f.Origin()] {
				c.OK(key, fr.Decl.Pos(), "no expression in the module reads this field")
				c.Stats["deepcopy_fields_never_read"]++
				continue
			}
			if f.Name() == "Children" && !written["Children"] {
				c.Check(copyRegistersChild(fr, copyVar), key, fr.Decl.Pos(), "%s.DeepCopyEnv stores the copy's parent without registering the copy in the parent's Children set (registerAsChild): the compiler binds calls statically on classes whose Children set is empty", tname)
				continue
			}
			c.Check(written[f.Name()], key, fr.Decl.Pos(), "%s.DeepCopyEnv never writes field %s of the copy: after a rejected REPL input the restored environment has it at its zero value", tname, f.Name())
		}
	}
}
