package main

import (
	"go/ast"
	"go/token"
	"go/types"
	"strings"
)

// path/abort-before-jump (C33): besides the back edge at the end of a loop
// body there are two more ways to go round without passing that check:
// `continue`, which jumps to the loop's start (or the tail of its body)
// directly, and a tail call, which replaces the current frame and never
// reaches the check in front of the return. Both have to carry a cancellation
// point of their own when abort checks are requested.

func init() {
	register(&Rule{
		ID:    "path/abort-before-jump",
		Text:  "the compiler function that registers the jump of a `continue` (a loop jump of kind continue / continue-through-finally) reaches the `if c.additionalAbortChecks { emit CHECK_ABORT }` guard before it on every path; and every function that emits a tail-call opcode or builds a call-site record with a tail-call flag that is not the constant false is either the function holding the guard `if tailCall && c.additionalAbortChecks { emit CHECK_ABORT }` or is only called, with such a flag, from functions for which the same holds",
		Floor: 3,
		Run:   runAbortBeforeJump,
	})
}

var abortJumpExempt = map[string]string{
	"BytecodeCompiler.patchOptimisedCall": "rewrites, in place, a call instruction that compileOptimisedCallMethod emitted (behind the guard of compileCallMethod) into its statically bound form; the tail-call flag is the one recorded for that call, no new call is emitted",
}

func runAbortBeforeJump(c *Ctx) {
	p := c.Pkg("compiler")
	info := p.TypesInfo
	byObj := map[*types.Func]*FuncRef{}
	c.Funcs("compiler", func(fr *FuncRef) {
		if recvTypeName(fr.Decl) == "BytecodeCompiler" {
			byObj[fr.Obj] = fr
		}
	})
	emitsCheck := func(n ast.Node) bool {
		f := false
		ast.Inspect(n, func(x ast.Node) bool {
			if call, ok := x.(*ast.CallExpr); ok && len(call.Args) >= 2 && constName(info, call.Args[1]) == "CHECK_ABORT" {
				f = true
			}
			return true
		})
		return f
	}
	mentionsFlag := func(e ast.Expr) bool {
		f := false
		ast.Inspect(e, func(x ast.Node) bool {
			if sel, ok := x.(*ast.SelectorExpr); ok && sel.Sel.Name == "additionalAbortChecks" {
				f = true
			}
			return true
		})
		return f
	}
	// (a) continue
	nCont := 0
	for _, fr := range byObj {
		var first token.Pos
		ast.Inspect(fr.Decl.Body, func(n ast.Node) bool {
			if id, ok := n.(*ast.Ident); ok {
				if k, ok := info.Uses[id].(*types.Const); ok && strings.HasPrefix(k.Name(), "bytecodeContinue") && strings.HasSuffix(k.Name(), "LoopJump") {
					// only registrations (arguments of a call), not the switch in the patcher
					if first == token.NoPos || id.Pos() < first {
						first = id.Pos()
					}
				}
			}
			return true
		})
		if first == token.NoPos {
			continue
		}
		// is the constant used as a call argument here (registration)?
		registers := false
		ast.Inspect(fr.Decl.Body, func(n ast.Node) bool {
			if call, ok := n.(*ast.CallExpr); ok {
				for _, a := range call.Args {
					if id, ok := ast.Unparen(a).(*ast.Ident); ok {
						if k, ok := info.Uses[id].(*types.Const); ok && strings.HasPrefix(k.Name(), "bytecodeContinue") {
							registers = true
						}
					}
				}
			}
			return true
		})
		if !registers {
			continue
		}
		nCont++
		guarded := false
		for _, st := range fr.Decl.Body.List {
			if st.Pos() >= first {
				break
			}
			if ifs, ok := st.(*ast.IfStmt); ok && ifs.Else == nil && mentionsFlag(ifs.Cond) && emitsCheck(ifs.Body) {
				if sel, ok := ast.Unparen(ifs.Cond).(*ast.SelectorExpr); ok && sel.Sel.Name == "additionalAbortChecks" {
					guarded = true
				}
			}
		}
		c.Check(guarded, FuncName(fr.Decl)+"/continue", first, "%s registers the jump of a `continue` without emitting CHECK_ABORT under additionalAbortChecks first: a loop whose body always ends in `continue` never passes the check at the end of the body and cannot be cancelled", FuncName(fr.Decl))
	}
	if nCont == 0 {
		c.Stale("compiler: a BytecodeCompiler method registering a bytecodeContinue*LoopJump")
	}

	// (b) tail calls
	// G: functions with a top-level guard mentioning a bool parameter and the flag
	guardFn := map[*types.Func]bool{}
	for fn, fr := range byObj {
		params := map[types.Object]bool{}
		if fr.Decl.Type.Params != nil {
			for _, f := range fr.Decl.Type.Params.List {
				if b, ok := info.TypeOf(f.Type).Underlying().(*types.Basic); ok && b.Kind() == types.Bool {
					for _, n := range f.Names {
						params[info.Defs[n]] = true
					}
				}
			}
		}
		for _, st := range fr.Decl.Body.List {
			ifs, ok := st.(*ast.IfStmt)
			if !ok || !mentionsFlag(ifs.Cond) || !emitsCheck(ifs.Body) {
				continue
			}
			usesParam := false
			ast.Inspect(ifs.Cond, func(x ast.Node) bool {
				if id, ok := x.(*ast.Ident); ok && params[info.Uses[id]] {
					usesParam = true
				}
				return true
			})
			if ifs.Init != nil {
				ast.Inspect(ifs.Init, func(x ast.Node) bool { return true })
			}
			if usesParam {
				guardFn[fn] = true
			}
		}
	}
	// emitters
	isTailEmitter := func(fr *FuncRef) (bool, token.Pos) {
		var at token.Pos
		ast.Inspect(fr.Decl.Body, func(n ast.Node) bool {
			switch x := n.(type) {
			case *ast.SelectorExpr:
				if k, ok := info.Uses[x.Sel].(*types.Const); ok && strings.HasPrefix(k.Name(), "CALL_METHOD_TCO") {
					at = x.Pos()
				}
			case *ast.CallExpr:
				if fn := Callee(info, x); fn != nil && fn.Name() == "NewBytecodeCallSiteInfo" && len(x.Args) == 3 {
					if tv, ok := info.Types[x.Args[2]]; !(ok && tv.Value != nil && tv.Value.String() == "false") {
						at = x.Pos()
					}
				}
			}
			return true
		})
		return at != token.NoPos, at
	}
	// callers passing a possibly-true bool to a callee
	type edge struct {
		caller *types.Func
		pos    token.Pos
	}
	callers := map[*types.Func][]edge{}
	for fn, fr := range byObj {
		ast.Inspect(fr.Decl.Body, func(n ast.Node) bool {
			call, ok := n.(*ast.CallExpr)
			if !ok {
				return true
			}
			cal := Callee(info, call)
			if cal == nil || byObj[cal.Origin()] == nil {
				return true
			}
			// does the call pass a bool argument that may be true?
			mayTrue := false
			sig := cal.Type().(*types.Signature)
			for i, a := range call.Args {
				if i >= sig.Params().Len() {
					break
				}
				if b, ok := sig.Params().At(i).Type().Underlying().(*types.Basic); ok && b.Kind() == types.Bool && strings.Contains(strings.ToLower(sig.Params().At(i).Name()), "tail") {
					if tv, ok := info.Types[a]; !(ok && tv.Value != nil && tv.Value.String() == "false") {
						mayTrue = true
					}
				}
			}
			if mayTrue {
				callers[cal.Origin()] = append(callers[cal.Origin()], edge{fn, call.Pos()})
			}
			return true
		})
	}
	var safe func(fn *types.Func, seen map[*types.Func]bool) bool
	safe = func(fn *types.Func, seen map[*types.Func]bool) bool {
		if guardFn[fn] {
			return true
		}
		if seen[fn] {
			return true
		}
		seen[fn] = true
		es := callers[fn]
		if len(es) == 0 {
			return false // emits a tail call on its own authority, without the guard
		}
		for _, e := range es {
			if !safe(e.caller, seen) {
				return false
			}
		}
		return true
	}
	nEmit := 0
	for fn, fr := range byObj {
		is, at := isTailEmitter(fr)
		if !is {
			continue
		}
		nEmit++
		if reason, ok := abortJumpExempt[FuncName(fr.Decl)]; ok {
			c.OK(FuncName(fr.Decl)+"/tail-call", at, "reasoned exception: %s", reason)
			continue
		}
		c.Check(safe(fn, map[*types.Func]bool{}),FuncName(fr.Decl)+"/tail-call", at, "%s emits a tail call (or a call-site record with a tail-call flag) and can be reached with that flag set without passing a function that emits CHECK_ABORT under `tailCall && additionalAbortChecks`: a method that calls itself in tail position replaces its frame forever and never reaches the check in front of a return", FuncName(fr.Decl))
	}
	if nEmit == 0 {
		c.Stale("compiler: BytecodeCompiler methods emitting CALL_METHOD_TCO* or building tail-call call sites")
	}
	c.Stats["tail_call_emitters"] = nEmit
}
