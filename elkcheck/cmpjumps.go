package main

import (
	"go/ast"
	"go/types"
	"strings"
)

// ops/cmp-jump-both-types (C08, C14): the compiler replaces a comparison in a
// condition by a jump specialised for Int. Two of its shortcuts are only
// meaning-preserving when *both* operand types are known: jumping on the
// negated comparison (`unless a > b` as "jump unless a <= b") differs from
// the original when one operand can be NaN, and swapping the operands to get
// the Int in front (`v < 5` as `5 > v`) replaces the left operand's own
// operator - a user-defined `<` is never called.

func init() {
	register(&Rule{
		ID:    "ops/cmp-jump-both-types",
		Text:  "in the compiler's comparison-jump optimisers (functions returning an opcode and an operand-emitting closure), every branch that emits the operands swapped, and every branch that answers a JUMP_IF condition with a JUMP_UNLESS_* opcode (the negated comparison), is taken under a condition that tests the static types of both operands",
		Floor: 8,
		Run:   runCmpJumpBothTypes,
	})
}

func runCmpJumpBothTypes(c *Ctx) {
	p := c.Pkg("compiler")
	info := p.TypesInfo
	c.Funcs("compiler", func(fr *FuncRef) {
		if recvTypeName(fr.Decl) != "BytecodeCompiler" {
			return
		}
		sig := fr.Obj.Type().(*types.Signature)
		if sig.Results().Len() != 2 || !strings.HasSuffix(NamedOf(sig.Results().At(0).Type()), "bytecode.OpCode") {
			return
		}
		if _, ok := sig.Results().At(1).Type().Underlying().(*types.Signature); !ok {
			return
		}
		n := 0
		var stack []ast.Node
		ast.Inspect(fr.Decl.Body, func(nd ast.Node) bool {
			if nd == nil {
				stack = stack[:len(stack)-1]
				return true
			}
			stack = append(stack, nd)
			ret, ok := nd.(*ast.ReturnStmt)
			if !ok || len(ret.Results) != 2 {
				return true
			}
			op := types.ExprString(ret.Results[0])
			swapped := false
			ast.Inspect(ret.Results[1], func(m ast.Node) bool {
				if call, ok := m.(*ast.CallExpr); ok {
					if fn := Callee(info, call); fn != nil && fn.Name() == "compileOperandsSwapped" {
						swapped = true
					}
				}
				return true
			})
			// enclosing conditions
			underJumpIf := false
			var conds []string
			for i := len(stack) - 2; i >= 0; i-- {
				if ifs, ok := stack[i].(*ast.IfStmt); ok {
					txt := types.ExprString(ifs.Cond)
					conds = append(conds, txt)
					if strings.Contains(txt, "jumpOp == bytecode.JUMP_IF") && !strings.Contains(txt, "JUMP_IF_") {
						underJumpIf = true
					}
				}
			}
			// == and != are exact complements of each other (also for NaN); only the
			// relational operators have a negation that is not their complement
			relational := strings.HasSuffix(op, "_ILT") || strings.HasSuffix(op, "_ILE") || strings.HasSuffix(op, "_IGT") || strings.HasSuffix(op, "_IGE")
			negated := underJumpIf && strings.Contains(op, "JUMP_UNLESS_") && relational
			if !swapped && !negated {
				return true
			}
			n++
			what := "swapped operands"
			if negated {
				what = "negated comparison " + op
			}
			key := FuncName(fr.Decl) + "/" + what + "#" + itoa(n)
			both := false
			for _, txt := range conds {
				if strings.Contains(txt, "leftType") && strings.Contains(txt, "rightType") {
					both = true
				}
			}
			c.Check(both, key, ret.Pos(), "%s takes the shortcut `%s` under a condition that tests the static type of one operand only: with the other operand unconstrained the shortcut changes the meaning of the condition (a NaN makes a comparison and its negation both false; swapping the operands bypasses a user-defined operator of the left operand)", FuncName(fr.Decl), what)
			return true
		})
	})
}
