package main

import (
	"go/ast"
	"go/types"
)

// trace/builder-fresh (C32): the thread caches the stack trace of the last
// error that stopped a nested run (errStackTrace); GetStackTrace hands out
// that cache when it is set, and nothing clears it when the error is handled.
// A function that *builds* a trace for a new throw - the frames of the thread
// as they are now - must not start from the cache: the report would begin
// with the frames and lines of an earlier, already handled error.

func init() {
	register(&Rule{
		ID:    "trace/builder-fresh",
		Text:  "in package vm, a function that builds a stack trace (returns *value.StackTrace and assembles call frame objects itself: ToCallFrameObject / makeCallFrameObject) neither reads the thread's cached errStackTrace nor calls an accessor that returns it (GetStackTrace, CaptureStackTrace)",
		Floor: 2,
		Run:   runTraceBuilderFresh,
	})
}

func runTraceBuilderFresh(c *Ctx) {
	p := c.Pkg("vm")
	info := p.TypesInfo
	// accessors of the cache: functions that return the errStackTrace field
	cacheReaders := map[*types.Func]bool{}
	readsCache := func(body *ast.BlockStmt) bool {
		found := false
		ast.Inspect(body, func(n ast.Node) bool {
			if sel, ok := n.(*ast.SelectorExpr); ok && sel.Sel.Name == "errStackTrace" {
				if s := info.Selections[sel]; s != nil && s.Kind() == types.FieldVal {
					found = true
				}
			}
			return true
		})
		return found
	}
	c.Funcs("vm", func(fr *FuncRef) {
		if readsCache(fr.Decl.Body) {
			cacheReaders[fr.Obj] = true
		}
	})
	c.Funcs("vm", func(fr *FuncRef) {
		sig := fr.Obj.Type().(*types.Signature)
		if sig.Results().Len() != 1 {
			return
		}
		pt, ok := sig.Results().At(0).Type().(*types.Pointer)
		if !ok || NamedOf(pt.Elem()) != "value.StackTrace" {
			return
		}
		assembles := false
		var viaCache ast.Node
		ast.Inspect(fr.Decl.Body, func(n ast.Node) bool {
			call, ok := n.(*ast.CallExpr)
			if !ok {
				return true
			}
			fn := Callee(info, call)
			if fn == nil {
				return true
			}
			switch fn.Name() {
			case "ToCallFrameObject", "makeCallFrameObject":
				assembles = true
			}
			if cacheReaders[fn.Origin()] && viaCache == nil {
				viaCache = call
			}
			return true
		})
		// wrappers that delegate the assembling to a builder and add frames to its result
		if !assembles {
			delegates := false
			ast.Inspect(fr.Decl.Body, func(n ast.Node) bool {
				if call, ok := n.(*ast.CallExpr); ok {
					if id, ok := call.Fun.(*ast.Ident); ok && id.Name == "append" {
						delegates = true
					}
				}
				return true
			})
			if !delegates {
				return
			}
		}
		if cacheReaders[fr.Obj] && !assembles {
			return // an accessor of the cache itself
		}
		key := FuncName(fr.Decl)
		direct := readsCache(fr.Decl.Body)
		if direct && assembles {
			c.Bad(key, fr.Decl.Pos(), "%s assembles a stack trace and reads the thread's cached errStackTrace: the trace of an earlier error that was already handled can end up in the report of a new one", key)
			return
		}
		if viaCache != nil {
			c.Bad(key, viaCache.Pos(), "%s builds the stack trace of a new throw from an accessor that returns the thread's cached errStackTrace when one is set; the cache is not cleared when an error is handled, so after a handled error (a generator run to completion, a caught error from a native callback) the report starts with that earlier error's frames and lines", key)
			return
		}
		c.OK(key, fr.Decl.Pos(), "builds from the current frames only")
	})
}
