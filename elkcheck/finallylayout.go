package main

import (
	"go/ast"
	"go/token"
	"go/types"
	"strings"
)

// layout/finally-entry (C14): `break`/`continue` through a `finally` enter the
// finally block at a fixed distance behind the address recorded in its catch
// entry (the VM adds a constant to JumpAddress to skip the return entry: NIL,
// JUMP, two offset bytes). That constant is written in the VM; the
// instructions it skips are written in the compiler. Likewise the two
// searches over the catch entries (for a handler when an error is thrown, for
// a finally when control leaves a protected region) must use the same range
// test, or a region is protected for errors but not for break/return.

func init() {
	register(&Rule{
		ID:    "layout/finally-entry",
		Text:  "the constant the VM adds to a finally entry's JumpAddress for break/continue equals the number of bytes the compiler emits between recording that address (the offset passed to registerCatch with finally=true) and the entry point it emits right after the first jump (opcode = 1 byte, emitJump = 3 bytes); and the handler search and the finally search compare the instruction offset with From and To using the same operators",
		Floor: 3,
		Run:   runFinallyLayout,
	})
}

func runFinallyLayout(c *Ctx) {
	vp := c.Pkg("vm")
	vinfo := vp.TypesInfo
	// 1. VM constant
	var kvm int64 = -1
	var kpos token.Pos
	c.Funcs("vm", func(fr *FuncRef) {
		ast.Inspect(fr.Decl.Body, func(n ast.Node) bool {
			be, ok := n.(*ast.BinaryExpr)
			if !ok || be.Op != token.ADD {
				return true
			}
			if sel, ok := ast.Unparen(be.X).(*ast.SelectorExpr); ok && sel.Sel.Name == "JumpAddress" {
				if k, ok := ConstInt(vinfo, be.Y); ok {
					kvm, kpos = k, be.Pos()
				}
			}
			return true
		})
	})
	if kvm < 0 {
		c.Stale("vm: expression <catch entry>.JumpAddress + constant")
	}
	// 2. compiler bytes
	cp := c.Pkg("compiler")
	cinfo := cp.TypesInfo
	found := false
	c.Funcs("compiler", func(fr *FuncRef) {
		if recvTypeName(fr.Decl) != "BytecodeCompiler" {
			return
		}
		ast.Inspect(fr.Decl.Body, func(n ast.Node) bool {
			blk, ok := n.(*ast.BlockStmt)
			if !ok {
				return true
			}
			for i, st := range blk.List {
				// finallyEntryOffset := c.nextInstructionOffset()
				as, ok := st.(*ast.AssignStmt)
				if !ok || as.Tok != token.DEFINE || len(as.Lhs) != 1 || len(as.Rhs) != 1 {
					continue
				}
				rc, ok := ast.Unparen(as.Rhs[0]).(*ast.CallExpr)
				if !ok {
					continue
				}
				if fn := Callee(cinfo, rc); fn == nil || fn.Name() != "nextInstructionOffset" {
					continue
				}
				obj := cinfo.Defs[as.Lhs[0].(*ast.Ident)]
				// used as third argument of registerCatch(..., true)?
				isFinallyEntry := false
				ast.Inspect(blk, func(m ast.Node) bool {
					if call, ok := m.(*ast.CallExpr); ok && len(call.Args) == 4 {
						if fn := Callee(cinfo, call); fn != nil && fn.Name() == "registerCatch" {
							if id, ok := ast.Unparen(call.Args[2]).(*ast.Ident); ok && cinfo.Uses[id] == obj {
								if lit, ok := ast.Unparen(call.Args[3]).(*ast.Ident); ok && lit.Name == "true" {
									isFinallyEntry = true
								}
							}
						}
					}
					return true
				})
				if !isFinallyEntry {
					continue
				}
				found = true
				// sum bytes of straight-line emissions after the definition until
				// the first emission that follows the first emitJump
				bytes := int64(0)
				seenJump := false
				done := false
				for _, s2 := range blk.List[i+1:] {
					if done {
						break
					}
					var call *ast.CallExpr
					switch x := s2.(type) {
					case *ast.ExprStmt:
						call, _ = x.X.(*ast.CallExpr)
					case *ast.AssignStmt:
						if len(x.Rhs) == 1 {
							call, _ = ast.Unparen(x.Rhs[0]).(*ast.CallExpr)
						}
					}
					if call == nil {
						continue
					}
					fn := Callee(cinfo, call)
					if fn == nil {
						continue
					}
					switch fn.Name() {
					case "emit":
						if seenJump {
							done = true
							continue
						}
						bytes += int64(1 + len(call.Args) - 2)
					case "emitJump":
						bytes += 3
						seenJump = true
					case "registerCatch":
					default:
						// any other emitting helper in between makes the sum unknown
						if strings.HasPrefix(fn.Name(), "emit") || strings.HasPrefix(fn.Name(), "compile") {
							bytes = -1000
						}
					}
				}
				c.Check(done && bytes == kvm, "break-continue-entry", kpos, "the VM enters a finally block for break/continue at JumpAddress + %d, but the compiler emits %d byte(s) between the recorded address and the break/continue entry point (%s): the VM lands in the middle of an instruction or on the return entry", kvm, bytes, c.Pos(as.Pos()))
			}
			return true
		})
	})
	if !found {
		c.Stale("compiler: offset recorded with nextInstructionOffset() and passed to registerCatch(.., true)")
	}
	// 3. range tests
	tests := map[string]string{}
	var order []string
	c.Funcs("vm", func(fr *FuncRef) {
		if recvTypeName(fr.Decl) != "Thread" {
			return
		}
		ast.Inspect(fr.Decl.Body, func(n ast.Node) bool {
			be, ok := n.(*ast.BinaryExpr)
			if !ok || be.Op != token.LAND {
				return true
			}
			txt := types.ExprString(be)
			if strings.Contains(txt, ".From") && strings.Contains(txt, ".To") && !strings.Contains(txt, "||") {
				// normalise: drop the Finally conjunct and the variable names
				var parts []string
				var collect func(e ast.Expr)
				collect = func(e ast.Expr) {
					e = ast.Unparen(e)
					if b, ok := e.(*ast.BinaryExpr); ok && b.Op == token.LAND {
						collect(b.X)
						collect(b.Y)
						return
					}
					if b, ok := e.(*ast.BinaryExpr); ok {
						if sel, ok := ast.Unparen(b.Y).(*ast.SelectorExpr); ok && (sel.Sel.Name == "From" || sel.Sel.Name == "To") {
							parts = append(parts, b.Op.String()+" "+sel.Sel.Name)
						}
					}
				}
				collect(be)
				if len(parts) == 2 {
					name := FuncName(fr.Decl)
					if _, seen := tests[name]; !seen {
						order = append(order, name)
					}
					tests[name] = strings.Join(parts, ", ")
				}
			}
			return true
		})
	})
	if len(tests) < 1 {
		// the containment test is no longer written as one conjunction; rule
		// catch/table-scan-complete still decides the scan, nothing to compare here
		c.OKTrivial("range-test/none", vp.Syntax[0].Pos(), "no function tests From and To in one conjunction; nothing to compare")
		return
	}
	ref := tests[order[0]]
	for _, name := range order {
		c.Check(tests[name] == ref, "range-test/"+name, vp.Syntax[0].Pos(), "%s tests the instruction offset against a catch entry with (%s) while %s uses (%s): an instruction at the edge of a protected region is covered for one kind of exit and not for the other", name, tests[name], order[0], ref)
	}
}
