package main

import (
	"go/ast"
	"go/types"
	"sort"
	"strings"
)

// native/recvcast (C28, C01): a native method is a Go closure stored in the
// method table of one class; it converts its receiver (args[0]) to the Go type
// that implements that class. If the closure is stored in the table of another
// class - a copy-pasted `c := &value.XClass.MethodContainer` - every call on
// an X panics in the type assertion, and the class the closure was meant for
// has no such method at all.

func init() {
	register(&Rule{
		ID:    "native/recvcast",
		Text:  "for every native method registered in the method table of a class, each conversion of the receiver args[0] to a concrete Go type (a type assertion on its reference, or a pointer cast) names a Go type whose Class() method returns that class, a class it inherits from, or a class that inherits from it",
		Floor: 1500,
		Run:   runNativeRecvCast,
	})
}

// classesOfGoTypes maps "pkg.Type" to the Elk classes its Class() method can
// return ("?" when a return is not a named class object).
func classesOfGoTypes(c *Ctx, names map[types.Object]string) map[string][]string {
	out := map[string][]string{}
	for _, p := range c.Pkgs {
		rel := relPkg(p.PkgPath)
		pinfo := p.TypesInfo
		c.Funcs(rel, func(fr *FuncRef) {
			if fr.Decl.Recv == nil || fr.Decl.Name.Name != "Class" || fr.Decl.Type.Params.NumFields() != 0 {
				return
			}
			if fr.Decl.Type.Results.NumFields() != 1 || NamedOf(pinfo.TypeOf(fr.Decl.Type.Results.List[0].Type)) != "value.Class" {
				return
			}
			tname := rel + "." + recvTypeName(fr.Decl)
			set := map[string]bool{}
			ast.Inspect(fr.Decl.Body, func(n ast.Node) bool {
				if ret, ok := n.(*ast.ReturnStmt); ok && len(ret.Results) == 1 {
					if o := exprObj(pinfo, ret.Results[0]); o != nil {
						if en, ok := names[o]; ok {
							set[en] = true
							return true
						}
					}
					set["?"] = true
				}
				return true
			})
			var l []string
			for k := range set {
				l = append(l, k)
			}
			sort.Strings(l)
			out[tname] = l
		})
	}
	return out
}

// runtimeHierarchy: include and superclass edges of the bootstrap code.
func runtimeHierarchy(c *Ctx, names map[types.Object]string) func(from, to string) bool {
	edges := map[string]map[string]bool{}
	addEdge := func(a, b string) {
		if edges[a] == nil {
			edges[a] = map[string]bool{}
		}
		edges[a][b] = true
	}
	for _, p := range c.Pkgs {
		pinfo := p.TypesInfo
		for _, f := range p.Syntax {
			ast.Inspect(f, func(n ast.Node) bool {
				switch x := n.(type) {
				case *ast.CallExpr:
					sel, ok := x.Fun.(*ast.SelectorExpr)
					if !ok || sel.Sel.Name != "IncludeMixin" || len(x.Args) != 1 {
						return true
					}
					a, b := exprObj(pinfo, sel.X), exprObj(pinfo, x.Args[0])
					if a != nil && b != nil {
						if an, ok := names[a]; ok {
							if bn, ok := names[b]; ok {
								addEdge(an, bn)
							}
						}
					}
				case *ast.AssignStmt:
					if len(x.Lhs) != 1 || len(x.Rhs) != 1 {
						return true
					}
					o := exprObj(pinfo, x.Lhs[0])
					if o == nil {
						return true
					}
					ast.Inspect(x.Rhs[0], func(m ast.Node) bool {
						call, ok := m.(*ast.CallExpr)
						if !ok || len(call.Args) != 1 {
							return true
						}
						if fn := Callee(pinfo, call); fn != nil && fn.Name() == "ClassWithSuperclass" {
							if po := exprObj(pinfo, call.Args[0]); po != nil {
								if on, ok := names[o]; ok {
									if pn, ok := names[po]; ok {
										addEdge(on, pn)
									}
								}
							}
						}
						return true
					})
				}
				return true
			})
		}
	}
	return func(from, to string) bool {
		if from == to {
			return true
		}
		seen := map[string]bool{from: true}
		q := []string{from}
		for len(q) > 0 {
			n := q[0]
			q = q[1:]
			for m := range edges[n] {
				if m == to {
					return true
				}
				if !seen[m] {
					seen[m] = true
					q = append(q, m)
				}
			}
		}
		return false
	}
}

func runNativeRecvCast(c *Ctx) {
	h := c.parseHeaders()
	nt := c.parseNatives()
	names := nt.ElkName
	isA := runtimeHierarchy(c, names)
	classOfType := classesOfGoTypes(c, names)
	nCasts := 0
	seen := map[string]int{}
	for _, nd := range nt.Defs {
		if nd.Func == nil || nd.Singleton || !strings.HasPrefix(nd.NS, "Std") {
			continue
		}
		if k := h.Kind[nd.NS]; k != "class" {
			continue // natives of mixins and modules run on instances of many classes
		}
		info := nd.Pkg.Info
		if nd.Func.Type.Params == nil || len(nd.Func.Type.Params.List) < 2 {
			continue
		}
		last := nd.Func.Type.Params.List[len(nd.Func.Type.Params.List)-1]
		if len(last.Names) == 0 {
			continue
		}
		argsObj := info.Defs[last.Names[len(last.Names)-1]]
		isArg0 := func(e ast.Expr) bool {
			// args[0].X() or args[0]
			e = ast.Unparen(e)
			if call, ok := e.(*ast.CallExpr); ok && len(call.Args) == 0 {
				if sel, ok := call.Fun.(*ast.SelectorExpr); ok {
					e = ast.Unparen(sel.X)
				}
			}
			ix, ok := e.(*ast.IndexExpr)
			if !ok {
				return false
			}
			id, ok := ast.Unparen(ix.X).(*ast.Ident)
			if !ok || info.Uses[id] != argsObj {
				return false
			}
			v, ok := ConstInt(info, ix.Index)
			return ok && v == 0
		}
		var casts []types.Type
		var castPos []ast.Node
		ast.Inspect(nd.Func.Body, func(n ast.Node) bool {
			switch x := n.(type) {
			case *ast.FuncLit:
				return false
			case *ast.TypeAssertExpr:
				if x.Type != nil && isArg0(x.X) {
					casts = append(casts, info.TypeOf(x.Type))
					castPos = append(castPos, x)
				}
			case *ast.CallExpr:
				// (*T)(args[0].Pointer())
				if tv, ok := info.Types[x.Fun]; ok && tv.IsType() && len(x.Args) == 1 && isArg0(x.Args[0]) {
					casts = append(casts, tv.Type)
					castPos = append(castPos, x)
				}
			}
			return true
		})
		for i, t := range casts {
			if _, isIface := t.Underlying().(*types.Interface); isIface {
				continue
			}
			n := NamedOf(t)
			if j := strings.Index(n, "["); j > 0 {
				n = n[:j]
			}
			cl := classOfType[n]
			if len(cl) == 0 {
				continue
			}
			unknown := false
			for _, k := range cl {
				if k == "?" {
					unknown = true
				}
			}
			if unknown {
				continue
			}
			nCasts++
			ok := false
			for _, k := range cl {
				if isA(k, nd.NS) || isA(nd.NS, k) {
					ok = true
				}
			}
			seen[nd.ID()]++
			key := nd.ID()
			if seen[nd.ID()] > 1 {
				key += "#" + itoa(seen[nd.ID()])
			}
			c.Check(ok, key, castPos[i].Pos(), "the native registered at %s is stored in the method table of %s but converts its receiver to the Go type %s, whose class is %s: every call of %s on a value of that class panics in the conversion, and %s itself does not get the method", c.Pos(nd.Call.Pos()), nd.NS, n, strings.Join(cl, " / "), nd.ID(), strings.Join(cl, " / "))
		}
	}
	c.Stats["receiver_conversions_checked"] = nCasts
}

// ast/class-unique (C28): every syntax-tree node type of package parser/ast is
// its own Elk class. Two node types whose Class() methods return the same
// class object means one of them was copied and not adjusted: the node
// reports, and is dispatched as, the other type.
func init() {
	register(&Rule{
		ID:    "ast/class-unique",
		Text:  "no two types of package parser/ast return the same class object from their Class() method, and Class() and DirectClass() of one type return the same object",
		Floor: 200,
		Run:   runASTClassUnique,
	})
}

func runASTClassUnique(c *Ctx) {
	p := c.Pkg("parser/ast")
	info := p.TypesInfo
	type entry struct {
		typ string
		pos ast.Node
	}
	byClass := map[types.Object][]entry{}
	direct := map[string]types.Object{}
	class := map[string]types.Object{}
	var order []string
	c.Funcs("parser/ast", func(fr *FuncRef) {
		if fr.Decl.Recv == nil || fr.Decl.Type.Params.NumFields() != 0 {
			return
		}
		name := fr.Decl.Name.Name
		if name != "Class" && name != "DirectClass" {
			return
		}
		var ret types.Object
		n := 0
		ast.Inspect(fr.Decl.Body, func(x ast.Node) bool {
			if r, ok := x.(*ast.ReturnStmt); ok && len(r.Results) == 1 {
				n++
				ret = exprObj(info, r.Results[0])
			}
			return true
		})
		if n != 1 || ret == nil {
			return
		}
		if _, isNil := ret.(*types.Nil); isNil {
			return // embedded bases without a class of their own
		}
		t := recvTypeName(fr.Decl)
		if name == "Class" {
			class[t] = ret
			byClass[ret] = append(byClass[ret], entry{t, fr.Decl})
			order = append(order, t)
		} else {
			direct[t] = ret
		}
	})
	sort.Strings(order)
	for _, t := range order {
		cl := class[t]
		shared := ""
		for _, e := range byClass[cl] {
			if e.typ != t {
				shared = e.typ
			}
		}
		ok := shared == ""
		why := ""
		if !ok {
			why = "the same class object as " + shared
		}
		if d, has := direct[t]; has && d != cl {
			ok = false
			why = "a different object than its DirectClass()"
		}
		var pos ast.Node
		for _, e := range byClass[cl] {
			if e.typ == t {
				pos = e.pos
			}
		}
		c.Check(ok, t, pos.Pos(), "%s.Class() returns %s (%s): the node reports another node type's class and is dispatched to that type's native methods, which panic converting the receiver", t, cl.Name(), why)
	}
}
