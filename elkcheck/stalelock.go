package main

import (
	"go/ast"
	"go/token"
	"go/types"
)

// lock/no-stale-across-release (C26, C11): what a thread has read from the
// symbol tables is only true while it holds the lock. A value computed from
// the tables in one critical section (the next free id: the length of the id
// table) and used in a later one - after the lock was released and taken
// again - describes a table another thread may have changed in between: two
// threads interning two new names both read the same length and both use it
// as the id, so two names share one symbol.

func init() {
	register(&Rule{
		ID:    "lock/no-stale-across-release",
		Text:  "in the methods of the symbol table, a variable assigned from an expression that reads the protected tables is not used after the lock under which it was assigned has been released (a non-deferred Unlock/RUnlock) and a lock has been taken again; returning it is allowed",
		Floor: 3,
		Run:   runNoStaleAcrossRelease,
	})
}

func runNoStaleAcrossRelease(c *Ctx) {
	p := c.Pkg("value")
	info := p.TypesInfo
	protected := map[string]bool{"idTable": true, "nameTable": true}
	c.Funcs("value", func(fr *FuncRef) {
		if recvTypeName(fr.Decl) != "SymbolTableStruct" {
			return
		}
		// lock events in source order (deferred calls excluded)
		type ev struct {
			pos  token.Pos
			kind string // "lock" or "unlock"
		}
		var evs []ev
		deferred := map[*ast.CallExpr]bool{}
		ast.Inspect(fr.Decl.Body, func(n ast.Node) bool {
			if d, ok := n.(*ast.DeferStmt); ok {
				deferred[d.Call] = true
			}
			return true
		})
		ast.Inspect(fr.Decl.Body, func(n ast.Node) bool {
			call, ok := n.(*ast.CallExpr)
			if !ok || deferred[call] {
				return true
			}
			sel, ok := call.Fun.(*ast.SelectorExpr)
			if !ok {
				return true
			}
			switch sel.Sel.Name {
			case "Lock", "RLock":
				evs = append(evs, ev{call.Pos(), "lock"})
			case "Unlock", "RUnlock":
				evs = append(evs, ev{call.Pos(), "unlock"})
			}
			return true
		})
		readsTables := func(e ast.Expr) bool {
			found := false
			ast.Inspect(e, func(n ast.Node) bool {
				if sel, ok := n.(*ast.SelectorExpr); ok && protected[sel.Sel.Name] {
					found = true
				}
				return true
			})
			return found
		}
		// variables assigned from the tables
		type asg struct {
			obj types.Object
			pos token.Pos
		}
		var asgs []asg
		ast.Inspect(fr.Decl.Body, func(n ast.Node) bool {
			as, ok := n.(*ast.AssignStmt)
			if !ok {
				return true
			}
			reads := false
			for _, r := range as.Rhs {
				if readsTables(r) {
					reads = true
				}
			}
			if !reads {
				return true
			}
			for _, l := range as.Lhs {
				if id, ok := l.(*ast.Ident); ok && id.Name != "_" {
					if o := info.ObjectOf(id); o != nil {
						asgs = append(asgs, asg{o, as.Pos()})
					}
				}
			}
			return true
		})
		seen := map[types.Object]bool{}
		names := map[string]int{}
		for _, a := range asgs {
			// the release after the assignment, and the next acquisition after that
			var rel, acq token.Pos
			for _, e := range evs {
				if e.kind == "unlock" && e.pos > a.pos && rel == token.NoPos {
					rel = e.pos
				}
				if e.kind == "lock" && rel != token.NoPos && e.pos > rel && acq == token.NoPos {
					acq = e.pos
				}
			}
			if seen[a.obj] {
				continue
			}
			names[a.obj.Name()]++
			key := FuncName(fr.Decl) + "/" + a.obj.Name()
			if k := names[a.obj.Name()]; k > 1 {
				key += "#" + itoa(k)
			}
			if acq == token.NoPos {
				seen[a.obj] = true
				c.OK(key, a.pos, "not used in a later critical section")
				continue
			}
			// a use after the second acquisition, not preceded by a re-assignment after it
			var use *ast.Ident
			ast.Inspect(fr.Decl.Body, func(n ast.Node) bool {
				id, ok := n.(*ast.Ident)
				if !ok || id.Pos() <= acq || info.Uses[id] != a.obj || use != nil {
					return true
				}
				// re-assigned from the tables after the acquisition and before this use?
				for _, b := range asgs {
					if b.obj == a.obj && b.pos > acq && b.pos < id.Pos() {
						return true
					}
				}
				use = id
				return true
			})
			// uses that are merely returned are snapshots, which is what a getter hands out
			if use != nil {
				onlyReturned := false
				ast.Inspect(fr.Decl.Body, func(n ast.Node) bool {
					if r, ok := n.(*ast.ReturnStmt); ok && r.Pos() <= use.Pos() && use.End() <= r.End() {
						onlyReturned = true
					}
					return true
				})
				if onlyReturned {
					use = nil
				}
			}
			seen[a.obj] = true
			if use == nil {
				c.OK(key, a.pos, "not used in a later critical section")
				continue
			}
			c.Bad(key, use.Pos(), "%s computes `%s` from the protected tables, releases the lock, takes a lock again and uses the value here: another thread may have changed the tables in between (two threads interning two new names both read the same table length and use it as the id, so two names share one symbol)", FuncName(fr.Decl), a.obj.Name())
		}
	})
}
