package main

import (
	"go/ast"
	"go/token"
	"go/types"
)

// trace/native-error-keeps-inner (C32): when bytecode run from inside a
// native method throws, the nested run records the complete trace and the
// native method gets the error as a value, which it returns. The function
// that turns an error returned by a native into a throw must reuse the
// recorded trace for that very error (compare the error it recorded it for);
// building a fresh one there ends the report at the native call and drops
// the frames that actually threw.

func init() {
	register(&Rule{
		ID:    "trace/native-error-keeps-inner",
		Text:  "in package vm, the function that throws the error value a native method returned (its only parameter is the error and it calls throw with it) first compares the error with the one the cached error stack trace was recorded for, and rethrows with the cached trace when they are the same",
		Floor: 1,
		Run:   runTraceKeepInner,
	})
}

func runTraceKeepInner(c *Ctx) {
	p := c.Pkg("vm")
	info := p.TypesInfo
	c.Funcs("vm", func(fr *FuncRef) {
		if recvTypeName(fr.Decl) != "Thread" {
			return
		}
		sig := fr.Obj.Type().(*types.Signature)
		if sig.Params().Len() != 1 || sig.Results().Len() != 0 || NamedOf(sig.Params().At(0).Type()) != "value.Value" {
			return
		}
		param := types.Object(sig.Params().At(0))
		callsThrow := false
		ast.Inspect(fr.Decl.Body, func(n ast.Node) bool {
			if call, ok := n.(*ast.CallExpr); ok && len(call.Args) == 1 {
				if fn := Callee(info, call); fn != nil && fn.Name() == "throw" {
					if id, ok := ast.Unparen(call.Args[0]).(*ast.Ident); ok && info.Uses[id] == param {
						callsThrow = true
					}
				}
			}
			return true
		})
		if !callsThrow {
			return
		}
		compares, rethrows := false, false
		ast.Inspect(fr.Decl.Body, func(n ast.Node) bool {
			switch x := n.(type) {
			case *ast.BinaryExpr:
				if x.Op == token.EQL {
					for _, pr := range [][2]ast.Expr{{x.X, x.Y}, {x.Y, x.X}} {
						id, ok := ast.Unparen(pr[0]).(*ast.Ident)
						sel, ok2 := ast.Unparen(pr[1]).(*ast.SelectorExpr)
						if ok && ok2 && info.Uses[id] == param && NamedOf(info.TypeOf(sel.X)) == "vm.Thread" {
							compares = true
						}
					}
				}
			case *ast.CallExpr:
				if fn := Callee(info, x); fn != nil && fn.Name() == "rethrow" {
					rethrows = true
				}
			}
			return true
		})
		c.Check(compares && rethrows, FuncName(fr.Decl), fr.Decl.Pos(), "%s throws the error a native method returned with a freshly built trace only: when that error came out of bytecode the native had called (a closure, a user-defined to_string or next), the trace recorded there is discarded and the uncaught-error report ends at the call of the native method, without the frames that threw", FuncName(fr.Decl))
	})
}
