package main

import (
	"go/ast"
	"go/token"
	"go/types"
	"sort"
	"strings"
)

// repl/persistent-fields (C27): an incremental checker lives across REPL
// inputs. Whatever a rejected (or merely earlier) input wrote into a field of
// the Checker is seen by the next input unless the entry point puts it back
// or starts it afresh. Fields are classified from the code:
//
//   - written: assigned (directly, or through an index/field path rooted in
//     the field) by a function reachable from CheckProgram, outside a
//     save/restore bracket of that same function;
//   - managed: restored on the failure branch of the REPL entry point
//     (directly or through a Checker method called there), or assigned at the
//     top level of the entry point / of CheckProgram / of a function
//     CheckProgram calls at its top level (re-initialised for every input).
//
// A written field that is not managed carries state from one input to the
// next; each such field needs a reason why that is intended.

func init() {
	register(&Rule{
		ID:    "repl/persistent-fields",
		Text:  "every field of the Checker that a function reachable from CheckProgram assigns outside a save/restore bracket is either put back on the failure branch of the REPL entry point (CheckSource), or re-initialised at the top level of the entry point, of CheckProgram or of a function CheckProgram calls at its top level - or is listed with the reason why it is meant to outlive an input",
		Floor: 30,
		Run:   runReplPersistentFields,
	})
}

var replPersistExempt = map[string]string{
	"Errors":        "the diagnostics of the input are the result of the check; the REPL reads them and calls ClearErrors before the next input",
	"ASTCache":      "parsed files keyed by path: a cache of source text, independent of whether the input that imported the file was accepted",
	"Filename":      "set by the entry point for every input before the check starts (assigned in CheckSource)",
	"macroEnv":      "the macro environment is a separate global environment; macros defined by a rejected input stay defined there (known limitation shared with the macro checker, which has its own Checker instance)",
	"flags":         "configuration bits (incremental, abort checks, header mode) set by the embedder, plus `builtin imports processed`, which must stay set for the session, and `defined macros`, which the entry point clears for every input (setDefinedMacros(false))",
	"output":        "the writer of the Go back end, set by the entry point (CheckSourceNative) for every input",
	"threadPool":    "the pool used for parallel checking; not program state",
	"methodCache":   "cleared by the constant checks that fill it (checkConstants); holds nothing between inputs",
	"extensions":    "consumed and re-created empty by initExtensions at the start of every program",
	"macroCompiler": "created by initMacroCompiler at the start of every program",
	"mode":          "context of the expression being checked; every function that establishes a mode saves and restores it (path/savedrestore-checker, C12); the one unbracketed write, tryMode -> validTryMode in checkCalledMethodThrowType, is a transition inside the bracket of the enclosing try expression",
	"returnType":    "context of the body being checked, saved and restored by the method and closure checks (path/savedrestore-checker, C12); addToReturnType only widens it while a closure's return type is being inferred (nil at that point), the top level never calls it",
	"throwType":     "as returnType: widened by addToThrowType only inside the bracket of the closure or method whose throw type is being inferred",
}

func runReplPersistentFields(c *Ctx) {
	p := c.Pkg("types/checker")
	info := p.TypesInfo
	tn, ok := p.Types.Scope().Lookup("Checker").(*types.TypeName)
	if !ok {
		c.Stale("types/checker.Checker")
	}
	st, ok := tn.Type().Underlying().(*types.Struct)
	if !ok {
		c.Stale("types/checker.Checker struct")
	}
	fields := map[*types.Var]bool{}
	var fieldList []*types.Var
	for i := 0; i < st.NumFields(); i++ {
		fields[st.Field(i)] = true
		fieldList = append(fieldList, st.Field(i))
	}
	byObj := map[*types.Func]*FuncRef{}
	c.Funcs("types/checker", func(fr *FuncRef) { byObj[fr.Obj] = fr })
	entry := c.FuncOpt("types/checker", "Checker", "CheckSource")
	prog := c.FuncOpt("types/checker", "Checker", "CheckProgram")
	if entry == nil || prog == nil {
		c.Stale("types/checker.(*Checker).CheckSource / CheckProgram")
	}
	// rootField: the Checker field an lvalue is rooted in (c.f, c.f[i], c.f.g ...)
	var rootField func(e ast.Expr) *types.Var
	rootField = func(e ast.Expr) *types.Var {
		switch x := ast.Unparen(e).(type) {
		case *ast.SelectorExpr:
			if v, ok := info.Uses[x.Sel].(*types.Var); ok && fields[v] {
				return v
			}
			return rootField(x.X)
		case *ast.IndexExpr:
			return rootField(x.X)
		case *ast.StarExpr:
			return rootField(x.X)
		}
		return nil
	}
	directField := func(e ast.Expr) *types.Var {
		if x, ok := ast.Unparen(e).(*ast.SelectorExpr); ok {
			if v, ok := info.Uses[x.Sel].(*types.Var); ok && fields[v] {
				return v
			}
		}
		return nil
	}
	// writes of a function, minus fields it brackets (p := c.f ... c.f = p)
	type write struct {
		f   *types.Var
		pos token.Pos
	}
	writesOf := func(fr *FuncRef) []write {
		saved := map[types.Object]*types.Var{} // local -> field it snapshots
		ast.Inspect(fr.Decl.Body, func(n ast.Node) bool {
			as, ok := n.(*ast.AssignStmt)
			if !ok || len(as.Lhs) != len(as.Rhs) {
				return true
			}
			for i, l := range as.Lhs {
				id, ok := l.(*ast.Ident)
				if !ok {
					continue
				}
				if f := directField(as.Rhs[i]); f != nil {
					o := info.Defs[id]
					if o == nil {
						o = info.Uses[id]
					}
					if o != nil {
						saved[o] = f
					}
				}
			}
			return true
		})
		bracketed := map[*types.Var]bool{}
		ast.Inspect(fr.Decl.Body, func(n ast.Node) bool {
			as, ok := n.(*ast.AssignStmt)
			if !ok || len(as.Lhs) != len(as.Rhs) {
				return true
			}
			for i, l := range as.Lhs {
				if f := directField(l); f != nil {
					if id, ok := ast.Unparen(as.Rhs[i]).(*ast.Ident); ok && saved[info.Uses[id]] == f {
						bracketed[f] = true
					}
				}
			}
			return true
		})
		// restore through a setter: c.setMode(prev) / defer c.setMode(prev)
		ast.Inspect(fr.Decl.Body, func(n ast.Node) bool {
			call, ok := n.(*ast.CallExpr)
			if !ok {
				return true
			}
			cal := Callee(info, call)
			if cal == nil || recvNameOf(cal) != "Checker" || byObj[cal.Origin()] == nil {
				return true
			}
			for _, a := range call.Args {
				id, ok := ast.Unparen(a).(*ast.Ident)
				if !ok {
					continue
				}
				f := saved[info.Uses[id]]
				if f == nil {
					continue
				}
				// the setter assigns that field
				ast.Inspect(byObj[cal.Origin()].Decl.Body, func(m ast.Node) bool {
					if as, ok := m.(*ast.AssignStmt); ok {
						for _, l := range as.Lhs {
							if directField(l) == f {
								bracketed[f] = true
							}
						}
					}
					return true
				})
			}
			return true
		})
		// set, then reset to the zero value at the end of the same function
		for i := len(fr.Decl.Body.List) - 1; i >= 0; i-- {
			as, ok := fr.Decl.Body.List[i].(*ast.AssignStmt)
			if !ok || len(as.Lhs) != 1 || len(as.Rhs) != 1 {
				continue
			}
			if f := directField(as.Lhs[0]); f != nil {
				if id, ok := ast.Unparen(as.Rhs[0]).(*ast.Ident); ok {
					if _, isNil := info.Uses[id].(*types.Nil); isNil {
						bracketed[f] = true
					}
				}
			}
		}
		mentions := func(e ast.Expr, f *types.Var) bool {
			found := false
			ast.Inspect(e, func(m ast.Node) bool {
				if sel, ok := m.(*ast.SelectorExpr); ok && info.Uses[sel.Sel] == f {
					found = true
				}
				return true
			})
			return found
		}
		var out []write
		ast.Inspect(fr.Decl.Body, func(n ast.Node) bool {
			switch x := n.(type) {
			case *ast.AssignStmt:
				for i, l := range x.Lhs {
					if f := rootField(l); f != nil && !bracketed[f] {
						// relative updates (push, pop, accumulate: the new value is
						// computed from the old one) do not establish state of their
						// own; their balance is the business of path/savedrestore-checker
						if directField(l) == f && len(x.Lhs) == len(x.Rhs) && mentions(x.Rhs[i], f) {
							continue
						}
						out = append(out, write{f, x.Pos()})
					}
				}
			case *ast.IncDecStmt:
				if f := rootField(x.X); f != nil && !bracketed[f] {
					out = append(out, write{f, x.Pos()})
				}
			}
			return true
		})
		return out
	}
	// reachability from CheckProgram
	reach := map[*types.Func]bool{prog.Obj: true}
	queue := []*types.Func{prog.Obj}
	for len(queue) > 0 {
		fn := queue[0]
		queue = queue[1:]
		fr := byObj[fn]
		if fr == nil {
			continue
		}
		ast.Inspect(fr.Decl.Body, func(n ast.Node) bool {
			if call, ok := n.(*ast.CallExpr); ok {
				if cal := Callee(info, call); cal != nil && byObj[cal.Origin()] != nil && !reach[cal.Origin()] {
					reach[cal.Origin()] = true
					queue = append(queue, cal.Origin())
				}
			}
			return true
		})
	}
	c.Stats["functions_reachable_from_CheckProgram"] = len(reach)
	written := map[*types.Var]token.Pos{}
	writer := map[*types.Var]string{}
	var reachList []*FuncRef
	for fn := range reach {
		if fr := byObj[fn]; fr != nil {
			reachList = append(reachList, fr)
		}
	}
	sort.Slice(reachList, func(i, j int) bool { return reachList[i].Decl.Pos() < reachList[j].Decl.Pos() })
	for _, fr := range reachList {
		for _, w := range writesOf(fr) {
			if _, seen := written[w.f]; !seen {
				written[w.f] = w.pos
				writer[w.f] = FuncName(fr.Decl)
			}
		}
	}
	// managed fields
	managed := map[*types.Var]string{}
	// fields a function reads, directly or through what it calls
	reads := map[*types.Func]map[*types.Var]bool{}
	for fn, fr := range byObj {
		set := map[*types.Var]bool{}
		// every mention of a field that is not the direct target of a plain assignment
		targets := map[*ast.SelectorExpr]bool{}
		ast.Inspect(fr.Decl.Body, func(n ast.Node) bool {
			if as, ok := n.(*ast.AssignStmt); ok && as.Tok == token.ASSIGN {
				for _, l := range as.Lhs {
					if sel, ok := ast.Unparen(l).(*ast.SelectorExpr); ok && directField(sel) != nil {
						targets[sel] = true
					}
				}
			}
			return true
		})
		ast.Inspect(fr.Decl.Body, func(n ast.Node) bool {
			if sel, ok := n.(*ast.SelectorExpr); ok && !targets[sel] {
				if v, ok := info.Uses[sel.Sel].(*types.Var); ok && fields[v] {
					set[v] = true
				}
			}
			return true
		})
		reads[fn] = set
	}
	for changed := true; changed; {
		changed = false
		for fn, fr := range byObj {
			ast.Inspect(fr.Decl.Body, func(n ast.Node) bool {
				if call, ok := n.(*ast.CallExpr); ok {
					if cal := Callee(info, call); cal != nil && reads[cal.Origin()] != nil {
						for v := range reads[cal.Origin()] {
							if !reads[fn][v] {
								reads[fn][v] = true
								changed = true
							}
						}
					}
				}
				return true
			})
		}
	}
	stmtReads := func(s ast.Stmt, f *types.Var, except ast.Expr) bool {
		found := false
		ast.Inspect(s, func(n ast.Node) bool {
			if n == ast.Node(except) {
				return false
			}
			switch x := n.(type) {
			case *ast.SelectorExpr:
				if info.Uses[x.Sel] == f {
					found = true
				}
			case *ast.CallExpr:
				if cal := Callee(info, x); cal != nil && reads[cal.Origin()][f] {
					found = true
				}
			}
			return true
		})
		return found
	}
	// the field is assigned by a top-level statement of fr (or of a Checker
	// method called by a top-level statement, one level deep) before anything
	// that can read it
	var assignedBeforeRead func(fr *FuncRef, f *types.Var, depth int) (bool, bool)
	assignedBeforeRead = func(fr *FuncRef, f *types.Var, depth int) (assigned, read bool) {
		for _, s := range fr.Decl.Body.List {
			if as, ok := s.(*ast.AssignStmt); ok {
				for _, l := range as.Lhs {
					if directField(l) == f {
						if stmtReads(s, f, l) {
							return false, true
						}
						return true, false
					}
				}
			}
			if es, ok := s.(*ast.ExprStmt); ok && depth > 0 {
				if call, ok := es.X.(*ast.CallExpr); ok {
					if cal := Callee(info, call); cal != nil && byObj[cal.Origin()] != nil && recvNameOf(cal) == "Checker" {
						argsRead := false
						for _, a := range call.Args {
							if stmtReads(&ast.ExprStmt{X: a}, f, nil) {
								argsRead = true
							}
						}
						if !argsRead {
							a, r := assignedBeforeRead(byObj[cal.Origin()], f, depth-1)
							if a {
								return true, false
							}
							if r {
								return false, true
							}
							if !reads[cal.Origin()][f] {
								continue
							}
							return false, true
						}
					}
				}
			}
			if stmtReads(s, f, nil) {
				return false, true
			}
		}
		return false, false
	}
	topLevelAssigns := func(fr *FuncRef, how string, depth int) {
		for _, f := range fieldList {
			if _, ok := managed[f]; ok {
				continue
			}
			if a, _ := assignedBeforeRead(fr, f, depth); a {
				managed[f] = how + " (assigned in " + FuncName(fr.Decl) + " before anything reads it)"
			}
		}
	}
	// failure branch of the entry point
	var failIf *ast.IfStmt
	for _, s := range entry.Decl.Body.List {
		if x, ok := s.(*ast.IfStmt); ok && failIf == nil {
			if call, ok := ast.Unparen(x.Cond).(*ast.CallExpr); ok {
				if fn := Callee(info, call); fn != nil && fn.Name() == "IsFailure" {
					failIf = x
				}
			}
		}
	}
	if failIf == nil {
		c.Stale("the `if ...IsFailure()` branch of Checker.CheckSource")
	}
	ast.Inspect(failIf.Body, func(n ast.Node) bool {
		switch x := n.(type) {
		case *ast.AssignStmt:
			for _, l := range x.Lhs {
				if f := directField(l); f != nil {
					managed[f] = "restored on the failure branch of CheckSource"
				}
			}
		case *ast.CallExpr:
			if cal := Callee(info, x); cal != nil && byObj[cal.Origin()] != nil && recvNameOf(cal) == "Checker" {
				for _, s := range byObj[cal.Origin()].Decl.Body.List {
					if as, ok := s.(*ast.AssignStmt); ok {
						for _, l := range as.Lhs {
							if f := directField(l); f != nil {
								managed[f] = "restored on the failure branch of CheckSource through " + cal.Name()
							}
						}
					}
				}
			}
		}
		return true
	})
	topLevelAssigns(entry, "re-initialised for every input", 0)
	topLevelAssigns(prog, "re-initialised for every program", 1)

	// work lists: filled by the early phases, drained and re-created by a
	// phase CheckProgram always runs (it has no early exit), and not written
	// by anything that runs after that phase
	{
		reachFrom := func(s ast.Stmt) map[*types.Func]bool {
			set := map[*types.Func]bool{}
			var q []*types.Func
			ast.Inspect(s, func(n ast.Node) bool {
				if call, ok := n.(*ast.CallExpr); ok {
					if cal := Callee(info, call); cal != nil && byObj[cal.Origin()] != nil && !set[cal.Origin()] {
						set[cal.Origin()] = true
						q = append(q, cal.Origin())
					}
				}
				return true
			})
			for len(q) > 0 {
				fn := q[0]
				q = q[1:]
				ast.Inspect(byObj[fn].Decl.Body, func(n ast.Node) bool {
					if call, ok := n.(*ast.CallExpr); ok {
						if cal := Callee(info, call); cal != nil && byObj[cal.Origin()] != nil && !set[cal.Origin()] {
							set[cal.Origin()] = true
							q = append(q, cal.Origin())
						}
					}
					return true
				})
			}
			return set
		}
		hasEarlyReturn := false
		for _, s := range prog.Decl.Body.List[:len(prog.Decl.Body.List)-1] {
			if _, ok := s.(*ast.ReturnStmt); ok {
				hasEarlyReturn = true
			}
		}
		var stmtReach []map[*types.Func]bool
		for _, s := range prog.Decl.Body.List {
			stmtReach = append(stmtReach, reachFrom(s))
		}
		writersOfField := map[*types.Var]map[*types.Func]bool{}
		for _, fr := range reachList {
			for _, w := range writesOf(fr) {
				if writersOfField[w.f] == nil {
					writersOfField[w.f] = map[*types.Func]bool{}
				}
				writersOfField[w.f][fr.Obj] = true
			}
		}
		for _, f := range fieldList {
			if _, ok := managed[f]; ok || hasEarlyReturn {
				continue
			}
			for d, s := range prog.Decl.Body.List {
				es, ok := s.(*ast.ExprStmt)
				if !ok {
					continue
				}
				call, ok := es.X.(*ast.CallExpr)
				if !ok {
					continue
				}
				cal := Callee(info, call)
				if cal == nil || byObj[cal.Origin()] == nil || recvNameOf(cal) != "Checker" {
					continue
				}
				// g re-creates the field at its top level from a constructor call without arguments
				recreates := false
				for _, gs := range byObj[cal.Origin()].Decl.Body.List {
					if as, ok := gs.(*ast.AssignStmt); ok && len(as.Lhs) == 1 && len(as.Rhs) == 1 && directField(as.Lhs[0]) == f {
						if rc, ok := ast.Unparen(as.Rhs[0]).(*ast.CallExpr); ok && len(rc.Args) == 0 {
							recreates = true
						}
					}
				}
				if !recreates {
					continue
				}
				lateWriter := ""
				for i := d + 1; i < len(stmtReach); i++ {
					for w := range writersOfField[f] {
						if w != cal.Origin() && stmtReach[i][w] {
							lateWriter = FuncName(byObj[w].Decl)
						}
					}
				}
				if lateWriter == "" {
					managed[f] = "work list drained and re-created by " + cal.Name() + ", which every program runs; nothing that runs after it writes the field"
				}
			}
		}
	}

	for _, f := range fieldList {
		key := "Checker." + f.Name()
		pos, isWritten := written[f]
		switch {
		case !isWritten:
			c.OKTrivial(key, f.Pos(), "no function reachable from CheckProgram assigns it outside a save/restore bracket")
		case managed[f] != "":
			c.OK(key, pos, "%s", managed[f])
		case replPersistExempt[f.Name()] != "":
			c.OK(key, pos, "reasoned exception: %s", replPersistExempt[f.Name()])
		default:
			c.Bad(key, pos, "%s assigns Checker.%s while checking a program, and the REPL entry point neither puts the field back when the input is rejected nor re-initialises it for the next input: what a rejected (or earlier) input left there changes how the following inputs are checked or compiled", writer[f], f.Name())
		}
	}
	var stale []string
	for name := range replPersistExempt {
		found := false
		for _, f := range fieldList {
			if f.Name() == name {
				found = true
			}
		}
		if !found {
			stale = append(stale, name)
		}
	}
	if len(stale) > 0 {
		sort.Strings(stale)
		c.Stale("Checker fields named in the exception table: " + strings.Join(stale, ", "))
	}
}
