package main

import (
	"go/ast"
	"go/types"
	"sort"
	"strings"
)

// cmp/mixed-basis (C18): `<`, `<=`, `>`, `>=`, `<=>` and `=~` between an Int
// and a Float agree with each other only if they all compare on the same
// basis: either every one converts the Int to a Float, or every one converts
// the Float to an Int. Above 2**53 the two bases give different answers, so a
// function that uses the other direction (an "integer fast path" in `<=>`)
// disagrees with its siblings for those operands.

func init() {
	register(&Rule{
		ID:    "cmp/mixed-basis",
		Text:  "all comparison functions of package value between a SmallInt and a Float (Compare*, LessThan*, LessThanEqual*, GreaterThan*, GreaterThanEqual*, LaxEqual*, Equal* taking the other kind as a typed parameter) convert in the same direction: the set of conversions {Int->Float, Float->Int} each of them applies to its operands is identical across the family",
		Floor: 8,
		Arch:  true,
		Run:   runCmpBasis,
	})
}

func runCmpBasis(c *Ctx) {
	p := c.Pkg("value")
	info := p.TypesInfo
	type fam struct {
		fr   *FuncRef
		dirs map[string]bool
	}
	var fams []fam
	isCmpName := func(n string) bool {
		for _, pre := range []string{"Compare", "LessThan", "GreaterThan", "LaxEqual", "Equal"} {
			if strings.HasPrefix(n, pre) {
				return true
			}
		}
		return false
	}
	c.Funcs("value", func(fr *FuncRef) {
		if fr.Decl.Recv == nil || !isCmpName(fr.Decl.Name.Name) || fr.Decl.Type.Params == nil || len(fr.Decl.Type.Params.List) != 1 {
			return
		}
		recv := recvTypeName(fr.Decl)
		pt := NamedOf(info.TypeOf(fr.Decl.Type.Params.List[0].Type))
		if !(recv == "SmallInt" && pt == "value.Float") && !(recv == "Float" && pt == "value.SmallInt") {
			return
		}
		dirs := map[string]bool{}
		ast.Inspect(fr.Decl.Body, func(n ast.Node) bool {
			call, ok := n.(*ast.CallExpr)
			if !ok || len(call.Args) != 1 {
				return true
			}
			tv, ok := info.Types[call.Fun]
			if !ok || !tv.IsType() {
				return true
			}
			to := NamedOf(tv.Type)
			from := NamedOf(info.TypeOf(call.Args[0]))
			switch {
			case (to == "value.Float" || to == "float64") && from == "value.SmallInt":
				dirs["Int->Float"] = true
			case (to == "value.SmallInt" || to == "int64" || to == "int") && from == "value.Float":
				dirs["Float->Int"] = true
			}
			return true
		})
		fams = append(fams, fam{fr, dirs})
	})
	if len(fams) < 6 {
		c.Stale("value: comparison methods between SmallInt and Float")
	}
	// reference: the most common direction set
	str := func(d map[string]bool) string {
		var ks []string
		for k := range d {
			ks = append(ks, k)
		}
		sort.Strings(ks)
		return "{" + strings.Join(ks, ", ") + "}"
	}
	count := map[string]int{}
	for _, f := range fams {
		count[str(f.dirs)]++
	}
	ref, best := "", 0
	for k, v := range count {
		// delegating functions with no conversion of their own are neutral
		if k != "{}" && v > best {
			ref, best = k, v
		}
	}
	for _, f := range fams {
		got := str(f.dirs)
		key := FuncName(f.fr.Decl)
		if got == "{}" {
			c.OK(key, f.fr.Decl.Pos(), "delegates; applies no conversion itself")
			continue
		}
		c.Check(got == ref, key, f.fr.Decl.Pos(), "%s compares an Int with a Float on the basis %s while its %d siblings use %s: for Ints above 2**53 this operator disagrees with the others", key, got, best, ref)
	}
	_ = types.Typ
}
