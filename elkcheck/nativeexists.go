package main

import (
	"sort"
	"strings"
)

// hdr/native-exists (C28, C01): a method the headers declare `native` has no
// body the compiler could fall back to; the only thing that can run is a Go
// closure registered in the run-time method table of the namespace or of
// something it includes or inherits from. A declared native without any such
// registration type checks and kills the interpreter when called ("tried to
// call an invalid method").

func init() {
	register(&Rule{
		ID:    "hdr/native-exists",
		Text:  "for every non-abstract method the headers declare native in a class, mixin or module that has a run-time object, a Go closure (or alias, getter, setter) with that name is registered in the method table of that namespace or of a namespace reachable from it through the run-time includes and superclasses (every class ends in Std::Object and Std::Value)",
		Floor: 2000,
		Run:   runHdrNativeExists,
	})
}

// hdrNativeExempt: declared natives that are deliberately implemented elsewhere.
var hdrNativeExempt = map[string]string{}

func runHdrNativeExists(c *Ctx) {
	h := c.parseHeaders()
	nt := c.parseNatives()
	names := nt.ElkName
	isA := runtimeHierarchy(c, names)
	hasRuntime := map[string]bool{}
	for _, n := range names {
		hasRuntime[n] = true
	}
	// registrations by (singleton, name) -> namespaces
	type rk struct {
		singleton bool
		name      string
	}
	regs := map[rk][]string{}
	for _, nd := range nt.Defs {
		regs[rk{nd.Singleton, nd.Name}] = append(regs[rk{nd.Singleton, nd.Name}], nd.NS)
	}
	unresolvedNames := map[string]bool{}
	for _, nd := range nt.Unresolv {
		unresolvedNames[nd.Name] = true
	}
	var ms []*hdrMethod
	for _, m := range h.Methods {
		ms = append(ms, m)
	}
	sort.SliceStable(ms, func(i, j int) bool { return ms[i].ID() < ms[j].ID() })
	seen := map[string]bool{}
	undecided := 0
	for _, m := range ms {
		if !m.Native || m.Abstract || seen[m.ID()] || !strings.HasPrefix(m.NS, "Std") {
			continue
		}
		seen[m.ID()] = true
		if k := h.Kind[m.NS]; k != "class" && k != "mixin" && k != "module" {
			continue
		}
		if !hasRuntime[m.NS] {
			continue // reported by hdr/includes
		}
		name := m.Name
		if name == "#init" {
			continue // constructors are the ConstructorFunc of the class, not a table entry
		}
		found := ""
		lacking := ""
		has := func(ns0 string, singleton bool) string {
			try := []bool{singleton}
			if h.Kind[ns0] == "module" {
				try = []bool{true, false} // a module's methods live on its singleton
			}
			for _, sg := range try {
				for _, ns := range regs[rk{sg, name}] {
					if ns == ns0 || isA(ns0, ns) {
						return ns
					}
					if !sg && h.Kind[ns0] == "class" && (ns == "Std::Object" || ns == "Std::Value") {
						return ns
					}
				}
			}
			return ""
		}
		found = has(m.NS, m.Singleton)
		if found == "" && h.Kind[m.NS] == "mixin" && !m.Singleton {
			// a mixin's native may be supplied by each class that includes it
			var includers []string
			for n := range hasRuntime {
				if n != m.NS && h.Kind[n] == "class" && isA(n, m.NS) {
					includers = append(includers, n)
				}
			}
			sort.Strings(includers)
			all := len(includers) > 0
			for _, inc := range includers {
				if has(inc, false) == "" {
					all = false
					lacking = inc
					break
				}
			}
			if all {
				found = "every including class"
			}
		}
		// overloads are registered as name@N by the headers and natives alike; a
		// plain name may be served by the first overload's registration
		if found == "" && unresolvedNames[name] {
			undecided++
			continue // a registration with that name exists on a container this analysis cannot name
		}
		key := m.ID()
		if reason, ok := hdrNativeExempt[key]; ok && found == "" {
			c.OK(key, m.Pos, "reasoned exception: %s", reason)
			continue
		}
		where := m.NS
		if lacking != "" {
			where = lacking + " (which includes " + m.NS + ")"
		}
		c.Check(found != "", key, m.Pos, "the headers declare %s as a native method, but no Go closure named %q is registered in the method table of %s or of anything it includes or inherits from at run time: a call type checks, is bound to nothing, and kills the interpreter with \"tried to call an invalid method\"", m.ID(), name, where)
	}
	c.Stats["declared_natives_with_only_an_unresolvable_registration"] = undecided
}
