package main

import (
	"go/ast"
	"go/token"
	"go/types"
	"regexp"
	"strings"
)

// Rules on the open-addressing tables behind HashMap, HashRecord and HashSet
// (C17). The table types are found by shape: a struct with a slice field
// "table", and int counters "elements" and "occupiedSlots" (any case).

type hashTableType struct {
	named            *types.Named
	table, elem, occ *types.Var
}

var (
	reTable = regexp.MustCompile(`(?i)^table$`)
	reElem  = regexp.MustCompile(`(?i)^elements$`)
	reOcc   = regexp.MustCompile(`(?i)^occupiedslots$`)
)

func (c *Ctx) hashTableTypes() map[*types.Named]*hashTableType {
	out := map[*types.Named]*hashTableType{}
	vp := c.Pkg("vm")
	sc := vp.Types.Scope()
	for _, n := range sc.Names() {
		tn, ok := sc.Lookup(n).(*types.TypeName)
		if !ok || tn.IsAlias() {
			continue
		}
		named, ok := tn.Type().(*types.Named)
		if !ok {
			continue
		}
		st, ok := named.Underlying().(*types.Struct)
		if !ok {
			continue
		}
		h := &hashTableType{named: named}
		for i := 0; i < st.NumFields(); i++ {
			f := st.Field(i)
			switch {
			case reTable.MatchString(f.Name()):
				if _, ok := f.Type().Underlying().(*types.Slice); ok {
					h.table = f
				}
			case reElem.MatchString(f.Name()):
				h.elem = f
			case reOcc.MatchString(f.Name()):
				h.occ = f
			}
		}
		if h.table != nil && h.elem != nil && h.occ != nil {
			out[named] = h
		}
	}
	if len(out) < 2 {
		c.Stale("vm: open-addressing table structs (table, elements, occupiedSlots)")
	}
	return out
}

func init() {
	register(&Rule{
		ID:    "hash/counters",
		Text:  "in the open-addressing tables, a population counter is incremented only (a) under a test that the slot being filled was empty or a tombstone, or (b) on a table allocated in the same function; occupiedSlots is never decremented and elements is decremented only next to a tombstone store",
		Floor: 12,
		Run:   runHashCounters,
	})
	register(&Rule{
		ID:    "hash/noempty",
		Text:  "no function stores the empty marker into a slot of an existing open-addressing table (deletion must leave a tombstone, or probe chains running through the slot are cut); empty slots are created only by allocating a table",
		Floor: 6,
		Run:   runHashNoEmpty,
	})
}

// fieldSel: if e is X.f for a field f of a hash table type, return X, the
// table type and the field.
func hashFieldSel(info *types.Info, tabs map[*types.Named]*hashTableType, e ast.Expr) (ast.Expr, *hashTableType, *types.Var) {
	sel, ok := ast.Unparen(e).(*ast.SelectorExpr)
	if !ok {
		return nil, nil, nil
	}
	s := info.Selections[sel]
	if s == nil || s.Kind() != types.FieldVal {
		return nil, nil, nil
	}
	f, _ := s.Obj().(*types.Var)
	t := s.Recv()
	if p, ok := t.(*types.Pointer); ok {
		t = p.Elem()
	}
	named, _ := types.Unalias(t).(*types.Named)
	if named == nil {
		return nil, nil, nil
	}
	h := tabs[named.Origin()]
	if h == nil {
		return nil, nil, nil
	}
	return sel.X, h, f
}

// freshTable: X is a local variable whose every definition in fd is a
// composite literal / address of one (a table under construction).
func freshTable(info *types.Info, fd *ast.FuncDecl, x ast.Expr) bool {
	id, ok := ast.Unparen(x).(*ast.Ident)
	if !ok {
		return false
	}
	v, ok := info.Uses[id].(*types.Var)
	if !ok || v.IsField() {
		return false
	}
	if _, isParam := paramIndex(info, fd, v); isParam {
		return false
	}
	found, fresh := false, true
	ast.Inspect(fd, func(n ast.Node) bool {
		as, ok := n.(*ast.AssignStmt)
		if !ok {
			return true
		}
		for i, l := range as.Lhs {
			lid, ok := l.(*ast.Ident)
			if !ok || (info.Defs[lid] != v && info.Uses[lid] != v) {
				continue
			}
			found = true
			if len(as.Rhs) != len(as.Lhs) {
				fresh = false
				continue
			}
			r := ast.Unparen(as.Rhs[i])
			if u, ok := r.(*ast.UnaryExpr); ok && u.Op == token.AND {
				r = ast.Unparen(u.X)
			}
			if _, ok := r.(*ast.CompositeLit); !ok {
				fresh = false
			}
		}
		return true
	})
	return found && fresh
}

// emptinessCond: the condition tests whether a slot is empty or a tombstone:
// it calls IsUndefined() or compares with a Deleted* sentinel.
func emptinessCond(cond ast.Expr) bool {
	found := false
	ast.Inspect(cond, func(n ast.Node) bool {
		switch x := n.(type) {
		case *ast.CallExpr:
			if sel, ok := x.Fun.(*ast.SelectorExpr); ok && sel.Sel.Name == "IsUndefined" {
				found = true
			}
		case *ast.Ident:
			if strings.HasPrefix(x.Name, "Deleted") {
				found = true
			}
		}
		return true
	})
	return found
}

func runHashCounters(c *Ctx) {
	tabs := c.hashTableTypes()
	c.Funcs("vm", func(fr *FuncRef) {
		info := fr.Pkg.TypesInfo
		n := 0
		var walk func(stmts []ast.Stmt, guards []ast.Expr)
		check := func(st ast.Stmt, stmts []ast.Stmt, idx int, guards []ast.Expr) {
			var target ast.Expr
			var tok token.Token
			switch x := st.(type) {
			case *ast.IncDecStmt:
				target, tok = x.X, x.Tok
			case *ast.AssignStmt:
				if len(x.Lhs) == 1 && (x.Tok == token.ADD_ASSIGN || x.Tok == token.SUB_ASSIGN) {
					target = x.Lhs[0]
					tok = map[token.Token]token.Token{token.ADD_ASSIGN: token.INC, token.SUB_ASSIGN: token.DEC}[x.Tok]
				}
			}
			if target == nil {
				return
			}
			base, h, f := hashFieldSel(info, tabs, target)
			if h == nil || (f != h.elem && f != h.occ) {
				return
			}
			n++
			op := "inc"
			if tok == token.DEC {
				op = "dec"
			}
			key := FuncName(fr.Decl) + "/" + f.Name() + "-" + op
			if n > 1 {
				key += "#" + itoa(n)
			}
			if tok == token.DEC {
				if f == h.occ {
					c.Bad(key, st.Pos(), "%s is decremented: tombstones keep their slot occupied, so the load computation and probe termination rely on this counter never shrinking outside a rebuild", f.Name())
					return
				}
				// elements--: a tombstone store to the same table in the same block
				ok := false
				for _, s2 := range stmts {
					if as, isAs := s2.(*ast.AssignStmt); isAs && len(as.Lhs) == 1 {
						if ix, isIx := ast.Unparen(as.Lhs[0]).(*ast.IndexExpr); isIx {
							if _, h2, f2 := hashFieldSel(info, tabs, ix.X); h2 == h && f2 == h.table && isTombstone(info, as.Rhs[0]) {
								ok = true
							}
						}
					}
				}
				c.Check(ok, key, st.Pos(), "%s-- must accompany a tombstone store into the same table", f.Name())
				return
			}
			if freshTable(info, fr.Decl, base) {
				c.OK(key, st.Pos(), "table under construction in this function")
				return
			}
			for _, g := range guards {
				if emptinessCond(g) {
					c.OK(key, st.Pos(), "under emptiness test `%s`", types.ExprString(g))
					return
				}
			}
			c.Bad(key, st.Pos(), "%s++ on an existing table is not conditional on the slot having been empty: filling a slot that already holds the key/value counts it twice, so length() exceeds the number of distinct entries", f.Name())
		}
		walk = func(stmts []ast.Stmt, guards []ast.Expr) {
			for i, st := range stmts {
				check(st, stmts, i, guards)
				switch x := st.(type) {
				case *ast.IfStmt:
					walk(x.Body.List, append(append([]ast.Expr{}, guards...), x.Cond))
					switch el := x.Else.(type) {
					case *ast.BlockStmt:
						walk(el.List, append(append([]ast.Expr{}, guards...), x.Cond))
					case *ast.IfStmt:
						walk([]ast.Stmt{el}, append(append([]ast.Expr{}, guards...), x.Cond))
					}
				case *ast.BlockStmt:
					walk(x.List, guards)
				case *ast.ForStmt:
					walk(x.Body.List, guards)
				case *ast.RangeStmt:
					walk(x.Body.List, guards)
				case *ast.SwitchStmt:
					for _, cl := range x.Body.List {
						walk(cl.(*ast.CaseClause).Body, guards)
					}
				}
			}
		}
		walk(fr.Decl.Body.List, nil)
	})
}

// isTombstone: Deleted* sentinel, or a pair whose key is Undefined and whose
// value is not.
func isTombstone(info *types.Info, e ast.Expr) bool {
	if id, ok := ast.Unparen(e).(*ast.Ident); ok && strings.HasPrefix(id.Name, "Deleted") {
		return true
	}
	if call, ok := ast.Unparen(e).(*ast.CallExpr); ok && len(call.Args) == 2 {
		if strings.Contains(FuncID(Callee(info, call)), "MakePair") {
			return isUndefinedExpr(info, call.Args[0]) && !isUndefinedExpr(info, call.Args[1])
		}
	}
	return false
}

func isUndefinedExpr(info *types.Info, e ast.Expr) bool {
	switch x := ast.Unparen(e).(type) {
	case *ast.SelectorExpr:
		if v, ok := info.Uses[x.Sel].(*types.Var); ok && v.Name() == "Undefined" && v.Pkg() != nil && relPkg(v.Pkg().Path()) == "value" {
			return true
		}
	case *ast.Ident:
		if v, ok := info.Uses[x].(*types.Var); ok && v.Name() == "Undefined" && v.Pkg() != nil && relPkg(v.Pkg().Path()) == "value" {
			return true
		}
	case *ast.CompositeLit:
		return len(x.Elts) == 0
	}
	return false
}

// isEmptyMarker: value.Undefined, a zero composite, or a pair of two
// Undefined.
func isEmptyMarker(info *types.Info, e ast.Expr) bool {
	if isUndefinedExpr(info, e) {
		return true
	}
	if call, ok := ast.Unparen(e).(*ast.CallExpr); ok && len(call.Args) == 2 {
		if strings.Contains(FuncID(Callee(info, call)), "MakePair") {
			return isUndefinedExpr(info, call.Args[0]) && isUndefinedExpr(info, call.Args[1])
		}
	}
	return false
}

// hash/liveness: a set table has two kinds of dead slot (empty, tombstone);
// every test of a slot read from such a table must recognise both.
func init() {
	register(&Rule{
		ID:    "hash/liveness",
		Text:  "every test of whether a slot read from a HashSet table holds a live element recognises both dead markers: a condition that calls IsUndefined() on the slot also compares it with the tombstone sentinel (in the same condition or its else-if chain)",
		Floor: 12,
		Run:   runHashLiveness,
	})
}

func mentionsDeleted(n ast.Node) bool {
	found := false
	ast.Inspect(n, func(x ast.Node) bool {
		if id, ok := x.(*ast.Ident); ok && strings.HasPrefix(id.Name, "Deleted") {
			found = true
		}
		return true
	})
	return found
}

func runHashLiveness(c *Ctx) {
	tabs := c.hashTableTypes()
	c.Funcs("vm", func(fr *FuncRef) {
		info := fr.Pkg.TypesInfo
		// variables holding a slot of a table whose elements are value.Value
		slotVars := map[types.Object]bool{}
		isSetTable := func(e ast.Expr) bool {
			_, h, f := hashFieldSel(info, tabs, e)
			if h == nil || f != h.table {
				return false
			}
			sl, _ := f.Type().Underlying().(*types.Slice)
			return sl != nil && NamedOf(sl.Elem()) == "value.Value"
		}
		ast.Inspect(fr.Decl.Body, func(n ast.Node) bool {
			switch x := n.(type) {
			case *ast.AssignStmt:
				for i, l := range x.Lhs {
					if i >= len(x.Rhs) {
						break
					}
					if ix, ok := ast.Unparen(x.Rhs[i]).(*ast.IndexExpr); ok && isSetTable(ix.X) {
						if id, ok := l.(*ast.Ident); ok {
							if o := info.Defs[id]; o != nil {
								slotVars[o] = true
							} else if o := info.Uses[id]; o != nil {
								slotVars[o] = true
							}
						}
					}
				}
			case *ast.RangeStmt:
				if isSetTable(x.X) {
					if id, ok := x.Value.(*ast.Ident); ok && info.Defs[id] != nil {
						slotVars[info.Defs[id]] = true
					}
				}
			}
			return true
		})
		if len(slotVars) == 0 {
			return
		}
		n := 0
		inElse := map[*ast.IfStmt]*ast.IfStmt{} // else-if -> head of chain
		ast.Inspect(fr.Decl.Body, func(x ast.Node) bool {
			ifs, ok := x.(*ast.IfStmt)
			if !ok {
				return true
			}
			head := ifs
			if h, ok := inElse[ifs]; ok {
				head = h
			}
			if el, ok := ifs.Else.(*ast.IfStmt); ok {
				inElse[el] = head
			}
			// does the condition test a slot variable with IsUndefined()?
			tests := false
			ast.Inspect(ifs.Cond, func(y ast.Node) bool {
				if call, ok := y.(*ast.CallExpr); ok {
					if sel, ok := call.Fun.(*ast.SelectorExpr); ok && sel.Sel.Name == "IsUndefined" {
						if id, ok := ast.Unparen(sel.X).(*ast.Ident); ok && slotVars[info.Uses[id]] {
							tests = true
						}
					}
				}
				return true
			})
			if !tests {
				return true
			}
			n++
			key := FuncName(fr.Decl) + "/slot-test"
			if n > 1 {
				key += "#" + itoa(n)
			}
			// the whole chain starting at head
			ok2 := false
			for cur := head; cur != nil; {
				if mentionsDeleted(cur.Cond) {
					ok2 = true
				}
				next, _ := cur.Else.(*ast.IfStmt)
				cur = next
			}
			c.Check(ok2, key, ifs.Pos(), "slot test `%s` does not consider the tombstone sentinel: a deleted element is treated as live", types.ExprString(ifs.Cond))
			return true
		})
	})
}

func runHashNoEmpty(c *Ctx) {
	tabs := c.hashTableTypes()
	for _, rel := range []string{"vm", "value"} {
		c.Funcs(rel, func(fr *FuncRef) {
			info := fr.Pkg.TypesInfo
			n := 0
			ast.Inspect(fr.Decl.Body, func(x ast.Node) bool {
				as, ok := x.(*ast.AssignStmt)
				if !ok {
					return true
				}
				for i, l := range as.Lhs {
					ix, ok := ast.Unparen(l).(*ast.IndexExpr)
					if !ok || i >= len(as.Rhs) {
						continue
					}
					base, h, f := hashFieldSel(info, tabs, ix.X)
					if h == nil || f != h.table {
						continue
					}
					n++
					key := rel + "." + FuncName(fr.Decl) + "/store"
					if n > 1 {
						key += "#" + itoa(n)
					}
					if freshTable(info, fr.Decl, base) {
						c.OK(key, as.Pos(), "table under construction")
						continue
					}
					c.Check(!isEmptyMarker(info, as.Rhs[i]), key, as.Pos(),
						"stores `%s` into a slot of an existing table: an emptied slot ends every probe chain that runs through it, making later entries unreachable while length() still counts them", types.ExprString(as.Rhs[i]))
				}
				return true
			})
		})
	}
}
