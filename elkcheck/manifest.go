package main

import (
	"encoding/json"
	"fmt"
	"os"
	"sort"
)

// notApplicable: properties not claimed, with the reason (DESIGN.md §6).
var notApplicable = map[string]string{
	"C09": "not applicable to static analysis (DESIGN.md §6): the Go backend emits Go source as text from about 17 000 lines of format templates; that the program this text denotes behaves like the bytecode VM is a relation between two executions. The only clause visible in the shape of the code - identifiers used by the templates exist - is already settled by the repository's own go/types check of the golden outputs, and a rule matching helper names in templates would rest on naming conventions, not on resolved program facts.",
}

// pending: properties whose rules are not (yet) exact on the pinned tree and
// are therefore not claimed; kept separate from notApplicable so that the
// reason in MANIFEST.json says which of the two it is.
var pending = map[string]string{}

type manifestCheck struct {
	PropertyID   string         `json:"property_id"`
	QuickCmd     string         `json:"quick_cmd"`
	ThoroughCmd  string         `json:"thorough_cmd"`
	EvidenceFile string         `json:"evidence_file"`
	ReplayTmpl   string         `json:"replay_cmd_template"`
	Engine       string         `json:"engine"`
	Level        map[string]any `json:"level_claimed"`
	LevelNote    string         `json:"level_note"`
	Technique    string         `json:"technique"`
}

func writeManifest() {
	ids := []string{}
	for id := range props {
		ids = append(ids, id)
	}
	sort.Strings(ids)
	var checks []manifestCheck
	for _, id := range ids {
		sp := props[id]
		tech := sp.Technique
		if tech == "" {
			tech = "static analysis: repository-specific rules over the type-checked syntax tree (go/packages, go/types) with per-function path-set abstract interpretation"
		}
		checks = append(checks, manifestCheck{
			PropertyID:   id,
			QuickCmd:     "/verif/check " + id + " quick",
			ThoroughCmd:  "/verif/check " + id + " thorough",
			EvidenceFile: "/verif/evidence/" + id + ".json",
			ReplayTmpl:   "/verif/bin/elkcheck -replay {path}",
			Engine:       "elkcheck",
			Level: map[string]any{
				"category":   "other",
				"text":       "Structural necessary conditions of the property, decided statically at every enumerated code site (not the behavioural property as a whole). Decides: " + sp.Decides + " Not covered: " + sp.NotCovered,
				"design_ref": "DESIGN.md §5 " + id + " (rules: " + fmt.Sprint(sp.Rules) + ", engines §4)",
			},
			LevelNote: "Trusted base: go/types, go/ssa, go/cfg from golang.org/x/tools v0.50.0 under go1.26.8; the reasoned exception tables in /verif/elkcheck (one named symbol per entry); open entries of /verif/known_findings.json. A passing run means every enumerated site satisfies the rule; it does not prove the behavioural property.",
			Technique: tech,
		})
	}
	var na []map[string]string
	all := []string{}
	for i := 1; i <= 34; i++ {
		all = append(all, fmt.Sprintf("C%02d", i))
	}
	for _, id := range all {
		if props[id] != nil {
			continue
		}
		reason := notApplicable[id]
		if reason == "" {
			reason = pending[id]
		}
		if reason == "" {
			reason = "not claimed: no rule for this property is exact on the pinned tree yet (DESIGN.md §5 " + id + "); static analysis gives no verdict"
		}
		na = append(na, map[string]string{"property_id": id, "reason": reason})
	}
	servs := ids
	m := map[string]any{
		"version":   1,
		"setup_cmd": "cd /verif/elkcheck && PATH=/opt/veriftools/go1.26.8/bin:$PATH GOTOOLCHAIN=local GOPROXY=off GOFLAGS=-mod=mod GOSUMDB=off go build -o /verif/bin/elkcheck .",
		"hooks": map[string]any{
			"guard":            "verif",
			"enable":           "no hooks: the checks analyse /repo's source statically and never build or run it",
			"baseline_off_cmd": "cd /repo && go test -mod=mod -vet=off -count=1 -timeout 25m ./...",
			"source_commits":   []string{},
			"add_only":         true,
		},
		"engines": []map[string]any{{
			"name":              "elkcheck",
			"path":              "/verif/elkcheck",
			"serves_properties": servs,
			"kind_free_text":    "repository-specific static analyser (Go; go/packages + go/types + go/ssa): table agreement, field coverage, dispatch coverage, path rules, effect rules; one obligation per rule instance, floors on instance counts, known-findings file",
		}},
		"checks":         checks,
		"not_applicable": na,
		"notes":          "All claims are at level 'other': each check decides named structural necessary conditions of its property (DESIGN.md §5), enumerated over code sites, and says what it does not cover. Exit codes: 0 held (possibly with KNOWN-FINDING lines), 1 VIOLATION, 2 internal error, 3 STALE-ANCHOR (an anchor function was renamed; no violation is claimed).",
	}
	b, _ := json.MarshalIndent(m, "", " ")
	os.Stdout.Write(b)
	os.Stdout.WriteString("\n")
}
