package main

import (
	"go/ast"
	"go/types"
	"strings"
)

// macro/env-walkers (C31): hygiene in the checker is one test - a walk up the
// chain of local environments stops at a macro-boundary environment unless the
// code being checked was spliced in as `unhygienic`. Every function that walks
// that chain must make the test; a walker that does not is a way for an
// expansion to see or change the caller's locals.

func init() {
	register(&Rule{
		ID:    "macro/env-walkers",
		Text:  "every function of the type checker that follows the parent link of a local environment in a loop tests the environment kind against the macro-boundary kind inside that function (as resolveLocal does); walkers used only by the debugger are listed with the reason",
		Floor: 3,
		Run:   runEnvWalkers,
	})
}

var envWalkerExempt = map[string]string{
	"Checker.allLocals": "only used to list the locals visible at a breakpoint (types/checker/breakpoint.go); it resolves no identifier of the program being checked",
}

func runEnvWalkers(c *Ctx) {
	p := c.Pkg("types/checker")
	info := p.TypesInfo
	c.Funcs("types/checker", func(fr *FuncRef) {
		walks := false
		ast.Inspect(fr.Decl.Body, func(n ast.Node) bool {
			var body *ast.BlockStmt
			switch x := n.(type) {
			case *ast.ForStmt:
				body = x.Body
			case *ast.RangeStmt:
				body = x.Body
			default:
				return true
			}
			var scope ast.Node = body
			if fs, ok := n.(*ast.ForStmt); ok {
				scope = fs // includes the post statement: for e := x; e != nil; e = e.parent
			}
			ast.Inspect(scope, func(m ast.Node) bool {
				as, ok := m.(*ast.AssignStmt)
				if !ok || len(as.Lhs) != 1 || len(as.Rhs) != 1 {
					return true
				}
				sel, ok := ast.Unparen(as.Rhs[0]).(*ast.SelectorExpr)
				if !ok || sel.Sel.Name != "parent" {
					return true
				}
				if strings.HasSuffix(NamedOf(info.TypeOf(sel.X)), ".localEnvironment") && types.ExprString(ast.Unparen(as.Lhs[0])) == types.ExprString(ast.Unparen(sel.X)) {
					walks = true
				}
				return true
			})
			return true
		})
		if !walks {
			return
		}
		key := FuncName(fr.Decl)
		if reason, ok := envWalkerExempt[key]; ok {
			c.OK(key, fr.Decl.Pos(), "reasoned exception: %s", reason)
			return
		}
		tests := false
		ast.Inspect(fr.Decl.Body, func(n ast.Node) bool {
			if id, ok := n.(*ast.Ident); ok && id.Name == "macroBoundaryLocalEnvType" {
				if _, isConst := info.Uses[id].(*types.Const); isConst {
					tests = true
				}
			}
			return true
		})
		c.Check(tests, key, fr.Decl.Pos(), "%s walks up the chain of local environments without testing for a macro-boundary environment: code of a macro expansion reaches the locals of the place where the macro was called", key)
	})
}
