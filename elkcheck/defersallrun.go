package main

import (
	"go/ast"
	"go/token"
)

// loop/defers-all-run (C14): every deferred closure runs exactly once on
// every exit path. The VM function that runs them walks the function's defer
// stack; leaving that loop early - at the first closure that throws - skips
// the closures deferred before it.

func init() {
	register(&Rule{
		ID:    "loop/defers-all-run",
		Text:  "in package vm, a loop that calls the elements of a list of bytecode closures (the defer stack: a NativeArrayList[*BytecodeClosure]) contains no return, break or goto: every element is called whatever the earlier ones did",
		Floor: 1,
		Run:   runDefersAllRun,
	})
}

func runDefersAllRun(c *Ctx) {
	p := c.Pkg("vm")
	info := p.TypesInfo
	c.Funcs("vm", func(fr *FuncRef) {
		n := 0
		ast.Inspect(fr.Decl.Body, func(nd ast.Node) bool {
			var body *ast.BlockStmt
			switch x := nd.(type) {
			case *ast.ForStmt:
				body = x.Body
			case *ast.RangeStmt:
				body = x.Body
			default:
				return true
			}
			// the loop calls CallBytecodeClosure on an element of a closure list
			calls := false
			ast.Inspect(body, func(m ast.Node) bool {
				if call, ok := m.(*ast.CallExpr); ok {
					if fn := Callee(info, call); fn != nil && fn.Name() == "CallBytecodeClosure" {
						calls = true
					}
				}
				return true
			})
			if !calls {
				return true
			}
			overDeferStack := false
			ast.Inspect(nd, func(m ast.Node) bool {
				if e, ok := m.(ast.Expr); ok {
					if t := info.TypeOf(e); t != nil && NamedOf(t) == "value.NativeArrayList" {
						overDeferStack = true
					}
				}
				return true
			})
			if !overDeferStack {
				return true
			}
			n++
			key := FuncName(fr.Decl) + "/loop#" + itoa(n)
			var early ast.Node
			ast.Inspect(body, func(m ast.Node) bool {
				switch y := m.(type) {
				case *ast.FuncLit:
					return false
				case *ast.ReturnStmt:
					if early == nil {
						early = y
					}
				case *ast.BranchStmt:
					if (y.Tok == token.BREAK || y.Tok == token.GOTO) && early == nil {
						early = y
					}
				}
				return true
			})
			pos := nd.Pos()
			if early != nil {
				pos = early.Pos()
			}
			c.Check(early == nil, key, pos, "%s leaves the loop over the defer stack early: when a deferred closure throws, the closures deferred before it never run, although every `defer` body has to run exactly once on every exit path", FuncName(fr.Decl))
			return true
		})
	})
}
