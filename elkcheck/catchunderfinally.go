package main

import (
	"go/ast"
	"go/token"
	"go/types"
	"strings"
)

// catch/bodies-under-finally (C14): the VM finds the `finally` block a
// `return`, `break`, `continue` or throw has to run first by looking for a
// finally entry of the catch table whose range covers the current
// instruction. The bodies of the `catch` clauses of the same `do` are part of
// what that `finally` protects: unless some finally entry registered for the
// `do` has a range that extends over the code of its catch clauses, leaving a
// catch body non-locally (or throwing from it) skips the `finally` body.

func init() {
	register(&Rule{
		ID:    "catch/bodies-under-finally",
		Text:  "in package compiler, a function that registers a finally entry (registerCatch(from, to, addr, true)) and compiles the clauses of a list of catch nodes registers at least one finally entry whose upper bound `to` is an offset taken after the code of the catch clauses has been emitted",
		Floor: 1,
		Run:   runCatchBodiesUnderFinally,
	})
}

func runCatchBodiesUnderFinally(c *Ctx) {
	p := c.Pkg("compiler")
	info := p.TypesInfo
	c.Funcs("compiler", func(fr *FuncRef) {
		if recvTypeName(fr.Decl) != "BytecodeCompiler" {
			return
		}
		var finallyRegs []*ast.CallExpr
		ast.Inspect(fr.Decl.Body, func(n ast.Node) bool {
			if call, ok := n.(*ast.CallExpr); ok && len(call.Args) == 4 {
				if fn := Callee(info, call); fn != nil && fn.Name() == "registerCatch" && boolConst(info, call.Args[3]) == "true" {
					finallyRegs = append(finallyRegs, call)
				}
			}
			return true
		})
		if len(finallyRegs) == 0 {
			return
		}
		// the loop over the catch nodes
		var loop *ast.RangeStmt
		ast.Inspect(fr.Decl.Body, func(n ast.Node) bool {
			if rs, ok := n.(*ast.RangeStmt); ok && loop == nil {
				if t := info.TypeOf(rs.X); t != nil && strings.Contains(t.String(), "ast.CatchNode") {
					loop = rs
				}
			}
			return true
		})
		if loop == nil {
			return
		}
		// where is each `to` bound?
		assignPos := func(o types.Object) token.Pos {
			pos := token.NoPos
			ast.Inspect(fr.Decl.Body, func(n ast.Node) bool {
				if as, ok := n.(*ast.AssignStmt); ok {
					for _, l := range as.Lhs {
						if id, ok := l.(*ast.Ident); ok && info.ObjectOf(id) == o && as.Pos() > pos {
							pos = as.Pos()
						}
					}
				}
				return true
			})
			return pos
		}
		covered := false
		for _, reg := range finallyRegs {
			if id, ok := ast.Unparen(reg.Args[1]).(*ast.Ident); ok {
				if o := info.Uses[id]; o != nil && assignPos(o) > loop.End() {
					covered = true
				}
			}
		}
		c.Check(covered, FuncName(fr.Decl)+"/catch-bodies", loop.Pos(), "%s registers the finally entry of a `do` with an upper bound taken before the code of the catch clauses is emitted, and no other finally entry reaches over them: `return`, `break`, `continue` and throw inside a catch body find no finally entry for the current instruction, so the `finally` body of the same `do` does not run on those exits", FuncName(fr.Decl))
	})
}
