package main

import (
	"go/ast"
	"go/types"
)

// stack/branch-pushes (C29): the conditional helpers of the compiler
// (compileIf and its wrappers) take the two arms as closures. When the value
// of the conditional is requested, both arms have to push exactly one value;
// a missing arm (nil) is filled in with NIL by the helper, but an arm that is
// present and empty pushes nothing, and the two paths join with operand
// stacks of different depth.

func init() {
	register(&Rule{
		ID:    "stack/branch-pushes",
		Text:  "in package compiler, wherever the returned answer of a function returning expressionResult that is given arms as func() arguments together with the constant false as its value-is-ignored flag is passed on (return f(..)), no arm is a function literal with an empty body",
		Floor: 1,
		Run:   runBranchPushes,
	})
}

func runBranchPushes(c *Ctx) {
	p := c.Pkg("compiler")
	info := p.TypesInfo
	c.Funcs("compiler", func(fr *FuncRef) {
		if recvTypeName(fr.Decl) != "BytecodeCompiler" {
			return
		}
		n := 0
		ast.Inspect(fr.Decl.Body, func(nd ast.Node) bool {
			// only where the answer "one value pushed" is passed on to the caller;
			// where the answer is discarded the arms are stack-neutral by the
			// caller's own design (the element appends of collection literals)
			ret, ok := nd.(*ast.ReturnStmt)
			if !ok || len(ret.Results) != 1 {
				return true
			}
			call, ok := ast.Unparen(ret.Results[0]).(*ast.CallExpr)
			if !ok {
				return true
			}
			fn := Callee(info, call)
			if fn == nil || recvNameOf(fn) != "BytecodeCompiler" {
				return true
			}
			sig := fn.Type().(*types.Signature)
			if sig.Results().Len() != 1 || NamedOf(sig.Results().At(0).Type()) != "compiler.expressionResult" || sig.Params().Len() != len(call.Args) {
				return true
			}
			flagIdx := -1
			var arms []int
			for i := 0; i < sig.Params().Len(); i++ {
				switch t := sig.Params().At(i).Type().Underlying().(type) {
				case *types.Basic:
					if t.Kind() == types.Bool {
						flagIdx = i
					}
				case *types.Signature:
					if t.Params().Len() == 0 && t.Results().Len() == 0 {
						arms = append(arms, i)
					}
				}
			}
			if flagIdx < 0 || len(arms) < 2 || boolConst(info, call.Args[flagIdx]) != "false" {
				return true
			}
			n++
			key := FuncName(fr.Decl) + "/" + fn.Name() + "#" + itoa(n)
			empty := ""
			// the first func() parameter of the conditional helpers is the condition when there are three
			for _, i := range arms {
				if lit, ok := ast.Unparen(call.Args[i]).(*ast.FuncLit); ok && len(lit.Body.List) == 0 {
					empty = sig.Params().At(i).Name()
				}
			}
			c.Check(empty == "", key, call.Pos(), "%s requests the value of the conditional (%s with flag false) but passes an empty function literal as the arm `%s`: on that path nothing is pushed while the other arm pushes one value, so the paths join with operand stacks of different depth (pass nil to have NIL pushed)", FuncName(fr.Decl), fn.Name(), empty)
			return true
		})
	})
}
