package main

import (
	"go/ast"
	"go/types"
	"sort"
)

// class/undefined-constructor (C01, C28): a class registered with
// UndefinedConstructor has no Go-level constructor: creating an instance
// yields the VM-internal `undefined`, and the class relies on a native `#init`
// to return the real object. Where the headers let the program call the class
// (it is neither abstract nor `noinit`) but declare no `init` for it, nothing
// replaces that `undefined`: `HashMap::[Int, String]()` evaluates to
// `undefined`, and the first method call on it is a Go panic.

func init() {
	register(&Rule{
		ID:    "class/undefined-constructor",
		Text:  "every class of package value that is created with UndefinedConstructor and that the headers allow to be instantiated (not abstract, not noinit) either has an `init` in the headers (whose native returns the object) or gets a ConstructorFunc assigned by another package",
		Floor: 20,
		Run:   runUndefinedConstructor,
	})
}

func runUndefinedConstructor(c *Ctx) {
	h := c.parseHeaders()
	names := c.elkNames()
	vp := c.Pkg("value")
	info := vp.TypesInfo
	// classes created with UndefinedConstructor
	undefinedCtor := map[types.Object]ast.Node{}
	for _, f := range vp.Syntax {
		ast.Inspect(f, func(n ast.Node) bool {
			as, ok := n.(*ast.AssignStmt)
			if !ok || len(as.Lhs) != 1 || len(as.Rhs) != 1 {
				return true
			}
			id, ok := as.Lhs[0].(*ast.Ident)
			if !ok {
				return true
			}
			uses := false
			ast.Inspect(as.Rhs[0], func(m ast.Node) bool {
				if rid, ok := m.(*ast.Ident); ok && rid.Name == "UndefinedConstructor" {
					uses = true
				}
				return true
			})
			if uses {
				if o := info.ObjectOf(id); o != nil {
					undefinedCtor[o] = as
				}
			}
			return true
		})
	}
	// ConstructorFunc assignments anywhere: value.XClass.ConstructorFunc = ...
	assigned := map[types.Object]bool{}
	for _, p := range c.Pkgs {
		pinfo := p.TypesInfo
		for _, f := range p.Syntax {
			ast.Inspect(f, func(n ast.Node) bool {
				as, ok := n.(*ast.AssignStmt)
				if !ok {
					return true
				}
				for _, l := range as.Lhs {
					sel, ok := ast.Unparen(l).(*ast.SelectorExpr)
					if !ok || sel.Sel.Name != "ConstructorFunc" {
						continue
					}
					if o := exprObj(pinfo, sel.X); o != nil {
						assigned[o] = true
					}
				}
				return true
			})
		}
	}
	hasInit := map[string]bool{}
	for _, m := range h.Methods {
		if m.Name == "#init" && !m.Singleton {
			hasInit[m.NS] = true
		}
	}
	var objs []types.Object
	for o := range undefinedCtor {
		objs = append(objs, o)
	}
	sort.Slice(objs, func(i, j int) bool { return objs[i].Name() < objs[j].Name() })
	for _, o := range objs {
		ns := names[o]
		if ns == "" {
			continue // not a class the headers know under a name
		}
		if _, declared := h.Kind[ns]; !declared {
			c.OKTrivial(ns, undefinedCtor[o].Pos(), "the headers do not declare the class: a program cannot name it")
			continue
		}
		flags := h.ClassFlags[ns]
		if len(flags) >= 4 && (flags[0] || flags[3]) {
			c.OKTrivial(ns, undefinedCtor[o].Pos(), "abstract or noinit: the program cannot call the class")
			continue
		}
		if hasInit[ns] {
			c.OK(ns, undefinedCtor[o].Pos(), "the headers declare an init, whose native returns the object")
			continue
		}
		c.Check(assigned[o], ns, undefinedCtor[o].Pos(), "%s is created with UndefinedConstructor, the headers declare no init for it and let the program call the class, and no package assigns it a ConstructorFunc: `%s()` evaluates to the VM-internal `undefined`, and the first method call on it is a Go panic", ns, ns)
	}
}
