package main

import (
	"go/ast"
	"go/constant"
	"go/token"
	"go/types"
	"strings"
)

// Sufficiency of the guard in front of a program-driven RUnlock
// (effect/mayfatal-unlock): when the wrapper tracks its read holders in an
// atomic integer and refuses the unlock by comparing that integer with a
// constant, the values that get past the comparison must all mean "held for
// reading at least once". Zero (free) must not pass; a negative value must not
// pass if some method of the type stores a negative constant into the same
// field (a "held for writing" marker packed into the same word).

type intGuard struct {
	field   string         // selector text of the atomic field, e.g. "m.readers"
	passing map[int64]bool // representatives that get past every returning comparison
	pos     token.Pos
}

// intGuardBefore finds, in fd, returning branches located before pos whose
// condition compares `<base>.<f>.Load()` (directly or through a local
// assigned from it) with an integer constant.
func intGuardBefore(info *types.Info, fd *ast.FuncDecl, base string, pos token.Pos) *intGuard {
	reps := []int64{-2, -1, 0, 1, 2}
	loadField := func(e ast.Expr) string {
		call, ok := ast.Unparen(e).(*ast.CallExpr)
		if !ok {
			return ""
		}
		fn := Callee(info, call)
		if fn == nil || fn.Pkg() == nil || fn.Pkg().Path() != "sync/atomic" || fn.Name() != "Load" {
			return ""
		}
		sel, ok := ast.Unparen(call.Fun).(*ast.SelectorExpr)
		if !ok {
			return ""
		}
		recv := types.ExprString(ast.Unparen(sel.X))
		if !strings.HasPrefix(recv, base+".") {
			return ""
		}
		// integer atomics only
		t := NamedOf(info.TypeOf(sel.X))
		if !strings.HasSuffix(t, "atomic.Int64") && !strings.HasSuffix(t, "atomic.Int32") && !strings.HasSuffix(t, "atomic.Uint64") && !strings.HasSuffix(t, "atomic.Uint32") {
			return ""
		}
		return recv
	}
	// locals assigned from a Load
	fromLoad := map[types.Object]string{}
	ast.Inspect(fd.Body, func(n ast.Node) bool {
		as, ok := n.(*ast.AssignStmt)
		if !ok || len(as.Lhs) != len(as.Rhs) {
			return true
		}
		for i, l := range as.Lhs {
			id, ok := l.(*ast.Ident)
			if !ok {
				continue
			}
			if f := loadField(as.Rhs[i]); f != "" {
				o := info.Defs[id]
				if o == nil {
					o = info.Uses[id]
				}
				if o != nil {
					fromLoad[o] = f
				}
			}
		}
		return true
	})
	subject := func(e ast.Expr) string {
		if f := loadField(e); f != "" {
			return f
		}
		if id, ok := ast.Unparen(e).(*ast.Ident); ok {
			return fromLoad[info.Uses[id]]
		}
		return ""
	}
	var g *intGuard
	ast.Inspect(fd.Body, func(n ast.Node) bool {
		ifs, ok := n.(*ast.IfStmt)
		if !ok || ifs.Pos() >= pos || len(ifs.Body.List) == 0 {
			return true
		}
		if _, isRet := ifs.Body.List[len(ifs.Body.List)-1].(*ast.ReturnStmt); !isRet {
			return true
		}
		be, ok := ast.Unparen(ifs.Cond).(*ast.BinaryExpr)
		if !ok {
			return true
		}
		x, y, op := be.X, be.Y, be.Op
		f := subject(x)
		if f == "" {
			// constant on the left: mirror
			if f = subject(y); f == "" {
				return true
			}
			x, y = y, x
			switch op {
			case token.LSS:
				op = token.GTR
			case token.LEQ:
				op = token.GEQ
			case token.GTR:
				op = token.LSS
			case token.GEQ:
				op = token.LEQ
			}
		}
		tv, ok := info.Types[y]
		if !ok || tv.Value == nil || tv.Value.Kind() != constant.Int {
			return true
		}
		switch op {
		case token.LSS, token.LEQ, token.GTR, token.GEQ, token.EQL, token.NEQ:
		default:
			return true
		}
		if g == nil {
			g = &intGuard{field: f, passing: map[int64]bool{}, pos: ifs.Pos()}
			for _, r := range reps {
				g.passing[r] = true
			}
		}
		if g.field != f {
			return true
		}
		for _, r := range reps {
			if constant.Compare(constant.MakeInt64(r), op, tv.Value) {
				// the branch returns for this value
				g.passing[r] = false
			}
		}
		return true
	})
	return g
}

// storesNegative: some function of the package writes a negative constant
// into a field with this name (Store(c), CompareAndSwap(_, c), Swap(c)).
func storesNegative(c *Ctx, rel string, info *types.Info, fieldName string) (bool, token.Pos) {
	found := false
	var at token.Pos
	c.Funcs(rel, func(fr *FuncRef) {
		ast.Inspect(fr.Decl.Body, func(n ast.Node) bool {
			call, ok := n.(*ast.CallExpr)
			if !ok || found {
				return true
			}
			fn := Callee(info, call)
			if fn == nil || fn.Pkg() == nil || fn.Pkg().Path() != "sync/atomic" {
				return true
			}
			sel, ok := ast.Unparen(call.Fun).(*ast.SelectorExpr)
			if !ok {
				return true
			}
			fsel, ok := ast.Unparen(sel.X).(*ast.SelectorExpr)
			if !ok || fsel.Sel.Name != fieldName {
				return true
			}
			var arg ast.Expr
			switch fn.Name() {
			case "Store", "Swap":
				if len(call.Args) == 1 {
					arg = call.Args[0]
				}
			case "CompareAndSwap":
				if len(call.Args) == 2 {
					arg = call.Args[1]
				}
			}
			if arg == nil {
				return true
			}
			if tv, ok := info.Types[arg]; ok && tv.Value != nil && tv.Value.Kind() == constant.Int && constant.Sign(tv.Value) < 0 {
				found, at = true, call.Pos()
			}
			return true
		})
	})
	return found, at
}
