package main

import (
	"fmt"
	"go/ast"
	"go/token"
	"go/types"
	"strings"
)

// Three small structural rules written after seeded changes showed the gap
// (DESIGN.md §13). Each is a necessary condition of its property.

func init() {
	register(&Rule{
		ID:    "shift/unsigned-count",
		Text:  "in the shift implementations of package value (functions whose name contains `Bitshift` and the helpers of the package they call with the shift count), a 64-bit unsigned shift count is never converted to a signed integer type unless a comparison of that count with a constant dominates the conversion: a count of 2^63 or more would wrap to a negative number and reverse the direction of the shift instead of shifting every bit out",
		Floor: 8,
		Arch:  true,
		Run:   runShiftUnsignedCount,
	})
	register(&Rule{
		ID:    "alias/append-fresh",
		Text:  "in the list and tuple implementations (value, vm), a call append(s, ...) whose first argument is (a clip or re-slice of) a slice belonging to an existing object - the receiver, a parameter, or one of their fields - has its result stored back into that same location; building a NEW object from it shares the backing array with the old one whenever nothing had to be appended or capacity was left, so a later in-place write through one list shows up in the other",
		Floor: 12,
		Run:   runAppendFresh,
	})
	register(&Rule{
		ID:    "macro/boundary-scope",
		Text:  "the compiler function that compiles a macro boundary node opens a scope before it compiles the boundary's body and closes it afterwards, on every path (no conditional skipping), and the checker's counterpart pushes and pops a local environment around the body: locals of an expansion are otherwise defined in the caller's scope and overwrite its variables of the same name",
		Floor: 2,
		Run:   runMacroBoundaryScope,
	})
}

func isUnsigned64(t types.Type) bool {
	b, ok := t.Underlying().(*types.Basic)
	return ok && (b.Kind() == types.Uint64 || b.Kind() == types.Uint || b.Kind() == types.Uintptr)
}

func isSignedInt(t types.Type) bool {
	b, ok := t.Underlying().(*types.Basic)
	if !ok {
		return false
	}
	switch b.Kind() {
	case types.Int, types.Int8, types.Int16, types.Int32, types.Int64:
		return true
	}
	return false
}

func runShiftUnsignedCount(c *Ctx) {
	p := c.Pkg("value")
	info := p.TypesInfo
	byObj := map[*types.Func]*FuncRef{}
	c.Funcs("value", func(fr *FuncRef) { byObj[fr.Obj] = fr })
	// scope: *Bitshift* functions + package helpers they call, one level
	scope := map[*types.Func]*FuncRef{}
	c.Funcs("value", func(fr *FuncRef) {
		if !strings.Contains(fr.Decl.Name.Name, "Bitshift") {
			return
		}
		scope[fr.Obj] = fr
		ast.Inspect(fr.Decl.Body, func(n ast.Node) bool {
			if call, ok := n.(*ast.CallExpr); ok {
				if fn := Callee(info, call); fn != nil {
					if f2 := byObj[fn.Origin()]; f2 != nil && f2.Decl.Recv == nil {
						// a plain helper function taking a Value (the count)
						sig := fn.Type().(*types.Signature)
						for i := 0; i < sig.Params().Len(); i++ {
							if NamedOf(sig.Params().At(i).Type()) == "value.Value" {
								scope[fn.Origin()] = f2
							}
						}
					}
				}
			}
			return true
		})
	})
	c.Stats["shift_functions_in_scope"] = len(scope)
	for _, fr := range scope {
		n := 0
		conv := 0
		ast.Inspect(fr.Decl.Body, func(nd ast.Node) bool {
			call, ok := nd.(*ast.CallExpr)
			if !ok || len(call.Args) != 1 {
				return true
			}
			tv, ok := info.Types[call.Fun]
			if !ok || !tv.IsType() || !isSignedInt(tv.Type) {
				return true
			}
			at := info.TypeOf(call.Args[0])
			if at == nil || !isUnsigned64(at) {
				return true
			}
			// constants are fine
			if av, ok := info.Types[call.Args[0]]; ok && av.Value != nil {
				return true
			}
			conv++
			n++
			key := fmt.Sprintf("%s/conv#%d", FuncName(fr.Decl), n)
			// dominated by a comparison of the same expression with a constant?
			argTxt := types.ExprString(ast.Unparen(call.Args[0]))
			guarded := false
			ast.Inspect(fr.Decl.Body, func(m ast.Node) bool {
				ifs, ok := m.(*ast.IfStmt)
				if !ok || ifs.Pos() > call.Pos() {
					return true
				}
				ast.Inspect(ifs.Cond, func(k ast.Node) bool {
					if be, ok := k.(*ast.BinaryExpr); ok {
						switch be.Op {
						case token.GTR, token.GEQ, token.LSS, token.LEQ:
							if types.ExprString(ast.Unparen(be.X)) == argTxt {
								if v, ok := info.Types[be.Y]; ok && v.Value != nil {
									guarded = true
								}
							}
						}
					}
					return true
				})
				return true
			})
			c.Check(guarded, key, call.Pos(), "%s converts the 64-bit unsigned shift count %s to %s without a range check: counts of 2^63 and above become negative and the shift runs in the opposite direction", FuncName(fr.Decl), argTxt, types.ExprString(call.Fun))
			return true
		})
		if conv == 0 {
			c.OK(FuncName(fr.Decl)+"/no-sign-conversion", fr.Decl.Pos(), "no conversion of a 64-bit unsigned value to a signed type")
		}
	}
}

// rootOfSlice strips re-slicing, slices.Clip/Grow, conversions, parentheses
// and dereferences.
func rootOfSlice(info *types.Info, e ast.Expr) ast.Expr {
	for {
		e = ast.Unparen(e)
		switch x := e.(type) {
		case *ast.SliceExpr:
			e = x.X
			continue
		case *ast.StarExpr:
			e = x.X
			continue
		case *ast.CallExpr:
			if tv, ok := info.Types[x.Fun]; ok && tv.IsType() && len(x.Args) == 1 {
				e = x.Args[0]
				continue
			}
			if fn := Callee(info, x); fn != nil && fn.Pkg() != nil && fn.Pkg().Path() == "slices" && (fn.Name() == "Clip" || fn.Name() == "Grow") && len(x.Args) >= 1 {
				e = x.Args[0]
				continue
			}
		}
		return e
	}
}

func runAppendFresh(c *Ctx) {
	for _, rel := range []string{"value", "vm"} {
		p := c.Pkg(rel)
		info := p.TypesInfo
		c.Funcs(rel, func(fr *FuncRef) {
			// objects that exist before the call: receiver and parameters
			pre := map[types.Object]bool{}
			addFields := func(fl *ast.FieldList) {
				if fl == nil {
					return
				}
				for _, f := range fl.List {
					for _, nm := range f.Names {
						if o := info.Defs[nm]; o != nil {
							pre[o] = true
						}
					}
				}
			}
			addFields(fr.Decl.Recv)
			addFields(fr.Decl.Type.Params)
			if len(pre) == 0 {
				return
			}
			// locals that merely alias a pre-existing slice: x := *recv / x := p.field
			alias := map[types.Object]bool{}
			baseObj := func(e ast.Expr) types.Object {
				e = rootOfSlice(info, e)
				for {
					switch x := e.(type) {
					case *ast.SelectorExpr:
						e = ast.Unparen(x.X)
						continue
					case *ast.StarExpr:
						e = ast.Unparen(x.X)
						continue
					case *ast.Ident:
						return info.Uses[x]
					}
					return nil
				}
			}
			n := 0
			var parentAssign = map[*ast.CallExpr]*ast.AssignStmt{}
			ast.Inspect(fr.Decl.Body, func(nd ast.Node) bool {
				if as, ok := nd.(*ast.AssignStmt); ok {
					for _, r := range as.Rhs {
						if call, ok := ast.Unparen(r).(*ast.CallExpr); ok {
							parentAssign[call] = as
						}
					}
					// alias tracking
					if len(as.Lhs) == len(as.Rhs) {
						for i, l := range as.Lhs {
							if id, ok := l.(*ast.Ident); ok && info.TypeOf(as.Rhs[i]) != nil {
								if _, isSlice := info.TypeOf(as.Rhs[i]).Underlying().(*types.Slice); isSlice {
									if _, isCall := ast.Unparen(as.Rhs[i]).(*ast.CallExpr); !isCall {
										if o := baseObj(as.Rhs[i]); o != nil && (pre[o] || alias[o]) {
											if lo := info.ObjectOf(id); lo != nil && !pre[lo] {
												alias[lo] = true
											}
										}
									}
								}
							}
						}
					}
				}
				return true
			})
			ast.Inspect(fr.Decl.Body, func(nd ast.Node) bool {
				call, ok := nd.(*ast.CallExpr)
				if !ok || len(call.Args) < 1 {
					return true
				}
				id, ok := ast.Unparen(call.Fun).(*ast.Ident)
				if !ok {
					return true
				}
				if b, ok := info.Uses[id].(*types.Builtin); !ok || b.Name() != "append" {
					return true
				}
				o := baseObj(call.Args[0])
				if o == nil || !(pre[o] || alias[o]) {
					return true
				}
				n++
				key := fmt.Sprintf("%s.%s/append#%d", rel, FuncName(fr.Decl), n)
				root := types.ExprString(rootOfSlice(info, call.Args[0]))
				// stored back into the same location?
				back := false
				if as := parentAssign[call]; as != nil {
					for i, r := range as.Rhs {
						if ast.Unparen(r) == ast.Expr(call) && i < len(as.Lhs) {
							lhs := types.ExprString(rootOfSlice(info, as.Lhs[i]))
							if lhs == root {
								back = true
							}
							// x = append(x, ..) where x is an alias local reassigned to itself
							if lid, ok := ast.Unparen(as.Lhs[i]).(*ast.Ident); ok && info.ObjectOf(lid) == o {
								back = true
							}
						}
					}
				}
				// full three-index slice s[:n:n] as first argument forces a copy
				if se, ok := ast.Unparen(call.Args[0]).(*ast.SliceExpr); ok && se.Slice3 && types.ExprString(se.High) == types.ExprString(se.Max) {
					// still aliases when nothing is appended: only accepted when stored back
				}
				c.Check(back, key, call.Pos(), "%s.%s appends to %s, which belongs to an object that already exists, and does not store the result back into it: when nothing needs to be appended (or capacity is left) the new value shares the old one's backing array", rel, FuncName(fr.Decl), root)
				return true
			})
		})
	}
}

func runMacroBoundaryScope(c *Ctx) {
	type spec struct {
		rel, recv    string
		open, close_ []string
	}
	for _, sp := range []spec{
		{"compiler", "BytecodeCompiler", []string{"enterScope"}, []string{"leaveScope"}},
		{"types/checker", "Checker", []string{"pushNestedLocalEnv", "pushLocalEnv", "pushIsolatedLocalEnv", "pushMacroBoundaryLocalEnv"}, []string{"popLocalEnv"}},
	} {
		p := c.Pkg(sp.rel)
		info := p.TypesInfo
		found := 0
		c.Funcs(sp.rel, func(fr *FuncRef) {
			if recvTypeName(fr.Decl) != sp.recv || fr.Decl.Type.Params == nil {
				return
			}
			var nodeObj types.Object
			for _, f := range fr.Decl.Type.Params.List {
				if NamedOf(info.TypeOf(f.Type)) == "parser/ast.MacroBoundaryNode" && len(f.Names) > 0 {
					nodeObj = info.Defs[f.Names[0]]
				}
			}
			if nodeObj == nil {
				return
			}
			// does it process node.Body?
			usesBody := false
			ast.Inspect(fr.Decl.Body, func(n ast.Node) bool {
				if sel, ok := n.(*ast.SelectorExpr); ok && sel.Sel.Name == "Body" {
					if id, ok := ast.Unparen(sel.X).(*ast.Ident); ok && info.Uses[id] == nodeObj {
						usesBody = true
					}
				}
				return true
			})
			if !usesBody {
				return
			}
			found++
			isNamed := func(call *ast.CallExpr, names []string) bool {
				fn := Callee(info, call)
				if fn == nil {
					return false
				}
				for _, n := range names {
					if fn.Name() == n {
						return true
					}
				}
				return false
			}
			mentionsBody := func(call *ast.CallExpr) bool {
				m := false
				for _, a := range call.Args {
					ast.Inspect(a, func(n ast.Node) bool {
						if sel, ok := n.(*ast.SelectorExpr); ok && sel.Sel.Name == "Body" {
							if id, ok := ast.Unparen(sel.X).(*ast.Ident); ok && info.Uses[id] == nodeObj {
								m = true
							}
						}
						return true
					})
				}
				return m
			}
			// state: depth of open scopes on this path (0 or 1), bit 2 = body processed outside a scope
			type st struct {
				open bool
				bad  bool
			}
			pe := &PathEval[st]{Info: info}
			pe.Call = func(s st, call *ast.CallExpr) []st {
				switch {
				case isNamed(call, sp.open):
					s.open = true
				case isNamed(call, sp.close_):
					s.open = false
				case mentionsBody(call):
					if !s.open {
						s.bad = true
					}
				}
				return []st{s}
			}
			pe.Stmt = func(s st, x ast.Stmt) ([]st, bool) {
				// defer c.popLocalEnv(): closes at exit; treat as balanced
				if d, ok := x.(*ast.DeferStmt); ok && isNamed(d.Call, sp.close_) {
					return []st{s}, true
				}
				return nil, false
			}
			pe.Widen = func(s st) st { return s }
			fl := pe.Block(newSet(st{}), fr.Decl.Body.List)
			bad := false
			hasDeferClose := false
			ast.Inspect(fr.Decl.Body, func(n ast.Node) bool {
				if d, ok := n.(*ast.DeferStmt); ok && isNamed(d.Call, sp.close_) {
					hasDeferClose = true
				}
				return true
			})
			leftOpen := false
			for s := range fl.next {
				if s.bad {
					bad = true
				}
				if s.open && !hasDeferClose {
					leftOpen = true
				}
			}
			for s := range fl.ret {
				if s.bad {
					bad = true
				}
				if s.open && !hasDeferClose {
					leftOpen = true
				}
			}
			key := sp.rel + "." + FuncName(fr.Decl)
			c.Check(!bad && !leftOpen, key, fr.Decl.Pos(), "%s processes the body of a macro boundary on a path where no scope has been opened (or leaves the scope open): the expansion's locals are then defined in the caller's scope (body outside scope=%v, scope left open=%v)", FuncName(fr.Decl), bad, leftOpen)
		})
		if found == 0 {
			c.Stale(sp.rel + ": a " + sp.recv + " method taking *ast.MacroBoundaryNode and processing its Body")
		}
	}
}
