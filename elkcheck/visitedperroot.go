package main

import (
	"go/ast"
	"go/types"
	"strings"
)

// walk/visited-per-root (C11, C03): a walk over the call graph that reports
// something *relative to its root* (a method reachable from the initialiser of
// constant X uses X) needs a visited set of its own for every root. Sharing
// one set across the roots makes a callee visited for the first root invisible
// to the second - and since the roots come out of the parallel body checker in
// completion order, which diagnostics appear depends on the schedule.

func init() {
	register(&Rule{
		ID:    "walk/visited-per-root",
		Text:  "in the type checker, wherever a function with a visited-set parameter keyed by *types.Method is called inside a loop (other than by itself), the set passed is created inside that loop",
		Floor: 1,
		Run:   runVisitedPerRoot,
	})
}

func runVisitedPerRoot(c *Ctx) {
	p := c.ByRel["types/checker"]
	if p == nil {
		c.Stale("package types/checker")
		return
	}
	info := p.TypesInfo
	visitedParam := func(fn *types.Func) int {
		sig, ok := fn.Type().(*types.Signature)
		if !ok {
			return -1
		}
		for i := 0; i < sig.Params().Len(); i++ {
			ts := sig.Params().At(i).Type().String()
			if strings.Contains(ts, "types.Method") && (strings.HasPrefix(ts, "map[") || strings.Contains(ts, "Set[")) && strings.Contains(strings.ToLower(sig.Params().At(i).Name()), "visit") {
				return i
			}
		}
		return -1
	}
	n := 0
	c.Funcs("types/checker", func(fr *FuncRef) {
		var stack []ast.Node
		ast.Inspect(fr.Decl.Body, func(nd ast.Node) bool {
			if nd == nil {
				stack = stack[:len(stack)-1]
				return true
			}
			stack = append(stack, nd)
			call, ok := nd.(*ast.CallExpr)
			if !ok {
				return true
			}
			fn := Callee(info, call)
			if fn == nil || fn.Origin() == fr.Obj {
				return true
			}
			i := visitedParam(fn)
			if i < 0 || i >= len(call.Args) {
				return true
			}
			// innermost enclosing loop
			var loop ast.Node
			for j := len(stack) - 2; j >= 0; j-- {
				switch stack[j].(type) {
				case *ast.RangeStmt, *ast.ForStmt:
					loop = stack[j]
				}
				if loop != nil {
					break
				}
			}
			n++
			key := FuncName(fr.Decl) + "/" + fn.Name() + "#" + itoa(n)
			if loop == nil {
				c.OK(key, call.Pos(), "not called in a loop: one walk, one set")
				return true
			}
			fresh := false
			switch a := ast.Unparen(call.Args[i]).(type) {
			case *ast.CallExpr, *ast.CompositeLit:
				fresh = true // make(..) / a literal at the call
			case *ast.Ident:
				if o := info.Uses[a]; o != nil && o.Pos() > loop.Pos() && o.Pos() < loop.End() {
					fresh = true
				}
			}
			c.Check(fresh, key, call.Pos(), "%s calls %s for every element of a loop with one visited set created outside the loop: a method visited for an earlier root is skipped for the later ones, so what is reported depends on the order of the roots - which the parallel body checker produces in completion order", FuncName(fr.Decl), fn.Name())
			return true
		})
	})
}
