package main

import (
	"go/ast"
	"strings"
)

// path/forin-error-thrown (C14, C17, C23): the instruction driving `for in`
// over a built-in iterator asks the iterator for the next element; the only
// error that ends the loop is `:stop_iteration`. A driver that ends the loop
// on every error swallows the others (a ConcurrentModificationError raised
// because the loop body changed the map): the loop just stops and the program
// carries on.

func init() {
	register(&Rule{
		ID:    "path/forin-error-thrown",
		Text:  "in package vm, every Thread method that calls NextBuiltin and handles its error compares the error with the stop_iteration symbol and returns the other errors to its caller",
		Floor: 1,
		Run:   runForInErrorThrown,
	})
}

func runForInErrorThrown(c *Ctx) {
	p := c.Pkg("vm")
	info := p.TypesInfo
	c.Funcs("vm", func(fr *FuncRef) {
		if recvTypeName(fr.Decl) != "Thread" {
			return
		}
		var at ast.Node
		ast.Inspect(fr.Decl.Body, func(n ast.Node) bool {
			if call, ok := n.(*ast.CallExpr); ok {
				if fn := Callee(info, call); fn != nil && fn.Name() == "NextBuiltin" {
					at = call
				}
			}
			return true
		})
		if at == nil {
			return
		}
		compares, returnsErr := false, false
		ast.Inspect(fr.Decl.Body, func(n ast.Node) bool {
			switch x := n.(type) {
			case *ast.BinaryExpr:
				if strings.Contains(exprString(x), "stop_iteration") {
					compares = true
				}
			case *ast.ReturnStmt:
				for _, r := range x.Results {
					if id, ok := ast.Unparen(r).(*ast.Ident); ok && id.Name == "err" {
						returnsErr = true
					}
				}
			}
			return true
		})
		c.Check(compares && returnsErr, FuncName(fr.Decl), at.Pos(), "%s ends the loop on every error the iterator's next returns, not only on :stop_iteration: an error raised during the iteration (the collection was changed by the loop body) is swallowed and the program carries on after a loop that stopped early", FuncName(fr.Decl))
	})
}

func exprString(e ast.Expr) string {
	var b strings.Builder
	ast.Inspect(e, func(n ast.Node) bool {
		if id, ok := n.(*ast.Ident); ok {
			b.WriteString(id.Name)
			b.WriteByte(' ')
		}
		return true
	})
	return b.String()
}
