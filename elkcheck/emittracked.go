package main

import (
	"go/ast"
	"go/types"
)

// optable/emit-tracked (C29): the bytecode compiler decides whether a
// function still needs its final RETURN (and a few peephole rewrites) from
// `lastOpCode`, which only `emit` maintains. An instruction appended to the
// bytecode behind emit's back leaves lastOpCode naming the instruction before
// it: after `...RETURN; GET_CONST8 n` the compiler believes the function ends
// in RETURN and emits none, and execution runs off the end of the bytecode.

func init() {
	register(&Rule{
		ID:    "optable/emit-tracked",
		Text:  "in package compiler, BytecodeFunction.AddInstruction is called only by the function that records the opcode in lastOpCode (the BytecodeCompiler method that assigns lastOpCode from its opcode parameter); every other emission helper goes through it",
		Floor: 1,
		Run:   runEmitTracked,
	})
}

func runEmitTracked(c *Ctx) {
	p := c.Pkg("compiler")
	info := p.TypesInfo
	// the tracking function: assigns <recv>.lastOpCode = <param of type OpCode>
	tracker := map[*types.Func]bool{}
	c.Funcs("compiler", func(fr *FuncRef) {
		if recvTypeName(fr.Decl) != "BytecodeCompiler" {
			return
		}
		sig := fr.Obj.Type().(*types.Signature)
		params := map[types.Object]bool{}
		for i := 0; i < sig.Params().Len(); i++ {
			params[sig.Params().At(i)] = true
		}
		ast.Inspect(fr.Decl.Body, func(n ast.Node) bool {
			as, ok := n.(*ast.AssignStmt)
			if !ok || len(as.Lhs) != 1 || len(as.Rhs) != 1 {
				return true
			}
			sel, ok := ast.Unparen(as.Lhs[0]).(*ast.SelectorExpr)
			if !ok || sel.Sel.Name != "lastOpCode" {
				return true
			}
			if id, ok := ast.Unparen(as.Rhs[0]).(*ast.Ident); ok && params[info.Uses[id]] {
				tracker[fr.Obj] = true
			}
			return true
		})
	})
	if len(tracker) == 0 {
		c.Stale("a BytecodeCompiler method assigning lastOpCode from its opcode parameter")
		return
	}
	c.Funcs("compiler", func(fr *FuncRef) {
		if recvTypeName(fr.Decl) != "BytecodeCompiler" {
			return
		}
		n := 0
		ast.Inspect(fr.Decl.Body, func(nd ast.Node) bool {
			call, ok := nd.(*ast.CallExpr)
			if !ok {
				return true
			}
			fn := Callee(info, call)
			if fn == nil || fn.Name() != "AddInstruction" || recvNameOf(fn) != "BytecodeFunction" {
				return true
			}
			n++
			key := FuncName(fr.Decl) + "/AddInstruction#" + itoa(n)
			c.Check(tracker[fr.Obj], key, call.Pos(), "%s appends an instruction to the bytecode without recording its opcode in lastOpCode: the decisions taken from lastOpCode afterwards (is a final RETURN still needed, can the previous NIL be reused) are taken for the instruction before it, e.g. `...RETURN; GET_CONST8 n` ends a method without a RETURN", FuncName(fr.Decl))
			return true
		})
	})
}
