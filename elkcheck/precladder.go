package main

import (
	"fmt"
	"go/ast"
	"go/types"
	"sort"
	"strings"
)

// prec/ladder (C05): the printer decides where to put parentheses from a
// precedence table (ast.ExpressionPrecedence); the parser's precedence is the
// order of its production ladder. The two must order operators the same way,
// or some tree is printed without the parentheses the parser needs.

func init() {
	register(&Rule{
		ID:    "prec/ladder",
		Text:  "walking the parser's expression ladder from loosest to tightest binding, the printer's precedence numbers of the operators and node kinds produced at each rung are all equal within a rung and strictly increase from rung to rung, and every operator token a rung can put into a Binary/LogicalExpressionNode has a printer precedence",
		Floor: 14,
		Run:   func(c *Ctx) { precLadder(c, false) },
	})
}

type ladderItem struct {
	node string // BinaryExpressionNode, MatchExpressionNode, ...
	tok  string // operator token name for Binary/Logical nodes
}

func (i ladderItem) String() string {
	if i.tok != "" {
		return i.node + "[" + i.tok + "]"
	}
	return i.node
}

// tokenPredicate: token names for which a predicate method (a switch with a
// `return true` clause) holds, following one delegation level.
func (c *Ctx) tokenPredicate(fn *types.Func, depth int) []string {
	if fn == nil || fn.Pkg() == nil || depth > 2 {
		return nil
	}
	sig := fn.Type().(*types.Signature)
	if sig.Recv() == nil {
		return nil
	}
	rn := strings.TrimPrefix(NamedOf(sig.Recv().Type()), "token.")
	fr := c.FuncOpt("token", rn, fn.Name())
	if fr == nil {
		return nil
	}
	info := fr.Pkg.TypesInfo
	var out []string
	ast.Inspect(fr.Decl.Body, func(n ast.Node) bool {
		switch x := n.(type) {
		case *ast.CaseClause:
			ret := false
			for _, st := range x.Body {
				if r, ok := st.(*ast.ReturnStmt); ok && len(r.Results) == 1 {
					if id, ok := r.Results[0].(*ast.Ident); ok && id.Name == "true" {
						ret = true
					}
				}
			}
			if ret {
				for _, e := range x.List {
					if k := constName(info, e); k != "" {
						out = append(out, k)
					}
				}
			}
		case *ast.CallExpr:
			if f2 := Callee(info, x); f2 != nil && f2 != fn && f2.Name() == fn.Name() {
				out = append(out, c.tokenPredicate(f2, depth+1)...)
			}
		}
		return true
	})
	return out
}

func precLadder(c *Ctx, assocMode bool) {
	pp := c.Pkg("parser")
	info := pp.TypesInfo
	methods := map[string]*FuncRef{}
	c.Funcs("parser", func(fr *FuncRef) {
		if recvTypeName(fr.Decl) == "Parser" {
			methods[fr.Decl.Name.Name] = fr
		}
	})
	isLadderMethod := func(fn *types.Func) bool {
		if fn == nil || !strings.HasPrefix(FuncID(fn), "parser.Parser.") {
			return false
		}
		sig := fn.Type().(*types.Signature)
		return sig.Params().Len() == 0 && sig.Results().Len() == 1 && NamedOf(sig.Results().At(0).Type()) == "parser/ast.ExpressionNode"
	}
	// sub-production of a method: the first other ladder method it mentions
	subOf := func(fr *FuncRef) string {
		sub := ""
		ast.Inspect(fr.Decl.Body, func(n ast.Node) bool {
			if sub != "" {
				return false
			}
			sel, ok := n.(*ast.SelectorExpr)
			if !ok {
				return true
			}
			if s := info.Selections[sel]; s != nil && s.Kind() == types.MethodVal {
				if fn, ok := s.Obj().(*types.Func); ok && isLadderMethod(fn) && fn.Name() != fr.Decl.Name.Name {
					sub = fn.Name()
				}
			}
			return true
		})
		return sub
	}
	// items produced by a method
	itemsOf := func(fr *FuncRef) []ladderItem {
		var toks []string
		ctor := ""
		var ctors []string
		ast.Inspect(fr.Decl.Body, func(n ast.Node) bool {
			call, ok := n.(*ast.CallExpr)
			if !ok {
				return true
			}
			fn := Callee(info, call)
			if fn == nil {
				return true
			}
			switch {
			case FuncID(fn) == "parser.Parser.binaryExpression" || FuncID(fn) == "parser.Parser.logicalExpression":
				for _, a := range call.Args[1:] {
					if k := constName(info, a); k != "" {
						toks = append(toks, k)
					}
				}
				if fn.Name() == "binaryExpression" {
					ctor = "BinaryExpressionNode"
				} else {
					ctor = "LogicalExpressionNode"
				}
			case fn.Name() == "matchOk" || fn.Name() == "match" || fn.Name() == "accept":
				for _, a := range call.Args {
					if k := constName(info, a); k != "" {
						toks = append(toks, k)
					}
				}
			case strings.HasPrefix(fn.Name(), "Is") && strings.HasSuffix(fn.Name(), "Operator") && fn.Pkg() != nil && relPkg(fn.Pkg().Path()) == "token":
				toks = append(toks, c.tokenPredicate(fn, 0)...)
			case strings.HasPrefix(fn.Name(), "New") && strings.HasSuffix(fn.Name(), "Node") && fn.Pkg() != nil && relPkg(fn.Pkg().Path()) == "parser/ast":
				ctors = append(ctors, strings.TrimPrefix(fn.Name(), "New"))
			}
			return true
		})
		var out []ladderItem
		if ctor == "" {
			for _, k := range ctors {
				if k == "BinaryExpressionNode" || k == "LogicalExpressionNode" {
					ctor = k
				}
			}
		}
		if ctor != "" {
			for _, t := range toks {
				out = append(out, ladderItem{ctor, t})
			}
		}
		for _, k := range ctors {
			if k != "BinaryExpressionNode" && k != "LogicalExpressionNode" && k != "InvalidNode" {
				out = append(out, ladderItem{node: k})
			}
		}
		return out
	}
	// anchor: the rung that parses `||`
	start := ""
	for name, fr := range methods {
		for _, it := range itemsOf(fr) {
			if it.node == "LogicalExpressionNode" && it.tok == "OR_OR" {
				start = name
			}
		}
	}
	if start == "" {
		c.Stale("parser: production building LogicalExpressionNode for token.OR_OR")
	}
	var chain []string
	seen := map[string]bool{}
	for cur := start; cur != "" && !seen[cur] && methods[cur] != nil; cur = subOf(methods[cur]) {
		seen[cur] = true
		chain = append(chain, cur)
		if len(itemsOf(methods[cur])) == 0 && len(chain) > 4 {
			break // reached primary expressions
		}
		if len(chain) > 40 {
			break
		}
	}

	// printer table
	prec := map[ladderItem]int64{}
	pfr := c.Func("parser/ast", "", "ExpressionPrecedence")
	pinfo := pfr.Pkg.TypesInfo
	ast.Inspect(pfr.Decl.Body, func(n ast.Node) bool {
		ts, ok := n.(*ast.TypeSwitchStmt)
		if !ok {
			return true
		}
		for _, cl := range ts.Body.List {
			cc := cl.(*ast.CaseClause)
			var nodes []string
			for _, e := range cc.List {
				if t := pinfo.TypeOf(e); t != nil {
					nodes = append(nodes, strings.TrimPrefix(NamedOf(t), "parser/ast."))
				}
			}
			for _, st := range cc.Body {
				switch x := st.(type) {
				case *ast.ReturnStmt:
					if v, ok := ConstInt(pinfo, x.Results[0]); ok {
						for _, nd := range nodes {
							prec[ladderItem{node: nd}] = v
						}
					}
				case *ast.SwitchStmt:
					for _, c2 := range x.Body.List {
						cc2 := c2.(*ast.CaseClause)
						var v int64 = -1
						for _, s2 := range cc2.Body {
							if r, ok := s2.(*ast.ReturnStmt); ok {
								v, _ = ConstInt(pinfo, r.Results[0])
							}
						}
						for _, e := range cc2.List {
							if k := constName(pinfo, e); k != "" && v >= 0 {
								for _, nd := range nodes {
									prec[ladderItem{nd, k}] = v
								}
							}
						}
					}
				}
			}
		}
		return false
	})
	if len(prec) < 20 {
		c.Stale("parser/ast.ExpressionPrecedence: type switch with precedence constants")
	}
	if assocMode {
		precAssoc(c, chain, methods, itemsOf)
		return
	}
	c.Stats["ladder_rungs"] = len(chain)
	c.Stats["printer_precedence_entries"] = len(prec)

	prevMax := int64(-1)
	prevName := ""
	for _, name := range chain {
		items := itemsOf(methods[name])
		if len(items) == 0 {
			continue
		}
		var vals []int64
		missing := []string{}
		for _, it := range items {
			v, ok := prec[it]
			if !ok {
				// node kinds other than the rung's own operator node (helpers
				// such as key-value or range pieces) have no ladder precedence
				if it.tok != "" {
					missing = append(missing, it.String())
				}
				continue
			}
			vals = append(vals, v)
		}
		key := "rung/" + name
		pos := methods[name].Decl.Pos()
		if len(missing) > 0 {
			c.Bad(key, pos, "operator(s) %s can be parsed at this rung but ExpressionPrecedence has no entry for them: the printer treats them as atoms and never parenthesises", strings.Join(missing, ", "))
			continue
		}
		if len(vals) == 0 {
			continue
		}
		sort.Slice(vals, func(i, j int) bool { return vals[i] < vals[j] })
		lo, hi := vals[0], vals[len(vals)-1]
		var descr []string
		for _, it := range items {
			if v, ok := prec[it]; ok {
				descr = append(descr, fmt.Sprintf("%s=%d", it, v))
			}
		}
		switch {
		case lo <= prevMax:
			c.Bad(key, pos, "rung %s binds tighter than rung %s in the parser, but the printer gives it precedence %d, not above %s's %d (%s): an operand from the looser rung is printed without the parentheses the parser needs", name, prevName, lo, prevName, prevMax, strings.Join(descr, " "))
		default:
			c.OK(key, pos, "printer precedence %d..%d above the previous rung's %d (%s)", lo, hi, prevMax, strings.Join(descr, " "))
		}
		if hi > prevMax {
			prevMax = hi
		}
		prevName = name
	}
}
