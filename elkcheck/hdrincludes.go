package main

import (
	"go/ast"
	"go/token"
	"go/types"
	"os"
	"sort"
	"strings"
)

// hdr/includes (C28, C01): the headers tell the type checker which mixins a
// built-in class includes, and with them which methods its instances have
// (`Std::ArrayList::Iterator` includes `Std::ResettableIterator::Base`, which
// includes `Std::Iterator::Base`, which includes `Std::Iterable::Base`, so
// `[1, 2].iter.map(...)` type checks). Calls on built-in classes are bound at
// compile time against the RUN-TIME class objects of package value; a method
// the checker found through an include the run-time class does not have is
// bound to nothing, and the call kills the interpreter with "tried to call an
// invalid method".

func init() {
	register(&Rule{
		ID:    "hdr/includes",
		Text:  "for every `include M` the headers declare inside a namespace N that has a run-time object in package value (named through AddConstantString), M has a run-time object too and is reachable from N's run-time object through the IncludeMixin calls and superclass options of the bootstrap code",
		Floor: 300,
		Run:   runHdrIncludes,
	})
}

func runHdrIncludes(c *Ctx) {
	fr := c.Func("types", "", "setupGlobalEnvironmentFromHeaders")
	info := fr.Pkg.TypesInfo
	join := func(p, n string) string {
		if p == "" {
			return n
		}
		return p + "::" + n
	}
	type inc struct {
		ns, mixin string
		pos       token.Pos
	}
	var hdr []inc
	firstNameToType := func(e ast.Expr) string {
		out := ""
		ast.Inspect(e, func(n ast.Node) bool {
			if out != "" {
				return false
			}
			if call, ok := n.(*ast.CallExpr); ok {
				if fn := Callee(info, call); fn != nil && fn.Name() == "NameToType" && len(call.Args) >= 1 {
					if s, ok := strConst(info, call.Args[0]); ok {
						out = s
						return false
					}
				}
			}
			return true
		})
		return out
	}
	var walk func(stmts []ast.Stmt, path string)
	walk = func(stmts []ast.Stmt, path string) {
		for _, st := range stmts {
			switch x := st.(type) {
			case *ast.BlockStmt:
				walk(x.List, path)
			case *ast.AssignStmt:
				if len(x.Lhs) == 1 && len(x.Rhs) == 1 {
					if id, ok := x.Lhs[0].(*ast.Ident); ok && id.Name == "namespace" && x.Tok == token.DEFINE {
						rhs := ast.Unparen(x.Rhs[0])
						if ta, ok := rhs.(*ast.TypeAssertExpr); ok {
							rhs = ta.X
						}
						switch r := rhs.(type) {
						case *ast.SelectorExpr:
							path = ""
						case *ast.CallExpr:
							if sel, ok := r.Fun.(*ast.SelectorExpr); ok {
								switch sel.Sel.Name {
								case "MustSubtypeString":
									n, _ := strConst(info, r.Args[0])
									path = join(path, n)
								case "Singleton":
									path = path + "#singleton"
								case "TryDefineClass", "TryDefineModule", "TryDefineMixin", "TryDefineInterface":
									var n string
									for _, a := range r.Args {
										if s, ok := symArg(info, a); ok {
											n = s
										}
									}
									path = join(path, n)
								}
							}
						}
					}
				}
			case *ast.ExprStmt:
				call, ok := x.X.(*ast.CallExpr)
				if !ok {
					continue
				}
				if fn := Callee(info, call); fn != nil && fn.Name() == "IncludeMixin" && len(call.Args) == 2 {
					if id, ok := call.Args[0].(*ast.Ident); ok && id.Name == "namespace" {
						if m := firstNameToType(call.Args[1]); m != "" {
							hdr = append(hdr, inc{path, m, call.Pos()})
						}
					}
				}
			}
		}
	}
	walk(fr.Decl.Body.List, "")
	if len(hdr) < 300 {
		c.Stale("types/headers.go: IncludeMixin(namespace, ...) statements (found " + itoa(len(hdr)) + ")")
	}

	// run time
	names := c.elkNames()
	byName := map[string]types.Object{}
	for o, n := range names {
		byName[n] = o
	}
	edges := map[string]map[string]bool{}
	addEdge := func(a, b string) {
		if edges[a] == nil {
			edges[a] = map[string]bool{}
		}
		edges[a][b] = true
	}
	nInc, nSuper := 0, 0
	for _, p := range c.Pkgs {
		rel := relPkg(p.PkgPath)
		if rel != "value" && rel != "vm" && !strings.HasPrefix(rel, "ext/") {
			continue
		}
		pinfo := p.TypesInfo
		for _, f := range p.Syntax {
			ast.Inspect(f, func(n ast.Node) bool {
				switch x := n.(type) {
				case *ast.CallExpr:
					sel, ok := x.Fun.(*ast.SelectorExpr)
					if !ok || sel.Sel.Name != "IncludeMixin" || len(x.Args) != 1 {
						return true
					}
					a, b := exprObj(pinfo, sel.X), exprObj(pinfo, x.Args[0])
					if a == nil || b == nil {
						return true
					}
					an, aok := names[a]
					bn, bok := names[b]
					if aok && bok {
						addEdge(an, bn)
						nInc++
					}
				case *ast.AssignStmt:
					// X = NewClassWithOptions(... ClassWithSuperclass(P) ...)
					if len(x.Lhs) != 1 || len(x.Rhs) != 1 {
						return true
					}
					o := exprObj(pinfo, x.Lhs[0])
					if o == nil {
						return true
					}
					ast.Inspect(x.Rhs[0], func(m ast.Node) bool {
						call, ok := m.(*ast.CallExpr)
						if !ok || len(call.Args) != 1 {
							return true
						}
						if fn := Callee(pinfo, call); fn != nil && fn.Name() == "ClassWithSuperclass" {
							if po := exprObj(pinfo, call.Args[0]); po != nil {
								if on, ok := names[o]; ok {
									if pn, ok := names[po]; ok {
										addEdge(on, pn)
										nSuper++
									}
								}
							}
						}
						return true
					})
				}
				return true
			})
		}
	}
	c.Stats["runtime_include_edges"] = nInc
	c.Stats["runtime_superclass_edges"] = nSuper
	if nInc < 20 {
		c.Stale("value: X.IncludeMixin(Y) calls on named run-time namespaces")
	}
	reach := func(from, to string) bool {
		seen := map[string]bool{from: true}
		q := []string{from}
		for len(q) > 0 {
			n := q[0]
			q = q[1:]
			if n == to {
				return true
			}
			for m := range edges[n] {
				if !seen[m] {
					seen[m] = true
					q = append(q, m)
				}
			}
		}
		return false
	}
	sort.SliceStable(hdr, func(i, j int) bool {
		if hdr[i].ns != hdr[j].ns {
			return hdr[i].ns < hdr[j].ns
		}
		return hdr[i].mixin < hdr[j].mixin
	})
	seen := map[string]bool{}
	skipped := 0
	for _, h := range hdr {
		key := h.ns + " includes " + h.mixin
		if seen[key] || strings.Contains(h.ns, "#singleton") {
			continue
		}
		seen[key] = true
		if _, ok := byName[h.ns]; !ok {
			// a namespace that exists in Elk source only (lib/*.elk): its includes are executed by the VM
			skipped++
			if os.Getenv("ELKCHECK_DEBUG") != "" {
				c.OKTrivial("no-runtime-object/"+key, h.pos, "namespace without a named run-time object")
			}
			continue
		}
		if _, ok := byName[h.mixin]; !ok {
			c.Bad(key, h.pos, "the headers say %s includes %s, but no run-time object is named %s: the methods the checker finds through this include are bound to nothing at compile time, and calling one kills the interpreter", h.ns, h.mixin, h.mixin)
			continue
		}
		c.Check(reach(h.ns, h.mixin), key, h.pos, "the headers say %s includes %s, but the run-time class object of %s never includes it (neither directly nor through an included mixin or a superclass): a method of %s called on such a value type checks, is bound to nothing at compile time, and the call kills the interpreter with \"tried to call an invalid method\"", h.ns, h.mixin, h.ns, h.mixin)
	}
	c.Stats["header_includes_of_namespaces_without_runtime_object"] = skipped

	// every namespace the headers define is a constant a program can name; it
	// has to exist at run time under the same path
	h := c.parseHeaders()
	var paths []string
	for p := range h.Kind {
		paths = append(paths, p)
	}
	sort.Strings(paths)
	for _, p := range paths {
		if !strings.HasPrefix(p, "Std") || strings.Contains(p, "#") {
			continue
		}
		if h.Kind[p] == "interface" {
			// interfaces are structural types: they carry no methods or
			// instances at run time and several exist in the checker only
			continue
		}
		_, ok := byName[p]
		c.Check(ok, "namespace/"+p, fr.Decl.Pos(), "the headers define the %s %s, but the bootstrap code of package value binds no run-time object to that constant path: a program naming it type checks and fails at run time with NoConstantError (and the includes and methods the headers give it have nothing to attach to)", h.Kind[p], p)
	}
}
