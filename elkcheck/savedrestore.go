package main

import (
	"go/ast"
	"go/token"
	"go/types"
	"sort"
)

// path/savedrestore (DESIGN.md §4.4): a function that saves a piece of
// context (prev := c.f), changes it and restores it (c.f = prev) must restore
// it on EVERY exit path; otherwise what a nested construct did leaks into
// the checking/compilation of what follows it.

type srSite struct {
	fr       *FuncRef
	loc      string // printed form of the saved location, e.g. "c.mode"
	saveVar  types.Object
	leakPos  token.Pos // an exit reached with the location modified (NoPos: none)
	restores int
}

// bracketSites finds, in one function, every (location, saved variable) pair
// with the shape save / modify / restore and evaluates all exits.
func (c *Ctx) bracketSites(fr *FuncRef) []*srSite {
	info := fr.Pkg.TypesInfo
	// discover: p := <loc>  and later  <loc> = p  (same printed location)
	type pair struct {
		loc string
		v   types.Object
	}
	saves := map[pair]bool{}
	isLoc := func(e ast.Expr) bool {
		switch x := ast.Unparen(e).(type) {
		case *ast.SelectorExpr:
			if s := info.Selections[x]; s != nil && s.Kind() == types.FieldVal {
				return true
			}
			// package-level variable pkg.X
			if v, ok := info.Uses[x.Sel].(*types.Var); ok && !v.IsField() && v.Parent() == v.Pkg().Scope() {
				return true
			}
		case *ast.Ident:
			if v, ok := info.Uses[x].(*types.Var); ok && v.Pkg() != nil && v.Parent() == v.Pkg().Scope() {
				return true
			}
		}
		return false
	}
	ast.Inspect(fr.Decl.Body, func(n ast.Node) bool {
		if _, ok := n.(*ast.FuncLit); ok {
			return false
		}
		as, ok := n.(*ast.AssignStmt)
		if !ok || as.Tok != token.DEFINE || len(as.Lhs) != len(as.Rhs) {
			return true
		}
		for i, l := range as.Lhs {
			id, ok := l.(*ast.Ident)
			if !ok || !isLoc(as.Rhs[i]) {
				continue
			}
			if o := info.Defs[id]; o != nil {
				saves[pair{types.ExprString(ast.Unparen(as.Rhs[i])), o}] = true
			}
		}
		return true
	})
	if len(saves) == 0 {
		return nil
	}
	var out []*srSite
	var keys []pair
	for p := range saves {
		keys = append(keys, p)
	}
	sort.Slice(keys, func(i, j int) bool { return keys[i].loc+keys[i].v.Name() < keys[j].loc+keys[j].v.Name() })
	for _, p := range keys {
		site := &srSite{fr: fr, loc: p.loc, saveVar: p.v}
		// state: 0 not saved yet, 1 saved & clean, 2 modified
		pe := &PathEval[int]{Info: info}
		isRestore := func(rhs ast.Expr) bool {
			id, ok := ast.Unparen(rhs).(*ast.Ident)
			return ok && info.Uses[id] == p.v
		}
		inner := func(s int, st ast.Stmt) ([]int, bool) {
			switch x := st.(type) {
			case *ast.DeferStmt:
				// defer func() { loc = prev }() restores on every exit
				restored := false
				ast.Inspect(x, func(n ast.Node) bool {
					if as, ok := n.(*ast.AssignStmt); ok && len(as.Lhs) == len(as.Rhs) {
						for i, l := range as.Lhs {
							if types.ExprString(ast.Unparen(l)) == p.loc && isRestore(as.Rhs[i]) {
								restored = true
							}
						}
					}
					return true
				})
				// defer c.setMode(prev): a deferred setter given the saved value
				if !restored && len(x.Call.Args) == 1 && isRestore(x.Call.Args[0]) {
					if sel, ok := ast.Unparen(x.Call.Fun).(*ast.SelectorExpr); ok {
						if i := lastDot(p.loc); i > 0 && types.ExprString(ast.Unparen(sel.X)) == p.loc[:i] {
							restored = true
						}
					}
				}
				if restored {
					site.restores++
					return []int{3}, true // 3: restore guaranteed by defer
				}
				return []int{s}, true
			case *ast.AssignStmt:
				if len(x.Lhs) != len(x.Rhs) {
					return nil, false
				}
				for i, l := range x.Lhs {
					if id, ok := l.(*ast.Ident); ok && x.Tok == token.DEFINE && info.Defs[id] == p.v {
						if s == 3 {
							return []int{3}, true
						}
						return []int{1}, true
					}
					if types.ExprString(ast.Unparen(l)) == p.loc {
						if s == 3 {
							return []int{3}, true
						}
						if isRestore(x.Rhs[i]) {
							site.restores++
							return []int{1}, true
						}
						if s >= 1 {
							return []int{2}, true
						}
					}
				}
			}
			return nil, false
		}
		// the state also remembers the most recent branch condition and its
		// outcome (code: 0 none, 2k+1 cond k true, 2k+2 cond k false), so that
		// `if C { loc = v } ... if C { loc = prev }` with the same pure
		// condition C is not reported as a leak
		condIdx := map[string]int{}
		pe.Stmt = func(s int, st ast.Stmt) ([]int, bool) {
			outs, h := inner(s%4, st)
			for i := range outs {
				outs[i] += 4 * (s / 4)
			}
			return outs, h
		}
		pe.Cond = func(s int, cond ast.Expr, branch bool) []int {
			txt := types.ExprString(cond)
			k, ok := condIdx[txt]
			if !ok {
				k = len(condIdx)
				condIdx[txt] = k
			}
			code := s / 4
			if code == 2*k+1 && !branch || code == 2*k+2 && branch {
				return nil // contradicts what this path already knows about C
			}
			nc := 2*k + 1
			if !branch {
				nc = 2*k + 2
			}
			return []int{s%4 + 4*nc}
		}
		pe.Call = func(s int, call *ast.CallExpr) []int {
			if id, ok := ast.Unparen(call.Fun).(*ast.Ident); ok {
				if b, ok := info.Uses[id].(*types.Builtin); ok && b.Name() == "panic" {
					return nil
				}
			}
			return []int{s}
		}
		pe.Return = func(s int, r *ast.ReturnStmt) []int {
			if s%4 == 2 && site.leakPos == token.NoPos {
				site.leakPos = r.Pos()
			}
			return []int{s}
		}
		pe.Widen = func(s int) int { return s }
		fl := pe.Block(newSet(0), fr.Decl.Body.List)
		for s := range fl.next {
			if s%4 == 2 && site.leakPos == token.NoPos {
				site.leakPos = fr.Decl.Body.Rbrace
			}
		}
		if site.restores > 0 {
			out = append(out, site)
		}
	}
	return out
}

// saveRestoreScopes: the packages in which context bracketing matters for
// a property.
func (c *Ctx) runSavedRestore(pkgs []string, exempt map[string]string) {
	for _, rel := range pkgs {
		c.Funcs(rel, func(fr *FuncRef) {
			sites := c.bracketSites(fr)
			// reset-instead-of-restore: a function that brackets two or more
			// fields of one object but, for a sibling field of the same object,
			// assigns a computed value and finally a constant (nil)
			if len(sites) >= 2 {
				c.resetNotRestore(rel, fr, sites)
			}
			for _, s := range sites {
				key := rel + "." + FuncName(fr.Decl) + "/" + s.loc
				if reason, ok := exempt[key]; ok {
					c.OK(key, fr.Decl.Pos(), "reasoned exception: %s", reason)
					continue
				}
				if s.leakPos == token.NoPos {
					c.OK(key, fr.Decl.Pos(), "saved in `%s`, restored on every exit (%d restore site(s))", s.saveVar.Name(), s.restores)
				} else {
					c.Bad(key, s.leakPos, "%s saves %s in `%s` and restores it on some paths, but this exit is reached with %s still modified: the change leaks into whatever is processed next", FuncName(fr.Decl), s.loc, s.saveVar.Name(), s.loc)
				}
			}
		})
	}
}

func init() {
	register(&Rule{
		ID:    "path/savedrestore-checker",
		Text:  "in the type checker and the bytecode compiler, every function that saves a context field, modifies it and restores it (the bracketing idiom) restores it on every exit path",
		Floor: 20,
		Run: func(c *Ctx) {
			c.runSavedRestore([]string{"types/checker", "compiler"}, savedRestoreExempt)
		},
	})
	register(&Rule{
		ID:    "path/savedrestore-test",
		Text:  "the test DSL's registration closures restore the current-suite pointer on every exit path",
		Floor: 1,
		Run: func(c *Ctx) {
			c.runSavedRestoreLits("ext/std/test", savedRestoreExempt)
		},
	})
}

var savedRestoreExempt = map[string]string{}

func (c *Ctx) resetNotRestore(rel string, fr *FuncRef, sites []*srSite) {
	info := fr.Pkg.TypesInfo
	bracketed := map[string]bool{}
	bases := map[string]bool{}
	for _, s := range sites {
		bracketed[s.loc] = true
		if i := lastDot(s.loc); i > 0 {
			bases[s.loc[:i]] = true
		}
	}
	type asg struct {
		rhs ast.Expr
		pos token.Pos
	}
	per := map[string][]asg{}
	var order []string
	var walk func(n ast.Node)
	walk = func(n ast.Node) {
		ast.Inspect(n, func(x ast.Node) bool {
			if _, ok := x.(*ast.FuncLit); ok {
				return false
			}
			as, ok := x.(*ast.AssignStmt)
			if !ok || as.Tok != token.ASSIGN || len(as.Lhs) != len(as.Rhs) {
				return true
			}
			for i, l := range as.Lhs {
				sel, ok := ast.Unparen(l).(*ast.SelectorExpr)
				if !ok {
					continue
				}
				if s := info.Selections[sel]; s == nil || s.Kind() != types.FieldVal {
					continue
				}
				loc := types.ExprString(sel)
				if bracketed[loc] || !bases[types.ExprString(sel.X)] {
					continue
				}
				if _, seen := per[loc]; !seen {
					order = append(order, loc)
				}
				per[loc] = append(per[loc], asg{as.Rhs[i], as.Pos()})
			}
			return true
		})
	}
	walk(fr.Decl.Body)
	isConst := func(e ast.Expr) bool {
		if id, ok := ast.Unparen(e).(*ast.Ident); ok && (id.Name == "nil" || id.Name == "false" || id.Name == "true") {
			return true
		}
		tv, ok := info.Types[e]
		return ok && tv.Value != nil
	}
	for _, loc := range order {
		as := per[loc]
		if len(as) < 2 {
			continue
		}
		last := as[len(as)-1]
		computed := false
		for _, a := range as[:len(as)-1] {
			if !isConst(a.rhs) {
				computed = true
			}
		}
		key := rel + "." + FuncName(fr.Decl) + "/reset/" + loc
		if computed && isConst(last.rhs) {
			c.Bad(key, last.pos, "%s restores %d sibling context field(s) from saved copies but resets %s to the constant `%s`: when the function is re-entered for a nested construct (a closure literal), the enclosing construct continues with %s cleared", FuncName(fr.Decl), len(sites), loc, types.ExprString(last.rhs), loc)
		}
	}
}

func lastDot(s string) int {
	for i := len(s) - 1; i >= 0; i-- {
		if s[i] == '.' {
			return i
		}
	}
	return -1
}

// runSavedRestoreLits applies the rule to function literals (native method
// bodies are closures passed to vm.Def).
func (c *Ctx) runSavedRestoreLits(rel string, exempt map[string]string) {
	c.Funcs(rel, func(fr *FuncRef) {
		n := 0
		ast.Inspect(fr.Decl.Body, func(x ast.Node) bool {
			fl, ok := x.(*ast.FuncLit)
			if !ok {
				return true
			}
			n++
			fake := &FuncRef{Pkg: fr.Pkg, Decl: &ast.FuncDecl{Name: fr.Decl.Name, Type: fl.Type, Body: fl.Body}, Obj: fr.Obj}
			for _, s := range c.bracketSites(fake) {
				key := rel + "." + FuncName(fr.Decl) + "/closure" + itoa(n) + "/" + s.loc
				if s.leakPos == token.NoPos {
					c.OK(key, fl.Pos(), "saved in `%s`, restored on every exit", s.saveVar.Name())
				} else {
					c.Bad(key, s.leakPos, "closure in %s saves %s in `%s` but this exit is reached with %s still modified", FuncName(fr.Decl), s.loc, s.saveVar.Name(), s.loc)
				}
			}
			return true
		})
	})
}
