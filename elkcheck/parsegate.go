package main

import (
	"fmt"
	"go/ast"
	"go/token"
	"go/types"
)

// front/parse-gate (C03): the checker's dispatchers may assume a well-formed
// tree (no InvalidNode, every slot filled with a node kind the grammar allows)
// only because a tree that came with syntax diagnostics never reaches them.

func init() {
	register(&Rule{
		ID:    "front/parse-gate",
		Text:  "every place in the type checker that parses source text returns (after recording the diagnostics) when the parser reported any, before the tree is handed to any checking function: `tree, errs := parser.Parse(..)` is immediately followed by `if errs != nil { ...; return }`. The panicking defaults of the checker's and compiler's node switches (InvalidNode, half-built nodes) are unreachable only under this gate",
		Floor: 5,
		Run:   runParseGate,
	})
}

func runParseGate(c *Ctx) {
	p := c.Pkg("types/checker")
	info := p.TypesInfo
	c.Funcs("types/checker", func(fr *FuncRef) {
		n := 0
		var walk func(list []ast.Stmt)
		walk = func(list []ast.Stmt) {
			for i, st := range list {
				// nested blocks
				ast.Inspect(st, func(nd ast.Node) bool {
					switch b := nd.(type) {
					case *ast.BlockStmt:
						if nd != st {
							walk(b.List)
							return false
						}
					case *ast.FuncLit:
						walk(b.Body.List)
						return false
					case *ast.CaseClause:
						walk(b.Body)
						return false
					}
					return true
				})
				as, ok := st.(*ast.AssignStmt)
				if !ok || len(as.Rhs) != 1 || len(as.Lhs) != 2 {
					continue
				}
				call, ok := ast.Unparen(as.Rhs[0]).(*ast.CallExpr)
				if !ok || !IsCall(info, call, "parser.Parse", "parser.Parser.Parse") {
					continue
				}
				n++
				key := fmt.Sprintf("%s#%d", FuncName(fr.Decl), n)
				errId, _ := as.Lhs[1].(*ast.Ident)
				if errId == nil || errId.Name == "_" {
					c.Bad(key, as.Pos(), "the diagnostics of parser.Parse are discarded and the tree is used regardless")
					continue
				}
				errObj := info.ObjectOf(errId)
				gated := false
				if i+1 < len(list) {
					if ifs, ok := list[i+1].(*ast.IfStmt); ok && ifs.Init == nil {
						if be, ok := ast.Unparen(ifs.Cond).(*ast.BinaryExpr); ok && be.Op == token.NEQ && isNilIdent(info, be.Y) {
							if id, ok := ast.Unparen(be.X).(*ast.Ident); ok && info.Uses[id] == errObj && len(ifs.Body.List) > 0 {
								if _, isRet := ifs.Body.List[len(ifs.Body.List)-1].(*ast.ReturnStmt); isRet {
									gated = true
								}
							}
						}
					}
				}
				c.Check(gated, key, as.Pos(), "the tree returned by parser.Parse is used without first returning when diagnostics were reported (expected `if %s != nil { ...; return }` as the next statement)", errId.Name)
			}
		}
		walk(fr.Decl.Body.List)
	})
	_ = types.Typ
}
