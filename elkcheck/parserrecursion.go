package main

import (
	"go/ast"
	"go/types"
	"sort"
	"strings"
)

// front/recursion-bounded (C03): the parser is recursive descent, and a Go
// stack overflow is a fatal error no recover() can turn into a diagnostic. The
// depth of the recursion is bounded only if every cycle of the parser's call
// graph passes through a production that counts the nesting and refuses to go
// deeper. Equivalently: once the productions that check the limit are taken
// out, the remaining call graph of the Parser's methods has no cycle.

func init() {
	register(&Rule{
		ID:    "front/recursion-bounded",
		Text:  "after removing the Parser methods that call the nesting guard (the method that increments the nesting counter and compares it with the limit) the call graph of the remaining Parser methods (calls resolved statically, including those inside function literals) is acyclic: every recursive production passes the guard on every cycle",
		Floor: 1,
		Run:   runParserRecursionBounded,
	})
}

// recursionExempt: cycles (named by their smallest member) that cannot be
// driven arbitrarily deep by input.
var recursionExempt = map[string]string{}

func runParserRecursionBounded(c *Ctx) {
	for _, rel := range []string{"parser", "regex/parser"} {
		parserRecursionBounded(c, rel)
	}
}

func parserRecursionBounded(c *Ctx, rel string) {
	p := c.Pkg(rel)
	info := p.TypesInfo
	byObj := map[*types.Func]*FuncRef{}
	c.Funcs(rel, func(fr *FuncRef) {
		if recvTypeName(fr.Decl) == "Parser" {
			byObj[fr.Obj] = fr
		}
	})
	// the guard: a Parser method that increments a field and compares it with a constant
	var guard *types.Func
	for fn, fr := range byObj {
		incs, cmps := false, false
		ast.Inspect(fr.Decl.Body, func(n ast.Node) bool {
			switch x := n.(type) {
			case *ast.IncDecStmt:
				if sel, ok := x.X.(*ast.SelectorExpr); ok && strings.Contains(strings.ToLower(sel.Sel.Name), "nest") {
					incs = true
				}
			case *ast.BinaryExpr:
				if tv, ok := info.Types[x.Y]; ok && tv.Value != nil {
					if sel, ok := ast.Unparen(x.X).(*ast.SelectorExpr); ok && strings.Contains(strings.ToLower(sel.Sel.Name), "nest") {
						cmps = true
					}
				}
			}
			return true
		})
		if incs && cmps {
			guard = fn
		}
	}
	if guard == nil {
		c.Bad(rel+"/guard", p.Syntax[0].Pos(), "the parser has no method that counts the nesting of the constructs it parses and compares the count with a limit: every recursive production can be driven until the Go runtime aborts the process with a stack overflow")
		return
	}
	guarded := map[*types.Func]bool{}
	edges := map[*types.Func][]*types.Func{}
	for fn, fr := range byObj {
		ast.Inspect(fr.Decl.Body, func(n ast.Node) bool {
			if call, ok := n.(*ast.CallExpr); ok {
				if cal := Callee(info, call); cal != nil {
					if cal.Origin() == guard {
						guarded[fn] = true
					}
					if byObj[cal.Origin()] != nil {
						edges[fn] = append(edges[fn], cal.Origin())
					}
				}
			}
			return true
		})
	}
	c.Stats[rel+"_methods"] = len(byObj)
	c.Stats[rel+"_methods_calling_the_nesting_guard"] = len(guarded)
	// Tarjan SCC on the graph without guarded functions
	index := 0
	idx := map[*types.Func]int{}
	low := map[*types.Func]int{}
	on := map[*types.Func]bool{}
	var stack []*types.Func
	var sccs [][]*types.Func
	var strong func(v *types.Func)
	strong = func(v *types.Func) {
		index++
		idx[v], low[v] = index, index
		stack = append(stack, v)
		on[v] = true
		for _, w := range edges[v] {
			if guarded[w] || w == guard {
				continue
			}
			if idx[w] == 0 {
				strong(w)
				if low[w] < low[v] {
					low[v] = low[w]
				}
			} else if on[w] && idx[w] < low[v] {
				low[v] = idx[w]
			}
		}
		if low[v] == idx[v] {
			var comp []*types.Func
			for {
				w := stack[len(stack)-1]
				stack = stack[:len(stack)-1]
				on[w] = false
				comp = append(comp, w)
				if w == v {
					break
				}
			}
			selfLoop := false
			for _, w := range edges[v] {
				if w == v {
					selfLoop = true
				}
			}
			if len(comp) > 1 || selfLoop {
				sccs = append(sccs, comp)
			}
		}
	}
	var fns []*types.Func
	for fn := range byObj {
		if !guarded[fn] && fn != guard {
			fns = append(fns, fn)
		}
	}
	sort.Slice(fns, func(i, j int) bool { return byObj[fns[i]].Decl.Pos() < byObj[fns[j]].Decl.Pos() })
	for _, fn := range fns {
		if idx[fn] == 0 {
			strong(fn)
		}
	}
	c.OK(rel+"/guard", byObj[guard].Decl.Pos(), "%s counts the nesting; %d productions call it", guard.Name(), len(guarded))
	for _, comp := range sccs {
		var names []string
		for _, f := range comp {
			names = append(names, f.Name())
		}
		sort.Strings(names)
		key := rel + "/cycle/" + names[0]
		show := names
		if len(show) > 8 {
			show = append(show[:8:8], "...")
		}
		if reason, ok := recursionExempt[names[0]]; ok {
			c.OK(key, byObj[comp[0]].Decl.Pos(), "reasoned exception: %s", reason)
			continue
		}
		c.Bad(key, byObj[comp[0]].Decl.Pos(), "the Parser methods %s call each other in a cycle (%d methods) that never passes %s: input that keeps the parser in this cycle makes it recurse until the Go runtime kills the process with a stack overflow, which no recover() catches", strings.Join(show, ", "), len(comp), guard.Name())
	}
}
