package main

import (
	"go/ast"
	"go/types"
	"sort"
	"strings"
)

// path/ctx-dispatch (C33): the blocking operations of channels come in two
// variants, M() and MCtx(ctx), and only the second wakes up when the thread is
// aborted. A type switch in the VM that handles a value through a general
// interface (`case value.NativeIterator: v.NextValue()`) silently picks the
// blocking variant for every implementing type that has an MCtx as well -
// unless an earlier case of the same switch takes those types out.

func init() {
	register(&Rule{
		ID:    "path/ctx-dispatch",
		Text:  "in package vm, for every case of a type switch that binds the value to an interface type I and calls a method M on it: each concrete type of packages value and vm that implements I and also has a method named M+\"Ctx\" is matched by an earlier case of the same switch",
		Floor: 1,
		Run:   runCtxDispatch,
	})
}

func runCtxDispatch(c *Ctx) {
	vmp := c.Pkg("vm")
	info := vmp.TypesInfo
	// concrete named types of value and vm
	var concrete []*types.Named
	for _, rel := range []string{"value", "vm"} {
		p := c.Pkg(rel)
		sc := p.Types.Scope()
		for _, n := range sc.Names() {
			tn, ok := sc.Lookup(n).(*types.TypeName)
			if !ok || tn.IsAlias() {
				continue
			}
			nt, ok := tn.Type().(*types.Named)
			if !ok {
				continue
			}
			if _, isIface := nt.Underlying().(*types.Interface); isIface {
				continue
			}
			if nt.TypeParams().Len() > 0 {
				continue // generic types are checked through their instantiations' method sets below
			}
			concrete = append(concrete, nt)
		}
	}
	hasMethod := func(t types.Type, name string) bool {
		for _, tt := range []types.Type{t, types.NewPointer(t)} {
			ms := types.NewMethodSet(tt)
			for i := 0; i < ms.Len(); i++ {
				if ms.At(i).Obj().Name() == name {
					return true
				}
			}
		}
		return false
	}
	implements := func(t types.Type, iface *types.Interface) bool {
		return types.Implements(t, iface) || types.Implements(types.NewPointer(t), iface)
	}
	n := 0
	c.Funcs("vm", func(fr *FuncRef) {
		ast.Inspect(fr.Decl.Body, func(nd ast.Node) bool {
			ts, ok := nd.(*ast.TypeSwitchStmt)
			if !ok {
				return true
			}
			// earlier case types, in order
			var earlier []types.Type
			for _, cl := range ts.Body.List {
				cc := cl.(*ast.CaseClause)
				var caseTypes []types.Type
				for _, e := range cc.List {
					if t := info.TypeOf(e); t != nil {
						caseTypes = append(caseTypes, t)
					}
				}
				for _, ct := range caseTypes {
					iface, isIface := ct.Underlying().(*types.Interface)
					if !isIface || len(cc.List) != 1 {
						continue
					}
					// methods called on the bound variable in this clause
					bound := info.Implicits[cc]
					if bound == nil {
						continue
					}
					called := map[string]ast.Node{}
					for _, st := range cc.Body {
						ast.Inspect(st, func(m ast.Node) bool {
							if call, ok := m.(*ast.CallExpr); ok {
								if sel, ok := call.Fun.(*ast.SelectorExpr); ok {
									if id, ok := ast.Unparen(sel.X).(*ast.Ident); ok && info.Uses[id] == bound {
										called[sel.Sel.Name] = call
									}
								}
							}
							return true
						})
					}
					var ms []string
					for m := range called {
						ms = append(ms, m)
					}
					sort.Strings(ms)
					for _, m := range ms {
						if strings.HasSuffix(m, "Ctx") {
							continue
						}
						var missed []string
						for _, t := range concrete {
							if !implements(t, iface) || !hasMethod(t, m+"Ctx") {
								continue
							}
							covered := false
							for _, et := range earlier {
								if ei, ok := et.Underlying().(*types.Interface); ok {
									if implements(t, ei) {
										covered = true
									}
								} else if types.Identical(et, t) || types.Identical(et, types.NewPointer(t)) {
									covered = true
								}
							}
							if !covered {
								missed = append(missed, t.Obj().Name())
							}
						}
						n++
						key := FuncName(fr.Decl) + "/case " + NamedOf(ct) + "/" + m
						sort.Strings(missed)
						c.Check(len(missed) == 0, key, called[m].Pos(), "%s handles a value through the interface %s and calls %s on it; %s implement that interface and also have %sCtx, the variant that wakes up when the thread is aborted, and no earlier case of the switch takes them out: a thread blocked here cannot be cancelled", FuncName(fr.Decl), NamedOf(ct), m, strings.Join(missed, ", "), m)
					}
				}
				earlier = append(earlier, caseTypes...)
			}
			return true
		})
	})
	c.Stats["interface_cases_calling_a_method"] = n
}
