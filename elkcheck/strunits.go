package main

import (
	"fmt"
	"go/ast"
	"go/token"
	"go/types"
	"strings"
)

// str/units (C20): a string has three sizes - bytes, code points, grapheme
// clusters - and every index or length an Elk program passes is in one of
// them. Comparing or subtracting quantities in different units is how
// `"é".rjust(3, '-')` came out one character short.

func init() {
	register(&Rule{
		ID:    "str/units",
		Text:  "in the string implementation (value.String / value.Char methods and the native String methods) no comparison, addition or subtraction combines two integer quantities of different units, where the unit of an expression is: BYTES for len(string) and ByteCount(); CHARS for utf8.RuneCount*, CharCount(), Length(); GRAPHEMES for uniseg cluster counts and GraphemeCount(); the unit of the integer parameters of the index/length taking methods as documented in the headers (frozen table); and the unit a local inherits when every assignment to it has one and the same unit",
		Floor: 5,
		Run:   runStrUnits,
	})
}

type strUnit int

const (
	unitNone strUnit = iota
	unitBytes
	unitChars
	unitGraphemes
	unitMixed
)

func (u strUnit) String() string {
	return [...]string{"unknown", "BYTES", "CHARS", "GRAPHEMES", "mixed"}[u]
}

// strParamUnits: unit of integer parameters, from the header documentation.
var strParamUnits = map[string]strUnit{
	"String.RJust/targetLen":    unitChars,     // "justified to the given length": String#length counts code points
	"String.LJust/targetLen":    unitChars,     // same
	"String.Get/index":          unitChars,     // String#[] / char_at index characters
	"String.ByteAtInt/index":    unitBytes,     // String#byte_at
	"String.GraphemeAtInt/index": unitGraphemes, // String#grapheme_at
}

func runStrUnits(c *Ctx) {
	for _, rel := range []string{"value", "vm"} {
		p := c.Pkg(rel)
		info := p.TypesInfo
		isStringy := func(t types.Type) bool {
			if t == nil {
				return false
			}
			if b, ok := t.Underlying().(*types.Basic); ok && b.Info()&types.IsString != 0 {
				return true
			}
			return false
		}
		c.Funcs(rel, func(fr *FuncRef) {
			pos := c.Fset.Position(fr.Decl.Pos())
			base := pos.Filename[strings.LastIndex(pos.Filename, "/")+1:]
			if base != "string.go" && base != "char.go" {
				return
			}
			fname := FuncName(fr.Decl)
			vunit := map[types.Object]strUnit{}
			// parameters
			if fr.Decl.Type.Params != nil {
				for _, f := range fr.Decl.Type.Params.List {
					for _, nm := range f.Names {
						if u, ok := strParamUnits[fname+"/"+nm.Name]; ok {
							vunit[info.Defs[nm]] = u
						}
					}
				}
			}
			var unitOf func(e ast.Expr) strUnit
			unitOf = func(e ast.Expr) strUnit {
				e = ast.Unparen(e)
				switch x := e.(type) {
				case *ast.Ident:
					return vunit[info.Uses[x]]
				case *ast.CallExpr:
					if id, ok := ast.Unparen(x.Fun).(*ast.Ident); ok {
						if b, ok := info.Uses[id].(*types.Builtin); ok && b.Name() == "len" && len(x.Args) == 1 && isStringy(info.TypeOf(x.Args[0])) {
							return unitBytes
						}
					}
					if tv, ok := info.Types[x.Fun]; ok && tv.IsType() && len(x.Args) == 1 {
						return unitOf(x.Args[0]) // conversion
					}
					if fn := Callee(info, x); fn != nil {
						pkg := ""
						if fn.Pkg() != nil {
							pkg = fn.Pkg().Path()
						}
						switch {
						case pkg == "unicode/utf8" && strings.HasPrefix(fn.Name(), "RuneCount"):
							return unitChars
						case strings.HasSuffix(pkg, "uniseg") && strings.Contains(fn.Name(), "ClusterCount"):
							return unitGraphemes
						case fn.Name() == "ByteCount":
							return unitBytes
						case fn.Name() == "CharCount" || (fn.Name() == "Length" && recvNameOf(fn) == "String"):
							return unitChars
						case fn.Name() == "GraphemeCount":
							return unitGraphemes
						}
					}
				case *ast.BinaryExpr:
					if x.Op == token.ADD || x.Op == token.SUB {
						a, b := unitOf(x.X), unitOf(x.Y)
						if a == unitNone {
							return b
						}
						if b == unitNone || a == b {
							return a
						}
						return unitMixed
					}
				}
				return unitNone
			}
			// locals: fixpoint over assignments (a local has a unit when all its
			// assignments with a known unit agree and none is mixed)
			for iter := 0; iter < 4; iter++ {
				ast.Inspect(fr.Decl.Body, func(n ast.Node) bool {
					as, ok := n.(*ast.AssignStmt)
					if !ok || len(as.Lhs) != len(as.Rhs) {
						return true
					}
					for i, l := range as.Lhs {
						id, ok := l.(*ast.Ident)
						if !ok {
							continue
						}
						o := info.ObjectOf(id)
						if o == nil {
							continue
						}
						if b, ok := o.Type().Underlying().(*types.Basic); !ok || b.Info()&types.IsInteger == 0 {
							continue
						}
						u := unitOf(as.Rhs[i])
						if u == unitNone {
							continue
						}
						if cur, seen := vunit[o]; !seen || cur == unitNone {
							vunit[o] = u
						} else if cur != u {
							vunit[o] = unitMixed
						}
					}
					return true
				})
			}
			n := 0
			nKnown := 0
			ast.Inspect(fr.Decl.Body, func(nd ast.Node) bool {
				be, ok := nd.(*ast.BinaryExpr)
				if !ok {
					return true
				}
				switch be.Op {
				case token.LSS, token.LEQ, token.GTR, token.GEQ, token.EQL, token.NEQ, token.ADD, token.SUB:
				default:
					return true
				}
				a, b := unitOf(be.X), unitOf(be.Y)
				if a == unitNone || b == unitNone || a == unitMixed || b == unitMixed {
					return true
				}
				nKnown++
				if a != b {
					n++
					c.Bad(fmt.Sprintf("%s.%s/mix#%d", rel, fname, n), be.Pos(), "%s.%s combines %s (%s) with %s (%s): a string containing multi-byte characters or combining sequences makes the two disagree", rel, fname, types.ExprString(be.X), a, types.ExprString(be.Y), b)
				}
				return true
			})
			if n == 0 && (nKnown > 0 || len(vunit) > 0) {
				c.OK(rel+"."+fname, fr.Decl.Pos(), "%d unit-carrying operations, all in one unit", nKnown)
			}
		})
	}
}
