package main

import (
	"go/ast"
	"go/constant"
	"go/token"
	"go/types"
	"strings"
)

// Rules on the test runner (C34).

func init() {
	register(&Rule{
		ID:    "test/filter-guard",
		Text:  "every registration of a test case (Suite.RegisterCase) is reached only after CaseMatchesFilters returned true for it, and every registration of a sub-suite (RegisterSubSuite) only after SuiteMatchesFilters did not return SUITE_MATCH_FALSE",
		Floor: 4,
		Run:   runTestFilterGuard,
	})
	register(&Rule{
		ID:    "test/exit-status",
		Text:  "the `elk test` command exits with a non-zero status whenever the run produced no report or a report whose status is not TEST_SUCCESS",
		Floor: 1,
		Run:   runTestExitStatus,
	})
	register(&Rule{
		ID:    "test/suite-filter-eval",
		Text:  "SuiteMatchesFilters, evaluated over every sequence of up to three filter answers from {FALSE, TRUE, FULL}, returns FALSE iff some filter answered FALSE, FULL iff there is at least one filter and all answered FULL, and TRUE otherwise (the function touches the answers only through comparisons, so the 40 sequences are all of its behaviours up to length three)",
		Floor: 40,
		Run:   runSuiteFilterEval,
	})
}

func runTestFilterGuard(c *Ctx) {
	p := c.Pkg("ext/std/test")
	info := p.TypesInfo
	n := 0
	for _, f := range p.Syntax {
		ast.Inspect(f, func(x ast.Node) bool {
			fl, ok := x.(*ast.FuncLit)
			if !ok {
				return true
			}
			// does this closure register something?
			kind := ""
			ast.Inspect(fl.Body, func(y ast.Node) bool {
				if call, ok := y.(*ast.CallExpr); ok {
					if fn := Callee(info, call); fn != nil {
						switch fn.Name() {
						case "RegisterCase":
							kind = "case"
						case "RegisterSubSuite":
							kind = "suite"
						}
					}
				}
				return true
			})
			if kind == "" {
				return true
			}
			n++
			key := "closure" + itoa(n) + "/" + kind
			// state: 0 unchecked, 1 matched
			violated := token.NoPos
			pe := &PathEval[int]{Info: info}
			isFilterCall := func(e ast.Expr, name string) bool {
				call, ok := ast.Unparen(e).(*ast.CallExpr)
				if !ok {
					return false
				}
				fn := Callee(info, call)
				return fn != nil && fn.Name() == name
			}
			// variable holding the SuiteMatchesFilters answer
			var matchVar types.Object
			pe.Stmt = func(s int, st ast.Stmt) ([]int, bool) {
				if as, ok := st.(*ast.AssignStmt); ok && len(as.Lhs) == 1 && len(as.Rhs) == 1 && isFilterCall(as.Rhs[0], "SuiteMatchesFilters") {
					if id, ok := as.Lhs[0].(*ast.Ident); ok {
						matchVar = info.Defs[id]
					}
					return []int{s}, true
				}
				// switch suiteMatch { case SUITE_MATCH_FALSE: return ... }
				if sw, ok := st.(*ast.SwitchStmt); ok && sw.Tag != nil {
					if id, ok := ast.Unparen(sw.Tag).(*ast.Ident); ok && matchVar != nil && info.Uses[id] == matchVar {
						for _, cl := range sw.Body.List {
							cc := cl.(*ast.CaseClause)
							for _, e := range cc.List {
								if constName(info, e) == "SUITE_MATCH_FALSE" && len(cc.Body) > 0 {
									if _, isRet := cc.Body[len(cc.Body)-1].(*ast.ReturnStmt); isRet {
										return []int{1}, true // only non-FALSE answers continue
									}
								}
							}
						}
					}
				}
				return nil, false
			}
			pe.Cond = func(s int, cond ast.Expr, branch bool) []int {
				e := ast.Unparen(cond)
				neg := false
				if u, ok := e.(*ast.UnaryExpr); ok && u.Op == token.NOT {
					neg, e = true, u.X
				}
				if isFilterCall(e, "CaseMatchesFilters") {
					if branch != neg {
						return []int{1}
					}
					return []int{0}
				}
				return []int{s}
			}
			pe.Call = func(s int, call *ast.CallExpr) []int {
				if fn := Callee(info, call); fn != nil && (fn.Name() == "RegisterCase" || fn.Name() == "RegisterSubSuite") {
					if s != 1 && violated == token.NoPos {
						violated = call.Pos()
					}
				}
				return []int{s}
			}
			pe.Block(newSet(0), fl.Body.List)
			if violated == token.NoPos {
				c.OK(key, fl.Pos(), "registration is reached only on the matching branch of the filter test")
			} else {
				c.Bad(key, violated, "a test %s is registered on a path where the filters were not consulted or rejected it: it would run although it was not selected", kind)
			}
			return true
		})
	}
}

func runTestExitStatus(c *Ctx) {
	p := c.Pkg("cmd/elk")
	info := p.TypesInfo
	found := false
	c.Funcs("cmd/elk", func(fr *FuncRef) {
		ast.Inspect(fr.Decl.Body, func(n ast.Node) bool {
			ifs, ok := n.(*ast.IfStmt)
			if !ok {
				return true
			}
			txt := types.ExprString(ifs.Cond)
			if !strings.Contains(txt, "TEST_SUCCESS") {
				return true
			}
			found = true
			// condition must be true for: nil report, and status != TEST_SUCCESS
			hasNil := strings.Contains(txt, "== nil")
			hasNE := false
			ast.Inspect(ifs.Cond, func(y ast.Node) bool {
				if b, ok := y.(*ast.BinaryExpr); ok && b.Op == token.NEQ && strings.Contains(types.ExprString(b), "TEST_SUCCESS") && strings.Contains(types.ExprString(b), "Status()") {
					hasNE = true
				}
				return true
			})
			or := false
			if b, ok := ast.Unparen(ifs.Cond).(*ast.BinaryExpr); ok && b.Op == token.LOR {
				or = true
			}
			exits := false
			for _, st := range ifs.Body.List {
				if es, ok := st.(*ast.ExprStmt); ok {
					if call, ok := es.X.(*ast.CallExpr); ok {
						if fn := Callee(info, call); fn != nil && fn.Pkg() != nil && fn.Pkg().Path() == "os" && fn.Name() == "Exit" && len(call.Args) == 1 {
							if v, ok := ConstInt(info, call.Args[0]); ok && v != 0 {
								exits = true
							}
						}
					}
				}
			}
			c.Check(hasNil && hasNE && or && exits, FuncName(fr.Decl)+"/exit", ifs.Pos(), "the test command must call os.Exit(non-zero) when `report == nil || report.Status() != TEST_SUCCESS`; found condition `%s`", txt)
			return true
		})
	})
	if !found {
		c.Stale("cmd/elk: test of report.Status() against test.TEST_SUCCESS")
	}
}

// ---------------------------------------------------------------------------
// finite evaluation of SuiteMatchesFilters

// a tiny evaluator for the statement forms SuiteMatchesFilters uses, over
// SuiteMatch constants only.
type miniEnv struct {
	c       *Ctx
	info    *types.Info
	vars    map[types.Object]int64
	answers []int64 // what filter i answers
	cur     int     // current filter index inside the range loop
	ret     *int64
	bad     string
}

func (m *miniEnv) expr(e ast.Expr) (int64, bool) {
	e = ast.Unparen(e)
	if v, ok := ConstInt(m.info, e); ok {
		return v, true
	}
	switch x := e.(type) {
	case *ast.Ident:
		if v, ok := m.vars[m.info.Uses[x]]; ok {
			return v, true
		}
	case *ast.CallExpr:
		// filter.SuiteMatches(suite)
		if sel, ok := x.Fun.(*ast.SelectorExpr); ok && sel.Sel.Name == "SuiteMatches" {
			return m.answers[m.cur], true
		}
	case *ast.BinaryExpr:
		a, ok1 := m.expr(x.X)
		b, ok2 := m.expr(x.Y)
		if ok1 && ok2 {
			var r bool
			switch x.Op {
			case token.EQL:
				r = a == b
			case token.NEQ:
				r = a != b
			default:
				m.bad = "operator " + x.Op.String()
				return 0, false
			}
			if r {
				return 1, true
			}
			return 0, true
		}
	case *ast.SelectorExpr:
		// suite.FullMatch: the pre-marked case is outside this evaluation
		if x.Sel.Name == "FullMatch" {
			return 0, true
		}
	}
	m.bad = "expression " + types.ExprString(e)
	return 0, false
}

// returns true when a return statement was executed
func (m *miniEnv) stmts(list []ast.Stmt) bool {
	for _, st := range list {
		if m.stmt(st) {
			return true
		}
		if m.bad != "" {
			return true
		}
	}
	return false
}

func (m *miniEnv) stmt(st ast.Stmt) bool {
	switch x := st.(type) {
	case *ast.ReturnStmt:
		if len(x.Results) == 1 {
			if v, ok := m.expr(x.Results[0]); ok {
				m.ret = &v
			}
		}
		return true
	case *ast.DeclStmt:
		if gd, ok := x.Decl.(*ast.GenDecl); ok {
			for _, sp := range gd.Specs {
				if vs, ok := sp.(*ast.ValueSpec); ok {
					for _, n := range vs.Names {
						m.vars[m.info.Defs[n]] = 0 // zero value
					}
				}
			}
		}
	case *ast.AssignStmt:
		if len(x.Lhs) == 1 && len(x.Rhs) == 1 {
			if id, ok := x.Lhs[0].(*ast.Ident); ok {
				if v, ok := m.expr(x.Rhs[0]); ok {
					o := m.info.Defs[id]
					if o == nil {
						o = m.info.Uses[id]
					}
					m.vars[o] = v
				}
				return false
			}
		}
		m.bad = "assignment form"
	case *ast.IfStmt:
		v, ok := m.expr(x.Cond)
		if !ok {
			return false
		}
		if v != 0 {
			return m.stmts(x.Body.List)
		}
		if x.Else != nil {
			return m.stmt(x.Else)
		}
	case *ast.BlockStmt:
		return m.stmts(x.List)
	case *ast.RangeStmt:
		for i := range m.answers {
			m.cur = i
			if m.stmts(x.Body.List) {
				return true
			}
		}
	case *ast.SwitchStmt:
		tag, ok := m.expr(x.Tag)
		if !ok {
			return false
		}
		for _, cl := range x.Body.List {
			cc := cl.(*ast.CaseClause)
			for _, e := range cc.List {
				if v, ok := ConstInt(m.info, e); ok && v == tag {
					return m.stmts(cc.Body)
				}
			}
		}
		for _, cl := range x.Body.List {
			cc := cl.(*ast.CaseClause)
			if cc.List == nil {
				return m.stmts(cc.Body)
			}
		}
	default:
		m.bad = "statement form"
	}
	return false
}

func runSuiteFilterEval(c *Ctx) {
	fr := c.Func("ext/std/test", "", "SuiteMatchesFilters")
	info := fr.Pkg.TypesInfo
	cv := func(name string) int64 {
		k, ok := fr.Pkg.Types.Scope().Lookup(name).(*types.Const)
		if !ok {
			c.Stale("ext/std/test." + name)
		}
		v, _ := constant.Int64Val(k.Val())
		return v
	}
	F, T, U := cv("SUITE_MATCH_FALSE"), cv("SUITE_MATCH_TRUE"), cv("SUITE_MATCH_FULL")
	names := map[int64]string{F: "FALSE", T: "TRUE", U: "FULL"}
	vals := []int64{F, T, U}
	var seqs [][]int64
	seqs = append(seqs, []int64{})
	for _, a := range vals {
		seqs = append(seqs, []int64{a})
		for _, b := range vals {
			seqs = append(seqs, []int64{a, b})
			for _, d := range vals {
				seqs = append(seqs, []int64{a, b, d})
			}
		}
	}
	for _, seq := range seqs {
		want := T
		allFull := len(seq) > 0
		anyFalse := false
		for _, a := range seq {
			if a != U {
				allFull = false
			}
			if a == F {
				anyFalse = true
			}
		}
		if anyFalse {
			want = F
		} else if allFull {
			want = U
		}
		m := &miniEnv{c: c, info: info, vars: map[types.Object]int64{}, answers: seq}
		m.stmts(fr.Decl.Body.List)
		var parts []string
		for _, a := range seq {
			parts = append(parts, names[a])
		}
		key := "answers/[" + strings.Join(parts, ",") + "]"
		if m.bad != "" || m.ret == nil {
			c.Unknown(key, fr.Decl.Pos(), "the function uses a form the finite evaluator does not model: %s", m.bad)
			continue
		}
		c.Check(*m.ret == want, key, fr.Decl.Pos(), "filters answering [%s] give %s, expected %s", strings.Join(parts, ","), names[*m.ret], names[want])
	}
}
