package main

import (
	"go/ast"
	"go/token"
	"go/types"
)

// path/continue-closes, second version. The first version matched the literal
// statement sequence of the two loop compilers and lost its instances when a
// seeded refactor moved that sequence into a helper (the floor then fired,
// which would also have happened for a correct refactor). This version states
// the obligation on the continue target itself:
//
//   in every compiler function that patches the jumps of a loop
//   (patchLoopJumps(target)) and closes the upvalues of the iteration after
//   the body, the LAST assignment to `target` before the patch call takes its
//   value from the instruction offset recorded immediately before that
//   closing - directly, or as the result of a helper that performs the
//   closing and returns that offset.
//
// An assignment after it (the increment block of a numeric for) makes
// `continue` jump past the closing, and closures of consecutive iterations
// share one variable.

func runContinueCloses2(c *Ctx) {
	p := c.Pkg("compiler")
	info := p.TypesInfo
	const closeFn = "closeUpvaluesInCurrentScope"
	// marker of a function: local defined from nextInstructionOffset() in the
	// statement right before a closeFn call
	markerOf := func(body *ast.BlockStmt) types.Object {
		var marker types.Object
		ast.Inspect(body, func(n ast.Node) bool {
			blk, ok := n.(*ast.BlockStmt)
			if !ok {
				return true
			}
			for i, st := range blk.List {
				es, ok := st.(*ast.ExprStmt)
				if !ok || i == 0 {
					continue
				}
				call, ok := es.X.(*ast.CallExpr)
				if !ok {
					continue
				}
				if fn := Callee(info, call); fn == nil || fn.Name() != closeFn {
					continue
				}
				if as, ok := blk.List[i-1].(*ast.AssignStmt); ok && len(as.Lhs) == 1 && len(as.Rhs) == 1 {
					if rc, ok := ast.Unparen(as.Rhs[0]).(*ast.CallExpr); ok {
						if fn := Callee(info, rc); fn != nil && fn.Name() == "nextInstructionOffset" {
							if id, ok := as.Lhs[0].(*ast.Ident); ok {
								marker = info.ObjectOf(id)
							}
						}
					}
				}
			}
			return true
		})
		return marker
	}
	// closing helpers: functions that close and return their marker on some path
	helpers := map[*types.Func]bool{}
	c.Funcs("compiler", func(fr *FuncRef) {
		m := markerOf(fr.Decl.Body)
		if m == nil {
			return
		}
		ast.Inspect(fr.Decl.Body, func(n ast.Node) bool {
			if r, ok := n.(*ast.ReturnStmt); ok && len(r.Results) == 1 {
				if id, ok := ast.Unparen(r.Results[0]).(*ast.Ident); ok && info.Uses[id] == m {
					helpers[fr.Obj] = true
				}
			}
			return true
		})
	})
	c.Funcs("compiler", func(fr *FuncRef) {
		// the patch call
		var patch *ast.CallExpr
		ast.Inspect(fr.Decl.Body, func(n ast.Node) bool {
			if call, ok := n.(*ast.CallExpr); ok {
				if fn := Callee(info, call); fn != nil && fn.Name() == "patchLoopJumps" && len(call.Args) == 1 {
					patch = call
				}
			}
			return true
		})
		if patch == nil {
			return
		}
		marker := markerOf(fr.Decl.Body)
		usesHelper := false
		ast.Inspect(fr.Decl.Body, func(n ast.Node) bool {
			if call, ok := n.(*ast.CallExpr); ok {
				if fn := Callee(info, call); fn != nil && helpers[fn.Origin()] {
					usesHelper = true
				}
			}
			return true
		})
		closes := false
		ast.Inspect(fr.Decl.Body, func(n ast.Node) bool {
			if call, ok := n.(*ast.CallExpr); ok {
				if fn := Callee(info, call); fn != nil && fn.Name() == closeFn {
					closes = true
				}
			}
			return true
		})
		key := FuncName(fr.Decl)
		if marker == nil && !usesHelper {
			if closes {
				c.Bad(key, patch.Pos(), "the loop closes the upvalues of an iteration but records no instruction offset immediately before the closing, so `continue` cannot land on it")
			}
			return // otherwise this loop form does not close per iteration (not obligated here)
		}
		argID, ok := ast.Unparen(patch.Args[0]).(*ast.Ident)
		if !ok {
			c.Unknown(key, patch.Pos(), "continue target `%s` is not a variable", types.ExprString(patch.Args[0]))
			return
		}
		target := info.Uses[argID]
		if target == marker && marker != nil {
			c.OK(key, patch.Pos(), "continue target is the offset recorded before the upvalue closing")
			return
		}
		// last assignment to target before the patch call
		var last *ast.AssignStmt
		var lastRhs ast.Expr
		ast.Inspect(fr.Decl.Body, func(n ast.Node) bool {
			as, ok := n.(*ast.AssignStmt)
			if !ok || as.Pos() > patch.Pos() || len(as.Lhs) != len(as.Rhs) {
				return true
			}
			for i, l := range as.Lhs {
				if id, ok := l.(*ast.Ident); ok && info.ObjectOf(id) == target {
					if last == nil || as.Pos() > last.Pos() {
						last, lastRhs = as, as.Rhs[i]
					}
				}
			}
			return true
		})
		if last == nil {
			c.Bad(key, patch.Pos(), "continue target `%s` is never assigned", argID.Name)
			return
		}
		good := false
		switch r := ast.Unparen(lastRhs).(type) {
		case *ast.Ident:
			good = marker != nil && info.Uses[r] == marker
		case *ast.CallExpr:
			if fn := Callee(info, r); fn != nil && helpers[fn.Origin()] {
				good = true
			}
		}
		pos := token.Pos(last.Pos())
		c.Check(good, key, pos, "the last assignment to the continue target `%s` before the loop's jumps are patched (%s) does not take the offset recorded before the end-of-iteration upvalue closing: `continue` jumps past the closing and closures of consecutive iterations share their captured variable", argID.Name, c.Pos(pos))
	})
}
