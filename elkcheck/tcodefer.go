package main

import (
	"go/ast"
	"go/token"
	"go/types"
)

// tco/defer-disables (C14): a tail call reuses the caller's frame, so nothing
// of the caller runs after the callee returns - in particular not the
// EXEC_DEFER of the implicit `do ... finally` the compiler wraps around a
// function that uses `defer`. The type checker decides tail position without
// knowing about that wrapper; the compiler function that receives the flag
// from the syntax tree therefore has to drop it when the function being
// compiled has deferred closures.

func init() {
	register(&Rule{
		ID:    "tco/defer-disables",
		Text:  "in package compiler, every function that is handed the TailCall flag of a syntax node (a call site passes `node.TailCall` to it) assigns false to that parameter under a test of the compiler's hasDefer field before the parameter is used in any call",
		Floor: 1,
		Run:   runTcoDeferDisables,
	})
}

func runTcoDeferDisables(c *Ctx) {
	p := c.Pkg("compiler")
	info := p.TypesInfo
	type target struct {
		fn  *types.Func
		idx int
	}
	seen := map[target]bool{}
	var targets []target
	c.Funcs("compiler", func(fr *FuncRef) {
		if recvTypeName(fr.Decl) != "BytecodeCompiler" {
			return
		}
		ast.Inspect(fr.Decl.Body, func(n ast.Node) bool {
			call, ok := n.(*ast.CallExpr)
			if !ok {
				return true
			}
			fn := Callee(info, call)
			if fn == nil || recvNameOf(fn) != "BytecodeCompiler" {
				return true
			}
			for i, a := range call.Args {
				if sel, ok := ast.Unparen(a).(*ast.SelectorExpr); ok && sel.Sel.Name == "TailCall" {
					t := target{fn.Origin(), i}
					if !seen[t] {
						seen[t] = true
						targets = append(targets, t)
					}
				}
			}
			return true
		})
	})
	if len(targets) == 0 {
		c.Stale("compiler: a call passing node.TailCall to a BytecodeCompiler method")
		return
	}
	byObj := map[*types.Func]*FuncRef{}
	c.Funcs("compiler", func(fr *FuncRef) { byObj[fr.Obj] = fr })
	for _, t := range targets {
		fr := byObj[t.fn]
		if fr == nil {
			continue
		}
		sig := t.fn.Type().(*types.Signature)
		param := types.Object(sig.Params().At(t.idx))
		key := FuncName(fr.Decl) + "/" + param.Name()
		// position of the clearing assignment under a hasDefer test
		clearPos := token.NoPos
		ast.Inspect(fr.Decl.Body, func(n ast.Node) bool {
			ifs, ok := n.(*ast.IfStmt)
			if !ok {
				return true
			}
			mentions := false
			ast.Inspect(ifs.Cond, func(m ast.Node) bool {
				if sel, ok := m.(*ast.SelectorExpr); ok && sel.Sel.Name == "hasDefer" {
					mentions = true
				}
				return true
			})
			if !mentions {
				return true
			}
			for _, st := range ifs.Body.List {
				if as, ok := st.(*ast.AssignStmt); ok && len(as.Lhs) == 1 && len(as.Rhs) == 1 {
					if id, ok := as.Lhs[0].(*ast.Ident); ok && info.Uses[id] == param && boolConst(info, as.Rhs[0]) == "false" {
						if clearPos == token.NoPos {
							clearPos = ifs.Pos()
						}
					}
				}
			}
			return true
		})
		// first use of the parameter as a call argument
		firstUse := token.NoPos
		ast.Inspect(fr.Decl.Body, func(n ast.Node) bool {
			if call, ok := n.(*ast.CallExpr); ok {
				for _, a := range call.Args {
					if id, ok := ast.Unparen(a).(*ast.Ident); ok && info.Uses[id] == param {
						if firstUse == token.NoPos || call.Pos() < firstUse {
							firstUse = call.Pos()
						}
					}
				}
			}
			return true
		})
		ok := clearPos != token.NoPos && (firstUse == token.NoPos || clearPos < firstUse)
		c.Check(ok, key, fr.Decl.Pos(), "%s receives the tail-call flag the type checker put on a call node and passes it on without clearing it when the function being compiled has deferred closures (no `if c.hasDefer { %s = false }` before its first use): the tail call replaces the frame and the deferred closures never run", FuncName(fr.Decl), param.Name())
	}
}
