package main

import (
	"go/ast"
	"go/types"
	"sort"
)

// test/full-match-sound (C34): a filter that answers SUITE_MATCH_FULL for a
// suite makes the runner register every case below that suite without
// consulting any filter again. That is only sound for a filter that selects
// suites by where they are (path and line). A filter that decides cases by
// matching their NAME cannot know that every descendant's longer name still
// matches (an anchored regular expression matches `Queue` and not
// `Queue > push`), so it must never answer FULL.

func init() {
	register(&Rule{
		ID:    "test/full-match-sound",
		Text:  "for every implementation of the test filter interface: if its case predicate consults a regular expression (any call into package regexp, directly or through one helper of the package), its suite predicate has no return of SUITE_MATCH_FULL; every filter type implements both predicates",
		Floor: 2,
		Run:   runTestFullMatch,
	})
}

func runTestFullMatch(c *Ctx) {
	const rel = "ext/std/test"
	p := c.Pkg(rel)
	info := p.TypesInfo
	// anchor by shape: the interface with methods returning the SuiteMatch type
	var iface *types.Interface
	var fullConst *types.Const
	sc := p.Types.Scope()
	for _, n := range sc.Names() {
		switch o := sc.Lookup(n).(type) {
		case *types.TypeName:
			if it, ok := o.Type().Underlying().(*types.Interface); ok {
				for i := 0; i < it.NumMethods(); i++ {
					if it.Method(i).Name() == "SuiteMatches" {
						iface = it
					}
				}
			}
		case *types.Const:
			if n == "SUITE_MATCH_FULL" {
				fullConst = o
			}
		}
	}
	if iface == nil || fullConst == nil {
		c.Stale("ext/std/test: filter interface with SuiteMatches / constant SUITE_MATCH_FULL")
	}
	byObj := map[*types.Func]*FuncRef{}
	c.Funcs(rel, func(fr *FuncRef) { byObj[fr.Obj] = fr })
	usesRegexp := func(fr *FuncRef, depth int) bool { return false }
	usesRegexp = func(fr *FuncRef, depth int) bool {
		found := false
		ast.Inspect(fr.Decl.Body, func(n ast.Node) bool {
			call, ok := n.(*ast.CallExpr)
			if !ok || found {
				return true
			}
			fn := Callee(info, call)
			if fn == nil || fn.Pkg() == nil {
				return true
			}
			rn := ""
			if sig, ok := fn.Type().(*types.Signature); ok && sig.Recv() != nil {
				rn = NamedOf(sig.Recv().Type())
			}
			if fn.Pkg().Path() == "regexp" || rn == "value.Regex" {
				found = true
			} else if f2 := byObj[fn.Origin()]; f2 != nil && depth < 2 && usesRegexp(f2, depth+1) {
				found = true
			}
			return true
		})
		return found
	}
	impls := c.implementers(iface)
	sort.Slice(impls, func(i, j int) bool { return impls[i].Obj().Name() < impls[j].Obj().Name() })
	for _, im := range impls {
		name := im.Obj().Name()
		find := func(m string) *FuncRef {
			obj, _, _ := types.LookupFieldOrMethod(types.NewPointer(im), true, p.Types, m)
			if fn, ok := obj.(*types.Func); ok {
				return byObj[fn.Origin()]
			}
			return nil
		}
		cm, sm := find("CaseMatches"), find("SuiteMatches")
		if cm == nil || sm == nil {
			c.Bad(name, im.Obj().Pos(), "filter %s does not define both CaseMatches and SuiteMatches in this package", name)
			continue
		}
		byName := usesRegexp(cm, 0)
		returnsFull := false
		ast.Inspect(sm.Decl.Body, func(n ast.Node) bool {
			if id, ok := n.(*ast.Ident); ok && info.Uses[id] == fullConst {
				returnsFull = true
			}
			return true
		})
		if !byName {
			c.OK(name, sm.Decl.Pos(), "case predicate does not consult a regular expression (selects by location)")
			continue
		}
		c.Check(!returnsFull, name, sm.Decl.Pos(), "%s decides cases by matching a regular expression, yet its SuiteMatches can answer SUITE_MATCH_FULL: every case below such a suite is then run without the expression being tried on its own (longer) name, so cases the expression does not match are run and can fail the run", name)
	}
}
