package main

import (
	"go/ast"
	"go/token"
	"go/types"
	"sort"
	"strings"
)

// cover/rebase (C10, C13, C01): when the value stack is reallocated every
// location that holds an address into it must be moved by the same distance.

func init() {
	register(&Rule{
		ID:    "cover/rebase",
		Text:  "the function that reallocates the VM value stack assigns every location that holds an address into the stack (found by taint from &stack[i] and the stack-pointer helpers) the value new + (p - old), assigns every field derived from the stack's length, traverses the complete list of open upvalues, and does not rebase native call frames (whose fp field holds a symbol)",
		Floor: 6,
		Tags:  true,
		Run:   runCoverRebase,
	})
}

type fieldKey struct {
	typ   string // vm.Thread
	field string
}

// growFunc: the *Thread method that assigns vm.stack a slice made locally.
func (c *Ctx) growFunc() (*FuncRef, string, ast.Expr) {
	var found *FuncRef
	var newName string
	var recvName string
	c.Funcs("vm", func(fr *FuncRef) {
		if recvTypeName(fr.Decl) != "Thread" || len(fr.Decl.Recv.List[0].Names) == 0 {
			return
		}
		info := fr.Pkg.TypesInfo
		ast.Inspect(fr.Decl.Body, func(n ast.Node) bool {
			as, ok := n.(*ast.AssignStmt)
			if !ok || len(as.Lhs) != 1 || len(as.Rhs) != 1 || as.Tok != token.ASSIGN {
				return true
			}
			sel, ok := as.Lhs[0].(*ast.SelectorExpr)
			if !ok || sel.Sel.Name != "stack" {
				return true
			}
			id, ok := ast.Unparen(as.Rhs[0]).(*ast.Ident)
			if !ok {
				return true
			}
			v, _ := info.Uses[id].(*types.Var)
			if v == nil {
				return true
			}
			// defined by make(...) in this function
			isMake := false
			ast.Inspect(fr.Decl.Body, func(m ast.Node) bool {
				if a2, ok := m.(*ast.AssignStmt); ok && a2.Tok == token.DEFINE {
					for i, l := range a2.Lhs {
						if lid, ok := l.(*ast.Ident); ok && info.Defs[lid] == v && i < len(a2.Rhs) {
							if call, ok := a2.Rhs[i].(*ast.CallExpr); ok {
								if fid, ok := call.Fun.(*ast.Ident); ok && fid.Name == "make" {
									isMake = true
								}
							}
						}
					}
				}
				return true
			})
			if isMake {
				found, newName, recvName = fr, id.Name, fr.Decl.Recv.List[0].Names[0].Name
			}
			return true
		})
	})
	if found == nil {
		c.Stale("vm: method of *Thread that assigns the value stack a freshly made slice")
	}
	_ = recvName
	return found, newName, nil
}

var stackHelperNames = map[string]bool{"spAdd": true, "fpAdd": true, "stackAdd": true, "stackAddRaw": true, "spAddRaw": true, "fpAddRaw": true, "spSubtractRaw": true, "spSubtract": true}

// stackFields computes (by taint over all assignments of package vm) the
// struct fields that hold stack addresses, and those derived from the
// stack's length.
func (c *Ctx) stackFields() (addr, size map[fieldKey]token.Pos) {
	addr, size = map[fieldKey]token.Pos{}, map[fieldKey]token.Pos{}
	vp := c.Pkg("vm")
	info := vp.TypesInfo
	keyOf := func(sel *ast.SelectorExpr) (fieldKey, bool) {
		s := info.Selections[sel]
		if s == nil || s.Kind() != types.FieldVal {
			return fieldKey{}, false
		}
		return fieldKey{NamedOf(s.Recv()), sel.Sel.Name}, true
	}
	// does expression mention a stack address / the stack length?
	mentions := func(e ast.Expr) (isAddr, isSize bool) {
		ast.Inspect(e, func(n ast.Node) bool {
			switch x := n.(type) {
			case *ast.FuncLit:
				return false
			case *ast.UnaryExpr:
				if x.Op == token.AND {
					if ix, ok := ast.Unparen(x.X).(*ast.IndexExpr); ok {
						if t := info.TypeOf(ix.X); t != nil {
							if sl, ok := t.Underlying().(*types.Slice); ok && NamedOf(sl.Elem()) == "value.Value" {
								name := types.ExprString(ix.X)
								if name == "stack" || strings.HasSuffix(name, ".stack") || strings.HasSuffix(name, "Stack") {
									isAddr = true
								}
							}
						}
					}
				}
			case *ast.CallExpr:
				if fn := Callee(info, x); fn != nil && stackHelperNames[fn.Name()] && strings.HasPrefix(FuncID(fn), "vm.Thread.") {
					isAddr = true
				}
				if id, ok := x.Fun.(*ast.Ident); ok && (id.Name == "len" || id.Name == "cap") && len(x.Args) == 1 {
					name := types.ExprString(x.Args[0])
					if name == "stack" || strings.HasSuffix(name, ".stack") {
						isSize = true
					}
				}
			case *ast.SelectorExpr:
				if k, ok := keyOf(x); ok {
					if _, t := addr[k]; t {
						isAddr = true
					}
					if _, t := size[k]; t {
						isSize = true
					}
				}
			}
			return true
		})
		return
	}
	record := func(k fieldKey, pos token.Pos, rhs ast.Expr, ft types.Type) bool {
		a, s := mentions(rhs)
		changed := false
		// only integer / pointer typed fields can hold an address or a size
		switch u := ft.Underlying().(type) {
		case *types.Basic:
			if u.Info()&types.IsInteger == 0 && u.Kind() != types.UnsafePointer {
				return false
			}
		case *types.Pointer:
		default:
			return false
		}
		// an address is kept in a uintptr, an unsafe.Pointer or a pointer; a signed
		// integer computed from addresses is a distance between two of them
		// (stackOffsetFromTo, spOffsetTo, ...), which a moving stack preserves
		if b, ok := ft.Underlying().(*types.Basic); ok && a && b.Kind() != types.Uintptr && b.Kind() != types.UnsafePointer {
			a = false
		}
		if a {
			if _, ok := addr[k]; !ok {
				addr[k] = pos
				changed = true
			}
		} else if s {
			if _, ok := size[k]; !ok {
				size[k] = pos
				changed = true
			}
		}
		return changed
	}
	for changed := true; changed; {
		changed = false
		for _, f := range vp.Syntax {
			ast.Inspect(f, func(n ast.Node) bool {
				switch x := n.(type) {
				case *ast.AssignStmt:
					if len(x.Lhs) != len(x.Rhs) {
						return true
					}
					for i, l := range x.Lhs {
						if sel, ok := ast.Unparen(l).(*ast.SelectorExpr); ok {
							if k, ok := keyOf(sel); ok {
								if record(k, x.Pos(), x.Rhs[i], info.TypeOf(sel)) {
									changed = true
								}
							}
						}
					}
				case *ast.CompositeLit:
					t := info.TypeOf(x)
					if t == nil {
						return true
					}
					if p, ok := t.(*types.Pointer); ok {
						t = p.Elem()
					}
					if _, ok := t.Underlying().(*types.Struct); !ok {
						return true
					}
					for _, el := range x.Elts {
						kv, ok := el.(*ast.KeyValueExpr)
						if !ok {
							continue
						}
						id, ok := kv.Key.(*ast.Ident)
						if !ok {
							continue
						}
						fv, _ := info.Uses[id].(*types.Var)
						if fv == nil {
							continue
						}
						if record(fieldKey{NamedOf(t), id.Name}, kv.Pos(), kv.Value, fv.Type()) {
							changed = true
						}
					}
				}
				return true
			})
		}
	}
	return
}

func runCoverRebase(c *Ctx) {
	fr, newName, _ := c.growFunc()
	info := fr.Pkg.TypesInfo
	recv := fr.Decl.Recv.List[0].Names[0].Name
	addr, size := c.stackFields()
	c.Stats["stack_address_fields"] = len(addr)
	c.Stats["stack_size_fields"] = len(size)

	le := c.newLinEval(fr)
	le.Sym["&"+recv+".stack[0]"] = "OLD"
	le.Sym["&"+newName+"[0]"] = "NEW"

	// assignments to fields in the grow function
	type asg struct {
		lhs    *ast.SelectorExpr
		rhs    ast.Expr
		pos    token.Pos
		guards []ast.Expr
	}
	assigned := map[fieldKey][]asg{}
	var walk func(n ast.Node, guards []ast.Expr)
	walk = func(n ast.Node, guards []ast.Expr) {
		switch x := n.(type) {
		case nil:
			return
		case *ast.IfStmt:
			walk(x.Init, guards)
			g := append(append([]ast.Expr{}, guards...), x.Cond)
			walk(x.Body, g)
			walk(x.Else, g)
			return
		case *ast.BlockStmt:
			// `if cond { continue }` guards the rest of the block
			g := guards
			for _, st := range x.List {
				walk(st, g)
				if ifs, ok := st.(*ast.IfStmt); ok && ifs.Else == nil && len(ifs.Body.List) == 1 {
					if br, ok := ifs.Body.List[0].(*ast.BranchStmt); ok && br.Tok == token.CONTINUE {
						g = append(append([]ast.Expr{}, g...), ifs.Cond)
					}
				}
			}
			return
		case *ast.AssignStmt:
			if len(x.Lhs) == len(x.Rhs) {
				for i, l := range x.Lhs {
					if sel, ok := ast.Unparen(l).(*ast.SelectorExpr); ok {
						if s := info.Selections[sel]; s != nil && s.Kind() == types.FieldVal {
							k := fieldKey{NamedOf(s.Recv()), sel.Sel.Name}
							assigned[k] = append(assigned[k], asg{sel, x.Rhs[i], x.Pos(), guards})
						}
					}
				}
			}
		}
		ast.Inspect(n, func(ch ast.Node) bool {
			if ch == n || ch == nil {
				return true
			}
			if _, isLit := ch.(*ast.FuncLit); isLit {
				return false
			}
			walk(ch, guards)
			return false
		})
	}
	walk(fr.Decl.Body, nil)

	var keys []fieldKey
	for k := range addr {
		keys = append(keys, k)
	}
	sort.Slice(keys, func(i, j int) bool { return keys[i].typ+keys[i].field < keys[j].typ+keys[j].field })
	for _, k := range keys {
		name := k.typ + "." + k.field
		as := assigned[k]
		if len(as) == 0 {
			c.Bad("addr/"+name, addr[k], "field %s holds an address into the value stack (tainted at %s) but %s never assigns it: after the stack moves it points into the old array", name, c.Pos(addr[k]), FuncName(fr.Decl))
			continue
		}
		for i, a := range as {
			key := "addr/" + name
			if i > 0 {
				key += "#" + itoa(i+1)
			}
			le.AtPos = a.pos
			got := le.Eval(a.rhs)
			p := types.ExprString(a.lhs)
			want := linSym("NEW").add(linSym(p), 1).add(linSym("OLD"), -1)
			if !got.ok {
				c.Unknown(key, a.pos, "cannot evaluate `%s` to a linear form: %s", types.ExprString(a.rhs), got.why)
				continue
			}
			if got.equal(want) {
				c.OK(key, a.pos, "%s = %s", p, got.String())
			} else {
				c.Bad(key, a.pos, "%s is assigned %s; moving the stack requires NEW + (%s - OLD) = %s", p, got.String(), p, want.String())
			}
		}
	}
	keys = keys[:0]
	for k := range size {
		keys = append(keys, k)
	}
	sort.Slice(keys, func(i, j int) bool { return keys[i].typ+keys[i].field < keys[j].typ+keys[j].field })
	for _, k := range keys {
		name := k.typ + "." + k.field
		c.Check(len(assigned[k]) > 0, "size/"+name, size[k], "field %s is computed from the stack's length (at %s) but %s does not update it when the stack grows", name, c.Pos(size[k]), FuncName(fr.Decl))
	}

	// the complete set of open upvalues is the list headed by openUpvalueHead
	usesHead := false
	var headField string
	if st, ok := fr.Pkg.Types.Scope().Lookup("Thread").Type().Underlying().(*types.Struct); ok {
		for i := 0; i < st.NumFields(); i++ {
			f := st.Field(i)
			if NamedOf(f.Type()) == "vm.Upvalue" {
				if _, isPtr := f.Type().(*types.Pointer); isPtr {
					headField = f.Name()
				}
			}
		}
	}
	if headField == "" {
		c.Stale("vm.Thread: field of type *Upvalue (head of the open upvalue list)")
	}
	ast.Inspect(fr.Decl.Body, func(n ast.Node) bool {
		if sel, ok := n.(*ast.SelectorExpr); ok && sel.Sel.Name == headField {
			usesHead = true
		}
		return true
	})
	if _, has := addr[fieldKey{"vm.Upvalue", "slot"}]; has {
		c.Check(usesHead, "open-upvalue-list", fr.Decl.Pos(), "%s does not traverse the open upvalue list (%s.%s): an upvalue reachable only through it keeps pointing into the old stack, and one reachable through two frame lists is moved twice", FuncName(fr.Decl), recv, headField)
	}

	// native frames store a symbol in CallFrame.fp
	for i, a := range assigned[fieldKey{"vm.CallFrame", "fp"}] {
		key := "native-frames"
		if i > 0 {
			key += "#" + itoa(i+1)
		}
		ok := false
		for _, g := range a.guards {
			txt := types.ExprString(g)
			if strings.Contains(txt, "isNative") || (strings.Contains(txt, ".fp") && (strings.Contains(txt, "<") || strings.Contains(txt, ">"))) {
				ok = true
			}
		}
		c.Check(ok, key, a.pos, "CallFrame.fp is rebased for every frame; native frames keep a symbol in that field (makeNativeCallFrame), so their function name is corrupted unless the assignment is guarded by isNative or a range test against the old stack")
	}
}
