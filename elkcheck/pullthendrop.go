package main

import (
	"go/ast"
	"go/token"
	"go/types"
)

// iter/no-pull-then-drop (C23): `for elem := range Iterate(vm, self)` has
// already taken `elem` out of the source when the body starts. A body that can
// leave the loop (break, or a return that does not mention it) without having
// used the element has consumed a value nobody will see: an iterator resumes
// one element too far, a channel loses a value. A bound on the number of
// elements has to be tested before the next one is pulled, i.e. after the
// last use, not at the top of the body.

func init() {
	register(&Rule{
		ID:    "iter/no-pull-then-drop",
		Text:  "in package vm, in every loop ranging over the elements of an Elk iterable (range Iterate(..)), no `break` is reachable from the top of the body on a path that has not used the element variable (the error variable does not count)",
		Floor: 10,
		Run:   runNoPullThenDrop,
	})
}

// pullThenDropExempt: functions all of whose natives receive a collection.
var pullThenDropExempt = map[string]string{
	"initCollection":          "the receiver of every native defined here is a (mutable) collection: Iterate gives a fresh iterator over it for this call only, so an element pulled and dropped is not lost to anyone",
	"initImmutableCollection": "the receiver of every native defined here is an immutable collection: Iterate gives a fresh iterator over it for this call only",
}

func runNoPullThenDrop(c *Ctx) {
	p := c.Pkg("vm")
	info := p.TypesInfo
	n := map[string]int{}
	c.Funcs("vm", func(fr *FuncRef) {
		ast.Inspect(fr.Decl.Body, func(nd ast.Node) bool {
			rs, ok := nd.(*ast.RangeStmt)
			if !ok {
				return true
			}
			call, ok := ast.Unparen(rs.X).(*ast.CallExpr)
			if !ok {
				return true
			}
			fn := Callee(info, call)
			if fn == nil || fn.Name() != "Iterate" {
				return true
			}
			keyID, ok := rs.Key.(*ast.Ident)
			if !ok || keyID.Name == "_" {
				return true
			}
			elem := info.Defs[keyID]
			if elem == nil {
				return true
			}
			name := FuncName(fr.Decl)
			n[name]++
			key := name + "/loop#" + itoa(n[name])
			type st struct{ used bool }
			var dropAt token.Pos
			uses := func(e ast.Node) bool {
				found := false
				ast.Inspect(e, func(m ast.Node) bool {
					if id, ok := m.(*ast.Ident); ok && info.Uses[id] == elem {
						found = true
					}
					return true
				})
				return found
			}
			pe := &PathEval[st]{Info: info}
			pe.Stmt = func(s st, stm ast.Stmt) ([]st, bool) {
				switch x := stm.(type) {
				case *ast.BranchStmt:
					if x.Tok == token.BREAK && !s.used && dropAt == token.NoPos {
						dropAt = x.Pos()
					}
					return nil, false
				case *ast.ExprStmt, *ast.AssignStmt, *ast.ReturnStmt, *ast.IncDecStmt, *ast.SendStmt:
					if uses(x) {
						s.used = true
						if _, isRet := x.(*ast.ReturnStmt); isRet {
							return nil, false
						}
						return []st{s}, true
					}
				}
				return nil, false
			}
			pe.Cond = func(s st, cond ast.Expr, branch bool) []st {
				if uses(cond) {
					s.used = true
				}
				return []st{s}
			}
			pe.Other = func(s st, e ast.Expr) []st {
				return []st{s}
			}
			pe.Block(newSet(st{}), rs.Body.List)
			var _ types.Object = elem
			pos := rs.Pos()
			if dropAt != token.NoPos {
				pos = dropAt
			}
			if reason, ok := pullThenDropExempt[name]; ok && dropAt != token.NoPos {
				c.OK(key, pos, "reasoned exception: %s", reason)
				return true
			}
			c.Check(dropAt == token.NoPos, key, pos, "a loop in %s leaves through this `break` on a path that has not used the element it has just pulled from the iterable: the element is consumed from the source and dropped (an iterator resumes one element too far, a channel loses a value); test the bound after the last element that is kept, not before looking at the next", name)
			return true
		})
	})
}
