package main

import (
	"go/ast"
	"go/types"
	"strings"
)

// walk/called-methods-visited (C03): the CalledMethods of a method form the
// program's call graph, which has cycles as soon as a method is recursive. A
// checker function that follows CalledMethods by calling itself must carry a
// record of the methods it has visited; without one a recursive method in a
// constant initialiser recurses until the Go runtime aborts the process with
// a stack overflow, which no recover() catches.

func init() {
	register(&Rule{
		ID:    "walk/called-methods-visited",
		Text:  "in the type checker, every function that calls itself for the elements of a method's CalledMethods has a parameter (a map or set keyed by *types.Method) that it tests before descending and updates",
		Floor: 1,
		Run:   runCalledMethodsVisited,
	})
}

func runCalledMethodsVisited(c *Ctx) {
	p := c.ByRel["types/checker"]
	if p == nil {
		c.Stale("package types/checker")
		return
	}
	info := p.TypesInfo
	c.Funcs("types/checker", func(fr *FuncRef) {
		recursesOverCalled := false
		var at ast.Node
		ast.Inspect(fr.Decl.Body, func(n ast.Node) bool {
			rs, ok := n.(*ast.RangeStmt)
			if !ok {
				return true
			}
			sel, ok := ast.Unparen(rs.X).(*ast.SelectorExpr)
			if !ok || sel.Sel.Name != "CalledMethods" {
				return true
			}
			ast.Inspect(rs.Body, func(m ast.Node) bool {
				if call, ok := m.(*ast.CallExpr); ok {
					if fn := Callee(info, call); fn != nil && fn.Origin() == fr.Obj {
						recursesOverCalled = true
						at = call
					}
				}
				return true
			})
			return true
		})
		if !recursesOverCalled {
			return
		}
		// a visited parameter: map[*types.Method]... or a set of methods, indexed/consulted in the body
		visited := false
		sig := fr.Obj.Type().(*types.Signature)
		for i := 0; i < sig.Params().Len(); i++ {
			prm := sig.Params().At(i)
			ts := prm.Type().String()
			if !(strings.Contains(ts, "types.Method") && (strings.HasPrefix(ts, "map[") || strings.Contains(ts, "Set["))) {
				continue
			}
			ast.Inspect(fr.Decl.Body, func(n ast.Node) bool {
				if id, ok := n.(*ast.Ident); ok && info.Uses[id] == types.Object(prm) {
					visited = true
				}
				return true
			})
		}
		c.Check(visited, FuncName(fr.Decl), at.Pos(), "%s follows CalledMethods by calling itself and keeps no record of the methods it has visited: a recursive method (the call graph has a cycle) makes it recurse until the Go runtime aborts the process with a stack overflow", FuncName(fr.Decl))
	})
}
