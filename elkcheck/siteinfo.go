package main

import (
	"go/ast"
	"go/token"
	"go/types"
	"sort"
	"strings"
)

// optable/siteinfo (C29, C01, C15): call instructions carry an index into the
// value pool; the VM reinterprets the value found there through
// unsafe.Pointer as one specific Go type per opcode. The compiler must put a
// record of exactly that type next to that opcode.

func init() {
	register(&Rule{
		ID:    "optable/siteinfo",
		Text:  "for every opcode whose handler casts the value-pool entry it indexes to a Go record type through unsafe.Pointer, every compiler site that emits or patches in that opcode stores a record of the same type at the index, and a site that replaces the record also replaces the opcode on every path",
		Floor: 12,
		Tags:  true,
		Run:   runSiteInfo,
	})
}

// vmRecordTypes: opcode -> record type the handler casts Values[i] to.
func (c *Ctx) vmRecordTypes(t *opcodeTables) map[int64]string {
	info := t.runLoop.Pkg.TypesInfo
	out := map[int64]string{}
	castIn := func(body ast.Node) string {
		typ := ""
		ast.Inspect(body, func(n ast.Node) bool {
			call, ok := n.(*ast.CallExpr)
			if !ok || len(call.Args) != 1 {
				return true
			}
			tv, ok := info.Types[call.Fun]
			if !ok || !tv.IsType() {
				return true
			}
			if _, isPtr := tv.Type.(*types.Pointer); !isPtr {
				return true
			}
			arg := types.ExprString(call.Args[0])
			if strings.Contains(arg, ".Values[") && strings.HasSuffix(arg, ".Pointer()") {
				typ = NamedOf(tv.Type)
			}
			return true
		})
		return typ
	}
	for v, cc := range t.runCase {
		// direct cast in the clause, or in the single op* handler it calls
		typ := ""
		for _, st := range cc.Body {
			if s := castIn(st); s != "" {
				typ = s
			}
			ast.Inspect(st, func(n ast.Node) bool {
				if call, ok := n.(*ast.CallExpr); ok {
					if fn := Callee(info, call); fn != nil && strings.HasPrefix(FuncID(fn), "vm.Thread.op") {
						if fr := c.FuncOpt("vm", "Thread", fn.Name()); fr != nil {
							if s := castIn(fr.Decl.Body); s != "" {
								typ = s
							}
						}
					}
				}
				return true
			})
		}
		if typ != "" {
			out[v] = typ
		}
	}
	return out
}

// recordTypeOfValueExpr: X.ToValue() / value.Ref(X) / vm.NewT(...).ToValue()
func recordTypeOfValueExpr(info *types.Info, e ast.Expr) string {
	call, ok := ast.Unparen(e).(*ast.CallExpr)
	if !ok {
		return ""
	}
	if sel, ok := call.Fun.(*ast.SelectorExpr); ok && sel.Sel.Name == "ToValue" && len(call.Args) == 0 {
		return NamedOf(info.TypeOf(sel.X))
	}
	if FuncID(Callee(info, call)) == "value.Ref" && len(call.Args) == 1 {
		return NamedOf(info.TypeOf(call.Args[0]))
	}
	return ""
}

func runSiteInfo(c *Ctx) {
	t := c.opcodeTables()
	vmT := c.vmRecordTypes(t)
	c.Stats["opcodes_with_record_cast"] = len(vmT)
	if len(vmT) < 6 {
		c.Stale("vm: run-loop handlers that cast Values[i].Pointer() to a record type")
	}
	cp := c.Pkg("compiler")
	info := cp.TypesInfo
	opName := func(v int64) string {
		if k := t.byVal[v]; k != nil {
			return k.Name()
		}
		return "?"
	}
	seen := map[string]int{}
	key := func(s string) string {
		seen[s]++
		if seen[s] > 1 {
			return s + "#" + itoa(seen[s])
		}
		return s
	}
	c.Funcs("compiler", func(fr *FuncRef) {
		// (a) emitAddValue(val, loc, op8, op16)
		ast.Inspect(fr.Decl.Body, func(n ast.Node) bool {
			call, ok := n.(*ast.CallExpr)
			if !ok || len(call.Args) != 4 {
				return true
			}
			fn := Callee(info, call)
			if fn == nil || fn.Name() != "emitAddValue" {
				return true
			}
			rec := recordTypeOfValueExpr(info, call.Args[0])
			for _, a := range call.Args[2:] {
				v, ok := ConstInt(info, a)
				if !ok {
					continue
				}
				want, has := vmT[v]
				if !has {
					continue // the handler does not reinterpret the value
				}
				k := key("emit/" + FuncName(fr.Decl) + "/" + opName(v))
				if rec == "" {
					c.Unknown(k, call.Pos(), "cannot determine the Go type of the record `%s` stored for %s (the VM casts it to *%s)", types.ExprString(call.Args[0]), opName(v), want)
					continue
				}
				c.Check(rec == want, k, call.Pos(), "stores a %s next to %s, whose handler reinterprets the value-pool entry as *%s", rec, opName(v), want)
			}
			return true
		})
		// (b) in-place patching: Instructions[i] = byte(OP) together with Values[j] = record
		var visit func(stmts []ast.Stmt)
		visit = func(stmts []ast.Stmt) {
			var ops []int64
			var opPos token.Pos
			rec := ""
			var recPos token.Pos
			for _, st := range stmts {
				switch x := st.(type) {
				case *ast.AssignStmt:
					if len(x.Lhs) == 1 && len(x.Rhs) == 1 {
						if ix, ok := ast.Unparen(x.Lhs[0]).(*ast.IndexExpr); ok {
							target := types.ExprString(ix.X)
							if strings.HasSuffix(target, ".Values") {
								if r := recordTypeOfValueExpr(info, x.Rhs[0]); r != "" {
									rec, recPos = r, x.Pos()
								}
							}
						}
					}
				case *ast.SwitchStmt:
					// switch opcode { case A, B: Instructions[..] = byte(OP) ... default: return }
					allAssignOrLeave := true
					var inner []int64
					for _, cl := range x.Body.List {
						cc := cl.(*ast.CaseClause)
						assigned := false
						leaves := false
						for _, s2 := range cc.Body {
							if as, ok := s2.(*ast.AssignStmt); ok && len(as.Lhs) == 1 && len(as.Rhs) == 1 {
								if ix, ok := ast.Unparen(as.Lhs[0]).(*ast.IndexExpr); ok && strings.HasSuffix(types.ExprString(ix.X), ".Instructions") {
									if conv, ok := ast.Unparen(as.Rhs[0]).(*ast.CallExpr); ok && len(conv.Args) == 1 {
										if v, ok := ConstInt(info, conv.Args[0]); ok {
											inner = append(inner, v)
											assigned = true
											opPos = as.Pos()
										}
									}
								}
							}
							if _, ok := s2.(*ast.ReturnStmt); ok {
								leaves = true
							}
						}
						if !assigned && !leaves {
							allAssignOrLeave = false
						}
					}
					hasDefault := false
					for _, cl := range x.Body.List {
						if cl.(*ast.CaseClause).List == nil {
							hasDefault = true
						}
					}
					if len(inner) > 0 {
						ops = append(ops, inner...)
						if !hasDefault || !allAssignOrLeave {
							ops = append(ops, -1) // some path keeps the old opcode
						}
					}
				}
			}
			if rec != "" && len(ops) > 0 {
				sort.Slice(ops, func(i, j int) bool { return ops[i] < ops[j] })
				for _, v := range ops {
					if v == -1 {
						c.Bad(key("patch/"+FuncName(fr.Decl)+"/keeps-opcode/"+rec), recPos, "replaces the value-pool record with a %s on a path that leaves the call opcode unchanged: the old opcode's handler then reinterprets the new record as its own type", rec)
						continue
					}
					want, has := vmT[v]
					if !has {
						continue
					}
					c.Check(rec == want, key("patch/"+FuncName(fr.Decl)+"/"+opName(v)), opPos, "patches in %s together with a %s record; its handler reinterprets the value-pool entry as *%s", opName(v), rec, want)
				}
			}
			// recurse into nested statement lists
			for _, st := range stmts {
				ast.Inspect(st, func(n ast.Node) bool {
					switch y := n.(type) {
					case *ast.CaseClause:
						visit(y.Body)
						return false
					case *ast.BlockStmt:
						if n != st {
							visit(y.List)
							return false
						}
					}
					return true
				})
			}
		}
		visit(fr.Decl.Body.List)
	})
}
