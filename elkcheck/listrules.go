package main

import (
	"go/ast"
	"go/parser"
	"go/token"
	"go/types"
	"strings"
)

// Three shape rules behind list and tuple operations (C24, C01).
//
// alias/make-len-index  `make(T, n, m)` creates a slice of LENGTH n; storing
//   by index at n+i is out of range however large the capacity is. The
//   concatenation fallbacks did exactly that and crashed the interpreter.
// loop/remove-in-place  an ascending index loop that deletes the element at
//   its index must step back (or leave the loop): otherwise the element that
//   moved into the freed slot is skipped.
// conv/checked-int  a conversion helper that returns (int, bool) promises
//   false for values that do not fit; converting an unsigned 64-bit or
//   word-sized operand with int(x) and returning true breaks the promise for
//   the upper half of the range (the index wraps to a negative number, which
//   list indexing takes as "from the end").

func init() {
	register(&Rule{
		ID:    "alias/make-len-index",
		Text:  "in package value, a slice created with the three-argument make (length smaller than capacity) is stored into by index only at the key of a range loop over the very collection whose length was given as the slice's length (or at a constant index); every other element is added with append",
		Floor: 1,
		Run:   runMakeLenIndex,
	})
	register(&Rule{
		ID:    "loop/remove-in-place",
		Text:  "in packages vm and value, a counting loop `for i := ...; i < x.Length()/len(x); i++` whose body removes the element at i from x (RemoveAt(i), slices.Delete(x, i, ..)) also decrements i, or leaves the loop, in the same branch",
		Floor: 1,
		Run:   runRemoveInPlace,
	})
	register(&Rule{
		ID:    "conv/checked-int",
		Text:  "in package value, a function whose results are (int, bool) returns `int(x), true` for an operand x of an unsigned 64-bit or word-sized type only under a comparison of x with math.MaxInt (or another upper bound) that excludes the values int cannot hold",
		Floor: 3,
		Run:   runCheckedInt,
	})
}

type makeLenSite struct {
	name, index, lenExpr string
	madeAt, pos          token.Pos
	ok                   bool
}

const makeLenFixture = `package fixture

func concatBad(a, b []int) []int {
	out := make([]int, len(a), len(a)+len(b))
	copy(out, a)
	for i, x := range b {
		out[len(a)+i] = x // beyond the length: must be reported
	}
	return out
}

func concatGood(a, b []int) []int {
	out := make([]int, len(a), len(a)+len(b))
	for i, x := range a {
		out[i] = x // key of a range over the collection that gave the length
	}
	return append(out, b...)
}
`

func makeLenIndexSites(info *types.Info, fd *ast.FuncDecl) []makeLenSite {
	type made struct {
		lenExpr ast.Expr
		pos     token.Pos
	}
	mades := map[types.Object]made{}
	ast.Inspect(fd.Body, func(n ast.Node) bool {
		as, ok := n.(*ast.AssignStmt)
		if !ok || len(as.Lhs) != 1 || len(as.Rhs) != 1 {
			return true
		}
		call, ok := ast.Unparen(as.Rhs[0]).(*ast.CallExpr)
		if !ok || len(call.Args) != 3 {
			return true
		}
		if id, ok := call.Fun.(*ast.Ident); !ok || id.Name != "make" {
			return true
		} else if _, isBuiltin := info.Uses[id].(*types.Builtin); !isBuiltin {
			return true
		}
		if types.ExprString(call.Args[1]) == types.ExprString(call.Args[2]) {
			return true
		}
		id, ok := as.Lhs[0].(*ast.Ident)
		if !ok {
			return true
		}
		o := info.Defs[id]
		if o == nil {
			o = info.Uses[id]
		}
		if o != nil {
			mades[o] = made{call.Args[1], as.Pos()}
		}
		return true
	})
	if len(mades) == 0 {
		return nil
	}
	rangeOf := map[types.Object]string{}
	ast.Inspect(fd.Body, func(n ast.Node) bool {
		if rs, ok := n.(*ast.RangeStmt); ok && rs.Key != nil {
			if id, ok := rs.Key.(*ast.Ident); ok {
				if o := info.Defs[id]; o != nil {
					rangeOf[o] = types.ExprString(ast.Unparen(rs.X))
				}
			}
		}
		return true
	})
	var out []makeLenSite
	ast.Inspect(fd.Body, func(nd ast.Node) bool {
		as, ok := nd.(*ast.AssignStmt)
		if !ok {
			return true
		}
		for _, l := range as.Lhs {
			ix, ok := ast.Unparen(l).(*ast.IndexExpr)
			if !ok {
				continue
			}
			id, ok := ast.Unparen(ix.X).(*ast.Ident)
			if !ok {
				continue
			}
			m, isMade := mades[info.Uses[id]]
			if !isMade || as.Pos() < m.pos {
				continue
			}
			okIdx := false
			if tv, ok := info.Types[ix.Index]; ok && tv.Value != nil {
				okIdx = true
			}
			if kid, ok := ast.Unparen(ix.Index).(*ast.Ident); ok {
				if ranged, ok := rangeOf[info.Uses[kid]]; ok {
					want := "len(" + ranged + ")"
					got := types.ExprString(ast.Unparen(m.lenExpr))
					if got == want || got == ranged+".Length()" {
						okIdx = true
					}
				}
			}
			out = append(out, makeLenSite{id.Name, types.ExprString(ix.Index), types.ExprString(m.lenExpr), m.pos, as.Pos(), okIdx})
		}
		return true
	})
	return out
}

func runMakeLenIndex(c *Ctx) {
	// positive fixture: the rule has no instance on a repaired tree
	{
		fset := token.NewFileSet()
		f, err := parser.ParseFile(fset, "fixture.go", makeLenFixture, 0)
		if err != nil {
			panic(err)
		}
		finfo := &types.Info{Types: map[ast.Expr]types.TypeAndValue{}, Defs: map[*ast.Ident]types.Object{}, Uses: map[*ast.Ident]types.Object{}, Selections: map[*ast.SelectorExpr]*types.Selection{}}
		if _, err := (&types.Config{}).Check("fixture", fset, []*ast.File{f}, finfo); err != nil {
			panic(err)
		}
		bad, good := 0, 0
		for _, d := range f.Decls {
			if fd, ok := d.(*ast.FuncDecl); ok {
				for _, s := range makeLenIndexSites(finfo, fd) {
					if s.ok {
						good++
					} else {
						bad++
					}
				}
			}
		}
		c.Check(bad == 1 && good == 1, "fixture", 0, "the matcher no longer recognises the built-in example (reported=%d, accepted=%d; want 1 and 1): the rule would pass vacuously", bad, good)
	}
	p := c.Pkg("value")
	info := p.TypesInfo
	n := 0
	c.Funcs("value", func(fr *FuncRef) {
		for i, s := range makeLenIndexSites(info, fr.Decl) {
			n++
			key := FuncName(fr.Decl) + "/" + s.name + "#" + itoa(i+1)
			c.Check(s.ok, key, s.pos, "%s stores into `%s` at index `%s`, but the slice was made at %s with length `%s` (the larger third argument is only its capacity): every index from that length on is out of range and the store panics", FuncName(fr.Decl), s.name, s.index, c.Pos(s.madeAt), s.lenExpr)
		}
	})
	c.Stats["indexed_stores_into_len_lt_cap_slices"] = n
}

func runRemoveInPlace(c *Ctx) {
	for _, rel := range []string{"vm", "value"} {
		p := c.Pkg(rel)
		info := p.TypesInfo
		c.Funcs(rel, func(fr *FuncRef) {
			n := 0
			ast.Inspect(fr.Decl.Body, func(nd ast.Node) bool {
				fs, ok := nd.(*ast.ForStmt)
				if !ok || fs.Post == nil || fs.Cond == nil {
					return true
				}
				inc, ok := fs.Post.(*ast.IncDecStmt)
				if !ok || inc.Tok != token.INC {
					return true
				}
				iv, ok := inc.X.(*ast.Ident)
				if !ok {
					return true
				}
				iobj := info.Uses[iv]
				// removals at i inside the body
				var walk func(list []ast.Stmt)
				walk = func(list []ast.Stmt) {
					for si, st := range list {
						removes := false
						if es, ok := st.(*ast.ExprStmt); ok {
							if call, ok := es.X.(*ast.CallExpr); ok {
								if fn := Callee(info, call); fn != nil && (fn.Name() == "RemoveAt" || fn.Name() == "RemoveAtErr") && len(call.Args) == 1 {
									if id, ok := ast.Unparen(call.Args[0]).(*ast.Ident); ok && info.Uses[id] == iobj {
										removes = true
									}
								}
							}
						}
						if as, ok := st.(*ast.AssignStmt); ok && len(as.Rhs) == 1 {
							if call, ok := ast.Unparen(as.Rhs[0]).(*ast.CallExpr); ok {
								if fn := Callee(info, call); fn != nil && fn.Pkg() != nil && fn.Pkg().Path() == "slices" && fn.Name() == "Delete" && len(call.Args) >= 2 {
									if id, ok := ast.Unparen(call.Args[1]).(*ast.Ident); ok && info.Uses[id] == iobj {
										removes = true
									}
								}
							}
						}
						if removes {
							n++
							key := rel + "." + FuncName(fr.Decl) + "/remove#" + itoa(n)
							compensated := false
							for _, later := range list[si+1:] {
								switch x := later.(type) {
								case *ast.IncDecStmt:
									if id, ok := x.X.(*ast.Ident); ok && info.Uses[id] == iobj && x.Tok == token.DEC {
										compensated = true
									}
								case *ast.BranchStmt:
									if x.Tok == token.BREAK {
										compensated = true
									}
								case *ast.ReturnStmt:
									compensated = true
								}
							}
							c.Check(compensated, key, st.Pos(), "%s.%s removes the element at `%s` inside a loop that then increments `%s`: the element that moved into the freed slot is never examined, so of two adjacent matching elements only the first is removed", rel, FuncName(fr.Decl), iv.Name, iv.Name)
						}
						// nested statement lists
						switch x := st.(type) {
						case *ast.IfStmt:
							walk(x.Body.List)
							if blk, ok := x.Else.(*ast.BlockStmt); ok {
								walk(blk.List)
							}
						case *ast.BlockStmt:
							walk(x.List)
						}
					}
				}
				walk(fs.Body.List)
				return true
			})
		})
	}
}

func runCheckedInt(c *Ctx) {
	p := c.Pkg("value")
	info := p.TypesInfo
	isWide := func(t types.Type) bool {
		b, ok := t.Underlying().(*types.Basic)
		if !ok {
			return false
		}
		switch b.Kind() {
		case types.Uint64, types.Uint, types.Uintptr:
			return true
		}
		return false
	}
	c.Funcs("value", func(fr *FuncRef) {
		sig := fr.Obj.Type().(*types.Signature)
		if sig.Results().Len() != 2 {
			return
		}
		r0, ok0 := sig.Results().At(0).Type().Underlying().(*types.Basic)
		r1, ok1 := sig.Results().At(1).Type().Underlying().(*types.Basic)
		if !ok0 || !ok1 || r0.Kind() != types.Int || r1.Kind() != types.Bool {
			return
		}
		n := 0
		var stack []ast.Node
		ast.Inspect(fr.Decl.Body, func(nd ast.Node) bool {
			if nd == nil {
				stack = stack[:len(stack)-1]
				return true
			}
			stack = append(stack, nd)
			ret, ok := nd.(*ast.ReturnStmt)
			if !ok || len(ret.Results) != 2 {
				return true
			}
			if tv, ok := info.Types[ret.Results[1]]; !ok || tv.Value == nil || tv.Value.String() != "true" {
				return true
			}
			conv, ok := ast.Unparen(ret.Results[0]).(*ast.CallExpr)
			if !ok || len(conv.Args) != 1 {
				return true
			}
			if tv, ok := info.Types[conv.Fun]; !ok || !tv.IsType() {
				return true
			}
			if !isWide(info.TypeOf(conv.Args[0])) {
				return true
			}
			n++
			key := FuncName(fr.Decl) + "/int-of-unsigned#" + itoa(n)
			operand := types.ExprString(ast.Unparen(conv.Args[0]))
			// guarded: an enclosing or preceding-sibling `if <operand> > bound { return ..., false }`
			guarded := false
			mentionsBound := func(cond ast.Expr) bool {
				be, ok := ast.Unparen(cond).(*ast.BinaryExpr)
				if !ok {
					return false
				}
				switch be.Op {
				case token.GTR, token.GEQ, token.LSS, token.LEQ:
				default:
					return false
				}
				l, r := types.ExprString(ast.Unparen(be.X)), types.ExprString(ast.Unparen(be.Y))
				return strings.Contains(l, operand) || strings.Contains(r, operand)
			}
			for i := len(stack) - 2; i >= 0 && !guarded; i-- {
				var list []ast.Stmt
				switch x := stack[i].(type) {
				case *ast.BlockStmt:
					list = x.List
				case *ast.CaseClause:
					list = x.Body
				case *ast.IfStmt:
					if mentionsBound(x.Cond) {
						guarded = true
					}
				}
				for _, s := range list {
					if s.Pos() >= ret.Pos() {
						break
					}
					if ifs, ok := s.(*ast.IfStmt); ok && mentionsBound(ifs.Cond) {
						guarded = true
					}
				}
			}
			c.Check(guarded, key, ret.Pos(), "%s returns int(%s), true for an operand of type %s without comparing it with an upper bound first: values above the int range wrap to negative numbers although the helper promises `false` for values that do not fit (a list index of 2^64-1 becomes -1, the last element)", FuncName(fr.Decl), operand, info.TypeOf(conv.Args[0]).String())
			return true
		})
	})
}
