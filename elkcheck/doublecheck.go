package main

import (
	"go/ast"
	"go/parser"
	"go/token"
	"go/types"
	"strings"
)

// lock/double-check (C25): "test a flag, then take the lock, then act" needs
// the flag to be tested a second time under the lock: a caller that found the
// flag unset while another one was acting waits for the lock and then acts as
// well (a Once that runs several closures). A test before Lock() of a flag
// that is stored under the same lock must be repeated between Lock() and the
// action.

func init() {
	register(&Rule{
		ID:    "lock/double-check",
		Text:  "in packages value and vm, in a function that tests a flag (x.Load() or a bool field), then calls Lock(), and after that both runs a func-typed parameter and stores the flag, the flag is tested again between the Lock() and the call of the parameter; a built-in example keeps the matcher honest since the tree has no instance",
		Floor: 1,
		Run:   runDoubleCheck,
	})
}

const doubleCheckFixture = `package fixture

import (
	"sync"
	"sync/atomic"
)

type once struct {
	m    sync.Mutex
	done atomic.Bool
}

func (o *once) bad(fn func()) {
	if o.done.Load() {
		return
	}
	o.m.Lock()
	defer o.m.Unlock()
	defer o.done.Store(true)
	fn() // must be reported
}

func (o *once) good(fn func()) {
	if o.done.Load() {
		return
	}
	o.m.Lock()
	defer o.m.Unlock()
	if o.done.Load() {
		return
	}
	defer o.done.Store(true)
	fn()
}
`

type doubleCheckSite struct {
	pos     token.Pos
	flag    string
	checked bool
}

func doubleCheckSites(info *types.Info, fd *ast.FuncDecl) []doubleCheckSite {
	if fd.Body == nil || fd.Type.Params == nil {
		return nil
	}
	// func-typed parameters
	fnParams := map[types.Object]bool{}
	for _, f := range fd.Type.Params.List {
		for _, n := range f.Names {
			if o := info.Defs[n]; o != nil {
				if _, ok := o.Type().Underlying().(*types.Signature); ok {
					fnParams[o] = true
				}
			}
		}
	}
	if len(fnParams) == 0 {
		return nil
	}
	var lockPos, actPos token.Pos
	ast.Inspect(fd.Body, func(n ast.Node) bool {
		call, ok := n.(*ast.CallExpr)
		if !ok {
			return true
		}
		if sel, ok := call.Fun.(*ast.SelectorExpr); ok && sel.Sel.Name == "Lock" && len(call.Args) == 0 && lockPos == token.NoPos {
			lockPos = call.Pos()
		}
		if id, ok := ast.Unparen(call.Fun).(*ast.Ident); ok && fnParams[info.Uses[id]] && actPos == token.NoPos {
			actPos = call.Pos()
		}
		return true
	})
	if lockPos == token.NoPos || actPos == token.NoPos || actPos < lockPos {
		return nil
	}
	// flags stored in the function: x.Store(..) or `x = true`
	stored := map[string]bool{}
	ast.Inspect(fd.Body, func(n ast.Node) bool {
		switch x := n.(type) {
		case *ast.CallExpr:
			if sel, ok := x.Fun.(*ast.SelectorExpr); ok && sel.Sel.Name == "Store" {
				stored[types.ExprString(sel.X)] = true
			}
		case *ast.AssignStmt:
			for _, l := range x.Lhs {
				if t := info.TypeOf(l); t != nil {
					if b, ok := t.Underlying().(*types.Basic); ok && b.Kind() == types.Bool {
						if _, isSel := ast.Unparen(l).(*ast.SelectorExpr); isSel {
							stored[types.ExprString(l)] = true
						}
					}
				}
			}
		}
		return true
	})
	var out []doubleCheckSite
	for flag := range stored {
		testedBefore, testedBetween := false, false
		ast.Inspect(fd.Body, func(n ast.Node) bool {
			ifs, ok := n.(*ast.IfStmt)
			if !ok {
				return true
			}
			if !strings.Contains(types.ExprString(ifs.Cond), flag) {
				return true
			}
			switch {
			case ifs.Pos() < lockPos:
				testedBefore = true
			case ifs.Pos() > lockPos && ifs.Pos() < actPos:
				testedBetween = true
			}
			return true
		})
		if testedBefore {
			out = append(out, doubleCheckSite{actPos, flag, testedBetween})
		}
	}
	return out
}

func runDoubleCheck(c *Ctx) {
	{
		fset := token.NewFileSet()
		f, err := parser.ParseFile(fset, "fixture.go", doubleCheckFixture, 0)
		if err != nil {
			panic(err)
		}
		finfo := &types.Info{Types: map[ast.Expr]types.TypeAndValue{}, Defs: map[*ast.Ident]types.Object{}, Uses: map[*ast.Ident]types.Object{}, Selections: map[*ast.SelectorExpr]*types.Selection{}}
		conf := &types.Config{Importer: loadedImporter{c.Pkg("vm").Types}}
		if _, err := conf.Check("fixture", fset, []*ast.File{f}, finfo); err != nil {
			panic(err)
		}
		bad, good := 0, 0
		for _, d := range f.Decls {
			if fd, ok := d.(*ast.FuncDecl); ok {
				for _, s := range doubleCheckSites(finfo, fd) {
					if s.checked {
						good++
					} else {
						bad++
					}
				}
			}
		}
		c.Check(bad == 1 && good == 1, "fixture", 0, "the matcher no longer recognises the built-in example (reported=%d, accepted=%d; want 1 and 1): the rule would pass vacuously", bad, good)
	}
	for _, rel := range []string{"value", "vm"} {
		p := c.Pkg(rel)
		info := p.TypesInfo
		c.Funcs(rel, func(fr *FuncRef) {
			for _, s := range doubleCheckSites(info, fr.Decl) {
				key := rel + "." + FuncName(fr.Decl) + "/" + s.flag
				c.Check(s.checked, key, s.pos, "%s.%s tests `%s` before taking the lock and runs its function argument under the lock without testing the flag again: a caller that arrives while the first one is still running waits for the lock and then runs its function too - the action happens more than once", rel, FuncName(fr.Decl), s.flag)
			}
		})
	}
}
