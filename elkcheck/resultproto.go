package main

import (
	"fmt"
	"go/ast"
	"go/token"
	"go/types"
	"strings"
)

// stack/result-protocol (C29, C15, C14): the node compilers of the bytecode
// compiler tell their caller whether they left a value on the operand stack:
// `expressionCompiled` (one value pushed), `expressionCompiledWithoutResult`
// (nothing pushed). The caller asked for one or the other through the
// valueIsIgnored flag, and the callers that need the value of the last
// statement of a block (loop bodies, branches, method bodies) rely on the
// answer "nothing pushed" being given only when they said the value is
// ignored. A node compiler answering "nothing pushed" although the value was
// asked for makes the emitted code pop or return a slot that belongs to a
// local - the operand stack depth differs between what the compiler assumed
// and what runs.

func init() {
	register(&Rule{
		ID:    "stack/result-protocol",
		Text:  "in every function of the bytecode compiler that returns an expressionResult, each `return expressionCompiledWithoutResult` is control-dependent on the function's value-is-ignored flag being true (inside `if flag`, in the else of `if !flag`, or after an `if !flag { ...; return }`), and each returned call of another such function passes on the own flag, or `false`, or `true` only where the own flag is known to be true; the one exception is an expression after which control never continues (return)",
		Floor: 15,
		Run:   runResultProtocol,
	})
}

// node compilers after which execution never continues with the next
// instruction: nothing can observe the missing value
var resultProtoNoContinue = map[string]string{
	"ReturnExpressionNode": "a return expression transfers control out of the function; the code after it is unreachable",
}

func runResultProtocol(c *Ctx) {
	p := c.Pkg("compiler")
	info := p.TypesInfo
	isResultType := func(t types.Type) bool { return NamedOf(t) == "compiler.expressionResult" }
	constOf := func(e ast.Expr) string {
		id, ok := ast.Unparen(e).(*ast.Ident)
		if !ok {
			return ""
		}
		k, ok := info.Uses[id].(*types.Const)
		if !ok || !isResultType(k.Type()) {
			return ""
		}
		return k.Name()
	}
	// The value-is-ignored flag of a function is found from the code, not by
	// name: a bool parameter is a flag if some `return
	// expressionCompiledWithoutResult` of the function is control-dependent on
	// it being true, or if it is passed on in the flag position of another
	// such function whose answer is returned. Other bool parameters (`unless`)
	// are not flags.
	flagIdx := map[*types.Func]map[int]bool{}
	flagParams := func(fn *types.Func) []int {
		var out []int
		for i := range flagIdx[fn.Origin()] {
			out = append(out, i)
		}
		return out
	}
	var resultFuncs []*FuncRef
	c.Funcs("compiler", func(fr *FuncRef) {
		if recvTypeName(fr.Decl) != "BytecodeCompiler" && fr.Decl.Recv != nil {
			return
		}
		sig := fr.Obj.Type().(*types.Signature)
		if sig.Results().Len() != 1 || !isResultType(sig.Results().At(0).Type()) {
			return
		}
		resultFuncs = append(resultFuncs, fr)
	})
	boolParams := func(fr *FuncRef) map[types.Object]int {
		out := map[types.Object]int{}
		if fr.Decl.Type.Params != nil {
			i := 0
			for _, f := range fr.Decl.Type.Params.List {
				isBool := false
				if b, ok := info.TypeOf(f.Type).Underlying().(*types.Basic); ok && b.Kind() == types.Bool {
					isBool = true
				}
				if len(f.Names) == 0 {
					i++
					continue
				}
				for _, n := range f.Names {
					if isBool {
						out[info.Defs[n]] = i
					}
					i++
				}
			}
		}
		return out
	}
	sawWithout := false
	nFuncs := 0
	// analyse: with report=false, says whether the given single parameter acts
	// as a flag; with report=true, emits the obligations for the function
	analyse := func(fr *FuncRef, flags map[types.Object]bool, report bool) bool {
		actsAsFlag := false
		// polarity of a condition with respect to a flag: +1 cond true => flag true,
		// -1 cond true => flag false, 0 unrelated
		polarity := func(cond ast.Expr) int {
			e := ast.Unparen(cond)
			neg := 1
			for {
				if u, ok := e.(*ast.UnaryExpr); ok && u.Op == token.NOT {
					neg = -neg
					e = ast.Unparen(u.X)
					continue
				}
				break
			}
			if id, ok := e.(*ast.Ident); ok && flags[info.Uses[id]] {
				return neg
			}
			return 0
		}
		terminates := func(b *ast.BlockStmt) bool {
			if b == nil || len(b.List) == 0 {
				return false
			}
			switch x := b.List[len(b.List)-1].(type) {
			case *ast.ReturnStmt:
				return true
			case *ast.ExprStmt:
				if call, ok := x.X.(*ast.CallExpr); ok {
					if id, ok := call.Fun.(*ast.Ident); ok && id.Name == "panic" {
						return true
					}
				}
			}
			return false
		}
		// flagTrueAt: is the flag known to be true at statement st (path of ancestors given)?
		flagTrueAt := func(stack []ast.Node) bool {
			for i := len(stack) - 1; i > 0; i-- {
				child, parent := stack[i], stack[i-1]
				switch x := parent.(type) {
				case *ast.IfStmt:
					pol := polarity(x.Cond)
					if pol == 1 && child == ast.Node(x.Body) {
						return true
					}
					if pol == -1 && x.Else != nil && child == ast.Node(x.Else) {
						return true
					}
				case *ast.BlockStmt:
					for _, s := range x.List {
						if ast.Node(s) == child {
							break
						}
						if ifs, ok := s.(*ast.IfStmt); ok && ifs.Else == nil && polarity(ifs.Cond) == -1 && terminates(ifs.Body) {
							return true
						}
					}
				case *ast.CaseClause:
					for _, s := range x.Body {
						if ast.Node(s) == child {
							break
						}
						if ifs, ok := s.(*ast.IfStmt); ok && ifs.Else == nil && polarity(ifs.Cond) == -1 && terminates(ifs.Body) {
							return true
						}
					}
				case *ast.FuncLit:
					return false
				}
			}
			return false
		}
		caseName := func(stack []ast.Node) string {
			for i := len(stack) - 1; i >= 0; i-- {
				if cc, ok := stack[i].(*ast.CaseClause); ok && len(cc.List) > 0 {
					var names []string
					for _, e := range cc.List {
						s := types.ExprString(e)
						s = strings.TrimPrefix(s, "*")
						if j := strings.LastIndex(s, "."); j >= 0 {
							s = s[j+1:]
						}
						names = append(names, s)
					}
					return strings.Join(names, ",")
				}
			}
			return ""
		}
		n := 0
		seenKey := map[string]int{}
		mkKey := func(kind string, stack []ast.Node) (string, string) {
			cn := caseName(stack)
			k := FuncName(fr.Decl) + "/" + kind
			if cn != "" {
				k += "/case " + cn
			}
			seenKey[k]++
			if seenKey[k] > 1 {
				k += fmt.Sprintf("#%d", seenKey[k])
			}
			return k, cn
		}
		var stack []ast.Node
		ast.Inspect(fr.Decl.Body, func(nd ast.Node) bool {
			if nd == nil {
				stack = stack[:len(stack)-1]
				return true
			}
			stack = append(stack, nd)
			if _, ok := nd.(*ast.FuncLit); ok {
				// returns inside a literal belong to the literal
				stack = stack[:len(stack)-1]
				return false
			}
			ret, ok := nd.(*ast.ReturnStmt)
			if !ok || len(ret.Results) != 1 {
				return true
			}
			res := ast.Unparen(ret.Results[0])
			if constOf(res) == "expressionCompiledWithoutResult" {
				sawWithout = true
				if !report {
					if flagTrueAt(stack) {
						actsAsFlag = true
					}
					return true
				}
				n++
				key, cn := mkKey("without-result", stack)
				if why, ok := resultProtoNoContinue[cn]; ok && FuncName(fr.Decl) == "BytecodeCompiler.compileNode" {
					c.OK(key, ret.Pos(), "reasoned exception: %s", why)
					return true
				}
				c.Check(flagTrueAt(stack), key, ret.Pos(), "%s answers \"compiled, nothing left on the stack\" here on a path where its caller may have asked for the value (the return is not control-dependent on the value-is-ignored flag): a caller that uses the value of the last statement of a block then pops, stores or returns a slot that is not there", FuncName(fr.Decl))
				return true
			}
			call, ok := res.(*ast.CallExpr)
			if !ok {
				return true
			}
			fn := Callee(info, call)
			if fn == nil {
				return true
			}
			csig, ok := fn.Type().(*types.Signature)
			if !ok || csig.Results().Len() != 1 || !isResultType(csig.Results().At(0).Type()) {
				return true
			}
			fl := flagParams(fn)
			if len(fl) == 0 {
				return true
			}
			if !report {
				for _, i := range fl {
					if i < len(call.Args) {
						if id, ok := ast.Unparen(call.Args[i]).(*ast.Ident); ok && flags[info.Uses[id]] {
							actsAsFlag = true
						}
					}
				}
				return true
			}
			n++
			key, _ := mkKey("returns-"+fn.Name(), stack)
			okAll := true
			for _, i := range fl {
				if i >= len(call.Args) {
					continue
				}
				a := ast.Unparen(call.Args[i])
				if id, ok := a.(*ast.Ident); ok && flags[info.Uses[id]] {
					continue
				}
				if tv, ok := info.Types[a]; ok && tv.Value != nil {
					if tv.Value.String() == "false" {
						continue
					}
					if flagTrueAt(stack) {
						continue
					}
					okAll = false
					continue
				}
				// any other expression: accepted only where the own flag is known true,
				// or when it is a conjunction/disjunction that implies it is not checkable
				if be, ok := a.(*ast.BinaryExpr); ok && be.Op == token.LOR {
					// flag || x : true when flag is true; when flag is false the callee may
					// still be told to ignore the value although our caller wants it
					okAll = false
					continue
				}
				if be, ok := a.(*ast.BinaryExpr); ok && be.Op == token.LAND {
					// flag && x : never true when the own flag is false
					if id, ok := ast.Unparen(be.X).(*ast.Ident); ok && flags[info.Uses[id]] {
						continue
					}
					if id, ok := ast.Unparen(be.Y).(*ast.Ident); ok && flags[info.Uses[id]] {
						continue
					}
				}
				if !flagTrueAt(stack) {
					okAll = false
				}
			}
			c.Check(okAll, key, ret.Pos(), "%s returns the answer of %s but tells it the value is ignored on a path where its own caller may have asked for the value: the answer \"nothing left on the stack\" then reaches a caller that expects a value", FuncName(fr.Decl), fn.Name())
			return true
		})
		return actsAsFlag
	}
	for round := 0; round < 4; round++ {
		changed := false
		for _, fr := range resultFuncs {
			for obj, i := range boolParams(fr) {
				if flagIdx[fr.Obj][i] {
					continue
				}
				if analyse(fr, map[types.Object]bool{obj: true}, false) {
					if flagIdx[fr.Obj] == nil {
						flagIdx[fr.Obj] = map[int]bool{}
					}
					flagIdx[fr.Obj][i] = true
					changed = true
				}
			}
		}
		if !changed {
			break
		}
	}
	nFlags := 0
	for _, fr := range resultFuncs {
		nFuncs++
		flags := map[types.Object]bool{}
		for obj, i := range boolParams(fr) {
			if flagIdx[fr.Obj][i] {
				flags[obj] = true
				nFlags++
			}
		}
		analyse(fr, flags, true)
	}
	c.Stats["value_is_ignored_flag_parameters"] = nFlags
	c.Stats["functions_returning_expressionResult"] = nFuncs
	if !sawWithout {
		c.Stale("compiler: a `return expressionCompiledWithoutResult` statement")
	}
}
