package main

import (
	"fmt"
	"go/ast"
	"go/token"
	"go/types"
)

// path/ctx-blocking (C33): the context-aware variants of blocking runtime
// operations (PushCtx, PopCtx, NextValueCtx, ...) exist so that cancelling the
// thread's context wakes a thread blocked in them. That only works if every
// channel operation inside them is one arm of a select whose other arm
// receives from ctx.Done(), and if they never delegate to the non-context
// (bare blocking) sibling.

func init() {
	register(&Rule{
		ID:    "path/ctx-blocking",
		Text:  "in every function that takes a context.Context, each channel send/receive is a comm clause of a select statement that also has a clause receiving from that context's Done() channel (or a default clause), and the function does not call a sibling method of the same type whose body performs a channel operation outside such a select",
		Floor: 15,
		Run:   runCtxBlocking,
	})
}

func isContextType(t types.Type) bool {
	n, ok := types.Unalias(t).(*types.Named)
	return ok && n.Obj().Pkg() != nil && n.Obj().Pkg().Path() == "context" && n.Obj().Name() == "Context"
}

// chanOps lists the channel operations of a function body with, for each,
// whether it is guarded: comm clause of a select with a <-ctx.Done() clause
// (ctxObj may be nil: then any Done() call counts) or with a default clause.
type chanOp struct {
	pos     token.Pos
	what    string
	guarded bool
}

func chanOpsOf(info *types.Info, body *ast.BlockStmt, ctxObj types.Object) []chanOp {
	var out []chanOp
	isDoneRecv := func(e ast.Expr) bool {
		u, ok := ast.Unparen(e).(*ast.UnaryExpr)
		if !ok || u.Op != token.ARROW {
			return false
		}
		call, ok := ast.Unparen(u.X).(*ast.CallExpr)
		if !ok {
			return false
		}
		sel, ok := ast.Unparen(call.Fun).(*ast.SelectorExpr)
		if !ok || sel.Sel.Name != "Done" {
			return false
		}
		if ctxObj == nil {
			return isContextType(info.TypeOf(sel.X))
		}
		id, ok := ast.Unparen(sel.X).(*ast.Ident)
		return ok && info.Uses[id] == ctxObj
	}
	commExpr := func(st ast.Stmt) ast.Expr {
		switch x := st.(type) {
		case *ast.ExprStmt:
			return x.X
		case *ast.AssignStmt:
			if len(x.Rhs) == 1 {
				return x.Rhs[0]
			}
		}
		return nil
	}
	var visit func(n ast.Node, selGuard bool)
	visit = func(n ast.Node, selGuard bool) {
		ast.Inspect(n, func(m ast.Node) bool {
			switch x := m.(type) {
			case *ast.FuncLit:
				return false
			case *ast.SelectStmt:
				guard := false
				for _, cl := range x.Body.List {
					cc := cl.(*ast.CommClause)
					if cc.Comm == nil {
						guard = true // default: never blocks
						continue
					}
					if e := commExpr(cc.Comm); e != nil && isDoneRecv(e) {
						guard = true
					}
				}
				for _, cl := range x.Body.List {
					cc := cl.(*ast.CommClause)
					if cc.Comm != nil {
						// the comm operation itself
						switch s := cc.Comm.(type) {
						case *ast.SendStmt:
							out = append(out, chanOp{s.Pos(), "send", guard})
						default:
							if e := commExpr(s); e != nil && !isDoneRecv(e) {
								out = append(out, chanOp{s.Pos(), "receive", guard})
							}
						}
					}
					for _, st := range cc.Body {
						visit(st, false)
					}
				}
				return false
			case *ast.SendStmt:
				out = append(out, chanOp{x.Pos(), "send", false})
			case *ast.UnaryExpr:
				if x.Op == token.ARROW && !isDoneRecv(x) {
					out = append(out, chanOp{x.Pos(), "receive", false})
				}
			case *ast.RangeStmt:
				if _, ok := info.TypeOf(x.X).Underlying().(*types.Chan); ok {
					out = append(out, chanOp{x.Pos(), "range over channel", false})
				}
			}
			return true
		})
	}
	visit(body, false)
	return out
}

func runCtxBlocking(c *Ctx) {
	// bare-blocking methods: no context parameter, body has an unguarded
	// channel operation
	bare := map[*types.Func]bool{}
	for _, p := range c.Pkgs {
		rel := relPkg(p.PkgPath)
		c.Funcs(rel, func(fr *FuncRef) {
			sig := fr.Obj.Type().(*types.Signature)
			for i := 0; i < sig.Params().Len(); i++ {
				if isContextType(sig.Params().At(i).Type()) {
					return
				}
			}
			for _, op := range chanOpsOf(p.TypesInfo, fr.Decl.Body, nil) {
				if !op.guarded {
					bare[fr.Obj] = true
				}
			}
		})
	}
	c.Stats["bare_blocking_functions"] = len(bare)
	nCtx := 0
	for _, p := range c.Pkgs {
		rel := relPkg(p.PkgPath)
		// the runtime operations an Elk program can block in; the test
		// runner's report-event sends (ext/std/test) use a context for
		// fail-fast, not for cancelling a program, and are consumed by a
		// reader that never stops
		if rel != "value" && rel != "vm" && rel != "concurrent" {
			continue
		}
		info := p.TypesInfo
		c.Funcs(rel, func(fr *FuncRef) {
			var ctxObj types.Object
			if fr.Decl.Type.Params != nil {
				for _, f := range fr.Decl.Type.Params.List {
					if isContextType(info.TypeOf(f.Type)) && len(f.Names) > 0 {
						ctxObj = info.Defs[f.Names[0]]
					}
				}
			}
			if ctxObj == nil {
				return
			}
			nCtx++
			fname := rel + "." + FuncName(fr.Decl)
			ops := chanOpsOf(info, fr.Decl.Body, ctxObj)
			for i, op := range ops {
				key := fmt.Sprintf("%s/%s#%d", fname, op.what, i+1)
				c.Check(op.guarded, key, op.pos, "%s takes a context but this channel %s is not an arm of a select that also receives from %s.Done(): a thread blocked here is not woken when its context is cancelled", fname, op.what, ctxObj.Name())
			}
			// delegation to a bare-blocking sibling of the same receiver type
			recvT := ""
			if fr.Decl.Recv != nil {
				recvT = recvTypeName(fr.Decl)
			}
			n := 0
			ast.Inspect(fr.Decl.Body, func(m ast.Node) bool {
				if _, ok := m.(*ast.FuncLit); ok {
					return false
				}
				call, ok := m.(*ast.CallExpr)
				if !ok {
					return true
				}
				fn := Callee(info, call)
				if fn == nil || !bare[fn.Origin()] {
					return true
				}
				if recvT == "" || recvNameOf(fn) != recvT {
					return true
				}
				n++
				c.Bad(fmt.Sprintf("%s/calls-%s#%d", fname, fn.Name(), n), call.Pos(), "%s takes a context but calls %s, the variant of the same operation that blocks on the channel without watching any context", fname, fn.Name())
				return true
			})
			if len(ops) == 0 && n == 0 {
				c.OKTrivial(fname+"/no-channel-ops", fr.Decl.Pos(), "no channel operation in this function")
			}
		})
	}
	c.Stats["functions_with_context_param"] = nCtx
}
