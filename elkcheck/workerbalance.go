package main

import (
	"go/ast"
)

// stack/worker-balance (C16, C10): a pool worker runs task after task on one
// value stack. Running an async body leaves exactly one value on that stack
// whatever the outcome - the result, the error, or the promise the body is
// waiting for - and the worker has to take it off. A branch that only looks
// at it leaks one slot per task; the stack of a worker is never grown by the
// code that copies a suspended frame back, so after enough tasks the worker
// writes past the end of its stack.

func init() {
	register(&Rule{
		ID:    "stack/worker-balance",
		Text:  "in package vm, every function that runs an async body on a thread (calls callBytecodePromise) pops the thread's stack exactly once afterwards on every path (popGet / pop), whatever state the body ended in",
		Floor: 1,
		Run:   runWorkerBalance,
	})
}

func runWorkerBalance(c *Ctx) {
	p := c.Pkg("vm")
	info := p.TypesInfo
	if c.FuncOpt("vm", "Thread", "callBytecodePromise") == nil {
		c.Stale("vm.(*Thread).callBytecodePromise")
		return
	}
	type st struct {
		called bool
		pops   int8
	}
	c.Funcs("vm", func(fr *FuncRef) {
		has := false
		var at ast.Node
		ast.Inspect(fr.Decl.Body, func(n ast.Node) bool {
			if call, ok := n.(*ast.CallExpr); ok {
				if fn := Callee(info, call); fn != nil && fn.Name() == "callBytecodePromise" && recvNameOf(fn) == "Thread" {
					has, at = true, call
				}
			}
			return true
		})
		if !has {
			return
		}
		pe := &PathEval[st]{Info: info}
		pe.Call = func(s st, call *ast.CallExpr) []st {
			fn := Callee(info, call)
			if fn == nil || recvNameOf(fn) != "Thread" {
				return []st{s}
			}
			switch fn.Name() {
			case "callBytecodePromise":
				return []st{{called: true}}
			case "popGet", "pop":
				if s.called && s.pops < 3 {
					s.pops++
				}
			}
			return []st{s}
		}
		fl := pe.Block(newSet(st{}), fr.Decl.Body.List)
		ends := fl.next.clone()
		ends.addAll(fl.ret)
		leak, over := false, false
		for s := range ends {
			if s.called && s.pops == 0 {
				leak = true
			}
			if s.called && s.pops > 1 {
				over = true
			}
		}
		c.Check(!leak && !over, FuncName(fr.Decl), at.Pos(), "%s runs an async body on the thread and on some path afterwards does not take exactly one value off the thread's stack (leak=%v, more than one=%v): the body always leaves one (its result, the error, or the awaited promise); a worker that leaves it there loses a slot per task until it writes past the end of its stack", FuncName(fr.Decl), leak, over)
	})
}
