package main

import (
	"go/ast"
	"go/types"
)

// stack/jumpset-identity (C29): `continue` must leave on the operand stack
// exactly what the header of the loop it jumps to expects (a value for loops
// that keep the value of the last iteration, nothing for the others). The
// compiler reads that expectation from the jump set of a loop and registers
// the jump with a jump set. Both must be the set of the loop the label names:
// reading the expectation of the innermost loop while jumping to a labelled
// outer one arrives at the outer header one operand short or one too many.

func init() {
	register(&Rule{
		ID:    "stack/jumpset-identity",
		Text:  "in package compiler, a function that reads a property of a loop jump set (a field of bytecodeLoopJumpSet other than the jump list) and registers a loop jump: the jump set it reads is obtained by a call that is given the label of the jump, and every registration in the function names that same set (addLoopJumpTo(set, ..)) or that same label (addLoopJump(label, ..))",
		Floor: 1,
		Run:   runJumpSetIdentity,
	})
}

func runJumpSetIdentity(c *Ctx) {
	p := c.Pkg("compiler")
	info := p.TypesInfo
	reg := map[*types.Func]string{}
	for _, n := range []string{"addLoopJump", "addLoopJumpTo"} {
		if fr := c.FuncOpt("compiler", "BytecodeCompiler", n); fr != nil {
			reg[fr.Obj] = n
		}
	}
	if len(reg) == 0 {
		c.Stale("compiler.(*BytecodeCompiler).addLoopJump")
		return
	}
	c.Funcs("compiler", func(fr *FuncRef) {
		if recvTypeName(fr.Decl) != "BytecodeCompiler" || reg[fr.Obj] != "" {
			return
		}
		// jump-set variables whose properties are read
		read := map[types.Object]ast.Node{}
		var regs []*ast.CallExpr
		ast.Inspect(fr.Decl.Body, func(n ast.Node) bool {
			switch x := n.(type) {
			case *ast.SelectorExpr:
				if NamedOf(info.TypeOf(x.X)) != "compiler.bytecodeLoopJumpSet" {
					return true
				}
				if s := info.Selections[x]; s == nil || s.Kind() != types.FieldVal {
					return true
				}
				if _, isSlice := info.TypeOf(x).Underlying().(*types.Slice); isSlice {
					return true // the list of jumps itself
				}
				if id, ok := ast.Unparen(x.X).(*ast.Ident); ok {
					if o := info.Uses[id]; o != nil && read[o] == nil {
						read[o] = x
					}
				}
			case *ast.CallExpr:
				if fn := Callee(info, x); fn != nil && reg[fn.Origin()] != "" {
					regs = append(regs, x)
				}
			}
			return true
		})
		if len(read) == 0 || len(regs) == 0 {
			return
		}
		// definition of each read set: v := c.f(.., label, ..)
		defArgs := map[types.Object][]types.Object{}
		ast.Inspect(fr.Decl.Body, func(n ast.Node) bool {
			as, ok := n.(*ast.AssignStmt)
			if !ok || len(as.Lhs) != 1 || len(as.Rhs) != 1 {
				return true
			}
			id, ok := as.Lhs[0].(*ast.Ident)
			if !ok {
				return true
			}
			o := info.ObjectOf(id)
			if read[o] == nil {
				return true
			}
			call, ok := ast.Unparen(as.Rhs[0]).(*ast.CallExpr)
			if !ok {
				defArgs[o] = nil
				return true
			}
			var args []types.Object
			for _, a := range call.Args {
				if aid, ok := ast.Unparen(a).(*ast.Ident); ok {
					if b, ok := info.TypeOf(aid).Underlying().(*types.Basic); ok && b.Kind() == types.String {
						args = append(args, info.Uses[aid])
					}
				}
			}
			defArgs[o] = args
			return true
		})
		for o, at := range read {
			key := FuncName(fr.Decl) + "/" + o.Name()
			labels := defArgs[o]
			if len(labels) == 0 {
				c.Bad(key, at.Pos(), "%s reads what the loop header expects on the operand stack from the jump set `%s`, which is not looked up by the label of the jump: for a labelled jump to an outer loop of the other kind (value-keeping vs. value-less) the jump arrives with one operand too few or too many", FuncName(fr.Decl), o.Name())
				continue
			}
			ok := true
			var bad *ast.CallExpr
			for _, r := range regs {
				first, isID := ast.Unparen(r.Args[0]).(*ast.Ident)
				if !isID {
					ok, bad = false, r
					break
				}
				fo := info.Uses[first]
				match := fo == o
				for _, l := range labels {
					if fo == l {
						match = true
					}
				}
				if !match {
					ok, bad = false, r
					break
				}
			}
			if !ok {
				c.Bad(key, bad.Pos(), "%s reads what the loop header expects on the operand stack from the jump set `%s` but registers the jump here with `%s`, which is neither that set nor the label it was looked up by: the jump may go to a different loop than the one whose expectation was used, arriving with one operand too few or too many", FuncName(fr.Decl), o.Name(), types.ExprString(bad.Args[0]))
				continue
			}
			c.OK(key, at.Pos(), "%d registrations use the same set or label", len(regs))
		}
	})
}
