package main

import (
	"go/ast"
	"go/types"
	"sort"
	"strings"
)

// fmt/rw (C22): strftime-style directives are scanned into tokens; the
// formatter has one switch over those tokens, the parser another. A directive
// the formatter writes but the parser has no arm for cannot round-trip: the
// text produced with a format string cannot be read back with the same format
// string.

func init() {
	register(&Rule{
		ID:    "fmt/rw",
		Text:  "for each of Date, Time and DateTime: every directive token that the type's Format function has a case for is also handled by the type's Parse function (a case in its token switch), except the directives listed with the reason why their output carries no information to parse back",
		Floor: 100,
		Run:   runFmtRW,
	})
}

// fmtrwExempt: directives the formatter accepts that a parser cannot invert.
var fmtrwExempt = map[string]string{}

func runFmtRW(c *Ctx) {
	p := c.Pkg("value")
	info := p.TypesInfo
	tokCases := func(fr *FuncRef) map[string]bool {
		out := map[string]bool{}
		ast.Inspect(fr.Decl.Body, func(n ast.Node) bool {
			cc, ok := n.(*ast.CaseClause)
			if !ok {
				return true
			}
			for _, e := range cc.List {
				if sel, ok := ast.Unparen(e).(*ast.SelectorExpr); ok {
					if k, ok := info.Uses[sel.Sel].(*types.Const); ok && k.Pkg() != nil && strings.HasSuffix(k.Pkg().Path(), "timescanner") {
						out[k.Name()] = true
					}
				}
			}
			return true
		})
		return out
	}
	// delegation: a Format/Parse function may hand tokens it does not know to
	// a helper of the package (formatting of a Date part inside DateTime)
	var closure func(fr *FuncRef, depth int) map[string]bool
	byObj := map[*types.Func]*FuncRef{}
	c.Funcs("value", func(fr *FuncRef) { byObj[fr.Obj] = fr })
	closure = func(fr *FuncRef, depth int) map[string]bool {
		out := tokCases(fr)
		if depth >= 2 {
			return out
		}
		ast.Inspect(fr.Decl.Body, func(n ast.Node) bool {
			if call, ok := n.(*ast.CallExpr); ok {
				if fn := Callee(info, call); fn != nil && byObj[fn.Origin()] != nil && fn.Origin() != fr.Obj {
					for k := range closure(byObj[fn.Origin()], depth+1) {
						out[k] = true
					}
				}
			}
			return true
		})
		return out
	}
	type pair struct{ f, p *FuncRef }
	pairs := map[string]*pair{}
	c.Funcs("value", func(fr *FuncRef) {
		name := fr.Decl.Name.Name
		if name == "Format" && fr.Decl.Recv != nil {
			t := recvTypeName(fr.Decl)
			if len(tokCases(fr)) >= 10 {
				if pairs[t] == nil {
					pairs[t] = &pair{}
				}
				pairs[t].f = fr
			}
		}
		if fr.Decl.Recv == nil && strings.HasPrefix(name, "Parse") && len(tokCases(fr)) >= 10 {
			t := strings.TrimPrefix(name, "Parse")
			if pairs[t] == nil {
				pairs[t] = &pair{}
			}
			pairs[t].p = fr
		}
	})
	var ts []string
	for t, pr := range pairs {
		if pr.f != nil && pr.p != nil {
			ts = append(ts, t)
		}
	}
	sort.Strings(ts)
	if len(ts) < 2 {
		c.Stale("value: Format/Parse function pairs with directive-token switches (found " + strings.Join(ts, ",") + ")")
	}
	for _, t := range ts {
		pr := pairs[t]
		f, ps := closure(pr.f, 0), closure(pr.p, 0)
		var ks []string
		for k := range f {
			ks = append(ks, k)
		}
		sort.Strings(ks)
		for _, k := range ks {
			if reason, ok := fmtrwExempt[t+"/"+k]; ok {
				c.OK(t+"/"+k, pr.p.Decl.Pos(), "reasoned exception: %s", reason)
				continue
			}
			c.Check(ps[k], t+"/"+k, pr.p.Decl.Pos(), "%s.Format has a case for directive token %s but Parse%s has none: text produced with this directive cannot be parsed back with the same format string", t, k, t)
		}
		c.Stats["fmt_directives_"+t] = len(f)
	}
}
