package main

import (
	"fmt"
	"go/ast"
	"go/token"
	"go/types"
	"sort"
)

// ---------------------------------------------------------------------------
// optable/width — compiler side: operand bytes emitted after each opcode

// emission primitives, resolved by callee identity.
type emitKind int

const (
	emitNone  emitKind = iota
	emitStart          // (line, op, bytes...) starts an instruction
	emitBytes          // (bytes...) appends len(args) operand bytes
	emitU16            // appends 2
	emitU32            // appends 4
)

var emitPrims = map[string]emitKind{
	"compiler.BytecodeCompiler.emit":       emitStart,
	"vm.BytecodeFunction.AddInstruction":   emitStart,
	"compiler.BytecodeCompiler.emitByte":   emitBytes,
	"vm.BytecodeFunction.AddBytes":         emitBytes,
	"compiler.BytecodeCompiler.emitUint16": emitU16,
	"vm.BytecodeFunction.AppendUint16":     emitU16,
	"compiler.BytecodeCompiler.emitUint32": emitU32,
	"vm.BytecodeFunction.AppendUint32":     emitU32,
}

// the wrappers themselves forward to the vm primitives; they are not sites.
var emitWrapperFuncs = map[string]bool{
	"compiler.BytecodeCompiler.emit":       true,
	"compiler.BytecodeCompiler.emitByte":   true,
	"compiler.BytecodeCompiler.emitUint16": true,
	"compiler.BytecodeCompiler.emitUint32": true,
}

type emitState struct {
	site token.Pos // position of the opcode expression of the open instruction (NoPos: none)
	w    int
}

type emitSite struct {
	fn    *ast.FuncDecl
	opExp ast.Expr
	w     int // operand bytes, widthVar for variable
}

type compilerEmits struct {
	c      *Ctx
	info   *types.Info
	sites  []emitSite
	opExpr map[token.Pos]ast.Expr
	// index for opcode value resolution
	declOf    map[*types.Func]*ast.FuncDecl
	callsTo   map[*types.Func][]callSite
	enclosing map[ast.Node]*ast.FuncDecl
	unsupp    []ast.Node
}

type callSite struct {
	call *ast.CallExpr
	in   *ast.FuncDecl
}

func (c *Ctx) compilerEmissions() *compilerEmits {
	cp := c.Pkg("compiler")
	ce := &compilerEmits{c: c, info: cp.TypesInfo, opExpr: map[token.Pos]ast.Expr{},
		declOf: map[*types.Func]*ast.FuncDecl{}, callsTo: map[*types.Func][]callSite{}}
	var decls []*ast.FuncDecl
	for _, f := range cp.Syntax {
		for _, d := range f.Decls {
			if fd, ok := d.(*ast.FuncDecl); ok && fd.Body != nil {
				decls = append(decls, fd)
				if obj, ok := cp.TypesInfo.Defs[fd.Name].(*types.Func); ok {
					ce.declOf[obj] = fd
				}
			}
		}
	}
	for _, fd := range decls {
		ast.Inspect(fd.Body, func(n ast.Node) bool {
			if call, ok := n.(*ast.CallExpr); ok {
				if fn := Callee(ce.info, call); fn != nil {
					ce.callsTo[fn.Origin()] = append(ce.callsTo[fn.Origin()], callSite{call, fd})
				}
			}
			return true
		})
	}
	for _, fd := range decls {
		obj, _ := cp.TypesInfo.Defs[fd.Name].(*types.Func)
		if emitWrapperFuncs[FuncID(obj)] {
			continue
		}
		// the declaration body and every function literal in it are
		// separate straight-line emission contexts
		ce.evalBody(fd, fd.Body)
		ast.Inspect(fd.Body, func(n ast.Node) bool {
			if fl, ok := n.(*ast.FuncLit); ok {
				ce.evalBody(fd, fl.Body)
			}
			return true
		})
	}
	return ce
}

func (ce *compilerEmits) evalBody(fd *ast.FuncDecl, body *ast.BlockStmt) {
	pe := &PathEval[emitState]{Info: ce.info}
	pe.Widen = func(s emitState) emitState { return emitState{s.site, widthVar} }
	closeInstr := func(s emitState) {
		if s.site != token.NoPos {
			ce.sites = append(ce.sites, emitSite{fd, ce.opExpr[s.site], s.w})
		}
	}
	pe.Call = func(s emitState, call *ast.CallExpr) []emitState {
		fn := Callee(ce.info, call)
		kind := emitPrims[FuncID(fn)]
		switch kind {
		case emitStart:
			closeInstr(s)
			if len(call.Args) < 2 {
				return []emitState{{}}
			}
			w := len(call.Args) - 2
			if call.Ellipsis.IsValid() {
				w = ce.sliceLen(fd, call.Args[len(call.Args)-1])
			}
			op := call.Args[1]
			ce.opExpr[op.Pos()] = op
			return []emitState{{op.Pos(), w}}
		case emitBytes:
			n := len(call.Args)
			if call.Ellipsis.IsValid() {
				n = ce.sliceLen(fd, call.Args[len(call.Args)-1])
			}
			if s.site == token.NoPos {
				return []emitState{s}
			}
			return []emitState{{s.site, addW(s.w, n)}}
		case emitU16:
			if s.site == token.NoPos {
				return []emitState{s}
			}
			return []emitState{{s.site, addW(s.w, 2)}}
		case emitU32:
			if s.site == token.NoPos {
				return []emitState{s}
			}
			return []emitState{{s.site, addW(s.w, 4)}}
		}
		return []emitState{s}
	}
	f := pe.Block(newSet(emitState{}), body.List)
	for s := range f.next {
		closeInstr(s)
	}
	for s := range f.ret {
		closeInstr(s)
	}
	ce.unsupp = append(ce.unsupp, pe.Unsupported...)
}

// sliceLen resolves `bytes...` to the constant length of the slice when it is
// a local built by make([]byte, N) (single definition); widthVar otherwise.
func (ce *compilerEmits) sliceLen(fd *ast.FuncDecl, e ast.Expr) int {
	id, ok := ast.Unparen(e).(*ast.Ident)
	if !ok {
		return widthVar
	}
	obj := ce.info.Uses[id]
	n := widthVar
	defs := 0
	ast.Inspect(fd.Body, func(x ast.Node) bool {
		as, ok := x.(*ast.AssignStmt)
		if !ok {
			return true
		}
		for i, l := range as.Lhs {
			lid, ok := l.(*ast.Ident)
			if !ok {
				continue
			}
			if ce.info.Defs[lid] != obj && ce.info.Uses[lid] != obj {
				continue
			}
			defs++
			if i < len(as.Rhs) {
				if call, ok := as.Rhs[i].(*ast.CallExpr); ok {
					if fid, ok := call.Fun.(*ast.Ident); ok && fid.Name == "make" && len(call.Args) == 2 {
						if k, ok := ConstInt(ce.info, call.Args[1]); ok {
							n = int(k)
						}
					}
				}
			}
		}
		return true
	})
	if defs != 1 {
		return widthVar
	}
	return n
}

// opValues resolves an opcode-typed expression to the set of opcode
// constants it can denote. ok=false when some source cannot be resolved.
func (ce *compilerEmits) opValues(fd *ast.FuncDecl, e ast.Expr, depth int) (vals map[int64]bool, ok bool) {
	vals = map[int64]bool{}
	if depth > 6 {
		return vals, false
	}
	if k, isConst := ConstInt(ce.info, e); isConst {
		vals[k] = true
		return vals, true
	}
	ok = true
	merge := func(v map[int64]bool, o bool) {
		for k := range v {
			vals[k] = true
		}
		if !o {
			ok = false
		}
	}
	switch x := ast.Unparen(e).(type) {
	case *ast.Ident:
		obj, _ := ce.info.Uses[x].(*types.Var)
		if obj == nil {
			return vals, false
		}
		// parameter of the enclosing declaration?
		if idx, isParam := paramIndex(ce.info, fd, obj); isParam {
			fobj, _ := ce.info.Defs[fd.Name].(*types.Func)
			sites := ce.callsTo[fobj]
			if len(sites) == 0 {
				return vals, true // never called: no instances
			}
			for _, cs := range sites {
				if idx >= len(cs.call.Args) {
					ok = false
					continue
				}
				merge(ce.opValues(cs.in, cs.call.Args[idx], depth+1))
			}
			return vals, ok
		}
		// local variable: union over its assignments in fd
		found := false
		ast.Inspect(fd, func(n ast.Node) bool {
			switch as := n.(type) {
			case *ast.AssignStmt:
				for i, l := range as.Lhs {
					lid, isId := l.(*ast.Ident)
					if !isId || (ce.info.Defs[lid] != obj && ce.info.Uses[lid] != obj) {
						continue
					}
					found = true
					if len(as.Rhs) == len(as.Lhs) {
						merge(ce.opValues(fd, as.Rhs[i], depth+1))
					} else if len(as.Rhs) == 1 {
						if call, isCall := ast.Unparen(as.Rhs[0]).(*ast.CallExpr); isCall {
							merge(ce.resultValues(fd, call, i, depth+1))
						} else {
							ok = false
						}
					}
				}
			case *ast.ValueSpec:
				for i, n := range as.Names {
					if ce.info.Defs[n] != obj {
						continue
					}
					found = true
					if i < len(as.Values) {
						merge(ce.opValues(fd, as.Values[i], depth+1))
					}
				}
			}
			return true
		})
		if !found {
			ok = false
		}
		return vals, ok
	case *ast.CallExpr:
		merge(ce.resultValues(fd, x, 0, depth+1))
		return vals, ok
	}
	return vals, false
}

func paramIndex(info *types.Info, fd *ast.FuncDecl, obj *types.Var) (int, bool) {
	i := 0
	for _, fld := range fd.Type.Params.List {
		for _, n := range fld.Names {
			if info.Defs[n] == obj {
				return i, true
			}
			i++
		}
		if len(fld.Names) == 0 {
			i++
		}
	}
	return 0, false
}

// resultValues: opcode constants that result #idx of the call can be.
func (ce *compilerEmits) resultValues(fd *ast.FuncDecl, call *ast.CallExpr, idx int, depth int) (map[int64]bool, bool) {
	vals := map[int64]bool{}
	fn := Callee(ce.info, call)
	if fn == nil {
		return vals, false
	}
	d := ce.declOf[fn.Origin()]
	if d == nil {
		return vals, false
	}
	ok := true
	// walk return statements of d itself (not of nested literals)
	var walk func(n ast.Node) bool
	walk = func(n ast.Node) bool {
		switch r := n.(type) {
		case *ast.FuncLit:
			return false
		case *ast.ReturnStmt:
			if idx >= len(r.Results) {
				if len(r.Results) == 1 {
					if inner, isCall := ast.Unparen(r.Results[0]).(*ast.CallExpr); isCall {
						v, o := ce.resultValues(d, inner, idx, depth+1)
						for k := range v {
							vals[k] = true
						}
						ok = ok && o
						return true
					}
				}
				ok = false
				return true
			}
			res := r.Results[idx]
			// a parameter of d passed through: substitute the call argument
			if id, isId := ast.Unparen(res).(*ast.Ident); isId {
				if obj, _ := ce.info.Uses[id].(*types.Var); obj != nil {
					if pi, isParam := paramIndex(ce.info, d, obj); isParam && pi < len(call.Args) {
						v, o := ce.opValues(fd, call.Args[pi], depth+1)
						for k := range v {
							vals[k] = true
						}
						ok = ok && o
						return true
					}
				}
			}
			// idiom: `return X, nil` signals "no result" to a caller that
			// tests the sibling for nil before using X (optimiseCondition)
			for j, sib := range r.Results {
				if id, isId := ast.Unparen(sib).(*ast.Ident); isId && j != idx && id.Name == "nil" {
					return true
				}
			}
			v, o := ce.opValues(d, res, depth+1)
			for k := range v {
				vals[k] = true
			}
			ok = ok && o
		}
		return true
	}
	ast.Inspect(d.Body, walk)
	return vals, ok
}

// ---------------------------------------------------------------------------

func runOptableWidth(c *Ctx) {
	t := c.opcodeTables()
	vmW, w := c.vmOperandWidths(t)
	disW := c.disasmWidths(t)
	for _, n := range w.unsupp {
		c.Unknown(fmt.Sprintf("vm-unsupported/%s", c.Pos(n.Pos())), n.Pos(), "control construct the path interpreter does not follow")
	}
	c.Stats["vm_functions_summarised"] = w.nfuncs

	// VM vs disassembler, per opcode
	expected := map[int64]int{} // operand bytes, from the disassembler
	for _, k := range t.consts {
		v := opVal(k)
		rc, dc := t.runCase[v], t.disCase[v]
		if rc == nil || dc == nil {
			continue // reported by optable/handled
		}
		dw := disW[dc]
		if dw == -2 {
			c.Unknown("vm-disasm/"+k.Name(), dc.Pos(), "cannot evaluate the instruction length of the disassembler arm")
			continue
		}
		vw := vmW[v]
		want := dw - 1
		if dw == widthVar {
			want = widthVar
		}
		expected[v] = want
		cont := vw.cont
		if reason, ok := vmSkipsNext[k.Name()]; ok {
			adj := set[int]{}
			for x := range cont {
				adj.add(x - 1)
			}
			c.Check(len(adj) == 1 && adj.subsetOf(newSet(want)), "vm-disasm/"+k.Name(), rc.Pos(),
				"run-loop consumes %s bytes (one of them the following opcode: %s); disassembler operand bytes %d", setStr(cont), reason, want)
			continue
		}
		good := cont.subsetOf(newSet(want))
		full := len(cont) > 0
		for x := range vw.jumped {
			switch {
			case want == widthVar:
				full = true
			case x == widthVar || x > want:
				good = false
			case x == want:
				full = true
			}
		}
		if want == 0 {
			full = true
		}
		c.Check(good && full, "vm-disasm/"+k.Name(), rc.Pos(),
			"run-loop case consumes %s operand bytes on paths continuing with the next instruction and %s before redirecting ip; disassembler arm at %s steps over %s",
			setStr(cont), setStr(vw.jumped), c.Pos(dc.Pos()), setStr(newSet(want)))
	}

	// compiler emission sites
	ce := c.compilerEmissions()
	for _, n := range ce.unsupp {
		c.Unknown(fmt.Sprintf("compiler-unsupported/%s", c.Pos(n.Pos())), n.Pos(), "control construct the path interpreter does not follow")
	}
	type agg struct {
		pos    token.Pos
		widths set[int]
		nsites int
	}
	per := map[string]*agg{}
	unresolved := 0
	for _, s := range ce.sites {
		vals, ok := ce.opValues(s.fn, s.opExp, 0)
		if !ok {
			unresolved++
			c.Unknown(fmt.Sprintf("emit-unresolved/%s/%s", FuncName(s.fn), types.ExprString(s.opExp)), s.opExp.Pos(),
				"cannot resolve every opcode this emission site may emit (resolved so far: %d)", len(vals))
		}
		for v := range vals {
			k := t.byVal[v]
			name := fmt.Sprint(v)
			if k != nil {
				name = k.Name()
			}
			key := "emit/" + FuncName(s.fn) + "/" + name
			a := per[key]
			if a == nil {
				a = &agg{pos: s.opExp.Pos(), widths: set[int]{}}
				per[key] = a
			}
			a.widths.add(s.w)
			a.nsites++
		}
	}
	// de-duplicate unresolved keys
	dedupe(c)
	keys := make([]string, 0, len(per))
	for k := range per {
		keys = append(keys, k)
	}
	sort.Strings(keys)
	emitted := map[int64]bool{}
	for _, key := range keys {
		a := per[key]
		// opcode name is the last path element
		var v int64 = -1
		for _, k := range t.consts {
			if len(key) > len(k.Name()) && key[len(key)-len(k.Name())-1:] == "/"+k.Name() {
				v = opVal(k)
			}
		}
		a.widths = canonW(a.widths)
		want, have := expected[v]
		if !have {
			c.Unknown(key, a.pos, "emitted opcode has no VM/disassembler width to compare with")
			continue
		}
		emitted[v] = true
		c.Check(len(a.widths) == 1 && a.widths.subsetOf(newSet(want)), key, a.pos,
			"%d emission site(s) put %s operand bytes after the opcode; VM and disassembler expect %s", a.nsites, setStr(a.widths), setStr(newSet(want)))
	}
	c.Stats["compiler_emission_sites"] = len(ce.sites)
	c.Stats["compiler_emission_sites_unresolved"] = unresolved
	n := 0
	for range emitted {
		n++
	}
	c.Stats["opcodes_with_emission_site"] = n
}

// dedupe merges obligations of the current rule that share a key (several
// sites in one function emitting through the same expression).
func dedupe(c *Ctx) {
	seen := map[string]bool{}
	out := c.Obls[:0]
	for _, o := range c.Obls {
		if o.Rule == c.curRule {
			if seen[o.Key()] {
				continue
			}
			seen[o.Key()] = true
		}
		out = append(out, o)
	}
	c.Obls = out
}
