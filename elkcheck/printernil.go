package main

import (
	"go/ast"
	"go/token"
	"go/types"
	"sort"
	"strings"
)

// print/nil-field-guarded (C05, C03): the parser builds some nodes with an
// absent child (`1...` has no End, `[*, 1]` a rest pattern without a name):
// it passes nil to the node's constructor. A String method that calls a
// method on such a field without comparing it with nil first panics when the
// tree is printed - in error messages, macro `to_string`, the REPL.

func init() {
	register(&Rule{
		ID:    "print/nil-field-guarded",
		Text:  "for every field of an AST node type that some constructor call in package parser leaves nil (a nil argument in the position the constructor stores into that field), the node's String method compares the field with nil before it calls a method on it",
		Floor: 8,
		Run:   runPrinterNilGuarded,
	})
}

func runPrinterNilGuarded(c *Ctx) {
	ap := c.ByRel["parser/ast"]
	pp := c.ByRel["parser"]
	if ap == nil || pp == nil {
		c.Stale("packages parser and parser/ast")
		return
	}
	ainfo := ap.TypesInfo
	pinfo := pp.TypesInfo
	// constructor -> (param index -> field name), node type name
	type ctor struct {
		node   string
		fields map[int]string
	}
	ctors := map[*types.Func]*ctor{}
	stringOf := map[string]*FuncRef{}
	equalOf := map[string]*FuncRef{}
	c.Funcs("parser/ast", func(fr *FuncRef) {
		if fr.Decl.Recv != nil {
			if fr.Decl.Name.Name == "String" {
				stringOf[recvTypeName(fr.Decl)] = fr
			}
			if fr.Decl.Name.Name == "Equal" {
				equalOf[recvTypeName(fr.Decl)] = fr
			}
			return
		}
		if !strings.HasPrefix(fr.Decl.Name.Name, "New") || fr.Decl.Type.Params == nil {
			return
		}
		// parameters in order
		var params []types.Object
		for _, f := range fr.Decl.Type.Params.List {
			for _, n := range f.Names {
				params = append(params, ainfo.Defs[n])
			}
		}
		ast.Inspect(fr.Decl.Body, func(n ast.Node) bool {
			lit, ok := n.(*ast.CompositeLit)
			if !ok {
				return true
			}
			name := NamedOf(ainfo.TypeOf(lit))
			if i := strings.LastIndex(name, "."); i >= 0 {
				name = name[i+1:]
			}
			ct := &ctor{node: name, fields: map[int]string{}}
			for _, el := range lit.Elts {
				kv, ok := el.(*ast.KeyValueExpr)
				if !ok {
					continue
				}
				k, ok := kv.Key.(*ast.Ident)
				if !ok {
					continue
				}
				if id, ok := ast.Unparen(kv.Value).(*ast.Ident); ok {
					for i, p := range params {
						if ainfo.Uses[id] == p {
							ct.fields[i] = k.Name
						}
					}
				}
			}
			if len(ct.fields) > 0 && ctors[fr.Obj] == nil {
				ctors[fr.Obj] = ct
			}
			return true
		})
	})
	// fields left nil by the parser
	nilable := map[string]map[string]token.Pos{}
	for _, f := range pp.Syntax {
		ast.Inspect(f, func(n ast.Node) bool {
			call, ok := n.(*ast.CallExpr)
			if !ok {
				return true
			}
			fn := Callee(pinfo, call)
			if fn == nil {
				return true
			}
			ct := ctors[fn.Origin()]
			if ct == nil {
				return true
			}
			for i, a := range call.Args {
				if tv, ok := pinfo.Types[a]; ok && tv.IsNil() {
					if field, ok := ct.fields[i]; ok {
						if nilable[ct.node] == nil {
							nilable[ct.node] = map[string]token.Pos{}
						}
						if _, seen := nilable[ct.node][field]; !seen {
							nilable[ct.node][field] = call.Pos()
						}
					}
				}
			}
			return true
		})
	}
	var nodes []string
	for n := range nilable {
		nodes = append(nodes, n)
	}
	sort.Strings(nodes)
	for _, node := range nodes {
		for _, fr := range []*FuncRef{stringOf[node], equalOf[node]} {
			if fr == nil || len(fr.Decl.Recv.List[0].Names) == 0 {
				continue
			}
			recv := ainfo.Defs[fr.Decl.Recv.List[0].Names[0]]
			var fields []string
			for f := range nilable[node] {
				fields = append(fields, f)
			}
			sort.Strings(fields)
			for _, field := range fields {
				isField := func(e ast.Expr) bool {
					sel, ok := ast.Unparen(e).(*ast.SelectorExpr)
					if !ok || sel.Sel.Name != field {
						return false
					}
					id, ok := ast.Unparen(sel.X).(*ast.Ident)
					return ok && ainfo.Uses[id] == recv
				}
				firstUse, firstCheck := token.NoPos, token.NoPos
				ast.Inspect(fr.Decl.Body, func(n ast.Node) bool {
					switch x := n.(type) {
					case *ast.CallExpr:
						// n.Field.Method(..)
						if sel, ok := x.Fun.(*ast.SelectorExpr); ok && isField(sel.X) && firstUse == token.NoPos {
							firstUse = x.Pos()
						}
					case *ast.BinaryExpr:
						if (x.Op == token.EQL || x.Op == token.NEQ) && isField(x.X) {
							if tv, ok := ainfo.Types[x.Y]; ok && tv.IsNil() && firstCheck == token.NoPos {
								firstCheck = x.Pos()
							}
						}
					}
					return true
				})
				if firstUse == token.NoPos {
					continue
				}
				key := node + "." + field
				if fr.Decl.Name.Name != "String" {
					key += "/" + fr.Decl.Name.Name
				}
				ok := firstCheck != token.NoPos && firstCheck < firstUse
				c.Check(ok, key, firstUse, "%s.%s calls a method on the field %s without comparing it with nil first, although the parser builds %s nodes with that field absent (nil passed at %s): printing or comparing such a tree is a Go nil dereference", node, fr.Decl.Name.Name, field, node, c.Pos(nilable[node][field]))
			}
		}
	}
}
