package main

import (
	"go/ast"
	"sort"
	"strings"
)

// switch/matrix (C18): `a =~ b` is implemented once per numeric kind of `a`,
// each time by a switch over the representation of `b`. Lax equality between
// numbers is symmetric only if every one of those switches has an arm for
// every numeric representation: an arm missing in one of them makes
// `1.0 =~ 1u` false while `1u =~ 1.0` is true. The same holds within one kind
// for its four ordering operators, which must accept the same operands or
// `a < b` is defined while `a >= b` raises an error.

func init() {
	register(&Rule{
		ID:    "switch/matrix",
		Text:  "every function that implements lax equality for a numeric receiver kind (the LaxEqual methods of SmallInt, BigInt, Float, BigFloat and the generic Strict*LaxEqual helpers of the sized kinds) has an arm for every numeric representation that any of them has an arm for; and for each receiver kind the functions implementing <, <=, >, >= have arms for identical sets of representations",
		Floor: 20,
		Arch:  true,
		Run:   runSwitchMatrix,
	})
}

func isNumericRep(r string) bool {
	switch {
	case strings.HasSuffix(r, "_FLAG"):
		switch r {
		case "CHAR_FLAG", "SYMBOL_FLAG", "TRUE_FLAG", "FALSE_FLAG", "NIL_FLAG", "UNDEFINED_FLAG", "REFERENCE_FLAG":
			return false
		}
		return strings.Contains(r, "INT") || strings.Contains(r, "FLOAT")
	case strings.HasPrefix(r, "ref:"):
		t := strings.TrimPrefix(strings.TrimPrefix(r, "ref:"), "*")
		switch t {
		case "value.BigInt", "value.BigFloat", "value.Int64", "value.UInt64", "value.Float64":
			return true
		}
	}
	return false
}

func runSwitchMatrix(c *Ctx) {
	ds := c.dispatchFuncs("value")
	// 1. lax equality handlers of numeric kinds
	var lax []*dispatchInfo
	for _, d := range ds {
		name := d.fr.Decl.Name.Name
		recv := recvTypeName(d.fr.Decl)
		switch {
		case name == "LaxEqual" && (recv == "SmallInt" || recv == "BigInt" || recv == "Float" || recv == "BigFloat"):
			lax = append(lax, d)
		case d.fr.Decl.Recv == nil && strings.HasPrefix(name, "Strict") && strings.HasSuffix(name, "LaxEqual"):
			lax = append(lax, d)
		}
	}
	if len(lax) < 4 {
		c.Stale("value: LaxEqual methods of the numeric kinds")
	}
	union := map[string]string{} // rep -> a function that has it
	for _, d := range lax {
		for _, r := range d.reps() {
			if isNumericRep(r) {
				if _, ok := union[r]; !ok {
					union[r] = FuncName(d.fr.Decl)
				}
			}
		}
	}
	var reps []string
	for r := range union {
		reps = append(reps, r)
	}
	sort.Strings(reps)
	for _, d := range lax {
		have := map[string]bool{}
		for _, r := range d.reps() {
			have[r] = true
		}
		fn := FuncName(d.fr.Decl)
		for _, r := range reps {
			var pos ast.Node = d.fr.Decl
			c.Check(have[r], "lax/"+fn+"/"+r, pos.Pos(), "%s has no arm for the numeric representation %s although %s has: lax equality between the two kinds holds in one direction only", fn, r, union[r])
		}
	}
	// 2. ordering operators of one receiver kind accept identical sets
	byRecv := map[string]map[string]*dispatchInfo{}
	for _, d := range ds {
		name := d.fr.Decl.Name.Name
		recv := recvTypeName(d.fr.Decl)
		if recv == "" {
			continue
		}
		switch name {
		case "LessThan", "LessThanEqual", "GreaterThan", "GreaterThanEqual":
			if byRecv[recv] == nil {
				byRecv[recv] = map[string]*dispatchInfo{}
			}
			byRecv[recv][name] = d
		}
	}
	var recvs []string
	for r := range byRecv {
		recvs = append(recvs, r)
	}
	sort.Strings(recvs)
	for _, r := range recvs {
		ops := byRecv[r]
		if len(ops) < 2 {
			continue
		}
		var names []string
		for n := range ops {
			names = append(names, n)
		}
		sort.Strings(names)
		ref := strings.Join(ops[names[0]].reps(), ",")
		for _, n := range names {
			got := strings.Join(ops[n].reps(), ",")
			c.Check(got == ref, "order/"+r+"."+n, ops[n].fr.Decl.Pos(), "%s.%s accepts {%s} but %s.%s accepts {%s}: for some operand one comparison is defined and the other raises an error", r, n, got, r, names[0], ref)
		}
	}
}
