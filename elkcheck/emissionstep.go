package main

import (
	"go/ast"
	"go/token"
	"go/types"
)

// loop/emission-step-kept (C30, C23): where the compiler unrolls a list of
// elements at compile time while the emitted code walks a run-time counter
// (a hidden local that is read for every element and advanced after it), the
// code advancing the counter has to be emitted for every element. A
// `continue` in the compile-time loop that comes before the emission of the
// step leaves the run-time counter behind: every later element is read from
// an index that is too small, so sub-patterns test - and identifiers bind -
// the wrong element.

func init() {
	register(&Rule{
		ID:    "loop/emission-step-kept",
		Text:  "in package compiler, in every Go loop whose body emits a store to a hidden local declared outside the loop (emitSetLocal*(.., v.index) with v defined before the loop: a run-time counter advanced once per compile-time iteration), no `continue` of that loop precedes the store",
		Floor: 1,
		Run:   runEmissionStepKept,
	})
}

func runEmissionStepKept(c *Ctx) {
	p := c.Pkg("compiler")
	info := p.TypesInfo
	c.Funcs("compiler", func(fr *FuncRef) {
		if recvTypeName(fr.Decl) != "BytecodeCompiler" {
			return
		}
		n := 0
		ast.Inspect(fr.Decl.Body, func(nd ast.Node) bool {
			var body *ast.BlockStmt
			var loopPos token.Pos
			switch x := nd.(type) {
			case *ast.RangeStmt:
				body, loopPos = x.Body, x.Pos()
			case *ast.ForStmt:
				body, loopPos = x.Body, x.Pos()
			default:
				return true
			}
			// stores to a local declared before the loop, directly in this loop (not in nested loops or closures)
			var store *ast.CallExpr
			var storeVar types.Object
			var continues []*ast.BranchStmt
			var walk func(n ast.Node, depth int)
			walk = func(n ast.Node, depth int) {
				ast.Inspect(n, func(m ast.Node) bool {
					switch y := m.(type) {
					case *ast.FuncLit:
						return false
					case *ast.RangeStmt:
						if m != nd {
							return false
						}
					case *ast.ForStmt:
						if m != nd {
							return false
						}
					case *ast.BranchStmt:
						if y.Tok == token.CONTINUE && y.Label == nil {
							continues = append(continues, y)
						}
					case *ast.CallExpr:
						fn := Callee(info, y)
						if fn == nil || recvNameOf(fn) != "BytecodeCompiler" {
							return true
						}
						switch fn.Name() {
						case "emitSetLocalPop", "emitSetLocalNoPop", "emitSetLocal":
						default:
							return true
						}
						for _, a := range y.Args {
							sel, ok := ast.Unparen(a).(*ast.SelectorExpr)
							if !ok || sel.Sel.Name != "index" {
								continue
							}
							id, ok := ast.Unparen(sel.X).(*ast.Ident)
							if !ok {
								continue
							}
							o := info.Uses[id]
							if o != nil && o.Pos() < loopPos && NamedOf(info.TypeOf(id)) == "compiler.bytecodeLocal" {
								if store == nil {
									store, storeVar = y, o
								}
							}
						}
					}
					return true
				})
			}
			walk(body, 0)
			if store == nil {
				return true
			}
			// the local must also be read in the loop (a counter, not a result slot written once per element)
			read := false
			ast.Inspect(body, func(m ast.Node) bool {
				if call, ok := m.(*ast.CallExpr); ok {
					if fn := Callee(info, call); fn != nil && fn.Name() == "emitGetLocal" {
						for _, a := range call.Args {
							if sel, ok := ast.Unparen(a).(*ast.SelectorExpr); ok {
								if id, ok := ast.Unparen(sel.X).(*ast.Ident); ok && info.Uses[id] == storeVar {
									read = true
								}
							}
						}
					}
				}
				return true
			})
			if !read {
				return true
			}
			n++
			key := FuncName(fr.Decl) + "/" + storeVar.Name() + "#" + itoa(n)
			var skipping *ast.BranchStmt
			for _, br := range continues {
				if br.Pos() < store.Pos() {
					skipping = br
				}
			}
			pos := store.Pos()
			if skipping != nil {
				pos = skipping.Pos()
			}
			c.Check(skipping == nil, key, pos, "%s unrolls elements at compile time while the emitted code advances the run-time counter `%s` after each of them; this `continue` skips the emission of that step for some elements, so every later element is read through a counter that lags behind: sub-patterns test, and identifiers bind, the wrong element", FuncName(fr.Decl), storeVar.Name())
			return true
		})
	})
}
