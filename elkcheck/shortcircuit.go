package main

import (
	"go/ast"
	"go/token"
	"go/types"
	"strings"
)

// path/shortcircuit (C14): `a && b`, `a || b` and `a ?? b` evaluate b only
// when a does not decide the result. In the compiler that means: the
// conditional jump is emitted after the left operand and BEFORE the right
// operand is compiled, and it is patched after the right operand.

func init() {
	register(&Rule{
		ID:    "path/shortcircuit",
		Text:  "in every bytecode-compiler function that compiles both operands of a logical expression node, a conditional jump is emitted between compiling node.Left and compiling node.Right on every path, and patched after node.Right",
		Floor: 3,
		Run:   runShortCircuit,
	})
}

func runShortCircuit(c *Ctx) {
	p := c.Pkg("compiler")
	info := p.TypesInfo
	c.Funcs("compiler", func(fr *FuncRef) {
		if recvTypeName(fr.Decl) != "BytecodeCompiler" || fr.Decl.Type.Params == nil {
			return
		}
		var node types.Object
		for _, f := range fr.Decl.Type.Params.List {
			if NamedOf(info.TypeOf(f.Type)) == "parser/ast.LogicalExpressionNode" && len(f.Names) > 0 {
				node = info.Defs[f.Names[0]]
			}
		}
		if node == nil {
			return
		}
		mentions := func(call *ast.CallExpr, field string) bool {
			m := false
			for _, a := range call.Args {
				ast.Inspect(a, func(n ast.Node) bool {
					if sel, ok := n.(*ast.SelectorExpr); ok && sel.Sel.Name == field {
						if id, ok := ast.Unparen(sel.X).(*ast.Ident); ok && info.Uses[id] == node {
							m = true
						}
					}
					return true
				})
			}
			return m
		}
		// does it compile both operands?
		var leftPos, rightPos token.Pos
		ast.Inspect(fr.Decl.Body, func(n ast.Node) bool {
			if call, ok := n.(*ast.CallExpr); ok {
				if fn := Callee(info, call); fn != nil && strings.Contains(strings.ToLower(fn.Name()), "compile") {
					if mentions(call, "Left") && leftPos == token.NoPos {
						leftPos = call.Pos()
					}
					if mentions(call, "Right") && rightPos == token.NoPos {
						rightPos = call.Pos()
					}
				}
			}
			return true
		})
		if leftPos == token.NoPos || rightPos == token.NoPos {
			return
		}
		// state: 0 start, 1 left compiled, 2 jump emitted, 3 right compiled (after jump), 4 patched; -1 bad
		pe := &PathEval[int]{Info: info}
		pe.Call = func(s int, call *ast.CallExpr) []int {
			fn := Callee(info, call)
			if fn == nil {
				return []int{s}
			}
			switch {
			case strings.Contains(strings.ToLower(fn.Name()), "compile") && mentions(call, "Left"):
				if s == 0 {
					s = 1
				}
			case fn.Name() == "emitJump":
				if s == 1 {
					s = 2
				}
			case strings.Contains(strings.ToLower(fn.Name()), "compile") && mentions(call, "Right"):
				if s == 2 {
					s = 3
				} else {
					s = -1
				}
			case fn.Name() == "patchJump":
				if s == 3 {
					s = 4
				}
			}
			return []int{s}
		}
		pe.Widen = func(s int) int { return s }
		fl := pe.Block(newSet(0), fr.Decl.Body.List)
		ok := true
		check := func(states set[int]) {
			for s := range states {
				if s != 4 {
					ok = false
				}
			}
		}
		check(fl.next)
		check(fl.ret)
		c.Check(ok, FuncName(fr.Decl), fr.Decl.Pos(), "%s does not, on every path, emit a conditional jump after the left operand and before the right operand and patch it after the right operand: the right operand is evaluated although the left one already decided the result (or the jump lands inside it)", FuncName(fr.Decl))
	})
}
