package main

import (
	"go/ast"
	"go/types"
	"sort"
)

// await/queue-blocking (C16): the task queue of a thread pool is a bounded Go
// channel drained only by that pool's workers. A worker that performs a
// blocking send on the queue of its own pool can block while every other
// worker does the same; nobody drains the queue any more and the runtime
// deadlocks (with small pools: ELK_DEFAULT_THREAD_POOL_SIZE=1,
// ..._QUEUE_SIZE=1 and an async function that starts three async calls).
// Blocking sends reachable from the worker loop are therefore reported; so is
// a blocking send performed while a promise's mutex is held, which also
// blocks every thread that awaits that promise.

func init() {
	register(&Rule{
		ID:    "await/queue-blocking",
		Text:  "no function reachable (through calls resolved in package vm) from the worker loop of a thread pool performs a send on a pool's task queue outside a select with a default or context arm; no such send happens between Lock and Unlock of a promise's mutex",
		Floor: 2,
		Run:   runQueueBlocking,
	})
}

func runQueueBlocking(c *Ctx) {
	p := c.Pkg("vm")
	info := p.TypesInfo
	byObj := map[*types.Func]*FuncRef{}
	c.Funcs("vm", func(fr *FuncRef) { byObj[fr.Obj] = fr })
	// functions with an unguarded send on a chan *Promise
	sends := map[*types.Func][]ast.Node{}
	anySend := map[*types.Func]ast.Node{}
	c.Funcs("vm", func(fr *FuncRef) {
		ast.Inspect(fr.Decl.Body, func(n ast.Node) bool {
			if s, ok := n.(*ast.SendStmt); ok && anySend[fr.Obj] == nil {
				if ch, ok := info.TypeOf(s.Chan).Underlying().(*types.Chan); ok && NamedOf(ch.Elem()) == "vm.Promise" {
					anySend[fr.Obj] = s
				}
			}
			return true
		})
		for _, op := range chanOpsOf(info, fr.Decl.Body, nil) {
			if op.what == "send" && !op.guarded {
				// only task queues: channel of *Promise
				ast.Inspect(fr.Decl.Body, func(n ast.Node) bool {
					if s, ok := n.(*ast.SendStmt); ok && s.Pos() == op.pos {
						if ch, ok := info.TypeOf(s.Chan).Underlying().(*types.Chan); ok && NamedOf(ch.Elem()) == "vm.Promise" {
							sends[fr.Obj] = append(sends[fr.Obj], s)
						}
					}
					return true
				})
			}
		}
	})
	if len(anySend) == 0 {
		c.Stale("vm: a send on a channel of *Promise (the task queue)")
	}
	// call edges inside vm (static callees; native function values are not
	// followed: a native started from a worker runs on that worker too, which
	// only adds paths). The call of a go statement runs on a goroutine of its
	// own, not on the worker.
	callees := func(fr *FuncRef) []*types.Func {
		var out []*types.Func
		ast.Inspect(fr.Decl.Body, func(n ast.Node) bool {
			if _, ok := n.(*ast.GoStmt); ok {
				return false
			}
			if call, ok := n.(*ast.CallExpr); ok {
				if fn := Callee(info, call); fn != nil && byObj[fn.Origin()] != nil {
					out = append(out, fn.Origin())
				}
			}
			return true
		})
		return out
	}
	worker := c.FuncOpt("vm", "", "threadWorker")
	if worker == nil {
		c.Stale("vm.threadWorker")
	}
	// BFS with parents for the path
	parent := map[*types.Func]*types.Func{worker.Obj: nil}
	queue := []*types.Func{worker.Obj}
	for len(queue) > 0 {
		f := queue[0]
		queue = queue[1:]
		for _, g := range callees(byObj[f]) {
			if _, seen := parent[g]; !seen {
				parent[g] = f
				queue = append(queue, g)
			}
		}
	}
	var fs []*types.Func
	for f := range anySend {
		fs = append(fs, f)
	}
	sort.Slice(fs, func(i, j int) bool { return FuncID(fs[i]) < FuncID(fs[j]) })
	for _, f := range fs {
		key := "worker-reaches/" + FuncName(byObj[f].Decl)
		if len(sends[f]) == 0 {
			c.OK(key, anySend[f].Pos(), "every send on the task queue in this function is an arm of a select with a default or context arm (or runs on a goroutine of its own)")
			continue
		}
		if _, reach := parent[f]; !reach {
			c.OK(key, sends[f][0].Pos(), "not reachable from the worker loop")
			continue
		}
		path := FuncName(byObj[f].Decl)
		for g := parent[f]; g != nil; g = parent[g] {
			path = FuncName(byObj[g].Decl) + " -> " + path
		}
		c.Bad(key, sends[f][0].Pos(), "a worker of the pool can block in this send on the pool's own bounded task queue (%s): when all workers are here nobody drains the queue", path)
	}
	// sends under a promise mutex: Lock ... send/callee-with-send ... Unlock in one function
	c.Funcs("vm", func(fr *FuncRef) {
		var lockPos, unlockPos ast.Node
		ast.Inspect(fr.Decl.Body, func(n ast.Node) bool {
			if call, ok := n.(*ast.CallExpr); ok {
				if typ, name := syncMethod(Callee(info, call)); typ == "Mutex" {
					if name == "Lock" && lockPos == nil {
						lockPos = call
					}
					if name == "Unlock" {
						unlockPos = call
					}
				}
			}
			return true
		})
		if lockPos == nil || unlockPos == nil {
			return
		}
		bad := false
		ast.Inspect(fr.Decl.Body, func(n ast.Node) bool {
			if _, ok := n.(*ast.GoStmt); ok {
				return false
			}
			if n == nil || n.Pos() < lockPos.Pos() || n.Pos() > unlockPos.Pos() {
				return true
			}
			switch x := n.(type) {
			case *ast.SendStmt:
				for _, s := range sends[fr.Obj] {
					if s.Pos() == x.Pos() {
						bad = true
					}
				}
			case *ast.CallExpr:
				if fn := Callee(info, x); fn != nil && len(sends[fn.Origin()]) > 0 {
					bad = true
				}
			}
			return true
		})
		if recvTypeName(fr.Decl) == "Promise" && (bad || len(sends[fr.Obj]) > 0) {
			c.Check(!bad, "send-under-lock/"+FuncName(fr.Decl), lockPos.Pos(), "%s sends on the bounded task queue while it holds the promise's mutex: if the queue is full, every thread that awaits or settles this promise blocks behind it", FuncName(fr.Decl))
		}
	})
}
