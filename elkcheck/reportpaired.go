package main

import (
	"go/ast"
	"go/types"
	"strings"
)

// test/report-paired (C34): the reporters count cases - and their failures -
// when a case finishes. A case that was announced with REPORT_START_CASE and
// whose report is handed back without REPORT_FINISH_CASE having been sent (the
// early exit after a failing before_each hook) is missing from the summary
// although it failed.

func init() {
	register(&Rule{
		ID:    "test/report-paired",
		Text:  "in the test runner (ext/std/test), on every path of a function that sends the event REPORT_START_CASE and then returns a non-nil report, the event REPORT_FINISH_CASE has been sent",
		Floor: 1,
		Run:   runReportPaired,
	})
}

func runReportPaired(c *Ctx) {
	p := c.ByRel["ext/std/test"]
	if p == nil {
		c.Stale("package ext/std/test")
		return
	}
	info := p.TypesInfo
	sendsEvent := func(st ast.Stmt, name string) bool {
		ss, ok := st.(*ast.SendStmt)
		if !ok {
			return false
		}
		return strings.Contains(types.ExprString(ss.Value), name)
	}
	c.Funcs("ext/std/test", func(fr *FuncRef) {
		has := false
		ast.Inspect(fr.Decl.Body, func(n ast.Node) bool {
			if st, ok := n.(ast.Stmt); ok && sendsEvent(st, "REPORT_START_CASE") {
				has = true
			}
			return true
		})
		if !has {
			return
		}
		type st struct{ started, finished bool }
		var badAt ast.Node
		pe := &PathEval[st]{Info: info}
		pe.Stmt = func(s st, stm ast.Stmt) ([]st, bool) {
			if sendsEvent(stm, "REPORT_START_CASE") {
				s.started = true
				return []st{s}, true
			}
			if sendsEvent(stm, "REPORT_FINISH_CASE") {
				s.finished = true
				return []st{s}, true
			}
			return nil, false
		}
		pe.Return = func(s st, r *ast.ReturnStmt) []st {
			if !s.started || s.finished || len(r.Results) != 1 {
				return []st{s}
			}
			if tv, ok := info.Types[r.Results[0]]; ok && tv.IsNil() {
				return []st{s}
			}
			if badAt == nil {
				badAt = r
			}
			return []st{s}
		}
		pe.Block(newSet(st{}), fr.Decl.Body.List)
		pos := fr.Decl.Pos()
		if badAt != nil {
			pos = badAt.Pos()
		}
		c.Check(badAt == nil, FuncName(fr.Decl), pos, "%s announces a case with REPORT_START_CASE and returns its report here without having sent REPORT_FINISH_CASE: the reporters count cases and failures on the finish event, so the case is missing from the summary although it failed", FuncName(fr.Decl))
	})
}
