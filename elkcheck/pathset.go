package main

import (
	"go/ast"
	"go/token"
	"go/types"
)

// A small path-set abstract interpreter over the structured syntax tree of
// one function. States S are values of a finite-height domain chosen by the
// rule; the interpreter computes, for a statement list and a set of entry
// states, the sets of states at fall-through, break, continue and return.
// It is path-insensitive with respect to conditions (both arms of every
// branch are taken) but keeps states apart per path, which is what rules of
// the form "on every path the sum/sequence of effects is X" need.

type set[S comparable] map[S]struct{}

func newSet[S comparable](xs ...S) set[S] {
	s := set[S]{}
	for _, x := range xs {
		s[x] = struct{}{}
	}
	return s
}
func (s set[S]) add(x S) { s[x] = struct{}{} }
func (s set[S]) addAll(o set[S]) {
	for x := range o {
		s[x] = struct{}{}
	}
}
func (s set[S]) subsetOf(o set[S]) bool {
	for x := range s {
		if _, ok := o[x]; !ok {
			return false
		}
	}
	return true
}
func (s set[S]) clone() set[S] {
	c := set[S]{}
	c.addAll(s)
	return c
}

type flow[S comparable] struct {
	next, brk, cont, ret set[S]
}

type PathEval[S comparable] struct {
	Info *types.Info
	// Call is the transfer function of a call expression, applied after its
	// arguments have been evaluated. Returning no state kills the path.
	Call func(s S, call *ast.CallExpr) []S
	// Other lets a rule react to other expression kinds (may be nil).
	Other func(s S, e ast.Expr) []S
	// Stmt lets a rule intercept whole statements (may be nil). If handled
	// is true the returned states are the fall-through states.
	Stmt func(s S, st ast.Stmt) (out []S, handled bool)
	// Return is applied to states reaching a return statement (after its
	// results are evaluated); may be nil.
	Return func(s S, r *ast.ReturnStmt) []S
	// Widen maps a state that changed around a loop to its widened form.
	Widen func(s S) S
	// Cond, when non-nil, can refine the state on the two arms of an if
	// (returned slices may be empty to kill an arm).
	Cond func(s S, cond ast.Expr, branch bool) []S
	// Comm, when non-nil, is applied on entry to each clause of a select
	// statement, before its communication is evaluated (cc.Comm is nil for
	// the default clause).
	Comm func(s S, cc *ast.CommClause) []S
	// Unsupported collects constructs the interpreter cannot follow.
	Unsupported []ast.Node
}

func (pe *PathEval[S]) mapSet(in set[S], f func(S) []S) set[S] {
	out := set[S]{}
	for s := range in {
		for _, t := range f(s) {
			out.add(t)
		}
	}
	return out
}

// Expr evaluates an expression for its effects, in evaluation order
// (operands before the call that uses them). Function literals are not
// entered.
func (pe *PathEval[S]) Expr(in set[S], e ast.Expr) set[S] {
	if e == nil || len(in) == 0 {
		return in
	}
	switch x := e.(type) {
	case *ast.CallExpr:
		cur := in
		// receiver / function expression first
		cur = pe.Expr(cur, x.Fun)
		for _, a := range x.Args {
			cur = pe.Expr(cur, a)
		}
		// conversions and builtins without effect
		if tv, ok := pe.Info.Types[x.Fun]; ok && tv.IsType() {
			return cur
		}
		if pe.Call == nil {
			return cur
		}
		return pe.mapSet(cur, func(s S) []S { return pe.Call(s, x) })
	case *ast.BinaryExpr:
		cur := pe.Expr(in, x.X)
		if x.Op == token.LAND || x.Op == token.LOR {
			// right operand is evaluated on some paths only
			r := pe.Expr(cur, x.Y)
			out := cur.clone()
			out.addAll(r)
			return out
		}
		return pe.Expr(cur, x.Y)
	case *ast.UnaryExpr:
		return pe.other(pe.Expr(in, x.X), e)
	case *ast.ParenExpr:
		return pe.Expr(in, x.X)
	case *ast.SelectorExpr:
		return pe.other(pe.Expr(in, x.X), e)
	case *ast.StarExpr:
		return pe.other(pe.Expr(in, x.X), e)
	case *ast.IndexExpr:
		return pe.other(pe.Expr(pe.Expr(in, x.X), x.Index), e)
	case *ast.IndexListExpr:
		return pe.Expr(in, x.X)
	case *ast.SliceExpr:
		cur := pe.Expr(in, x.X)
		cur = pe.Expr(cur, x.Low)
		cur = pe.Expr(cur, x.High)
		return pe.Expr(cur, x.Max)
	case *ast.TypeAssertExpr:
		return pe.Expr(in, x.X)
	case *ast.CompositeLit:
		cur := in
		for _, el := range x.Elts {
			if kv, ok := el.(*ast.KeyValueExpr); ok {
				cur = pe.Expr(cur, kv.Value)
			} else {
				cur = pe.Expr(cur, el)
			}
		}
		return cur
	case *ast.KeyValueExpr:
		return pe.Expr(pe.Expr(in, x.Key), x.Value)
	case *ast.FuncLit:
		return in
	default:
		return in
	}
}

func (pe *PathEval[S]) other(in set[S], e ast.Expr) set[S] {
	if pe.Other == nil {
		return in
	}
	return pe.mapSet(in, func(s S) []S { return pe.Other(s, e) })
}

func (pe *PathEval[S]) Block(in set[S], stmts []ast.Stmt) flow[S] {
	f := flow[S]{next: in, brk: set[S]{}, cont: set[S]{}, ret: set[S]{}}
	for _, st := range stmts {
		if len(f.next) == 0 {
			break
		}
		g := pe.StmtFlow(f.next, st)
		f.next = g.next
		f.brk.addAll(g.brk)
		f.cont.addAll(g.cont)
		f.ret.addAll(g.ret)
	}
	return f
}

func emptyFlow[S comparable](next set[S]) flow[S] {
	return flow[S]{next: next, brk: set[S]{}, cont: set[S]{}, ret: set[S]{}}
}

func (pe *PathEval[S]) StmtFlow(in set[S], st ast.Stmt) flow[S] {
	if pe.Stmt != nil {
		handledAll := true
		out := set[S]{}
		for s := range in {
			o, h := pe.Stmt(s, st)
			if !h {
				handledAll = false
				break
			}
			for _, t := range o {
				out.add(t)
			}
		}
		if handledAll && len(in) > 0 {
			return emptyFlow(out)
		}
	}
	switch x := st.(type) {
	case nil:
		return emptyFlow(in)
	case *ast.BlockStmt:
		return pe.Block(in, x.List)
	case *ast.ExprStmt:
		return emptyFlow(pe.Expr(in, x.X))
	case *ast.AssignStmt:
		cur := in
		for _, r := range x.Rhs {
			cur = pe.Expr(cur, r)
		}
		for _, l := range x.Lhs {
			cur = pe.Expr(cur, l)
		}
		return emptyFlow(cur)
	case *ast.IncDecStmt:
		return emptyFlow(pe.Expr(in, x.X))
	case *ast.DeclStmt:
		cur := in
		if gd, ok := x.Decl.(*ast.GenDecl); ok {
			for _, sp := range gd.Specs {
				if vs, ok := sp.(*ast.ValueSpec); ok {
					for _, v := range vs.Values {
						cur = pe.Expr(cur, v)
					}
				}
			}
		}
		return emptyFlow(cur)
	case *ast.ReturnStmt:
		cur := in
		for _, r := range x.Results {
			cur = pe.Expr(cur, r)
		}
		if pe.Return != nil {
			cur = pe.mapSet(cur, func(s S) []S { return pe.Return(s, x) })
		}
		f := emptyFlow(set[S]{})
		f.ret = cur
		return f
	case *ast.BranchStmt:
		f := emptyFlow(set[S]{})
		switch x.Tok {
		case token.BREAK:
			f.brk = in
		case token.CONTINUE:
			f.cont = in
		default:
			pe.Unsupported = append(pe.Unsupported, x)
		}
		if x.Label != nil && (x.Tok == token.BREAK || x.Tok == token.CONTINUE) {
			// labelled break/continue leave an outer construct; treated as
			// leaving the innermost one, which over-approximates fall-through
			// states of the outer construct identically for our rules.
		}
		return f
	case *ast.LabeledStmt:
		return pe.StmtFlow(in, x.Stmt)
	case *ast.IfStmt:
		cur := in
		if x.Init != nil {
			cur = pe.StmtFlow(cur, x.Init).next
		}
		cur = pe.Expr(cur, x.Cond)
		tIn, eIn := cur, cur
		if pe.Cond != nil {
			tIn = pe.mapSet(cur, func(s S) []S { return pe.Cond(s, x.Cond, true) })
			eIn = pe.mapSet(cur, func(s S) []S { return pe.Cond(s, x.Cond, false) })
		}
		t := pe.Block(tIn, x.Body.List)
		var e flow[S]
		if x.Else != nil {
			e = pe.StmtFlow(eIn, x.Else)
		} else {
			e = emptyFlow(eIn)
		}
		return merge(t, e)
	case *ast.SwitchStmt:
		cur := in
		if x.Init != nil {
			cur = pe.StmtFlow(cur, x.Init).next
		}
		cur = pe.Expr(cur, x.Tag)
		return pe.cases(cur, x.Body)
	case *ast.TypeSwitchStmt:
		cur := in
		if x.Init != nil {
			cur = pe.StmtFlow(cur, x.Init).next
		}
		cur = pe.StmtFlow(cur, x.Assign).next
		return pe.cases(cur, x.Body)
	case *ast.SelectStmt:
		return pe.cases(in, x.Body)
	case *ast.ForStmt:
		cur := in
		if x.Init != nil {
			cur = pe.StmtFlow(cur, x.Init).next
		}
		return pe.loop(cur, func(s set[S]) flow[S] {
			s = pe.Expr(s, x.Cond)
			b := pe.Block(s, x.Body.List)
			tail := b.next.clone()
			tail.addAll(b.cont)
			if x.Post != nil {
				tail = pe.StmtFlow(tail, x.Post).next
			}
			return flow[S]{next: tail, brk: b.brk, cont: set[S]{}, ret: b.ret}
		}, x.Cond == nil)
	case *ast.RangeStmt:
		cur := pe.Expr(in, x.X)
		return pe.loop(cur, func(s set[S]) flow[S] {
			b := pe.Block(s, x.Body.List)
			tail := b.next.clone()
			tail.addAll(b.cont)
			return flow[S]{next: tail, brk: b.brk, cont: set[S]{}, ret: b.ret}
		}, false)
	case *ast.DeferStmt, *ast.GoStmt:
		return emptyFlow(in)
	case *ast.SendStmt:
		return emptyFlow(pe.Expr(pe.Expr(in, x.Chan), x.Value))
	case *ast.EmptyStmt:
		return emptyFlow(in)
	default:
		pe.Unsupported = append(pe.Unsupported, st)
		return emptyFlow(in)
	}
}

func merge[S comparable](a, b flow[S]) flow[S] {
	out := flow[S]{next: a.next.clone(), brk: a.brk.clone(), cont: a.cont.clone(), ret: a.ret.clone()}
	out.next.addAll(b.next)
	out.brk.addAll(b.brk)
	out.cont.addAll(b.cont)
	out.ret.addAll(b.ret)
	return out
}

func (pe *PathEval[S]) cases(in set[S], body *ast.BlockStmt) flow[S] {
	out := emptyFlow(set[S]{})
	hasDefault := false
	for _, cl := range body.List {
		var list []ast.Stmt
		cur := in
		switch c := cl.(type) {
		case *ast.CaseClause:
			if c.List == nil {
				hasDefault = true
			}
			for _, e := range c.List {
				cur = pe.Expr(cur, e)
			}
			list = c.Body
		case *ast.CommClause:
			if pe.Comm != nil {
				cc := c
				cur = pe.mapSet(cur, func(s S) []S { return pe.Comm(s, cc) })
			}
			if c.Comm == nil {
				hasDefault = true
			} else {
				cur = pe.StmtFlow(cur, c.Comm).next
			}
			list = c.Body
		}
		for _, s := range list {
			if b, ok := s.(*ast.BranchStmt); ok && b.Tok == token.FALLTHROUGH {
				pe.Unsupported = append(pe.Unsupported, b)
			}
		}
		f := pe.Block(cur, list)
		// break inside a switch leaves the switch
		out.next.addAll(f.next)
		out.next.addAll(f.brk)
		out.cont.addAll(f.cont)
		out.ret.addAll(f.ret)
	}
	if !hasDefault {
		out.next.addAll(in)
	}
	return out
}

// loop evaluates a loop whose single iteration is iter. infinite says the
// loop has no condition (it is left only through break/return).
func (pe *PathEval[S]) loop(in set[S], iter func(set[S]) flow[S], infinite bool) flow[S] {
	head := in.clone()
	out := emptyFlow(set[S]{})
	for round := 0; ; round++ {
		f := iter(head)
		out.brk.addAll(f.brk)
		out.ret.addAll(f.ret)
		if f.next.subsetOf(head) {
			break
		}
		if round >= 2 && pe.Widen != nil {
			w := set[S]{}
			for s := range f.next {
				if _, ok := head[s]; !ok {
					w.add(pe.Widen(s))
				}
			}
			if w.subsetOf(head) {
				break
			}
			head.addAll(w)
			if round > 6 {
				break
			}
			continue
		}
		head.addAll(f.next)
		if round > 8 {
			break
		}
	}
	res := emptyFlow(set[S]{})
	if !infinite {
		res.next.addAll(head)
	}
	res.next.addAll(out.brk)
	res.ret = out.ret
	return res
}
