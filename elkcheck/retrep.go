package main

import (
	"fmt"
	"go/ast"
	"go/token"
	"go/types"
	"sort"
	"strings"
)

// native/retrep (C28, C01, C02): the headers give every native method a return
// type and the type checker believes it: the compiler picks specialised
// opcodes and statically bound natives from it, and those read the value with
// accessors of that class's representation. A native that returns a value of
// another class (a Float where the header says Int, nil where it says String)
// makes a well-typed program reinterpret bits or dereference nil.
//
// Decided only where both sides are evident from the source: the header type
// is built from named classes, nilables and unions; the returned expression is
// a constructor whose class is fixed by its Go type (`value.Ref(x)` with x of a
// concrete type, `X.ToValue()`, `value.Nil`, `value.ToElkBool(..)`), possibly
// through a helper function that returns such constructors.

func init() {
	register(&Rule{
		ID:    "native/retrep",
		Text:  "for every native method whose header return type is built from named classes, nilable and union types, every non-error return of the registered closure (followed through called helpers, two levels) whose value is a constructor with a class fixed by its Go type returns a class that is, includes or inherits from one the header names; and a native method whose header return type is a bare type parameter of its own class or mixin (upper bound Any) has no return whose value is such a fixed-class constructor",
		Floor: 300,
		Run:   runNativeRetRep,
	})
}

func runNativeRetRep(c *Ctx) {
	h := c.parseHeaders()
	nt := c.parseNatives()
	hinfo := h.info
	names := nt.ElkName

	// run-time hierarchy: includes and superclasses (as in hdr/includes)
	edges := map[string]map[string]bool{}
	addEdge := func(a, b string) {
		if edges[a] == nil {
			edges[a] = map[string]bool{}
		}
		edges[a][b] = true
	}
	for _, p := range c.Pkgs {
		rel := relPkg(p.PkgPath)
		if rel != "value" && rel != "vm" && !strings.HasPrefix(rel, "ext/") {
			continue
		}
		pinfo := p.TypesInfo
		for _, f := range p.Syntax {
			ast.Inspect(f, func(n ast.Node) bool {
				switch x := n.(type) {
				case *ast.CallExpr:
					sel, ok := x.Fun.(*ast.SelectorExpr)
					if !ok || sel.Sel.Name != "IncludeMixin" || len(x.Args) != 1 {
						return true
					}
					a, b := exprObj(pinfo, sel.X), exprObj(pinfo, x.Args[0])
					if a != nil && b != nil {
						if an, ok := names[a]; ok {
							if bn, ok := names[b]; ok {
								addEdge(an, bn)
							}
						}
					}
				case *ast.AssignStmt:
					if len(x.Lhs) != 1 || len(x.Rhs) != 1 {
						return true
					}
					o := exprObj(pinfo, x.Lhs[0])
					if o == nil {
						return true
					}
					ast.Inspect(x.Rhs[0], func(m ast.Node) bool {
						call, ok := m.(*ast.CallExpr)
						if !ok || len(call.Args) != 1 {
							return true
						}
						if fn := Callee(pinfo, call); fn != nil && fn.Name() == "ClassWithSuperclass" {
							if po := exprObj(pinfo, call.Args[0]); po != nil {
								if on, ok := names[o]; ok {
									if pn, ok := names[po]; ok {
										addEdge(on, pn)
									}
								}
							}
						}
						return true
					})
				}
				return true
			})
		}
	}
	isA := func(from, to string) bool {
		if from == to {
			return true
		}
		seen := map[string]bool{from: true}
		q := []string{from}
		for len(q) > 0 {
			n := q[0]
			q = q[1:]
			for m := range edges[n] {
				if m == to {
					return true
				}
				if !seen[m] {
					seen[m] = true
					q = append(q, m)
				}
			}
		}
		return false
	}

	// Go type -> Elk classes its Class() method can return
	classOfType := map[string][]string{}
	for _, rel := range []string{"value", "vm"} {
		p := c.ByRel[rel]
		if p == nil {
			continue
		}
		pinfo := p.TypesInfo
		c.Funcs(rel, func(fr *FuncRef) {
			if fr.Decl.Recv == nil || fr.Decl.Name.Name != "Class" || fr.Decl.Type.Params.NumFields() != 0 {
				return
			}
			tname := rel + "." + recvTypeName(fr.Decl)
			set := map[string]bool{}
			ast.Inspect(fr.Decl.Body, func(n ast.Node) bool {
				if ret, ok := n.(*ast.ReturnStmt); ok && len(ret.Results) == 1 {
					if o := exprObj(pinfo, ret.Results[0]); o != nil {
						if en, ok := names[o]; ok {
							set[en] = true
						} else {
							set["?"] = true
						}
					} else {
						set["?"] = true
					}
				}
				return true
			})
			var out []string
			for k := range set {
				out = append(out, k)
			}
			sort.Strings(out)
			classOfType[tname] = out
		})
	}
	c.Stats["go_types_with_a_fixed_class"] = len(classOfType)

	// classes of a returned expression; nil = not evident
	var classesOf func(info *types.Info, e ast.Expr) []string
	classesOf = func(info *types.Info, e ast.Expr) []string {
		e = ast.Unparen(e)
		fromType := func(t types.Type) []string {
			if t == nil {
				return nil
			}
			if _, isIface := t.Underlying().(*types.Interface); isIface {
				return nil
			}
			n := NamedOf(t)
			if i := strings.Index(n, "["); i > 0 {
				n = n[:i]
			}
			cl := classOfType[n]
			for _, k := range cl {
				if k == "?" {
					return nil
				}
			}
			return cl
		}
		switch x := e.(type) {
		case *ast.SelectorExpr, *ast.Ident:
			if o := exprObj(info, e); o != nil && o.Pkg() != nil && relPkg(o.Pkg().Path()) == "value" {
				switch o.Name() {
				case "Nil":
					return []string{"Std::Nil"}
				case "True":
					return []string{"Std::True"}
				case "False":
					return []string{"Std::False"}
				}
			}
		case *ast.CallExpr:
			fn := Callee(info, x)
			if fn == nil {
				return nil
			}
			switch {
			case FuncID(fn) == "value.Ref" && len(x.Args) == 1:
				return fromType(info.TypeOf(x.Args[0]))
			case FuncID(fn) == "value.ToElkBool":
				return []string{"Std::Bool"}
			case fn.Name() == "ToValue" && len(x.Args) == 0:
				if sel, ok := x.Fun.(*ast.SelectorExpr); ok {
					t := info.TypeOf(sel.X)
					if NamedOf(t) == "value.Bool" {
						return []string{"Std::Bool"}
					}
					return fromType(t)
				}
			}
		}
		return nil
	}

	// header type -> accepted class names; nil = not decidable
	var accepted func(e ast.Expr, self string) ([]string, bool)
	accepted = func(e ast.Expr, self string) ([]string, bool) {
		e = ast.Unparen(e)
		if ta, ok := e.(*ast.TypeAssertExpr); ok {
			e = ast.Unparen(ta.X)
		}
		switch x := e.(type) {
		case *ast.CompositeLit:
			switch NamedOf(hinfo.TypeOf(x)) {
			case "types.Nil":
				return []string{"Std::Nil"}, true
			case "types.Bool":
				return []string{"Std::Bool"}, true
			case "types.True":
				return []string{"Std::True"}, true
			case "types.False":
				return []string{"Std::False"}, true
			case "types.Self":
				if self != "" {
					return []string{self}, true
				}
			}
			return nil, false
		case *ast.CallExpr:
			fn := Callee(hinfo, x)
			if fn == nil {
				return nil, false
			}
			switch fn.Name() {
			case "NameToType":
				if s, ok := strConst(hinfo, x.Args[0]); ok {
					return []string{s}, true
				}
			case "NewNilable":
				if len(x.Args) == 1 {
					in, ok := accepted(x.Args[0], self)
					if ok {
						return append(in, "Std::Nil"), true
					}
				}
			case "NewUnion":
				var out []string
				for _, a := range x.Args {
					in, ok := accepted(a, self)
					if !ok {
						return nil, false
					}
					out = append(out, in...)
				}
				return out, len(out) > 0
			case "NewGeneric":
				if len(x.Args) >= 1 {
					return accepted(x.Args[0], self)
				}
			}
		}
		return nil, false
	}
	compatible := func(actual string, acc []string) bool {
		for _, a := range acc {
			if isA(actual, a) {
				return true
			}
			switch a {
			case "Std::Bool":
				if actual == "Std::True" || actual == "Std::False" {
					return true
				}
			case "Std::True", "Std::False":
				// a Bool-typed constructor may be either
				if actual == "Std::Bool" {
					return true
				}
			}
		}
		return false
	}

	funcDecls := map[*types.Func]*FuncRef{}
	for _, rel := range []string{"value", "vm"} {
		c.Funcs(rel, func(fr *FuncRef) { funcDecls[fr.Obj] = fr })
	}
	type retSite struct {
		classes []string
		pos     ast.Node
		via     string
	}
	var collect func(info *types.Info, body *ast.BlockStmt, depth int, via string, out *[]retSite)
	collect = func(info *types.Info, body *ast.BlockStmt, depth int, via string, out *[]retSite) {
		ast.Inspect(body, func(n ast.Node) bool {
			if _, ok := n.(*ast.FuncLit); ok {
				return false
			}
			ret, ok := n.(*ast.ReturnStmt)
			if !ok {
				return true
			}
			switch len(ret.Results) {
			case 2:
				// error returns carry value.Undefined (or anything) as the value
				if o := exprObj(info, ret.Results[1]); o == nil || o.Name() != "Undefined" {
					return true
				}
				if cl := classesOf(info, ret.Results[0]); cl != nil {
					*out = append(*out, retSite{cl, ret, via})
				}
			case 1:
				// return helper(...): (Value, Value)
				call, ok := ast.Unparen(ret.Results[0]).(*ast.CallExpr)
				if !ok || depth == 0 {
					return true
				}
				fn := Callee(info, call)
				if fn == nil {
					return true
				}
				fr := funcDecls[fn.Origin()]
				if fr == nil {
					return true
				}
				sig := fn.Type().(*types.Signature)
				if sig.Results().Len() != 2 || NamedOf(sig.Results().At(0).Type()) != "value.Value" {
					return true
				}
				// a helper that dispatches on its operands returns different
				// classes on different branches; which branch a given native
				// reaches is not evident, so only helpers with one result
				// class are followed
				var sub []retSite
				collect(fr.Pkg.TypesInfo, fr.Decl.Body, depth-1, FuncName(fr.Decl), &sub)
				uniform := len(sub) > 0
				for _, s := range sub {
					if strings.Join(s.classes, ",") != strings.Join(sub[0].classes, ",") {
						uniform = false
					}
				}
				if uniform {
					*out = append(*out, sub...)
				}
			}
			return true
		})
	}

	var ms []*hdrMethod
	for _, m := range h.Methods {
		ms = append(ms, m)
	}
	sort.SliceStable(ms, func(i, j int) bool { return ms[i].ID() < ms[j].ID() })
	seen := map[string]bool{}
	decided, undecidedType, typeParamRets := 0, 0, 0
	// type parameters of classes and mixins: `typeParam = NewTypeParameter(
	// ToSymbol(X), namespace, lower, Any{}, ...)`; a name counts only when
	// every declaration of a parameter with that name has upper bound Any
	// the receiver variable of every DefineMethod call and, per receiver
	// variable (`namespace := ...MustSubtypeString("X")`, one per class
	// block), the class-level type parameters declared on it
	recvOf := map[token.Pos]types.Object{}
	tpAny := map[types.Object]map[string]bool{}
	for _, f := range c.Pkg("types").Syntax {
		ast.Inspect(f, func(n ast.Node) bool {
			call, ok := n.(*ast.CallExpr)
			if !ok {
				return true
			}
			if sel, ok := call.Fun.(*ast.SelectorExpr); ok && sel.Sel.Name == "DefineMethod" {
				if id, ok := ast.Unparen(sel.X).(*ast.Ident); ok {
					recvOf[call.Pos()] = hinfo.Uses[id]
				}
				return true
			}
			if len(call.Args) < 4 {
				return true
			}
			if fn := Callee(hinfo, call); fn == nil || fn.Name() != "NewTypeParameter" {
				return true
			}
			name, ok := symArg(hinfo, call.Args[0])
			if !ok {
				return true
			}
			// parameters of methods live in a namespace made on the spot
			id, classLevel := ast.Unparen(call.Args[1]).(*ast.Ident)
			if !classLevel || hinfo.Uses[id] == nil {
				return true
			}
			_, isAny := ast.Unparen(call.Args[3]).(*ast.CompositeLit)
			isAny = isAny && NamedOf(hinfo.TypeOf(call.Args[3])) == "types.Any"
			o := hinfo.Uses[id]
			if tpAny[o] == nil {
				tpAny[o] = map[string]bool{}
			}
			if prev, seen := tpAny[o][name]; seen {
				tpAny[o][name] = prev && isAny
			} else {
				tpAny[o][name] = isAny
			}
			return true
		})
	}
	bareTypeParam := func(m *hdrMethod) (string, bool) {
		call, ok := ast.Unparen(m.Ret).(*ast.CallExpr)
		if !ok || len(call.Args) < 1 {
			return "", false
		}
		if fn := Callee(hinfo, call); fn == nil || fn.Name() != "NameToType" {
			return "", false
		}
		s, ok := strConst(hinfo, call.Args[0])
		if !ok || !strings.HasPrefix(s, m.NS+"::") {
			return "", false
		}
		short := strings.TrimPrefix(s, m.NS+"::")
		if _, declared := h.Kind[s]; declared || strings.Contains(short, "::") || recvOf[m.Pos] == nil || !tpAny[recvOf[m.Pos]][short] {
			return "", false
		}
		if k := h.Kind[m.NS]; k != "class" && k != "mixin" {
			return "", false
		}
		return s, true
	}
	for _, m := range ms {
		if !m.Native || m.Abstract || seen[m.ID()] {
			continue
		}
		seen[m.ID()] = true
		nd := nt.ByID[m.ID()]
		if nd == nil || nd.Func == nil {
			continue
		}
		self := ""
		if !m.Singleton && (h.Kind[m.NS] == "class") {
			self = m.NS
		}
		if tp, isTP := bareTypeParam(m); isTP {
			// parametricity: the method has to be right for every type the
			// parameter is instantiated with, so no value whose class is
			// fixed by its Go type can be an instance of it
			var sites []retSite
			collect(nd.Pkg.Info, nd.Func.Body, 2, "", &sites)
			key := "typeparam/" + m.ID()
			if len(sites) > 0 {
				s0 := sites[0]
				via := ""
				if s0.via != "" {
					via = " (through " + s0.via + ")"
				}
				c.Bad(key, s0.pos.Pos(), "the header declares that %s returns the bare type parameter %s (upper bound Any), but the native registered at %s returns a value that is always of class %s%s: for every instantiation of %s other than that class the caller receives a value of the wrong class, and the checker and the compiler trust the header", m.ID(), tp, c.Pos(nd.Call.Pos()), strings.Join(s0.classes, " | "), via, tp)
			} else {
				c.OK(key, nd.Call.Pos(), "returns type parameter %s; no return value with a class fixed by its Go type", tp)
			}
			typeParamRets++
			continue
		}
		acc, ok := accepted(m.Ret, self)
		if ok {
			// interfaces are structural and type parameters are not classes:
			// membership cannot be read off the run-time hierarchy
			for _, a := range acc {
				if k := h.Kind[a]; k != "class" && k != "mixin" && k != "module" {
					ok = false
				}
			}
		}
		if !ok {
			undecidedType++
			continue
		}
		var sites []retSite
		collect(nd.Pkg.Info, nd.Func.Body, 2, "", &sites)
		if len(sites) == 0 {
			continue
		}
		decided++
		var bad *retSite
		badClass := ""
		for i := range sites {
			for _, cl := range sites[i].classes {
				if !compatible(cl, acc) {
					bad, badClass = &sites[i], cl
					break
				}
			}
			if bad != nil {
				break
			}
		}
		key := m.ID()
		if bad != nil {
			via := ""
			if bad.via != "" {
				via = " (through " + bad.via + ")"
			}
			c.Bad(key, bad.pos.Pos(), "the header declares that %s returns %s, but the native registered at %s returns a value of class %s%s: the checker and the compiler trust the header, so code using the result reads it with the accessors of the declared class", m.ID(), strings.Join(acc, " | "), c.Pos(nd.Call.Pos()), badClass, via)
		} else {
			c.OK(key, nd.Call.Pos(), "%d evident return value(s), all within %s", len(sites), strings.Join(acc, " | "))
		}
	}
	c.Stats["native_methods_with_an_undecidable_header_return_type"] = undecidedType
	c.Stats["native_methods_decided"] = decided
	c.Stats["native_methods_returning_a_bare_type_parameter"] = typeParamRets
	if typeParamRets < 30 {
		c.Bad("typeparam/floor", c.Pkg("types").Syntax[0].Pos(), "only %d native methods with a bare type parameter as header return type were recognised (at least 30 expected): the recognition of type parameters in types/headers.go no longer matches", typeParamRets)
	}
	_ = fmt.Sprint
}
