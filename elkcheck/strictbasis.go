package main

import (
	"go/ast"
	"go/token"
	"go/types"
	"strings"
)

// cmp/strict-basis (C18): `a =~ b` between a sized float and a sized (or
// plain) integer is implemented twice, once on each operand's class. Both
// sides have to compare on the same basis - float64, the one type that holds
// every float32 and every 32-bit integer exactly - or the answer depends on
// which operand is on the left (16777216f32 =~ 16777217i32).
//
// bigint/normalise-wrapped (C18, C06): a *BigInt produced by an operation is
// turned into an Int value only through Normalize (or after a fits test):
// wrapping it with Ref keeps a number that fits a SmallInt in the big
// representation, where it is == to the small one but hashes differently.

func init() {
	register(&Rule{
		ID:    "cmp/strict-basis",
		Text:  "in the generic lax-equality functions of the sized numbers (Strict*LaxEqual), every == whose two operands are conversions of a float-typed and an integer-typed value converts both to float64",
		Floor: 20,
		Run:   runStrictBasis,
	})
	register(&Rule{
		ID:    "bigint/normalise-wrapped",
		Text:  "in packages value and vm, the result of a *BigInt-returning method of BigInt or SmallInt is never wrapped with Ref directly; it goes through Normalize (or a fits test), except for operations whose result cannot fit a SmallInt when the operand does not",
		Floor: 2,
		Run:   runNormaliseWrapped,
	})
}

func numFamily(t types.Type) string {
	if tp, ok := t.(*types.TypeParam); ok {
		if iface, ok := tp.Constraint().Underlying().(*types.Interface); ok {
			fam := ""
			for i := 0; i < iface.NumEmbeddeds(); i++ {
				if u, ok := iface.EmbeddedType(i).(*types.Union); ok {
					for j := 0; j < u.Len(); j++ {
						f := numFamily(u.Term(j).Type())
						if fam == "" {
							fam = f
						} else if fam != f {
							return ""
						}
					}
				}
			}
			return fam
		}
		return ""
	}
	b, ok := t.Underlying().(*types.Basic)
	if !ok {
		return ""
	}
	switch {
	case b.Info()&types.IsFloat != 0:
		return "float"
	case b.Info()&types.IsInteger != 0:
		return "int"
	}
	return ""
}

func runStrictBasis(c *Ctx) {
	p := c.Pkg("value")
	info := p.TypesInfo
	c.Funcs("value", func(fr *FuncRef) {
		name := fr.Decl.Name.Name
		if fr.Decl.Recv != nil || !strings.HasPrefix(name, "Strict") || !strings.HasSuffix(name, "LaxEqual") {
			return
		}
		n := 0
		ast.Inspect(fr.Decl.Body, func(nd ast.Node) bool {
			be, ok := nd.(*ast.BinaryExpr)
			if !ok || be.Op != token.EQL {
				return true
			}
			conv := func(e ast.Expr) (to types.Type, from types.Type, ok bool) {
				call, isCall := ast.Unparen(e).(*ast.CallExpr)
				if !isCall || len(call.Args) != 1 {
					return nil, nil, false
				}
				tv, isT := info.Types[call.Fun]
				if !isT || !tv.IsType() {
					return nil, nil, false
				}
				return tv.Type, info.TypeOf(call.Args[0]), true
			}
			t1, f1, ok1 := conv(be.X)
			t2, f2, ok2 := conv(be.Y)
			if !ok1 || !ok2 {
				return true
			}
			fa, fb := numFamily(f1), numFamily(f2)
			if fa == "" || fb == "" || fa == fb {
				return true
			}
			n++
			isF64 := func(t types.Type) bool {
				b, ok := t.(*types.Basic)
				return ok && b.Kind() == types.Float64
			}
			key := name + "/mixed#" + itoa(n)
			c.Check(isF64(t1) && isF64(t2), key, be.Pos(), "%s compares a float-typed with an integer-typed operand as `%s`: the mirrored operation on the other operand's class compares in float64, so for operands the narrower type cannot hold exactly the answer depends on which one is on the left", name, types.ExprString(be))
			return true
		})
	})
}

var normaliseWrappedExempt = map[string]string{
	"BitwiseNot": "for a BigInt x outside the SmallInt range, ^x = -x-1 is outside it too",
}

func runNormaliseWrapped(c *Ctx) {
	n := 0
	for _, rel := range []string{"value", "vm"} {
		p := c.Pkg(rel)
		info := p.TypesInfo
		c.Funcs(rel, func(fr *FuncRef) {
			k := 0
			ast.Inspect(fr.Decl.Body, func(nd ast.Node) bool {
				call, ok := nd.(*ast.CallExpr)
				if !ok || len(call.Args) != 1 || FuncID(Callee(info, call)) != "value.Ref" {
					return true
				}
				inner, ok := ast.Unparen(call.Args[0]).(*ast.CallExpr)
				if !ok {
					return true
				}
				fn := Callee(info, inner)
				if fn == nil {
					return true
				}
				rn := recvNameOf(fn)
				if rn != "BigInt" && rn != "SmallInt" {
					return true
				}
				sig := fn.Type().(*types.Signature)
				if sig.Results().Len() != 1 || NamedOf(sig.Results().At(0).Type()) != "value.BigInt" {
					return true
				}
				if _, isPtr := sig.Results().At(0).Type().(*types.Pointer); !isPtr {
					return true
				}
				n++
				k++
				key := rel + "." + FuncName(fr.Decl) + "/" + fn.Name() + "#" + itoa(k)
				if strings.HasPrefix(fn.Name(), "LeftBitshift") {
					c.OK(key, call.Pos(), "reasoned exception: shifting a number outside the SmallInt range left by an unsigned count moves it further out")
					return true
				}
				if reason, ok := normaliseWrappedExempt[fn.Name()]; ok {
					c.OK(key, call.Pos(), "reasoned exception: %s", reason)
					return true
				}
				c.Bad(key, call.Pos(), "%s.%s wraps the *BigInt returned by %s with Ref: when the result fits a SmallInt (-(2**63), or (-(2**63)-1)++) the same integer exists in two representations, equal under == but with different hashes", rel, FuncName(fr.Decl), fn.Name())
				return true
			})
		})
	}
	c.Stats["wrapped_bigint_results"] = n
}
