package main

import (
	"go/ast"
	"go/token"
	"go/types"
	"sort"
	"strings"
)

// ops/typedguard (C08, C02): a typed opcode is emitted under a static type
// guard (IsSubtype(typ, StdInt()/StdFloat())) and its VM handler reads the
// typed operand with accessors. The two must agree.

func init() {
	register(&Rule{
		ID:    "ops/typedguard",
		Text:  "every opcode the compiler emits under an IsSubtype(_, Std::Int / Std::Float) guard is handled in the VM by code that reads the guarded operand only with accessors of that type's representations (Float: AsFloat; Int: AsSmallInt under IsSmallInt, *BigInt otherwise), and all emission sites of one opcode are under the same guard type",
		Floor: 40,
		Tags:  true,
		Run:   runTypedGuard,
	})
}

// guardTypeOf: "Int"/"Float" when cond contains IsSubtype(x, <checker>.StdInt()/StdFloat()).
func guardTypesOf(info *types.Info, cond ast.Expr) []string {
	var out []string
	ast.Inspect(cond, func(n ast.Node) bool {
		call, ok := n.(*ast.CallExpr)
		if !ok || len(call.Args) != 2 {
			return true
		}
		fn := Callee(info, call)
		if fn == nil || fn.Name() != "IsSubtype" {
			return true
		}
		if inner, ok := ast.Unparen(call.Args[1]).(*ast.CallExpr); ok {
			if f2 := Callee(info, inner); f2 != nil {
				switch f2.Name() {
				case "StdInt":
					out = append(out, "Int")
				case "StdFloat":
					out = append(out, "Float")
				}
			}
		}
		return true
	})
	return out
}

type typedEmission struct {
	op    int64
	guard string // "Int", "Float" or "" (no typed guard encloses the site)
	pos   token.Pos
	fn    string
}

func (c *Ctx) typedEmissions() []typedEmission {
	var out []typedEmission
	c.Funcs("compiler", func(fr *FuncRef) {
		info := fr.Pkg.TypesInfo
		var walk func(n ast.Node, guards []string)
		walk = func(n ast.Node, guards []string) {
			// statement lists: an `if C { ...; return }` makes a later sibling
			// `if C {...}` with the textually identical (pure) condition dead
			var list []ast.Stmt
			switch x := n.(type) {
			case *ast.BlockStmt:
				list = x.List
			case *ast.CaseClause:
				list = x.Body
			}
			if list != nil {
				returned := map[string]bool{}
				for _, st := range list {
					if ifs, ok := st.(*ast.IfStmt); ok && ifs.Init == nil {
						key := types.ExprString(ifs.Cond)
						if returned[key] && len(guardTypesOf(info, ifs.Cond)) > 0 {
							c.Stats["typed_emission_sites_unreachable"]++
							if ifs.Else != nil {
								walk(ifs.Else, guards)
							}
							continue
						}
						if ifs.Else == nil && len(ifs.Body.List) > 0 {
							if _, isRet := ifs.Body.List[len(ifs.Body.List)-1].(*ast.ReturnStmt); isRet {
								returned[key] = true
							}
						}
					}
					walk(st, guards)
				}
				return
			}
			switch x := n.(type) {
			case nil:
				return
			case *ast.IfStmt:
				if x.Init != nil {
					walk(x.Init, guards)
				}
				walk(x.Cond, guards)
				g := guardTypesOf(info, x.Cond)
				// a condition that is not negated guards its body
				if u, ok := ast.Unparen(x.Cond).(*ast.UnaryExpr); ok && u.Op == token.NOT {
					g = nil
				}
				walk(x.Body, append(append([]string{}, guards...), g...))
				if x.Else != nil {
					walk(x.Else, guards)
				}
				return
			case *ast.CallExpr:
				if k := emitPrims[FuncID(Callee(info, x))]; k == emitStart && len(x.Args) >= 2 {
					if v, ok := ConstInt(info, x.Args[1]); ok {
						g := ""
						if len(guards) > 0 {
							g = guards[len(guards)-1]
						}
						out = append(out, typedEmission{v, g, x.Pos(), FuncName(fr.Decl)})
					}
				}
			}
			// generic traversal of children
			ast.Inspect(n, func(ch ast.Node) bool {
				if ch == n || ch == nil {
					return true
				}
				walk(ch, guards)
				return false
			})
		}
		walk(fr.Decl.Body, nil)
	})
	return out
}

// handlerAccessors analyses the VM handler of an opcode: the accessors it
// applies to the operand obtained with vm.peek() (the typed, left/only operand).
type handlerUse struct {
	accessor string          // "AsFloat", "AsSmallInt", "*value.BigInt", ...
	guarded  bool            // inside the true branch of the matching IsX test (or a Must accessor)
	excluded map[string]bool // kinds whose IsX test has failed on the way here (else branches)
	pos      token.Pos
}

func (c *Ctx) handlerOperandUses(t *opcodeTables, cc *ast.CaseClause) ([]handlerUse, *ast.FuncDecl) {
	info := t.runLoop.Pkg.TypesInfo
	// the handler: the single op* method called in the clause, or the clause itself
	var body []ast.Stmt = cc.Body
	var decl *ast.FuncDecl
	var called []*types.Func
	for _, st := range cc.Body {
		ast.Inspect(st, func(n ast.Node) bool {
			if call, ok := n.(*ast.CallExpr); ok {
				if fn := Callee(info, call); fn != nil && strings.HasPrefix(fn.Name(), "op") && strings.HasPrefix(FuncID(fn), "vm.Thread.") {
					called = append(called, fn)
				}
			}
			return true
		})
	}
	if len(called) == 1 {
		if fr := c.FuncOpt("vm", "Thread", called[0].Name()); fr != nil {
			body = fr.Decl.Body.List
			decl = fr.Decl
		}
	}
	// operand variables: assigned from vm.peek()
	operands := map[types.Object]bool{}
	for _, st := range body {
		ast.Inspect(st, func(n ast.Node) bool {
			as, ok := n.(*ast.AssignStmt)
			if !ok || len(as.Lhs) != 1 || len(as.Rhs) != 1 {
				return true
			}
			call, ok := ast.Unparen(as.Rhs[0]).(*ast.CallExpr)
			if !ok || FuncID(Callee(info, call)) != "vm.Thread.peek" {
				return true
			}
			if id, ok := as.Lhs[0].(*ast.Ident); ok {
				if o := info.Defs[id]; o != nil {
					operands[o] = true
				}
			}
			return true
		})
	}
	var uses []handlerUse
	var walk func(n ast.Node, isX map[string]bool, notSmall map[string]bool)
	walk = func(n ast.Node, isX map[string]bool, notSmall map[string]bool) {
		switch x := n.(type) {
		case nil:
			return
		case *ast.IfStmt:
			walk(x.Init, isX, notSmall)
			// IsX tests of operands: a single test, or the conjuncts of `a && b`
			var conj []ast.Expr
			var flatten func(e ast.Expr)
			flatten = func(e ast.Expr) {
				e = ast.Unparen(e)
				if be, ok := e.(*ast.BinaryExpr); ok && be.Op == token.LAND {
					flatten(be.X)
					flatten(be.Y)
					return
				}
				conj = append(conj, e)
			}
			flatten(x.Cond)
			var testedKinds []string
			for _, e := range conj {
				if call, ok := e.(*ast.CallExpr); ok {
					if sel, ok := call.Fun.(*ast.SelectorExpr); ok && strings.HasPrefix(sel.Sel.Name, "Is") {
						if id, ok := ast.Unparen(sel.X).(*ast.Ident); ok && operands[info.Uses[id]] {
							testedKinds = append(testedKinds, id.Name+"."+strings.TrimPrefix(sel.Sel.Name, "Is"))
						}
					}
				}
			}
			if len(testedKinds) > 0 {
				m := map[string]bool{}
				for k := range isX {
					m[k] = true
				}
				for _, k := range testedKinds {
					m[k] = true
				}
				for _, e := range conj {
					walk(e, isX, notSmall)
				}
				walk(x.Body, m, notSmall)
				ex := map[string]bool{}
				for k := range notSmall {
					ex[k] = true
				}
				if len(conj) == 1 {
					// only the failure of a single test excludes its kind
					ex[testedKinds[0][strings.Index(testedKinds[0], ".")+1:]] = true
				}
				walk(x.Else, isX, ex)
			} else {
				walk(x.Cond, isX, notSmall)
				walk(x.Body, isX, notSmall)
				walk(x.Else, isX, notSmall)
			}
			return
		case *ast.TypeAssertExpr:
			// left.AsReference().(*value.BigInt)
			if call, ok := ast.Unparen(x.X).(*ast.CallExpr); ok {
				if sel, ok := call.Fun.(*ast.SelectorExpr); ok && (sel.Sel.Name == "AsReference" || sel.Sel.Name == "MustReference") {
					if id, ok := ast.Unparen(sel.X).(*ast.Ident); ok && operands[info.Uses[id]] && x.Type != nil {
						uses = append(uses, handlerUse{types.ExprString(x.Type), false, notSmall, x.Pos()})
					}
				}
			}
		case *ast.CallExpr:
			if sel, ok := x.Fun.(*ast.SelectorExpr); ok && (strings.HasPrefix(sel.Sel.Name, "As") || strings.HasPrefix(sel.Sel.Name, "Must")) {
				if id, ok := ast.Unparen(sel.X).(*ast.Ident); ok && operands[info.Uses[id]] {
					name := sel.Sel.Name
					if name != "AsReference" && name != "MustReference" {
						kind := strings.TrimPrefix(strings.TrimPrefix(name, "As"), "Must")
						uses = append(uses, handlerUse{name, isX[id.Name+"."+kind] || strings.HasPrefix(name, "Must"), notSmall, x.Pos()})
					}
				}
			}
		}
		ast.Inspect(n, func(ch ast.Node) bool {
			if ch == n || ch == nil {
				return true
			}
			walk(ch, isX, notSmall)
			return false
		})
	}
	for _, st := range body {
		walk(st, map[string]bool{}, map[string]bool{})
	}
	return uses, decl
}

func runTypedGuard(c *Ctx) {
	t := c.opcodeTables()
	ems := c.typedEmissions()
	guardsOf := map[int64]map[string][]typedEmission{}
	for _, e := range ems {
		if guardsOf[e.op] == nil {
			guardsOf[e.op] = map[string][]typedEmission{}
		}
		guardsOf[e.op][e.guard] = append(guardsOf[e.op][e.guard], e)
	}
	var ops []int64
	for op, g := range guardsOf {
		if len(g["Int"]) > 0 || len(g["Float"]) > 0 {
			ops = append(ops, op)
		}
	}
	sort.Slice(ops, func(i, j int) bool { return ops[i] < ops[j] })
	c.Stats["typed_opcodes"] = len(ops)
	for _, op := range ops {
		k := t.byVal[op]
		if k == nil {
			continue
		}
		g := guardsOf[op]
		hasInt, hasFloat := len(g["Int"]) > 0, len(g["Float"]) > 0
		typ := "Int"
		switch {
		case hasInt && hasFloat:
			typ = "Int or Float"
		case hasFloat:
			typ = "Float"
		}
		first := g["Int"]
		if !hasInt {
			first = g["Float"]
		}
		c.OK("emit/"+k.Name(), first[0].pos, "%d emission site(s) guarded by IsSubtype(_, Std::Int), %d by IsSubtype(_, Std::Float); %d site(s) without a typed guard", len(g["Int"]), len(g["Float"]), len(g[""]))
		// handler accessors
		cc := t.runCase[op]
		if cc == nil {
			continue // optable/handled
		}
		uses, _ := c.handlerOperandUses(t, cc)
		if len(uses) == 0 {
			c.Unknown("vm/"+k.Name(), cc.Pos(), "cannot find how the handler reads its typed operand (no accessor on a vm.peek() operand)")
			continue
		}
		bad := ""
		var badPos token.Pos
		sawInt, sawFloat := false, false
		for _, u := range uses {
			switch u.accessor {
			case "AsFloat", "MustFloat":
				sawFloat = true
				if !hasFloat {
					bad, badPos = "reads the Int operand with "+u.accessor, u.pos
				} else if hasInt && !u.guarded {
					bad, badPos = "applies AsFloat without an IsFloat test although the operand may be an Int", u.pos
				}
			case "AsSmallInt":
				sawInt = true
				if !hasInt {
					bad, badPos = "reads the Float operand with AsSmallInt", u.pos
				} else if !u.guarded {
					bad, badPos = "applies AsSmallInt to the Int operand without an IsSmallInt test (it may be a *BigInt)", u.pos
				}
			case "MustSmallInt":
				bad, badPos = "applies MustSmallInt to an operand that may be a *BigInt", u.pos
			case "*value.BigInt":
				sawInt = true
				if !hasInt {
					bad, badPos = "asserts *BigInt on a Float operand", u.pos
				} else if !u.excluded["SmallInt"] || (hasFloat && !u.excluded["Float"]) {
					bad, badPos = "asserts *BigInt without first excluding every inline representation the operand may have", u.pos
				}
			default:
				bad, badPos = "reads the operand with "+u.accessor, u.pos
			}
		}
		if bad == "" && hasInt && !sawInt {
			bad, badPos = "has no branch for Int operands", cc.Pos()
		}
		if bad == "" && hasFloat && !sawFloat {
			bad, badPos = "has no branch for Float operands", cc.Pos()
		}
		if bad != "" {
			c.Bad("vm/"+k.Name(), badPos, "opcode %s is emitted for operands of static type Std::%s, but its handler %s: the bits of the value are reinterpreted", k.Name(), typ, bad)
		} else {
			c.OK("vm/"+k.Name(), cc.Pos(), "handler reads the Std::%s operand with %d matching accessor use(s)", typ, len(uses))
		}
	}
}
