package main

import (
	"go/ast"
	"go/token"
	"go/types"
	"sort"
	"strings"
)

// hash/eq-pair (C18): a class that gives `==` a structural meaning of its own
// has to give `hash` the matching meaning, otherwise two equal values hash
// differently (the inherited `hash` of Std::Value is the object's identity)
// and the value cannot be found again as a key of a HashMap or an element of a
// HashSet.

func init() {
	register(&Rule{
		ID:    "hash/eq-pair",
		Text:  "every built-in class or mixin for which a native `==` is registered also has a native `hash` registered on itself or on something it includes or inherits from other than Std::Object and Std::Value",
		Floor: 20,
		Arch:  true,
		Run:   runHashEqPair,
	})
}

// builtinHashed: classes value.Hash handles itself (its type switch and flag
// switch), confirmed by reading value/value.go.
var builtinHashed = map[string]bool{
	"Std::String": true, "Std::Int": true, "Std::BigFloat": true, "Std::Float": true, "Std::Char": true,
	"Std::Symbol": true, "Std::Nil": true, "Std::Bool": true, "Std::True": true, "Std::False": true,
	"Std::Float64": true, "Std::Float32": true, "Std::Int64": true, "Std::Int32": true, "Std::Int16": true, "Std::Int8": true,
	"Std::UInt": true, "Std::UInt64": true, "Std::UInt32": true, "Std::UInt16": true, "Std::UInt8": true,
}

func runHashEqPair(c *Ctx) {
	nt := c.parseNatives()
	h := c.parseHeaders()
	isA := runtimeHierarchy(c, nt.ElkName)
	eq := map[string]*nativeDef{}
	hash := map[string]bool{}
	for _, nd := range nt.Defs {
		if nd.Singleton || !strings.HasPrefix(nd.NS, "Std") {
			continue
		}
		switch nd.Name {
		case "==":
			if eq[nd.NS] == nil {
				eq[nd.NS] = nd
			}
		case "hash":
			hash[nd.NS] = true
		}
	}
	// classes whose values are stored inline in a Value (no reference): the
	// fallback hash of such a value is a hash of its bits
	inline := map[string]bool{}
	classOfType := classesOfGoTypes(c, nt.ElkName)
	vp := c.Pkg("value")
	c.Funcs("value", func(fr *FuncRef) {
		if fr.Decl.Recv == nil || fr.Decl.Name.Name != "ToValue" {
			return
		}
		isInline := false
		ast.Inspect(fr.Decl.Body, func(n ast.Node) bool {
			if cl, ok := n.(*ast.CompositeLit); ok && NamedOf(vp.TypesInfo.TypeOf(cl)) == "value.Value" {
				isInline = true
			}
			return true
		})
		if isInline {
			for _, k := range classOfType["value."+recvTypeName(fr.Decl)] {
				inline[k] = true
			}
		}
	})
	var nss []string
	for ns := range eq {
		nss = append(nss, ns)
	}
	sort.Strings(nss)
	for _, ns := range nss {
		if ns == "Std::Object" || ns == "Std::Value" {
			continue
		}
		if k := h.Kind[ns]; k != "class" && k != "mixin" {
			continue
		}
		if strings.HasPrefix(ns, "Std::Elk::") {
			continue // syntax-tree and token classes: not claimed (they are not used as keys)
		}
		if builtinHashed[ns] {
			continue // hashed by representation in value.Hash before any method is looked up
		}
		// an `==` that compares identities agrees with the identity hash
		if nd := eq[ns]; nd.Func != nil {
			identity := false
			ast.Inspect(nd.Func.Body, func(n ast.Node) bool {
				if be, ok := n.(*ast.BinaryExpr); ok && be.Op == token.EQL {
					if types.ExprString(be.X) == "args[0]" && types.ExprString(be.Y) == "args[1]" {
						identity = true
					}
				}
				return true
			})
			if identity {
				c.OK(ns, nd.Call.Pos(), "`==` compares identities, which is what the inherited hash does")
				continue
			}
		}
		if inline[ns] {
			c.OK(ns, eq[ns].Call.Pos(), "values of this class are stored inline: the fallback hash is a hash of their bits, equal for equal values")
			continue
		}
		found := ""
		for hn := range hash {
			if hn == "Std::Object" || hn == "Std::Value" {
				continue
			}
			if hn == ns || isA(ns, hn) {
				found = hn
			}
		}
		c.Check(found != "", ns, eq[ns].Call.Pos(), "%s registers a native `==` of its own but no native `hash` (neither itself nor anything it includes or inherits from besides Std::Object / Std::Value): two equal values of this class hash differently, so a HashMap or HashSet does not find an equal key again", ns)
	}
}
