package main

import (
	"go/ast"
)

// stack/frame-growth (C10, C01): the value stack grows only where the VM
// checks its occupancy. A kind of call that creates a frame without that
// check - closure calls, callables invoked from native code, generator
// resumption - lets a recursion through that kind of call run past the end of
// the stack however large the configured maximum is.

func init() {
	register(&Rule{
		ID:    "stack/frame-growth",
		Text:  "in package vm, every function that creates a call frame (calls createCurrentCallFrame) tests the occupancy of the value stack or grows it - itself, or because createCurrentCallFrame does",
		Floor: 5,
		Run:   runFrameGrowth,
	})
}

func runFrameGrowth(c *Ctx) {
	p := c.Pkg("vm")
	info := p.TypesInfo
	creator := c.FuncOpt("vm", "Thread", "createCurrentCallFrame")
	if creator == nil {
		c.Stale("vm.(*Thread).createCurrentCallFrame")
		return
	}
	grows := func(body *ast.BlockStmt) bool {
		found := false
		ast.Inspect(body, func(n ast.Node) bool {
			if call, ok := n.(*ast.CallExpr); ok {
				if fn := Callee(info, call); fn != nil && fn.Name() == "growValueStack" {
					found = true
				}
			}
			return true
		})
		return found
	}
	central := grows(creator.Decl.Body)
	c.Funcs("vm", func(fr *FuncRef) {
		if fr.Obj == creator.Obj {
			return
		}
		n := 0
		ast.Inspect(fr.Decl.Body, func(nd ast.Node) bool {
			call, ok := nd.(*ast.CallExpr)
			if !ok {
				return true
			}
			if fn := Callee(info, call); fn == nil || fn.Origin() != creator.Obj {
				return true
			}
			n++
			key := FuncName(fr.Decl) + "/frame#" + itoa(n)
			c.Check(central || grows(fr.Decl.Body), key, call.Pos(), "%s creates a call frame without any test of the value stack's occupancy (neither here nor in createCurrentCallFrame): a recursion that only goes through this kind of call never grows the stack and runs past its end", FuncName(fr.Decl))
			return true
		})
	})
}
