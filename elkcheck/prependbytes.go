package main

import (
	"fmt"
	"go/ast"
	"go/token"
	"go/types"
	"strings"
)

// layout/prepend-bytes (C29, C32, C15): a function that puts new bytes in
// front of a finished instruction stream must move every stored absolute
// offset (and the first line-info entry) by exactly the number of bytes it
// prepended. Where the amount is kept in a separate local (newBytes) it has
// to equal, on every path, the number of bytes actually appended to the
// prefix on that path - an opcode chosen by one test and a size chosen by
// another put catch ranges and jump targets off by one.

func init() {
	register(&Rule{
		ID:    "layout/prepend-bytes",
		Text:  "in every compiler function that prepends to the instruction stream (Instructions = append(prefix, Instructions...)), on every path the integer local used to shift stored offsets or line-info counts equals the number of bytes appended to the prefix on that path (append arguments = 1 byte each, AppendUint16 = 2, AppendUint32 = 4)",
		Floor: 1,
		Run:   runPrependBytes,
	})
}

type pbState struct {
	bytes int8 // bytes appended to the prefix so far on this path
	nb    int8 // value of the tracked size local (-1 unknown)
}

func runPrependBytes(c *Ctx) {
	p := c.Pkg("compiler")
	info := p.TypesInfo
	found := 0
	c.Funcs("compiler", func(fr *FuncRef) {
		// the prefix variable: Instructions = append(prefix, X.Instructions...)
		var prefix types.Object
		ast.Inspect(fr.Decl.Body, func(n ast.Node) bool {
			as, ok := n.(*ast.AssignStmt)
			if !ok || len(as.Lhs) != 1 || len(as.Rhs) != 1 {
				return true
			}
			if !strings.HasSuffix(types.ExprString(ast.Unparen(as.Lhs[0])), ".Instructions") {
				return true
			}
			call, ok := ast.Unparen(as.Rhs[0]).(*ast.CallExpr)
			if !ok || len(call.Args) != 2 || !call.Ellipsis.IsValid() {
				return true
			}
			if id, ok := ast.Unparen(call.Fun).(*ast.Ident); !ok || id.Name != "append" {
				return true
			}
			if !strings.HasSuffix(types.ExprString(ast.Unparen(call.Args[1])), ".Instructions") {
				return true
			}
			if id, ok := ast.Unparen(call.Args[0]).(*ast.Ident); ok {
				prefix = info.Uses[id]
			}
			return true
		})
		if prefix == nil {
			return
		}
		found++
		fname := FuncName(fr.Decl)
		// size locals: int locals assigned integer constants
		sizeVars := map[types.Object]bool{}
		ast.Inspect(fr.Decl.Body, func(n ast.Node) bool {
			as, ok := n.(*ast.AssignStmt)
			if !ok || len(as.Lhs) != len(as.Rhs) {
				return true
			}
			for i, l := range as.Lhs {
				if id, ok := l.(*ast.Ident); ok {
					if _, ok := ConstInt(info, as.Rhs[i]); ok {
						if o := info.ObjectOf(id); o != nil {
							if b, ok := o.Type().Underlying().(*types.Basic); ok && b.Info()&types.IsInteger != 0 {
								sizeVars[o] = true
							}
						}
					}
				}
			}
			return true
		})
		type use struct {
			pos   token.Pos
			what  string
			bytes int8
			nb    int8
		}
		var mismatches []use
		nUses := 0
		pe := &PathEval[pbState]{Info: info}
		isPrefix := func(e ast.Expr) bool {
			id, ok := ast.Unparen(e).(*ast.Ident)
			return ok && info.Uses[id] == prefix
		}
		pe.Stmt = func(s pbState, st ast.Stmt) ([]pbState, bool) {
			as, ok := st.(*ast.AssignStmt)
			if !ok {
				return nil, false
			}
			// shifts: X += v / X += len(prefix)
			if as.Tok == token.ADD_ASSIGN && len(as.Rhs) == 1 {
				if id, ok := ast.Unparen(as.Rhs[0]).(*ast.Ident); ok && sizeVars[info.Uses[id]] {
					nUses++
					if s.nb != s.bytes {
						mismatches = append(mismatches, use{as.Pos(), types.ExprString(as.Lhs[0]) + " += " + id.Name, s.bytes, s.nb})
					}
				}
				return []pbState{s}, true
			}
			if len(as.Lhs) != len(as.Rhs) {
				return nil, false
			}
			for i, l := range as.Lhs {
				id, ok := ast.Unparen(l).(*ast.Ident)
				if !ok {
					// X = (v + size) forms: a size local inside a store to a stored offset
					ast.Inspect(as.Rhs[i], func(m ast.Node) bool {
						if rid, ok := m.(*ast.Ident); ok && sizeVars[info.Uses[rid]] {
							nUses++
							if s.nb != s.bytes {
								mismatches = append(mismatches, use{as.Pos(), types.ExprString(as.Lhs[i]) + " = ... " + rid.Name, s.bytes, s.nb})
							}
						}
						return true
					})
					continue
				}
				o := info.ObjectOf(id)
				if sizeVars[o] {
					if v, ok := ConstInt(info, as.Rhs[i]); ok {
						s.nb = int8(v)
					} else {
						s.nb = -1
					}
				}
				if o == prefix {
					call, ok := ast.Unparen(as.Rhs[i]).(*ast.CallExpr)
					if !ok {
						continue
					}
					switch {
					case func() bool { f, ok := ast.Unparen(call.Fun).(*ast.Ident); return ok && f.Name == "make" }():
						s.bytes = 0
					case func() bool { f, ok := ast.Unparen(call.Fun).(*ast.Ident); return ok && f.Name == "append" }() && len(call.Args) >= 1 && isPrefix(call.Args[0]) && !call.Ellipsis.IsValid():
						s.bytes += int8(len(call.Args) - 1)
					default:
						if fn := Callee(info, call); fn != nil && len(call.Args) >= 1 && isPrefix(call.Args[0]) {
							switch fn.Name() {
							case "AppendUint16":
								s.bytes += 2
							case "AppendUint32":
								s.bytes += 4
							case "AppendUint64":
								s.bytes += 8
							default:
								s.bytes = -100
							}
						}
					}
				}
			}
			return []pbState{s}, true
		}
		pe.Widen = func(s pbState) pbState { return s }
		pe.Block(newSet(pbState{0, -1}), fr.Decl.Body.List)
		if nUses == 0 {
			c.OK(fname+"/no-size-local", fr.Decl.Pos(), "offsets are shifted by len(prefix) only")
			return
		}
		if len(mismatches) == 0 {
			c.OK(fname+"/size-local", fr.Decl.Pos(), "%d shift(s) by a size local, equal to the bytes prepended on every path", nUses)
			return
		}
		m := mismatches[0]
		c.Bad(fname+"/size-local", m.pos, "%s prepends %d byte(s) on a path on which `%s` shifts by %d (%d such shift(s) disagree): stored offsets, catch ranges or line-info counts end up off by %d", fname, m.bytes, m.what, m.nb, len(mismatches), int(m.nb)-int(m.bytes))
	})
	if found == 0 {
		c.Stale("compiler: a function assigning Instructions = append(prefix, Instructions...)")
	}
	c.Stats["prepending_functions"] = found
	_ = fmt.Sprint
}
