package main

import (
	"go/ast"
	"go/token"
	"go/types"
	"strings"
)

// Rules on open upvalues (C13): a closure shares a captured local through an
// upvalue that points at the local's stack slot until the slot is given up;
// then the value must be moved into the upvalue ("closed").

func init() {
	register(&Rule{
		ID:    "path/closeupvalues",
		Text:  "every VM function that gives up the slots of the current frame — by restoring a saved frame (vm.fp = <CallFrame>.fp) or by overwriting the frame in place for a tail call (stores through fpAdd while replacing vm.bytecode) — calls opCloseUpvalues first, on every path",
		Floor: 2,
		Tags:  true,
		Run:   runCloseUpvalues,
	})
	register(&Rule{
		ID:    "path/continue-closes",
		Text:  "in every loop the compiler emits an end-of-iteration upvalue closing for (closeUpvaluesInCurrentScope before the back edge), the continue target handed to patchLoopJumps is an offset taken immediately before that closing, so `continue` cannot skip it",
		Floor: 2,
		Run:   func(c *Ctx) { _ = runContinueCloses; runContinueCloses2(c) },
	})
}

// frameReleaseExempt: functions that restore a frame without giving up
// slots (one named function per entry).
var frameReleaseExempt = map[string]string{
	"Thread.opBreakpoint": "restores the registers of the very frame it saved before running the breakpoint REPL; no slot is released",
}

func runCloseUpvalues(c *Ctx) {
	c.Funcs("vm", func(fr *FuncRef) {
		if recvTypeName(fr.Decl) != "Thread" || len(fr.Decl.Recv.List[0].Names) == 0 {
			return
		}
		info := fr.Pkg.TypesInfo
		recv := info.Defs[fr.Decl.Recv.List[0].Names[0]]
		isRecvField := func(e ast.Expr, field string) bool {
			sel, ok := ast.Unparen(e).(*ast.SelectorExpr)
			if !ok || sel.Sel.Name != field {
				return false
			}
			id, ok := ast.Unparen(sel.X).(*ast.Ident)
			return ok && info.Uses[id] == recv
		}
		// classify the function
		restores, replaces, storesFrame, setsBytecode := false, false, false, false
		var eventPos token.Pos
		// copy(dst, src) with dst built from fpAdd(..) (unsafe.Slice(vm.fpAdd(0), n), ...)
		// writes the frame's slots as well
		isFrameCopy := func(e ast.Expr) bool {
			call, ok := ast.Unparen(e).(*ast.CallExpr)
			if !ok || len(call.Args) != 2 {
				return false
			}
			id, ok := ast.Unparen(call.Fun).(*ast.Ident)
			if !ok {
				return false
			}
			if b, ok := info.Uses[id].(*types.Builtin); !ok || b.Name() != "copy" {
				return false
			}
			found := false
			ast.Inspect(call.Args[0], func(m ast.Node) bool {
				if c2, ok := m.(*ast.CallExpr); ok {
					if fn := Callee(info, c2); fn != nil && fn.Name() == "fpAdd" {
						found = true
					}
				}
				return true
			})
			return found
		}
		ast.Inspect(fr.Decl.Body, func(n ast.Node) bool {
			if es, ok := n.(*ast.ExprStmt); ok && isFrameCopy(es.X) {
				storesFrame = true
				if eventPos == token.NoPos {
					eventPos = es.Pos()
				}
			}
			as, ok := n.(*ast.AssignStmt)
			if !ok {
				return true
			}
			for i, l := range as.Lhs {
				if isRecvField(l, "fp") && i < len(as.Rhs) {
					// vm.fp = X.fp where X is a CallFrame
					if sel, ok := ast.Unparen(as.Rhs[i]).(*ast.SelectorExpr); ok && sel.Sel.Name == "fp" {
						if NamedOf(info.TypeOf(sel.X)) == "vm.CallFrame" {
							restores = true
							eventPos = as.Pos()
						}
					}
				}
				if isRecvField(l, "bytecode") {
					setsBytecode = true
				}
				if st, ok := ast.Unparen(l).(*ast.StarExpr); ok {
					if call, ok := ast.Unparen(st.X).(*ast.CallExpr); ok {
						if fn := Callee(info, call); fn != nil && fn.Name() == "fpAdd" {
							storesFrame = true
							if eventPos == token.NoPos {
								eventPos = as.Pos()
							}
						}
					}
				}
			}
			return true
		})
		replaces = storesFrame && setsBytecode
		if !restores && !replaces {
			return
		}
		key := FuncName(fr.Decl)
		if reason := frameReleaseExempt[key]; reason != "" {
			c.OK(key, fr.Decl.Pos(), "reasoned exception: %s", reason)
			return
		}
		// path check: opCloseUpvalues precedes the event on every path
		type st struct{ closed, violated bool }
		pe := &PathEval[st]{Info: info}
		pe.Call = func(s st, call *ast.CallExpr) []st {
			if fn := Callee(info, call); fn != nil && fn.Name() == "opCloseUpvalues" {
				s.closed = true
			}
			return []st{s}
		}
		pe.Stmt = func(s st, stmt ast.Stmt) ([]st, bool) {
			if es, ok := stmt.(*ast.ExprStmt); ok && replaces && isFrameCopy(es.X) {
				if !s.closed {
					s.violated = true
				}
				return []st{s}, true
			}
			as, ok := stmt.(*ast.AssignStmt)
			if !ok {
				return nil, false
			}
			event := false
			for i, l := range as.Lhs {
				if restores && isRecvField(l, "fp") && i < len(as.Rhs) {
					if sel, ok := ast.Unparen(as.Rhs[i]).(*ast.SelectorExpr); ok && sel.Sel.Name == "fp" && NamedOf(info.TypeOf(sel.X)) == "vm.CallFrame" {
						event = true
					}
				}
				if replaces {
					if star, ok := ast.Unparen(l).(*ast.StarExpr); ok {
						if call, ok := ast.Unparen(star.X).(*ast.CallExpr); ok {
							if fn := Callee(info, call); fn != nil && fn.Name() == "fpAdd" {
								event = true
							}
						}
					}
				}
			}
			if event {
				// the event statement itself contains no call of interest
				if !s.closed {
					s.violated = true
				}
				return []st{s}, true
			}
			return nil, false
		}
		fl := pe.Block(newSet(st{}), fr.Decl.Body.List)
		bad := false
		for s := range fl.next {
			bad = bad || s.violated
		}
		for s := range fl.ret {
			bad = bad || s.violated
		}
		what := "restores a saved frame"
		if replaces {
			what = "overwrites the current frame's slots for a tail call"
		}
		c.Check(!bad, key, eventPos, "%s %s on a path where opCloseUpvalues has not run: a closure that captured a local of this frame keeps pointing at a slot that now belongs to another call", key, what)
	})
}

func runContinueCloses(c *Ctx) {
	c.Funcs("compiler", func(fr *FuncRef) {
		info := fr.Pkg.TypesInfo
		// top-level statements of the function
		var closeIdx, patchIdx = -1, -1
		var patchArg ast.Expr
		list := fr.Decl.Body.List
		callName := func(st ast.Stmt) (string, *ast.CallExpr) {
			es, ok := st.(*ast.ExprStmt)
			if !ok {
				return "", nil
			}
			call, ok := es.X.(*ast.CallExpr)
			if !ok {
				return "", nil
			}
			if fn := Callee(info, call); fn != nil {
				return fn.Name(), call
			}
			return "", nil
		}
		for i, st := range list {
			name, call := callName(st)
			switch name {
			case "closeUpvaluesInCurrentScope":
				if closeIdx == -1 {
					closeIdx = i
				}
			case "patchLoopJumps":
				patchIdx = i
				if len(call.Args) == 1 {
					patchArg = call.Args[0]
				}
			}
		}
		if closeIdx < 0 || patchIdx < 0 || patchArg == nil {
			return
		}
		key := FuncName(fr.Decl)
		argID, ok := ast.Unparen(patchArg).(*ast.Ident)
		if !ok {
			c.Unknown(key, list[patchIdx].Pos(), "continue target `%s` is not a variable", types.ExprString(patchArg))
			return
		}
		target := info.Uses[argID]
		// the offset taken immediately before the closing: a variable X with
		// `X := c.nextInstructionOffset()` as the statement before closeIdx
		var marker types.Object
		if closeIdx > 0 {
			if as, ok := list[closeIdx-1].(*ast.AssignStmt); ok && len(as.Lhs) == 1 && len(as.Rhs) == 1 {
				if call, ok := as.Rhs[0].(*ast.CallExpr); ok {
					if fn := Callee(info, call); fn != nil && fn.Name() == "nextInstructionOffset" {
						if id, ok := as.Lhs[0].(*ast.Ident); ok {
							marker = info.Defs[id]
							if marker == nil {
								marker = info.Uses[id]
							}
						}
					}
				}
			}
		}
		if marker == nil {
			c.Bad(key, list[closeIdx].Pos(), "no instruction offset is taken immediately before the end-of-iteration upvalue closing, so `continue` (target `%s`) cannot land on it and skips closing the upvalues of the iteration", argID.Name)
			return
		}
		if marker == target {
			c.OK(key, list[closeIdx].Pos(), "continue target is the offset of the upvalue closing")
			return
		}
		// or: the target is assigned the marker when the closing emitted code
		assignedFromMarker := false
		ast.Inspect(fr.Decl.Body, func(n ast.Node) bool {
			as, ok := n.(*ast.AssignStmt)
			if !ok || len(as.Lhs) != 1 || len(as.Rhs) != 1 {
				return true
			}
			l, ok1 := as.Lhs[0].(*ast.Ident)
			r, ok2 := ast.Unparen(as.Rhs[0]).(*ast.Ident)
			if ok1 && ok2 && info.Uses[l] == target && info.Uses[r] == marker && as.Pos() > list[closeIdx].Pos() {
				assignedFromMarker = true
			}
			return true
		})
		c.Check(assignedFromMarker, key, list[patchIdx].Pos(), "continue target `%s` is never set to the offset `%s` taken before the upvalue closing", argID.Name, strings.TrimSpace(marker.Name()))
	})
}
