package main

import (
	"go/ast"
	"go/token"
	"go/types"
)

// native/result-defined (C01, C23): the zero value.Value is the VM-internal
// `undefined`; it is how a native says "no error". Returned as the *result*
// of a native it escapes into the program, which is typed to hold something
// else, and the first operation on it ends in a Go panic ("expected SmallInt
// or BigInt, got: undefined"). A result variable declared without a value and
// assigned only inside a loop is `undefined` when the loop body never runs
// (reduce over an empty iterable).

func init() {
	register(&Rule{
		ID:    "native/result-defined",
		Text:  "in package vm, in every function literal with the signature of a native method, a local of type value.Value declared without an initial value (`var x value.Value`) is assigned on every path to a `return x, value.Undefined`",
		Floor: 3,
		Run:   runResultDefined,
	})
}

func runResultDefined(c *Ctx) {
	p := c.Pkg("vm")
	info := p.TypesInfo
	isValue := func(t types.Type) bool { return t != nil && NamedOf(t) == "value.Value" }
	n := map[string]int{}
	// function literals that are registered as native methods: arguments of Def(..)
	registered := map[*ast.FuncLit]bool{}
	c.Funcs("vm", func(fr *FuncRef) {
		ast.Inspect(fr.Decl.Body, func(nd ast.Node) bool {
			call, ok := nd.(*ast.CallExpr)
			if !ok {
				return true
			}
			if fn := Callee(info, call); fn == nil || fn.Name() != "Def" {
				return true
			}
			for _, a := range call.Args {
				if lit, ok := a.(*ast.FuncLit); ok {
					registered[lit] = true
				}
			}
			return true
		})
	})
	c.Stats["registered_native_literals"] = len(registered)
	c.Funcs("vm", func(fr *FuncRef) {
		ast.Inspect(fr.Decl.Body, func(nd ast.Node) bool {
			lit, ok := nd.(*ast.FuncLit)
			if !ok {
				return true
			}
			sig, ok := info.TypeOf(lit).(*types.Signature)
			if !ok || sig.Results().Len() != 2 || !isValue(sig.Results().At(0).Type()) || !isValue(sig.Results().At(1).Type()) {
				return true
			}
			// a literal `return value.Undefined, value.Undefined`: "no result, no error"
			ast.Inspect(lit.Body, func(m ast.Node) bool {
				if inner, ok := m.(*ast.FuncLit); ok && inner != lit {
					return false
				}
				r, ok := m.(*ast.ReturnStmt)
				if !ok || len(r.Results) != 2 {
					return true
				}
				isUndef := func(e ast.Expr) bool {
					sel, ok := ast.Unparen(e).(*ast.SelectorExpr)
					return ok && sel.Sel.Name == "Undefined" && NamedOf(info.TypeOf(sel)) == "value.Value"
				}
				if isUndef(r.Results[0]) && isUndef(r.Results[1]) && registered[lit] {
					name := FuncName(fr.Decl) + "/return-undefined"
					n[name]++
					c.Bad(name+"#"+itoa(n[name]), r.Pos(), "a native method defined in %s returns `value.Undefined` as its result together with no error: the VM-internal `undefined` escapes into the program (it is not nil: `x == nil` is false, it prints as `undefined`, and typed operations on it end in a Go panic)", FuncName(fr.Decl))
				}
				return true
			})
			// uninitialised Value locals of this literal
			var vars []types.Object
			ast.Inspect(lit.Body, func(m ast.Node) bool {
				if inner, ok := m.(*ast.FuncLit); ok && inner != lit {
					return false
				}
				ds, ok := m.(*ast.DeclStmt)
				if !ok {
					return true
				}
				gd, ok := ds.Decl.(*ast.GenDecl)
				if !ok || gd.Tok != token.VAR {
					return true
				}
				for _, sp := range gd.Specs {
					vs := sp.(*ast.ValueSpec)
					if len(vs.Values) != 0 {
						continue
					}
					for _, id := range vs.Names {
						if o := info.Defs[id]; o != nil && isValue(o.Type()) {
							vars = append(vars, o)
						}
					}
				}
				return true
			})
			if len(vars) == 0 || len(vars) > 8 {
				return true
			}
			idx := map[types.Object]uint{}
			for i, o := range vars {
				idx[o] = uint(i)
			}
			type st struct{ unset uint8 }
			bad := map[types.Object]token.Pos{}
			pe := &PathEval[st]{Info: info}
			pe.Stmt = func(s st, stm ast.Stmt) ([]st, bool) {
				switch x := stm.(type) {
				case *ast.DeclStmt:
					return nil, false
				case *ast.AssignStmt:
					for _, l := range x.Lhs {
						if id, ok := l.(*ast.Ident); ok {
							if i, ok := idx[info.ObjectOf(id)]; ok {
								s.unset &^= 1 << i
							}
						}
					}
					return []st{s}, true
				case *ast.RangeStmt:
					// `for v, err := range ...` does not assign our variables by itself
					return nil, false
				}
				return nil, false
			}
			pe.Cond = func(s st, cond ast.Expr, branch bool) []st {
				// `!x.IsUndefined()` taken, or `x.IsUndefined()` not taken: x holds a value
				cond = ast.Unparen(cond)
				neg := false
				if un, ok := cond.(*ast.UnaryExpr); ok && un.Op == token.NOT {
					neg = true
					cond = ast.Unparen(un.X)
				}
				call, ok := cond.(*ast.CallExpr)
				if !ok {
					return []st{s}
				}
				sel, ok := call.Fun.(*ast.SelectorExpr)
				if !ok || (sel.Sel.Name != "IsUndefined" && sel.Sel.Name != "IsNotUndefined") {
					return []st{s}
				}
				id, ok := ast.Unparen(sel.X).(*ast.Ident)
				if !ok {
					return []st{s}
				}
				i, ok := idx[info.Uses[id]]
				if !ok {
					return []st{s}
				}
				isUndefTest := sel.Sel.Name == "IsUndefined"
				// value present when: (IsUndefined && branch==neg) or (IsNotUndefined && branch!=neg)
				if (isUndefTest && branch == neg) || (!isUndefTest && branch != neg) {
					s.unset &^= 1 << i
				}
				return []st{s}
			}
			pe.Return = func(s st, r *ast.ReturnStmt) []st {
				if len(r.Results) != 2 {
					return []st{s}
				}
				id, ok := ast.Unparen(r.Results[0]).(*ast.Ident)
				if !ok {
					return []st{s}
				}
				i, ok := idx[info.Uses[id]]
				if !ok || s.unset&(1<<i) == 0 {
					return []st{s}
				}
				// the error result must be the constant "no error"
				if sel, ok := ast.Unparen(r.Results[1]).(*ast.SelectorExpr); ok && sel.Sel.Name == "Undefined" {
					if _, seen := bad[info.Uses[id]]; !seen {
						bad[info.Uses[id]] = r.Pos()
					}
				}
				return []st{s}
			}
			var all uint8
			for i := range vars {
				all |= 1 << uint(i)
			}
			pe.Block(newSet(st{unset: all}), lit.Body.List)
			for _, o := range vars {
				name := FuncName(fr.Decl) + "/" + o.Name()
				n[name]++
				key := name + "#" + itoa(n[name])
				if pos, isBad := bad[o]; isBad {
					c.Bad(key, pos, "a native defined in %s returns `%s` as its result with no error on a path where it was never assigned (the loop that assigns it may not run at all): the VM-internal `undefined` escapes into the program, and the first operation on it ends in a Go panic", FuncName(fr.Decl), o.Name())
				} else {
					c.OK(key, o.Pos(), "assigned on every path to a return of it")
				}
			}
			return true
		})
	})
}
