package main

import (
	"fmt"
	"go/ast"
	"go/token"
	"go/types"
	"strings"
)

// bind/static-guard (C02): the compilers bind a method call statically (no
// lookup on the run-time class) when the receiver's static type is a class.
// That is only sound if the value cannot be an instance of a subclass: the
// static type is `exact`, or the class has no children. Every statically
// bound call site for a class receiver must therefore be control-dependent
// on that test.

func init() {
	register(&Rule{
		ID:    "bind/static-guard",
		Text:  "in both compilers, every call of the static-binding routine (compileOptimisedCallMethod and its Go-backend sibling) that sits in a type-switch arm for a class receiver (*types.Class directly, as the namespace of a generic, or as the object a singleton class is attached to) is inside an if whose condition is `exact || <that class>.Children.Len() == 0`; arms for modules and for singletons of non-classes need no guard (they cannot have subclasses)",
		Floor: 6,
		Run:   runStaticBindGuard,
	})
}

func runStaticBindGuard(c *Ctx) {
	p := c.Pkg("compiler")
	info := p.TypesInfo
	c.Funcs("compiler", func(fr *FuncRef) {
		// anchor by shape: the dispatchers that consult Children
		consults := false
		ast.Inspect(fr.Decl.Body, func(n ast.Node) bool {
			if sel, ok := n.(*ast.SelectorExpr); ok && sel.Sel.Name == "Children" {
				consults = true
			}
			return true
		})
		if !consults {
			return
		}
		n := 0
		var stack []ast.Node
		ast.Inspect(fr.Decl.Body, func(nd ast.Node) bool {
			if nd == nil {
				stack = stack[:len(stack)-1]
				return true
			}
			stack = append(stack, nd)
			call, ok := nd.(*ast.CallExpr)
			if !ok {
				return true
			}
			fn := Callee(info, call)
			if fn == nil || !(strings.Contains(fn.Name(), "Optimised") || strings.Contains(fn.Name(), "Optimized")) || fn.Name() == fr.Decl.Name.Name {
				return true
			}
			n++
			key := fmt.Sprintf("%s/static-call#%d", FuncName(fr.Decl), n)
			// nearest enclosing type-switch clause
			var clause *ast.CaseClause
			clauseIdx := -1
			for i := len(stack) - 2; i >= 0; i-- {
				if cc, ok := stack[i].(*ast.CaseClause); ok && i >= 2 {
					if _, ok := stack[i-2].(*ast.TypeSwitchStmt); ok {
						clause, clauseIdx = cc, i
						break
					}
				}
			}
			if clause == nil {
				c.Unknown(key, call.Pos(), "static binding outside a type-switch arm over the receiver type")
				return true
			}
			classArm := false
			for _, e := range clause.List {
				if NamedOf(info.TypeOf(e)) == "types.Class" {
					classArm = true
				}
			}
			if !classArm {
				kind := "default"
				if len(clause.List) > 0 {
					kind = types.ExprString(clause.List[0])
				}
				c.OK(key, call.Pos(), "arm for a receiver kind that cannot have subclasses (%s)", kind)
				return true
			}
			guarded := false
			for i := clauseIdx + 1; i < len(stack)-1; i++ {
				if ifs, ok := stack[i].(*ast.IfStmt); ok && i+1 < len(stack) && stack[i+1] == ast.Node(ifs.Body) {
					// every disjunct has to be one of the two sound reasons: the static type is
					// exact, or the class has no children at all. A further disjunct ("no child
					// overrides the method") is a new reason that nothing here can vouch for -
					// Children holds the direct subclasses only
					var disjuncts []ast.Expr
					var flat func(e ast.Expr)
					flat = func(e ast.Expr) {
						e = ast.Unparen(e)
						if be, ok := e.(*ast.BinaryExpr); ok && be.Op == token.LOR {
							flat(be.X)
							flat(be.Y)
							return
						}
						disjuncts = append(disjuncts, e)
					}
					flat(ifs.Cond)
					hasExact, hasNoChildren, other := false, false, false
					for _, d := range disjuncts {
						txt := types.ExprString(d)
						switch {
						case txt == "exact":
							hasExact = true
						case strings.HasSuffix(txt, ".Children.Len() == 0"):
							hasNoChildren = true
						default:
							other = true
						}
					}
					if hasExact && hasNoChildren && !other {
						guarded = true
					}
				}
			}
			c.Check(guarded, key, call.Pos(), "%s binds a call statically in the arm for a class receiver without the test `exact || <class>.Children.Len() == 0`: a value of a subclass that overrides the method would run the superclass method", FuncName(fr.Decl))
			return true
		})
	})
}
