package main

import (
	"go/ast"
	"go/token"
	"go/types"
	"strings"
)

// upvalue/capture-walk (C13): two closures that capture the same variable must
// share ONE upvalue. captureUpvalue guarantees that by walking the list of
// open upvalues (sorted by slot address, highest first) to the first entry
// whose slot is not above the captured slot, and reusing it when it IS that
// slot. The walk must therefore stop AT an entry with an equal slot: a stop
// condition `<` or a continue condition `>=` walks past it, a second upvalue
// is created for the same variable, and writes through one closure are not
// seen by the other.

func init() {
	register(&Rule{
		ID:    "upvalue/capture-walk",
		Text:  "in the VM function that captures an upvalue for a stack slot: every comparison between a list entry's slot and the captured slot that ends the walk is non-strict in the direction `entry <= slot`, every comparison that continues the walk is strict (`entry > slot`), and after the walk the entry is reused under an equality test of the two slots",
		Floor: 2,
		Run:   runCaptureWalk,
	})
}

func runCaptureWalk(c *Ctx) {
	p := c.Pkg("vm")
	info := p.TypesInfo
	var fr *FuncRef
	c.Funcs("vm", func(f *FuncRef) {
		if recvTypeName(f.Decl) != "Thread" {
			return
		}
		sig := f.Obj.Type().(*types.Signature)
		if sig.Results().Len() != 1 || NamedOf(sig.Results().At(0).Type()) != "vm.Upvalue" || sig.Params().Len() != 1 {
			return
		}
		reads := false
		ast.Inspect(f.Decl.Body, func(n ast.Node) bool {
			if sel, ok := n.(*ast.SelectorExpr); ok && sel.Sel.Name == "openUpvalueHead" {
				reads = true
			}
			return true
		})
		if reads {
			fr = f
		}
	})
	if fr == nil {
		c.Stale("vm: Thread method (slot) *Upvalue reading openUpvalueHead")
	}
	param := info.Defs[fr.Decl.Type.Params.List[0].Names[0]]
	// strip conversions: (uintptr)(unsafe.Pointer(x)) -> x
	var strip func(e ast.Expr) ast.Expr
	strip = func(e ast.Expr) ast.Expr {
		e = ast.Unparen(e)
		if call, ok := e.(*ast.CallExpr); ok && len(call.Args) == 1 {
			if tv, ok := info.Types[call.Fun]; ok && tv.IsType() {
				return strip(call.Args[0])
			}
		}
		return e
	}
	// locals that hold the captured slot's address: x := uintptr(unsafe.Pointer(slot))
	derived := map[types.Object]bool{param: true}
	ast.Inspect(fr.Decl.Body, func(n ast.Node) bool {
		if as, ok := n.(*ast.AssignStmt); ok && len(as.Lhs) == 1 && len(as.Rhs) == 1 {
			if id, ok := as.Lhs[0].(*ast.Ident); ok {
				if rid, ok := strip(as.Rhs[0]).(*ast.Ident); ok && derived[info.Uses[rid]] {
					derived[info.ObjectOf(id)] = true
				}
			}
		}
		return true
	})
	isParam := func(e ast.Expr) bool {
		id, ok := strip(e).(*ast.Ident)
		return ok && derived[info.Uses[id]]
	}
	isEntrySlot := func(e ast.Expr) bool {
		sel, ok := strip(e).(*ast.SelectorExpr)
		return ok && sel.Sel.Name == "slot"
	}
	flip := map[token.Token]token.Token{token.LSS: token.GTR, token.LEQ: token.GEQ, token.GTR: token.LSS, token.GEQ: token.LEQ, token.EQL: token.EQL, token.NEQ: token.NEQ}
	nStop, nCont, nEq := 0, 0, 0
	var visit func(n ast.Node, ctx string)
	record := func(be *ast.BinaryExpr, ctx string) {
		op := be.Op
		switch {
		case isEntrySlot(be.X) && isParam(be.Y):
		case isParam(be.X) && isEntrySlot(be.Y):
			op = flip[op]
		default:
			return
		}
		switch op {
		case token.EQL:
			nEq++
			return
		case token.LSS, token.LEQ, token.GTR, token.GEQ:
		default:
			return
		}
		switch ctx {
		case "stop":
			nStop++
			c.Check(op == token.LEQ, "stop#"+itoa(nStop), be.Pos(), "%s ends its walk of the open upvalues on `entry.slot %s slot`; it must end on `<=`: otherwise an existing upvalue for the same slot is walked past (or the walk stops early) and a second upvalue is created for one variable", FuncName(fr.Decl), op)
		case "continue":
			nCont++
			c.Check(op == token.GTR, "continue#"+itoa(nCont), be.Pos(), "%s continues its walk of the open upvalues while `entry.slot %s slot`; it must continue only while `>`: with `>=` the existing upvalue for the same slot is walked past and a second upvalue is created for one variable", FuncName(fr.Decl), op)
		}
	}
	visit = func(n ast.Node, ctx string) {
		ast.Inspect(n, func(m ast.Node) bool {
			switch x := m.(type) {
			case *ast.ForStmt:
				if x.Cond != nil {
					visit(x.Cond, "continue")
				}
				visit(x.Body, ctx)
				return false
			case *ast.IfStmt:
				// if cond { break } / { return ... } inside a loop: stop condition
				stop := false
				if len(x.Body.List) > 0 {
					switch last := x.Body.List[len(x.Body.List)-1].(type) {
					case *ast.BranchStmt:
						stop = last.Tok == token.BREAK
					}
				}
				if stop {
					visit(x.Cond, "stop")
				} else {
					visit(x.Cond, ctx+"")
				}
				visit(x.Body, ctx)
				if x.Else != nil {
					visit(x.Else, ctx)
				}
				return false
			case *ast.BinaryExpr:
				if x.Op == token.LAND || x.Op == token.LOR {
					return true
				}
				record(x, ctx)
				return false
			}
			return true
		})
	}
	visit(fr.Decl.Body, "")
	c.Check(nStop+nCont >= 1, "walk-present", fr.Decl.Pos(), "%s has no ordered comparison between an entry's slot and the captured slot in a loop: the open-upvalue list is not searched", FuncName(fr.Decl))
	c.Check(nEq >= 1, "reuse-test", fr.Decl.Pos(), "%s never tests `entry.slot == slot`: an existing upvalue for the slot is never reused", FuncName(fr.Decl))
	_ = strings.TrimSpace
}
