// elkcheck: repository-specific static analysis of elk-language/elk.
// See /verif/DESIGN.md. Every run loads /repo's current working tree,
// evaluates the rule instances registered for one property, writes
// /verif/evidence/<id>.json, and exits 0 (held), 1 (VIOLATION), 2 (internal
// error) or 3 (STALE-ANCHOR).
package main

import (
	"encoding/json"
	"flag"
	"fmt"
	"go/constant"
	"go/types"
	"os"
	"path/filepath"
	"runtime/debug"
	"sort"
	"strconv"
	"strings"
	"time"
)

func constInt64(tv types.TypeAndValue) (int64, bool) {
	v := constant.ToInt(tv.Value)
	if v.Kind() != constant.Int {
		return 0, false
	}
	return constant.Int64Val(v)
}

// Rule is one rule template; Run fills its slots from the repository and
// records one obligation per instance.
type Rule struct {
	ID       string
	Text     string // the rule, in one or two sentences
	Floor    int    // minimal number of instances (confirmed by hand on the pinned tree)
	Thorough bool   // only in the thorough tier
	Tags     bool   // thorough tier: also evaluated under -tags debug
	Arch     bool   // thorough tier: also evaluated under GOARCH=386 (arch-split siblings of package value)
	Run      func(c *Ctx)
}

// PropSpec binds rules to a property.
type PropSpec struct {
	Rules       []string
	Decides     string
	NotCovered  string
	Technique   string
	Assumptions []string
}

var rules = map[string]*Rule{}
var props = map[string]*PropSpec{}

func register(r *Rule) {
	if rules[r.ID] != nil {
		panic("duplicate rule " + r.ID)
	}
	rules[r.ID] = r
}

func main() {
	prop := flag.String("prop", "", "property id (C01..C34)")
	tier := flag.String("tier", "quick", "quick|thorough")
	repo := flag.String("repo", "/repo", "repository root to analyse")
	verif := flag.String("verif", "/verif", "verif root (evidence, known findings)")
	replay := flag.String("replay", "", "re-evaluate the obligation recorded in this replay file")
	list := flag.Bool("list", false, "list properties and rules")
	onlyRule := flag.String("rule", "", "run only this rule (debugging; no evidence written)")
	verbose := flag.Bool("v", false, "print every obligation")
	manifest := flag.Bool("manifest", false, "print MANIFEST.json")
	flag.BoolVar(&dryRun, "dry", false, "do not write evidence or replay files (self-test against scratch copies)")
	flag.Parse()
	if *manifest {
		writeManifest()
		return
	}

	if *list {
		ids := []string{}
		for id := range props {
			ids = append(ids, id)
		}
		sort.Strings(ids)
		for _, id := range ids {
			fmt.Printf("%s %s\n", id, strings.Join(props[id].Rules, " "))
		}
		return
	}
	if t := os.Getenv("VERIF_TIER"); t != "" && !flagSet("tier") {
		*tier = t
	}
	var replayKey string
	if *replay != "" {
		b, err := os.ReadFile(*replay)
		if err != nil {
			fmt.Fprintln(os.Stderr, "replay:", err)
			os.Exit(2)
		}
		var r struct {
			Property string `json:"property"`
			Key      string `json:"key"`
			Tier     string `json:"tier"`
		}
		if err := json.Unmarshal(b, &r); err != nil {
			fmt.Fprintln(os.Stderr, "replay:", err)
			os.Exit(2)
		}
		*prop, replayKey, *tier = r.Property, r.Key, r.Tier
	}
	spec := props[*prop]
	if spec == nil && *onlyRule == "" {
		fmt.Fprintf(os.Stderr, "unknown property %q\n", *prop)
		os.Exit(2)
	}
	if *tier != "quick" && *tier != "thorough" {
		fmt.Fprintf(os.Stderr, "unknown tier %q\n", *tier)
		os.Exit(2)
	}
	seed := 0
	if s := os.Getenv("VERIF_SEED"); s != "" {
		seed, _ = strconv.Atoi(s)
	}
	os.Exit(run(*prop, spec, *tier, *repo, *verif, *onlyRule, replayKey, seed, *verbose))
}

var dryRun bool

func flagSet(name string) bool {
	set := false
	flag.Visit(func(f *flag.Flag) {
		if f.Name == name {
			set = true
		}
	})
	return set
}

func run(prop string, spec *PropSpec, tier, repo, verif, onlyRule, replayKey string, seed int, verbose bool) (code int) {
	defer func() {
		if r := recover(); r != nil {
			if sa, ok := r.(staleAnchor); ok {
				fmt.Printf("STALE-ANCHOR %s %s\n", sa.rule, sa.what)
				code = 3
				return
			}
			fmt.Fprintf(os.Stderr, "elkcheck: internal error: %v\n%s\n", r, debug.Stack())
			code = 2
		}
	}()
	before := gitStatus(repo)
	known, err := loadKnown(filepath.Join(verif, "known_findings.json"))
	if err != nil {
		fmt.Fprintln(os.Stderr, "known findings:", err)
		return 2
	}
	ruleIDs := []string{onlyRule}
	if onlyRule == "" {
		ruleIDs = spec.Rules
	}
	type buildCfg struct{ tags, arch string }
	configs := []buildCfg{{"", ""}}
	if tier == "thorough" {
		// thorough: also the debug build of the VM and a 32-bit target, which
		// swaps in the *_32sys.go siblings of package value (boxed Int64,
		// UInt64 and Float64)
		configs = append(configs, buildCfg{"debug", ""}, buildCfg{"", "386"})
	}
	var all []*Obligation
	var revs []RuleEvidence
	stats := map[string]int{}
	cfgNames := []string{}
	for ci, cfg := range configs {
		tags := cfg.tags
		// which rules run under this configuration
		var todo []*Rule
		for _, id := range ruleIDs {
			r := rules[id]
			if r == nil {
				fmt.Fprintf(os.Stderr, "unknown rule %q\n", id)
				return 2
			}
			if r.Thorough && tier != "thorough" {
				continue
			}
			if cfg.tags != "" && !r.Tags {
				continue
			}
			if cfg.arch != "" && !r.Arch {
				continue
			}
			todo = append(todo, r)
		}
		if len(todo) == 0 {
			continue
		}
		os.Setenv("ELKCHECK_GOARCH", cfg.arch)
		c, err := Load(repo, tags)
		os.Setenv("ELKCHECK_GOARCH", "")
		if err != nil {
			fmt.Fprintln(os.Stderr, "elkcheck:", err)
			return 2
		}
		c.Tier, c.Prop = tier, prop
		name := "default"
		if tags != "" {
			name = "tags=" + tags
		}
		if cfg.arch != "" {
			name = "goarch=" + cfg.arch
		}
		cfgNames = append(cfgNames, name)
		for _, r := range todo {
			c.curRule = r.ID
			n0 := len(c.Obls)
			r.Run(c)
			mine := c.Obls[n0:]
			re := RuleEvidence{ID: r.ID, Text: r.Text, Floor: r.Floor, Instances: len(mine), BuildConfig: name}
			if len(mine) < r.Floor {
				c.Bad("floor", 0, "rule matched %d instances, fewer than the %d confirmed on the pinned tree: the rule would pass vacuously", len(mine), r.Floor)
				mine = c.Obls[n0:]
			}
			// duplicate keys make known-finding matching ambiguous
			seen := map[string]bool{}
			for _, o := range mine {
				if ci > 0 {
					o.Construct += "@" + name
				}
				if seen[o.Key()] {
					panic("duplicate obligation key " + o.Key())
				}
				seen[o.Key()] = true
			}
			revs = append(revs, re)
		}
		for k, v := range c.Stats {
			if ci == 0 || k != "packages" {
				stats[k] += v
			}
		}
		all = append(all, c.Obls...)
	}
	if after := gitStatus(repo); after != before {
		fmt.Fprintf(os.Stderr, "elkcheck: analysed tree changed during the run\nbefore:\n%safter:\n%s", before, after)
		return 2
	}

	baseKey := func(k string) string {
		return strings.TrimSuffix(strings.TrimSuffix(k, "@tags=debug"), "@goarch=386")
	}
	openKeys := map[string]*KnownFinding{}
	for i := range known.Open {
		openKeys[baseKey(known.Open[i].Key)] = &known.Open[i]
	}
	nViol, nKnown, nDis := 0, 0, 0
	replayDir := filepath.Join(verif, "evidence", "replay")
	var knownHit []string
	for _, o := range all {
		if verbose {
			fmt.Printf("  %-10s %s  %s  %s\n", o.Status, o.Key(), o.Pos, o.Detail)
		}
		if replayKey != "" && o.Key() != replayKey {
			continue
		}
		if o.Status == Violated || o.Status == Undecided {
			base := baseKey(o.Key())
			if kf := openKeys[base]; kf != nil {
				o.Status = Known
				nKnown++
				line := fmt.Sprintf("KNOWN-FINDING: property=%s %s: %s", prop, o.Key(), kf.What)
				knownHit = append(knownHit, o.Key())
				fmt.Println(line)
				continue
			}
			nViol++
			rp := ""
			if onlyRule == "" && !dryRun {
				os.MkdirAll(replayDir, 0o755)
				rp = filepath.Join(replayDir, prop+"-"+sanitize(o.Key())+".json")
				b, _ := json.MarshalIndent(map[string]any{
					"property": prop, "key": o.Key(), "rule": o.Rule, "construct": o.Construct,
					"pos": o.Pos, "detail": o.Detail, "status": o.Status, "tier": tier,
					"rule_text": rules[o.Rule].Text, "repo_head": gitHead(repo),
					"replay_cmd": "/verif/bin/elkcheck -replay " + rp,
				}, "", " ")
				os.WriteFile(rp, b, 0o644)
			}
			fmt.Printf("VIOLATION property=%s replay=%s\n", prop, rp)
			fmt.Printf("  rule      %s  (%s)\n", o.Rule, rules[o.Rule].Text)
			fmt.Printf("  construct %s\n", o.Construct)
			fmt.Printf("  at        %s\n", o.Pos)
			fmt.Printf("  status    %s\n", o.Status)
			fmt.Printf("  detail    %s\n", o.Detail)
		} else {
			nDis++
		}
	}
	for i := range revs {
		for _, o := range all {
			if o.Rule != revs[i].ID || !strings.HasSuffix(nameOfCfg(o), revs[i].BuildConfig) {
				continue
			}
			switch o.Status {
			case Discharged:
				revs[i].Discharged++
			case Known:
				revs[i].Known++
			default:
				revs[i].Violated++
			}
		}
	}
	if onlyRule == "" && replayKey == "" {
		// an open finding of this property that no obligation reproduced: either it
		// was repaired (move it to `fixed`) or the rule has stopped seeing it
		hit := map[string]bool{}
		for _, k := range knownHit {
			hit[baseKey(k)] = true
		}
		for i := range known.Open {
			e := &known.Open[i]
			if e.Property != prop || hit[baseKey(e.Key)] {
				continue
			}
			if strings.Contains(e.Key, "@") && tier != "thorough" {
				continue // only observed in a build configuration of the thorough tier
			}
			fmt.Printf("NOTE: open finding %s of %s was not observed in this run: repaired, or the rule no longer sees it\n", e.Key, prop)
		}
		for _, u := range known.Undecided {
			if u.Property == prop {
				fmt.Printf("KNOWN-FINDING: property=%s (no rule decides this one; demo %s) %s\n", prop, u.Demo, u.What)
			}
		}
	}
	wall := time.Since(startTime).Seconds()
	fmt.Printf("elkcheck property=%s tier=%s obligations=%d discharged=%d known=%d violated=%d wall=%.1fs\n",
		prop, tier, len(all), nDis, nKnown, nViol, wall)
	if onlyRule != "" || replayKey != "" {
		if nViol > 0 {
			return 1
		}
		return 0
	}

	nNonTrivial := 0
	for _, o := range all {
		if !o.Trivial {
			nNonTrivial++
		}
	}
	// samples: a few obligations of every rule, non-discharged first
	var samples []any
	perRule := map[string]int{}
	sorted := append([]*Obligation(nil), all...)
	rank := func(o *Obligation) int {
		switch {
		case o.Status != Discharged:
			return 0
		case !o.Trivial:
			return 1
		}
		return 2
	}
	sort.SliceStable(sorted, func(i, j int) bool { return rank(sorted[i]) < rank(sorted[j]) })
	for _, o := range sorted {
		if perRule[o.Rule] >= 4 {
			continue
		}
		perRule[o.Rule]++
		samples = append(samples, o)
	}
	expl := "Static analysis of /repo's current source (go/packages + go/types" +
		", go/ssa, go/cfg as the rule needs); nothing is executed. DECIDES: " + spec.Decides +
		" NOT COVERED: " + spec.NotCovered
	ev := Evidence{
		PropertyID: prop, Tier: tier, Seed: seed, Level: "other",
		Coverage: map[string]any{
			"explanation":         expl,
			"obligations":         len(all),
			"discharged":          nDis,
			"known_findings":      nKnown,
			"known_finding_keys":  knownHit,
			"evaluations":         len(all),
			"distinct_nontrivial": nNonTrivial,
			"trivial":             len(all) - nNonTrivial,
			"rule":                "one obligation per rule instance (rule template with its slots filled from the repository: an opcode, a native method, a struct field, a call site, a lock region); keys are rule/construct and distinct by construction (a duplicate key aborts the run). An obligation is counted as non-trivial when the unit it names actually contains the construct the rule is about; vacuous discharges (a function that never calls itself under the self-recursion rule, a native that applies no accessor to the argument, an emission with no operator-token test in scope) are counted under `trivial`",
			"rules":               revs,
			"samples":             samples,
			"build_configs":       cfgNames,
			"stats":               stats,
			"repo_head":           gitHead(repo),
			"repo_dirty":          before != "",
			"checker_cmd":         "/verif/bin/elkcheck -prop " + prop + " -tier " + tier,
			"trusted_base":        []string{"go/types, go/ssa, go/cfg (golang.org/x/tools v0.50.0, go1.26.8)", "reasoned exception tables in /verif/elkcheck (one named symbol per entry)", "/verif/known_findings.json (open entries only)"},
			"exhaustive":          true,
		},
		Assumptions: append([]string{
			"a passing run means the enumerated structural conditions hold at every enumerated site; it does not establish the behavioural property as a whole",
		}, spec.Assumptions...),
		WallS:      wall,
		Violations: nViol,
	}
	b, _ := json.MarshalIndent(ev, "", " ")
	if dryRun {
		if nViol > 0 {
			return 1
		}
		return 0
	}
	os.MkdirAll(filepath.Join(verif, "evidence"), 0o755)
	if err := os.WriteFile(filepath.Join(verif, "evidence", prop+".json"), b, 0o644); err != nil {
		fmt.Fprintln(os.Stderr, "evidence:", err)
		return 2
	}
	if nViol > 0 {
		return 1
	}
	return 0
}

func nameOfCfg(o *Obligation) string {
	for _, suf := range []string{"@tags=debug", "@goarch=386"} {
		if strings.HasSuffix(o.Construct, suf) {
			return suf[1:]
		}
	}
	return "default"
}

func sanitize(s string) string {
	var b strings.Builder
	for _, r := range s {
		switch {
		case r >= 'a' && r <= 'z', r >= 'A' && r <= 'Z', r >= '0' && r <= '9', r == '-', r == '_', r == '.':
			b.WriteRune(r)
		default:
			b.WriteByte('-')
		}
	}
	out := b.String()
	if len(out) > 120 {
		out = out[:120]
	}
	return out
}
