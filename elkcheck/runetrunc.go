package main

import (
	"fmt"
	"go/ast"
	"go/parser"
	"go/token"
	"go/types"
)

// front/rune-truncation (C03): the front end classifies input characters
// (is this a hex digit, an ASCII letter, a flag?) and later stages rely on the
// classification - the regex transpiler panics on a caret escape whose letter
// is not ASCII, because the parser is supposed to have rejected it. Converting
// a rune to a byte (byte(r), uint8(r)) before classifying it makes U+0141
// look like 'A'. Such a conversion is only sound where a comparison bounds
// the rune first.

func init() {
	register(&Rule{
		ID:    "front/rune-truncation",
		Text:  "in the lexers and parsers (Elk and regex) no non-constant value of type rune is converted to byte/uint8/int8 unless a comparison of the same expression with a constant (r < C, r <= C, r > C, r >= C) guards the conversion in an enclosing condition, an earlier returning branch, or an enclosing case label set of constants: a truncated rune classifies a non-ASCII character as the ASCII character sharing its low byte",
		Floor: 3,
		Run:   runRuneTruncation,
	})
}

const runeTruncFixture = `package fixture

func classify(table [256]bool, r rune) bool {
	return table[uint8(r)] // unguarded: must be reported
}

func classifyGuarded(table [256]bool, r rune) bool {
	if r > 0xFF {
		return false
	}
	return table[uint8(r)] // guarded by the returning branch above
}
`

type runeTruncSite struct {
	pos     token.Pos
	txt     string
	conv    string
	guarded bool
}

func runRuneTruncation(c *Ctx) {
	// positive fixture: the matcher must report exactly the unguarded site
	{
		fset := token.NewFileSet()
		f, err := parser.ParseFile(fset, "fixture.go", runeTruncFixture, 0)
		if err != nil {
			panic(err)
		}
		info := &types.Info{Types: map[ast.Expr]types.TypeAndValue{}, Defs: map[*ast.Ident]types.Object{}, Uses: map[*ast.Ident]types.Object{}, Selections: map[*ast.SelectorExpr]*types.Selection{}}
		if _, err := (&types.Config{}).Check("fixture", fset, []*ast.File{f}, info); err != nil {
			panic(err)
		}
		bad, good := 0, 0
		for _, d := range f.Decls {
			if fd, ok := d.(*ast.FuncDecl); ok {
				for _, s := range runeTruncSites(info, fd) {
					if s.guarded {
						good++
					} else {
						bad++
					}
				}
			}
		}
		c.Check(bad == 1 && good == 1, "fixture", 0, "the matcher no longer recognises the built-in example (unguarded=%d, guarded=%d; want 1 and 1): the rule would pass vacuously", bad, good)
	}
	for _, rel := range []string{"lexer", "parser", "regex/lexer", "regex/parser", "regex"} {
		p := c.ByRel[rel]
		if p == nil {
			continue
		}
		info := p.TypesInfo
		nSites := 0
		c.Funcs(rel, func(fr *FuncRef) {
			for i, s := range runeTruncSites(info, fr.Decl) {
				nSites++
				key := fmt.Sprintf("%s.%s/conv#%d", rel, FuncName(fr.Decl), i+1)
				c.Check(s.guarded, key, s.pos, "%s.%s converts the rune %s to %s without a bound on it: a character above U+00FF is classified as the ASCII character that shares its low byte", rel, FuncName(fr.Decl), s.txt, s.conv)
			}
		})
		c.OK("package/"+rel, 0, "%d rune-to-byte conversions, all bounded", nSites)
	}
}

func runeTruncSites(info *types.Info, fd *ast.FuncDecl) []runeTruncSite {
	var out []runeTruncSite
	if fd.Body == nil {
		return nil
	}
	{
		{
			fr := &FuncRef{Decl: fd}
			var stack []ast.Node
			ast.Inspect(fr.Decl.Body, func(nd ast.Node) bool {
				if nd == nil {
					stack = stack[:len(stack)-1]
					return true
				}
				stack = append(stack, nd)
				call, ok := nd.(*ast.CallExpr)
				if !ok || len(call.Args) != 1 {
					return true
				}
				tv, ok := info.Types[call.Fun]
				if !ok || !tv.IsType() {
					return true
				}
				tb, ok := tv.Type.Underlying().(*types.Basic)
				if !ok || (tb.Kind() != types.Uint8 && tb.Kind() != types.Int8) {
					return true
				}
				at := info.TypeOf(call.Args[0])
				if at == nil {
					return true
				}
				ab, ok := at.Underlying().(*types.Basic)
				if !ok || ab.Kind() != types.Int32 {
					return true
				}
				if av, ok := info.Types[call.Args[0]]; ok && av.Value != nil {
					return true
				}
				txt := types.ExprString(ast.Unparen(call.Args[0]))
				bounds := func(cond ast.Expr) bool {
					found := false
					ast.Inspect(cond, func(k ast.Node) bool {
						if be, ok := k.(*ast.BinaryExpr); ok {
							switch be.Op {
							case token.LSS, token.LEQ, token.GTR, token.GEQ:
								if types.ExprString(ast.Unparen(be.X)) == txt {
									if v, ok := info.Types[be.Y]; ok && v.Value != nil {
										found = true
									}
								}
								if types.ExprString(ast.Unparen(be.Y)) == txt {
									if v, ok := info.Types[be.X]; ok && v.Value != nil {
										found = true
									}
								}
							}
						}
						return true
					})
					return found
				}
				guarded := false
				// enclosing conditions / constant case labels
				for i := len(stack) - 2; i >= 0 && !guarded; i-- {
					switch x := stack[i].(type) {
					case *ast.IfStmt:
						if bounds(x.Cond) {
							guarded = true
						}
					case *ast.CaseClause:
						if i >= 2 {
							if sw, ok := stack[i-2].(*ast.SwitchStmt); ok && sw.Tag != nil && types.ExprString(ast.Unparen(sw.Tag)) == txt && x.List != nil {
								all := true
								for _, e := range x.List {
									if v, ok := info.Types[e]; !ok || v.Value == nil {
										all = false
									}
								}
								guarded = all
							}
						}
					}
				}
				// earlier top-level returning branch bounding the value
				if !guarded {
					for _, st := range fr.Decl.Body.List {
						ifs, ok := st.(*ast.IfStmt)
						if !ok || ifs.End() > call.Pos() || len(ifs.Body.List) == 0 {
							continue
						}
						if _, isRet := ifs.Body.List[len(ifs.Body.List)-1].(*ast.ReturnStmt); isRet && bounds(ifs.Cond) {
							guarded = true
						}
					}
				}
				out = append(out, runeTruncSite{call.Pos(), txt, types.ExprString(call.Fun), guarded})
				return true
			})
		}
	}
	return out
}
