package main

import (
	"go/ast"
	"go/parser"
	"go/token"
	"go/types"
	"strings"
)

// conv/unsigned-difference-guard (C23, C18): "one unsigned comparison instead
// of two signed ones" - uint(v-lo) <= uint(hi-lo) - is only a range test when
// lo <= hi; a difference of signed numbers converted to an unsigned type wraps
// to a huge value when it is negative. Where the operands are program values
// (the bounds of a range the program wrote, possibly inverted) the conversion
// has to be guarded by a comparison of the two operands.

func init() {
	register(&Rule{
		ID:    "conv/unsigned-difference-guard",
		Text:  "in packages vm and value, wherever a difference of two signed integers is converted to an unsigned integer type, the function has compared the two operands of the difference with each other (a relational test mentioning both) before the conversion; a built-in example keeps the matcher honest since the tree has no instance",
		Floor: 1,
		Run:   runUnsignedDifferenceGuard,
	})
}

const unsignedDiffFixture = `package fixture

func bad(v, lo, hi int) bool {
	return uint(v-lo) <= uint(hi-lo) // must be reported twice
}

func good(v, lo, hi int) bool {
	if lo > hi || v < lo {
		return false
	}
	return uint(v-lo) <= uint(hi-lo)
}
`

type unsignedDiffSite struct {
	pos     token.Pos
	text    string
	guarded bool
}

func unsignedDiffSites(info *types.Info, fd *ast.FuncDecl) []unsignedDiffSite {
	if fd.Body == nil {
		return nil
	}
	var out []unsignedDiffSite
	isSignedInt := func(t types.Type) bool {
		b, ok := t.Underlying().(*types.Basic)
		return ok && b.Info()&types.IsInteger != 0 && b.Info()&types.IsUnsigned == 0
	}
	ast.Inspect(fd.Body, func(n ast.Node) bool {
		conv, ok := n.(*ast.CallExpr)
		if !ok || len(conv.Args) != 1 {
			return true
		}
		tv, ok := info.Types[conv.Fun]
		if !ok || !tv.IsType() {
			return true
		}
		b, ok := tv.Type.Underlying().(*types.Basic)
		if !ok || b.Info()&types.IsUnsigned == 0 {
			return true
		}
		sub, ok := ast.Unparen(conv.Args[0]).(*ast.BinaryExpr)
		if !ok || sub.Op != token.SUB {
			return true
		}
		if t := info.TypeOf(sub); t == nil || !isSignedInt(t) {
			return true
		}
		if atv, ok := info.Types[sub]; ok && atv.Value != nil {
			return true // a constant
		}
		x, y := types.ExprString(ast.Unparen(sub.X)), types.ExprString(ast.Unparen(sub.Y))
		guarded := false
		ast.Inspect(fd.Body, func(m ast.Node) bool {
			be, ok := m.(*ast.BinaryExpr)
			if !ok || be.End() > conv.Pos() {
				return true
			}
			switch be.Op {
			case token.LSS, token.LEQ, token.GTR, token.GEQ:
				l, r := types.ExprString(be.X), types.ExprString(be.Y)
				if (strings.Contains(l, x) && strings.Contains(r, y)) || (strings.Contains(l, y) && strings.Contains(r, x)) {
					guarded = true
				}
			}
			return true
		})
		out = append(out, unsignedDiffSite{conv.Pos(), types.ExprString(conv), guarded})
		return true
	})
	return out
}

var unsignedDiffExempt = map[string]string{
	"vm.Thread.populateMissingParametersInSlice": "the operands are a parameter count and the number of arguments of a call the type checker accepted: it never passes more arguments than the method has parameters (rest arguments arrive packed in one slot), so the difference is not negative",
	"value.StrictParseIntWithErr":                 "bitSize is one of the widths 8, 16, 32, 64 its callers pass as constants; bitSize - 1 is positive",
}

func runUnsignedDifferenceGuard(c *Ctx) {
	{
		fset := token.NewFileSet()
		f, err := parser.ParseFile(fset, "fixture.go", unsignedDiffFixture, 0)
		if err != nil {
			panic(err)
		}
		finfo := &types.Info{Types: map[ast.Expr]types.TypeAndValue{}, Defs: map[*ast.Ident]types.Object{}, Uses: map[*ast.Ident]types.Object{}}
		if _, err := (&types.Config{}).Check("fixture", fset, []*ast.File{f}, finfo); err != nil {
			panic(err)
		}
		bad, good := 0, 0
		for _, d := range f.Decls {
			if fd, ok := d.(*ast.FuncDecl); ok {
				for _, s := range unsignedDiffSites(finfo, fd) {
					if s.guarded {
						good++
					} else {
						bad++
					}
				}
			}
		}
		c.Check(bad == 2 && good == 2, "fixture", 0, "the matcher no longer recognises the built-in example (reported=%d, accepted=%d; want 2 and 2): the rule would pass vacuously", bad, good)
	}
	for _, rel := range []string{"vm", "value"} {
		p := c.Pkg(rel)
		info := p.TypesInfo
		c.Funcs(rel, func(fr *FuncRef) {
			for i, s := range unsignedDiffSites(info, fr.Decl) {
				key := rel + "." + FuncName(fr.Decl) + "/" + s.text + "#" + itoa(i+1)
				if reason, ok := unsignedDiffExempt[rel+"."+FuncName(fr.Decl)]; ok && !s.guarded {
					c.OK(key, s.pos, "reasoned exception: %s", reason)
					continue
				}
				c.Check(s.guarded, key, s.pos, "%s.%s converts the difference `%s` of two signed integers to an unsigned type without having compared its operands with each other: when the difference is negative (an inverted range such as 5...1) it wraps to a huge value, and a single unsigned comparison no longer stands for the two signed ones", rel, FuncName(fr.Decl), s.text)
			}
		})
	}
}
