package main

import (
	"go/ast"
	"go/parser"
	"go/token"
	"go/types"
)

// arith/trunc-not-floor (C06): Elk's `/` and `%` on Int truncate toward zero
// (big.Int.Quo / Rem). big.Int.Rsh is an arithmetic shift: it rounds toward
// negative infinity. A division routine that takes a shift as a shortcut for
// a power-of-two divisor returns a quotient that is one too low for every
// negative, inexact dividend, and `a == (a/b)*b + a%b` stops holding.

func init() {
	register(&Rule{
		ID:    "arith/trunc-not-floor",
		Text:  "in package value, no function that computes a truncated quotient or remainder with math/big (Quo, QuoRem, Rem) also produces a result with big.Int.Rsh; a built-in example keeps the matcher honest since the tree has no instance",
		Floor: 1,
		Run:   runTruncNotFloor,
	})
}

const truncFloorFixture = `package fixture

import "math/big"

func bad(a, b *big.Int, k uint) *big.Int {
	if k > 0 {
		return new(big.Int).Rsh(a, k) // must be reported
	}
	return new(big.Int).Quo(a, b)
}

func good(a, b *big.Int) *big.Int {
	return new(big.Int).Quo(a, b)
}

func shiftOnly(a *big.Int, k uint) *big.Int {
	return new(big.Int).Rsh(a, k)
}
`

// shifters: functions of the analysed package that call big.Int.Rsh themselves.
var truncFloorShifters map[*types.Func]bool

func truncFloorMixes(info *types.Info, fd *ast.FuncDecl) (mixes bool, at token.Pos) {
	if fd.Body == nil {
		return false, token.NoPos
	}
	trunc := false
	var shift token.Pos
	ast.Inspect(fd.Body, func(n ast.Node) bool {
		call, ok := n.(*ast.CallExpr)
		if !ok {
			return true
		}
		if cal := Callee(info, call); cal != nil && truncFloorShifters[cal.Origin()] && shift == token.NoPos {
			shift = call.Pos()
		}
		sel, ok := call.Fun.(*ast.SelectorExpr)
		if !ok {
			return true
		}
		fn, ok := info.Uses[sel.Sel].(*types.Func)
		if !ok || fn.Pkg() == nil || fn.Pkg().Path() != "math/big" {
			return true
		}
		switch fn.Name() {
		case "Quo", "QuoRem", "Rem":
			trunc = true
		case "Rsh":
			if shift == token.NoPos {
				shift = call.Pos()
			}
		}
		return true
	})
	return trunc && shift != token.NoPos, shift
}

func runTruncNotFloor(c *Ctx) {
	{
		fset := token.NewFileSet()
		f, err := parser.ParseFile(fset, "fixture.go", truncFloorFixture, 0)
		if err != nil {
			panic(err)
		}
		finfo := &types.Info{Types: map[ast.Expr]types.TypeAndValue{}, Defs: map[*ast.Ident]types.Object{}, Uses: map[*ast.Ident]types.Object{}, Selections: map[*ast.SelectorExpr]*types.Selection{}}
		conf := &types.Config{Importer: loadedImporter{c.Pkg("value").Types}}
		if _, err := conf.Check("fixture", fset, []*ast.File{f}, finfo); err != nil {
			panic(err)
		}
		bad, good := 0, 0
		for _, d := range f.Decls {
			if fd, ok := d.(*ast.FuncDecl); ok {
				if m, _ := truncFloorMixes(finfo, fd); m {
					bad++
				} else {
					good++
				}
			}
		}
		c.Check(bad == 1 && good == 2, "fixture", 0, "the matcher no longer recognises the built-in example (reported=%d, accepted=%d; want 1 and 2): the rule would pass vacuously", bad, good)
	}
	p := c.Pkg("value")
	info := p.TypesInfo
	truncFloorShifters = map[*types.Func]bool{}
	c.Funcs("value", func(fr *FuncRef) {
		ast.Inspect(fr.Decl.Body, func(n ast.Node) bool {
			if call, ok := n.(*ast.CallExpr); ok {
				if sel, ok := call.Fun.(*ast.SelectorExpr); ok {
					if fn, ok := info.Uses[sel.Sel].(*types.Func); ok && fn.Pkg() != nil && fn.Pkg().Path() == "math/big" && fn.Name() == "Rsh" {
						truncFloorShifters[fr.Obj] = true
					}
				}
			}
			return true
		})
	})
	c.Stats["functions_shifting_right_with_math_big"] = len(truncFloorShifters)
	c.Funcs("value", func(fr *FuncRef) {
		if m, at := truncFloorMixes(info, fr.Decl); m {
			c.Bad(FuncName(fr.Decl), at, "%s computes a truncated quotient or remainder with math/big and, on another path, a result with big.Int.Rsh: the shift rounds toward negative infinity while Elk's division truncates toward zero, so the shortcut is one too low for every negative, inexact dividend", FuncName(fr.Decl))
		}
	})
}

// loadedImporter resolves imports of a fixture from the packages the analysed
// program has already loaded (no export data is read again).
type loadedImporter struct{ root *types.Package }

func (l loadedImporter) Import(path string) (*types.Package, error) {
	seen := map[*types.Package]bool{}
	var find func(p *types.Package) *types.Package
	find = func(p *types.Package) *types.Package {
		if seen[p] {
			return nil
		}
		seen[p] = true
		if p.Path() == path {
			return p
		}
		for _, q := range p.Imports() {
			if r := find(q); r != nil {
				return r
			}
		}
		return nil
	}
	if r := find(l.root); r != nil {
		return r, nil
	}
	return nil, &importError{path}
}

type importError struct{ path string }

func (e *importError) Error() string { return "fixture import not loaded: " + e.path }
