package main

import (
	"go/ast"
	"go/token"
	"go/types"
	"sort"
)

// layout/params-first (C01, C14, C15, C29): the VM passes arguments in the
// first slots of the callee's frame (fp+1 .. fp+n, then the hidden thread
// pool of an async method). The compiler counts those slots with
// `predefinedLocals++`, once per parameter, right after allocating the
// parameter's local index. The indices only coincide with the argument slots
// if nothing else allocates a local index in between: not the defer stack a
// wrapper defines before it runs its body, not a local defined by the code of
// a default value compiled between two parameters.

func init() {
	register(&Rule{
		ID:    "layout/params-first",
		Text:  "in every bytecode-compiler function that counts parameter slots (`predefinedLocals++`), each call that can allocate a local index and is either located before the last such count or in the same loop as one is the allocation of that very parameter (the next allocation-or-count event after it, in the same loop, is the count), and no count sits inside a function literal handed to a callee that can allocate a local index itself",
		Floor: 3,
		Run:   runParamsFirst,
	})
}

func runParamsFirst(c *Ctx) {
	p := c.Pkg("compiler")
	info := p.TypesInfo
	byObj := map[*types.Func]*FuncRef{}
	c.Funcs("compiler", func(fr *FuncRef) { byObj[fr.Obj] = fr })
	isFieldSel := func(e ast.Expr, name string) bool {
		sel, ok := ast.Unparen(e).(*ast.SelectorExpr)
		if !ok || sel.Sel.Name != name {
			return false
		}
		_, isField := info.Uses[sel.Sel].(*types.Var)
		return isField && NamedOf(info.TypeOf(sel.X)) == "compiler.BytecodeCompiler"
	}
	isInc := func(n ast.Node, field string) bool {
		st, ok := n.(*ast.IncDecStmt)
		return ok && st.Tok == token.INC && isFieldSel(st.X, field)
	}
	// allocators: functions that bump lastLocalIndex, and everything from which
	// one is statically reachable inside the package
	mayAlloc := map[*types.Func]bool{}
	for fn, fr := range byObj {
		ast.Inspect(fr.Decl.Body, func(n ast.Node) bool {
			if isInc(n, "lastLocalIndex") {
				mayAlloc[fn] = true
			}
			return true
		})
	}
	if len(mayAlloc) == 0 {
		c.Stale("compiler: a BytecodeCompiler method incrementing lastLocalIndex")
	}
	c.Stats["direct_local_index_allocators"] = len(mayAlloc)
	for changed := true; changed; {
		changed = false
		for fn, fr := range byObj {
			if mayAlloc[fn] {
				continue
			}
			ast.Inspect(fr.Decl.Body, func(n ast.Node) bool {
				if mayAlloc[fn] {
					return false
				}
				if call, ok := n.(*ast.CallExpr); ok {
					if cal := Callee(info, call); cal != nil && mayAlloc[cal.Origin()] {
						mayAlloc[fn] = true
						changed = true
					}
				}
				return true
			})
		}
	}
	c.Stats["functions_that_may_allocate_a_local_index"] = len(mayAlloc)

	type event struct {
		pos   token.Pos
		inc   bool
		loop  ast.Node // innermost enclosing for/range, nil if none
		call  *ast.CallExpr
		inLit []*ast.CallExpr // calls whose argument is a func literal enclosing this event
	}
	var frs []*FuncRef
	for _, fr := range byObj {
		frs = append(frs, fr)
	}
	sort.Slice(frs, func(i, j int) bool { return frs[i].Decl.Pos() < frs[j].Decl.Pos() })
	for _, fr := range frs {
		var evs []event
		var stack []ast.Node
		ast.Inspect(fr.Decl.Body, func(n ast.Node) bool {
			if n == nil {
				stack = stack[:len(stack)-1]
				return true
			}
			stack = append(stack, n)
			var ev *event
			if isInc(n, "predefinedLocals") {
				ev = &event{pos: n.Pos(), inc: true}
			} else if call, ok := n.(*ast.CallExpr); ok {
				if cal := Callee(info, call); cal != nil && mayAlloc[cal.Origin()] {
					// the event happens when the call is made, i.e. after its arguments
					ev = &event{pos: call.Rparen, call: call}
				}
			}
			if ev == nil {
				return true
			}
			for i := len(stack) - 2; i >= 0; i-- {
				switch x := stack[i].(type) {
				case *ast.ForStmt, *ast.RangeStmt:
					if ev.loop == nil {
						ev.loop = x
					}
				case *ast.FuncLit:
					if i > 0 {
						if call, ok := stack[i-1].(*ast.CallExpr); ok {
							for _, a := range call.Args {
								if a == x {
									ev.inLit = append(ev.inLit, call)
								}
							}
						}
					}
				}
			}
			evs = append(evs, *ev)
			return true
		})
		var lastInc token.Pos
		incLoops := map[ast.Node]bool{}
		nInc := 0
		for _, e := range evs {
			if e.inc {
				nInc++
				if e.pos > lastInc {
					lastInc = e.pos
				}
				if e.loop != nil {
					incLoops[e.loop] = true
				}
			}
		}
		if nInc == 0 {
			continue
		}
		sort.SliceStable(evs, func(i, j int) bool { return evs[i].pos < evs[j].pos })
		key := FuncName(fr.Decl) + "/param-slots"
		var bad token.Pos
		why := ""
		for i, e := range evs {
			if e.inc {
				for _, w := range e.inLit {
					cal := Callee(info, w)
					if cal == nil {
						bad, why = e.pos, "the parameter slot is counted inside a function literal handed to a callee that cannot be resolved"
					} else if mayAlloc[cal.Origin()] {
						bad, why = e.pos, "the parameter slot is counted inside a function literal handed to "+cal.Name()+", which can allocate a local index of its own before it runs the literal"
					}
				}
				continue
			}
			if !(e.pos < lastInc || e.loop != nil && incLoops[e.loop]) {
				continue
			}
			// a call whose func-literal argument contains the counts is judged above
			enclosesInc := false
			for _, o := range evs {
				if o.inc {
					for _, w := range o.inLit {
						if w == e.call {
							enclosesInc = true
						}
					}
				}
			}
			if enclosesInc {
				continue
			}
			paired := i+1 < len(evs) && evs[i+1].inc && evs[i+1].loop == e.loop
			if !paired && bad == token.NoPos {
				cal := Callee(info, e.call)
				bad, why = e.call.Pos(), "the call to "+cal.Name()+" can allocate a local index between two parameters (or before the first one) without that index being counted as a parameter slot"
			}
		}
		c.Check(bad == token.NoPos, key, bad, "%s counts %d parameter slot(s), but %s: the parameters' local indices no longer coincide with the frame slots the VM passes the arguments in, so a parameter is read from (and a hidden local written to) a neighbouring argument's slot", FuncName(fr.Decl), nInc, why)
	}
}
