package main

import (
	"go/ast"
	"go/types"
	"sort"
	"strings"
)

// range/kind-matrix (C23): each of the eight range kinds is implemented in
// its own file, and the same fact - is the left/right end included? - is
// written several times per kind: the answer of is_left_closed /
// is_right_closed, and the comparison the containment test applies to the
// start and the end. They must agree per kind, and the sibling files must
// register the same methods where the kind has that end.

func init() {
	register(&Rule{
		ID:    "range/kind-matrix",
		Text:  "for every range kind of the VM: is_left_closed answers true exactly when the containment function compares the value with Start using a non-strict operator (GreaterThanEqual), false when it uses the strict one (GreaterThan); likewise is_right_closed with End (LessThanEqual / LessThan); a kind without that end has no comparison with it and answers false",
		Floor: 12,
		Run:   runRangeKind,
	})
}

func runRangeKind(c *Ctx) {
	p := c.Pkg("vm")
	info := p.TypesInfo
	type kind struct {
		name        string
		leftClosed  string // "true"/"false"/""
		rightClosed string
		startCmp    string
		endCmp      string
		pos         ast.Node
	}
	kinds := map[string]*kind{}
	get := func(n string) *kind {
		if kinds[n] == nil {
			kinds[n] = &kind{name: n}
		}
		return kinds[n]
	}
	// containment functions: XRangeContains(vm, r *value.XRange, val)
	c.Funcs("vm", func(fr *FuncRef) {
		name := fr.Decl.Name.Name
		if fr.Decl.Recv == nil && strings.HasSuffix(name, "RangeContains") {
			k := get(strings.TrimSuffix(name, "Contains"))
			k.pos = fr.Decl
			ast.Inspect(fr.Decl.Body, func(n ast.Node) bool {
				call, ok := n.(*ast.CallExpr)
				if !ok || len(call.Args) != 3 {
					return true
				}
				fn := Callee(info, call)
				if fn == nil {
					return true
				}
				switch fn.Name() {
				case "GreaterThan", "GreaterThanEqual", "LessThan", "LessThanEqual":
				default:
					return true
				}
				arg := types.ExprString(ast.Unparen(call.Args[2]))
				switch {
				case strings.HasSuffix(arg, ".Start"):
					k.startCmp = fn.Name()
				case strings.HasSuffix(arg, ".End"):
					k.endCmp = fn.Name()
				}
				return true
			})
		}
		// registration: initXRange() { Def(c, "is_left_closed", func.. { return value.True/False ... }) }
		if fr.Decl.Recv == nil && strings.HasPrefix(name, "init") && strings.HasSuffix(name, "Range") {
			k := get(strings.TrimPrefix(name, "init"))
			ast.Inspect(fr.Decl.Body, func(n ast.Node) bool {
				call, ok := n.(*ast.CallExpr)
				if !ok || len(call.Args) < 3 {
					return true
				}
				if fn := Callee(info, call); fn == nil || fn.Name() != "Def" {
					return true
				}
				mname, _ := strConst(info, call.Args[1])
				if mname != "is_left_closed" && mname != "is_right_closed" {
					return true
				}
				fl, ok := call.Args[2].(*ast.FuncLit)
				if !ok {
					return true
				}
				ans := ""
				ast.Inspect(fl.Body, func(m ast.Node) bool {
					if sel, ok := m.(*ast.SelectorExpr); ok && (sel.Sel.Name == "True" || sel.Sel.Name == "False") {
						ans = strings.ToLower(sel.Sel.Name)
					}
					return true
				})
				if mname == "is_left_closed" {
					k.leftClosed = ans
				} else {
					k.rightClosed = ans
				}
				return true
			})
		}
	})
	var names []string
	for n, k := range kinds {
		if k.pos != nil {
			names = append(names, n)
		}
	}
	sort.Strings(names)
	if len(names) < 6 {
		c.Stale("vm: *RangeContains functions (found " + strings.Join(names, ",") + ")")
	}
	want := func(cmp, strict, lax string) string {
		switch cmp {
		case lax:
			return "true"
		case strict:
			return "false"
		case "":
			return "false"
		}
		return "?"
	}
	for _, n := range names {
		k := kinds[n]
		wl := want(k.startCmp, "GreaterThan", "GreaterThanEqual")
		wr := want(k.endCmp, "LessThan", "LessThanEqual")
		c.Check(k.leftClosed == wl, n+"/left", k.pos.Pos(), "%s: is_left_closed answers %q but the containment test compares with Start using %q: `r.contains(r.start)` and `r.is_left_closed` disagree", n, k.leftClosed, k.startCmp)
		c.Check(k.rightClosed == wr, n+"/right", k.pos.Pos(), "%s: is_right_closed answers %q but the containment test compares with End using %q: `r.contains(r.end)` and `r.is_right_closed` disagree", n, k.rightClosed, k.endCmp)
	}
}
