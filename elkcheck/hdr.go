package main

import (
	"fmt"
	"go/ast"
	"go/constant"
	"go/token"
	"go/types"
	"sort"
	"strings"
)

// ---------------------------------------------------------------------------
// Header side: types/headers.go (generated) is a tree of blocks, each binding
// `namespace` and defining methods with DefineMethod.

type hdrParam struct {
	Name string
	Type ast.Expr
	Kind string // NormalParameterKind, DefaultValueParameterKind, PositionalRestParameterKind, NamedRestParameterKind
}

type hdrMethod struct {
	NS        string // "Std::ClosedRange"
	Singleton bool
	Name      string
	Native    bool
	Abstract  bool
	Params    []hdrParam
	Ret       ast.Expr
	Throw     ast.Expr
	Pos       token.Pos
	InExtend  bool // defined inside an `extend where` mixin block
}

func (m *hdrMethod) ID() string {
	sep := "#"
	if m.Singleton {
		sep = "::"
	}
	return m.NS + sep + m.Name
}

type headers struct {
	Methods []*hdrMethod
	ByID    map[string]*hdrMethod
	info    *types.Info
	// namespace kinds: "class", "module", "mixin", "interface"
	Kind map[string]string
	// class flags from TryDefineClass(doc, abstract, sealed, primitive, noinit, immutable?, name, parent, env)
	ClassFlags map[string][]bool
}

func symArg(info *types.Info, e ast.Expr) (string, bool) {
	// value.ToSymbol("x")
	call, ok := ast.Unparen(e).(*ast.CallExpr)
	if !ok || len(call.Args) != 1 {
		return "", false
	}
	if FuncID(Callee(info, call)) != "value.ToSymbol" {
		return "", false
	}
	tv := info.Types[call.Args[0]]
	if tv.Value == nil || tv.Value.Kind() != constant.String {
		return "", false
	}
	return constant.StringVal(tv.Value), true
}

func strConst(info *types.Info, e ast.Expr) (string, bool) {
	tv := info.Types[e]
	if tv.Value == nil || tv.Value.Kind() != constant.String {
		return "", false
	}
	return constant.StringVal(tv.Value), true
}

func (c *Ctx) parseHeaders() *headers {
	fr := c.Func("types", "", "setupGlobalEnvironmentFromHeaders")
	info := fr.Pkg.TypesInfo
	h := &headers{ByID: map[string]*hdrMethod{}, info: info, Kind: map[string]string{}, ClassFlags: map[string][]bool{}}
	nativeFlag := int64(-1)
	abstractFlag := int64(-1)
	if k, ok := fr.Pkg.Types.Scope().Lookup("METHOD_NATIVE_FLAG").(*types.Const); ok {
		nativeFlag, _ = constant.Int64Val(constant.ToInt(k.Val()))
	}
	if k, ok := fr.Pkg.Types.Scope().Lookup("METHOD_ABSTRACT_FLAG").(*types.Const); ok {
		abstractFlag, _ = constant.Int64Val(constant.ToInt(k.Val()))
	}
	if nativeFlag < 0 {
		c.Stale("types.METHOD_NATIVE_FLAG")
	}
	type nsState struct {
		path      string
		singleton bool
		extend    bool
	}
	join := func(p, n string) string {
		if p == "" {
			return n
		}
		return p + "::" + n
	}
	var walk func(stmts []ast.Stmt, ns nsState)
	handleCall := func(call *ast.CallExpr, ns nsState) {
		sel, ok := call.Fun.(*ast.SelectorExpr)
		if !ok {
			return
		}
		recv, ok := sel.X.(*ast.Ident)
		if !ok || recv.Name != "namespace" {
			return
		}
		switch sel.Sel.Name {
		case "DefineMethod":
			if len(call.Args) != 7 {
				c.Stale("DefineMethod with 7 arguments in types/headers.go")
			}
			name, ok := symArg(info, call.Args[2])
			if !ok {
				return
			}
			flags, _ := ConstInt(info, call.Args[1])
			m := &hdrMethod{NS: ns.path, Singleton: ns.singleton, Name: name, Native: flags&nativeFlag != 0,
				Abstract: abstractFlag >= 0 && flags&abstractFlag != 0,
				Ret:      call.Args[5], Throw: call.Args[6], Pos: call.Pos(), InExtend: ns.extend}
			if cl, ok := call.Args[4].(*ast.CompositeLit); ok {
				for _, el := range cl.Elts {
					pc, ok := el.(*ast.CallExpr)
					if !ok || len(pc.Args) < 3 {
						continue
					}
					pn, _ := symArg(info, pc.Args[0])
					kind := ""
					if id, ok := pc.Args[2].(*ast.Ident); ok {
						kind = id.Name
					}
					m.Params = append(m.Params, hdrParam{Name: pn, Type: pc.Args[1], Kind: kind})
				}
			}
			h.Methods = append(h.Methods, m)
			h.ByID[m.ID()] = m
		}
	}
	walk = func(stmts []ast.Stmt, ns nsState) {
		for _, st := range stmts {
			switch x := st.(type) {
			case *ast.BlockStmt:
				walk(x.List, ns)
			case *ast.AssignStmt:
				if len(x.Lhs) == 1 && len(x.Rhs) == 1 {
					if id, ok := x.Lhs[0].(*ast.Ident); ok && id.Name == "namespace" && x.Tok == token.DEFINE {
						rhs := ast.Unparen(x.Rhs[0])
						if ta, ok := rhs.(*ast.TypeAssertExpr); ok {
							rhs = ta.X
						}
						switch r := rhs.(type) {
						case *ast.SelectorExpr: // env.Root
							ns = nsState{}
						case *ast.Ident: // mixin
							ns.extend = true
						case *ast.CallExpr:
							sel, _ := r.Fun.(*ast.SelectorExpr)
							if sel == nil {
								c.Stale("namespace binding form in types/headers.go")
							}
							switch sel.Sel.Name {
							case "MustSubtypeString":
								n, _ := strConst(info, r.Args[0])
								ns = nsState{path: join(ns.path, n)}
							case "Singleton":
								ns.singleton = true
							case "TryDefineClass", "TryDefineModule", "TryDefineMixin", "TryDefineInterface":
								var n string
								for _, a := range r.Args {
									if s, ok := symArg(info, a); ok {
										n = s
									}
								}
								ns = nsState{path: join(ns.path, n)}
								h.noteDef(info, sel.Sel.Name, ns.path, r)
							default:
								c.Stale("namespace binding " + sel.Sel.Name + " in types/headers.go")
							}
						}
						continue
					}
				}
				for _, r := range x.Rhs {
					if call, ok := r.(*ast.CallExpr); ok {
						handleCall(call, ns)
					}
				}
			case *ast.ExprStmt:
				if call, ok := x.X.(*ast.CallExpr); ok {
					// un-nested definitions in the first section
					if sel, ok := call.Fun.(*ast.SelectorExpr); ok {
						switch sel.Sel.Name {
						case "TryDefineClass", "TryDefineModule", "TryDefineMixin", "TryDefineInterface":
							var n string
							for _, a := range call.Args {
								if s, ok := symArg(info, a); ok {
									n = s
								}
							}
							h.noteDef(info, sel.Sel.Name, join(ns.path, n), call)
						}
					}
					handleCall(call, ns)
				}
			}
		}
	}
	walk(fr.Decl.Body.List, nsState{})
	if len(h.Methods) < 1000 {
		c.Stale(fmt.Sprintf("DefineMethod calls in types/headers.go (found %d)", len(h.Methods)))
	}
	return h
}

func (h *headers) noteDef(info *types.Info, fn, path string, call *ast.CallExpr) {
	kind := strings.ToLower(strings.TrimPrefix(fn, "TryDefine"))
	h.Kind[path] = kind
	if kind == "class" {
		var flags []bool
		for _, a := range call.Args {
			if id, ok := a.(*ast.Ident); ok && (id.Name == "true" || id.Name == "false") {
				flags = append(flags, id.Name == "true")
			}
		}
		h.ClassFlags[path] = flags
	}
}

// ---------------------------------------------------------------------------
// Native side

type nativeDef struct {
	NS        string // Elk path of the container's namespace ("" when unresolved)
	NSObj     types.Object
	Singleton bool
	Name      string
	Kind      string // Def, Alias, Getter, Setter, Accessor
	Params    int
	OptParams int
	Func      *ast.FuncLit // nil for aliases/getters
	FuncObj   *types.Func  // when a named function is passed
	AliasOf   string
	Call      *ast.CallExpr
	Pkg       *pkgRef
	In        *ast.FuncDecl
}

type pkgRef struct {
	Rel  string
	Info *types.Info
}

func (n *nativeDef) ID() string {
	sep := "#"
	if n.Singleton {
		sep = "::"
	}
	return n.NS + sep + n.Name
}

type natives struct {
	Defs     []*nativeDef
	ByID     map[string]*nativeDef
	ElkName  map[types.Object]string // namespace variable -> Elk constant path
	Unresolv []*nativeDef
}

// elkNames: constant propagation through X.AddConstantString("N", Ref(Y)).
func (c *Ctx) elkNames() map[types.Object]string {
	type edge struct {
		parent ast.Expr
		info   *types.Info
		name   string
		child  types.Object
	}
	var edges []edge
	names := map[types.Object]string{}
	for _, p := range c.Pkgs {
		info := p.TypesInfo
		for _, f := range p.Syntax {
			ast.Inspect(f, func(n ast.Node) bool {
				call, ok := n.(*ast.CallExpr)
				if !ok {
					return true
				}
				sel, ok := call.Fun.(*ast.SelectorExpr)
				if !ok || sel.Sel.Name != "AddConstantString" || len(call.Args) != 2 {
					return true
				}
				nm, ok := strConst(info, call.Args[0])
				if !ok {
					return true
				}
				// Ref(Y) / value.Ref(Y) / Y.ToValue()
				rc, ok := ast.Unparen(call.Args[1]).(*ast.CallExpr)
				if !ok {
					return true
				}
				var inner ast.Expr
				if len(rc.Args) == 1 && FuncID(Callee(info, rc)) == "value.Ref" {
					inner = rc.Args[0]
				} else if rsel, ok := rc.Fun.(*ast.SelectorExpr); ok && len(rc.Args) == 0 && rsel.Sel.Name == "ToValue" {
					inner = rsel.X
				} else {
					return true
				}
				obj := exprObj(info, inner)
				if obj == nil {
					return true
				}
				edges = append(edges, edge{sel.X, info, nm, obj})
				return true
			})
		}
	}
	// the root: value.RootModule
	if vp := c.ByRel["value"]; vp != nil {
		if o := vp.Types.Scope().Lookup("RootModule"); o != nil {
			names[o] = ""
		}
	}
	rootKnown := map[types.Object]bool{}
	for o := range names {
		rootKnown[o] = true
	}
	for changed := true; changed; {
		changed = false
		for _, e := range edges {
			if _, done := names[e.child]; done {
				continue
			}
			po := exprObj(e.info, e.parent)
			if po == nil {
				continue
			}
			pn, ok := names[po]
			if !ok {
				continue
			}
			if pn == "" {
				names[e.child] = e.name
			} else {
				names[e.child] = pn + "::" + e.name
			}
			changed = true
		}
	}
	return names
}

// exprObj: the variable an expression denotes (ident or pkg.Ident).
func exprObj(info *types.Info, e ast.Expr) types.Object {
	switch x := ast.Unparen(e).(type) {
	case *ast.Ident:
		if o := info.Uses[x]; o != nil {
			return o
		}
		return info.Defs[x]
	case *ast.SelectorExpr:
		if _, isPkg := info.Uses[identOf(x.X)].(*types.PkgName); isPkg {
			return info.Uses[x.Sel]
		}
	}
	return nil
}

func identOf(e ast.Expr) *ast.Ident {
	id, _ := e.(*ast.Ident)
	return id
}

var defFuncs = map[string]string{
	"vm.Def":      "Def",
	"vm.Alias":    "Alias",
	"vm.Getter":   "Getter",
	"vm.Setter":   "Setter",
	"vm.Accessor": "Accessor",
}

// resolveContainer: &NS.MethodContainer / &NS.SingletonClass().MethodContainer
func resolveContainer(info *types.Info, e ast.Expr) (types.Object, bool, bool) {
	u, ok := ast.Unparen(e).(*ast.UnaryExpr)
	if !ok || u.Op != token.AND {
		return nil, false, false
	}
	sel, ok := u.X.(*ast.SelectorExpr)
	if !ok || sel.Sel.Name != "MethodContainer" {
		return nil, false, false
	}
	inner := ast.Unparen(sel.X)
	singleton := false
	if call, ok := inner.(*ast.CallExpr); ok {
		if s2, ok := call.Fun.(*ast.SelectorExpr); ok && s2.Sel.Name == "SingletonClass" {
			singleton = true
			inner = s2.X
		} else {
			return nil, false, false
		}
	}
	obj := exprObj(info, inner)
	return obj, singleton, obj != nil
}

func (c *Ctx) parseNatives() *natives {
	nt := &natives{ByID: map[string]*nativeDef{}, ElkName: c.elkNames()}
	for _, p := range c.Pkgs {
		info := p.TypesInfo
		pr := &pkgRef{Rel: relPkg(p.PkgPath), Info: info}
		for _, f := range p.Syntax {
			for _, d := range f.Decls {
				fd, ok := d.(*ast.FuncDecl)
				if !ok || fd.Body == nil {
					continue
				}
				// assignments to container variables, in textual order
				type asg struct {
					pos token.Pos
					obj types.Object
					rhs ast.Expr
				}
				var asgs []asg
				ast.Inspect(fd.Body, func(n ast.Node) bool {
					if as, ok := n.(*ast.AssignStmt); ok && len(as.Lhs) == len(as.Rhs) {
						for i, l := range as.Lhs {
							if id, ok := l.(*ast.Ident); ok {
								o := info.Defs[id]
								if o == nil {
									o = info.Uses[id]
								}
								if o != nil {
									asgs = append(asgs, asg{as.Pos(), o, as.Rhs[i]})
								}
							}
						}
					}
					return true
				})
				ast.Inspect(fd.Body, func(n ast.Node) bool {
					call, ok := n.(*ast.CallExpr)
					if !ok {
						return true
					}
					kind := defFuncs[FuncID(Callee(info, call))]
					if kind == "" || len(call.Args) < 2 {
						return true
					}
					nd := &nativeDef{Kind: kind, Call: call, Pkg: pr, In: fd}
					name, ok := strConst(info, call.Args[1])
					if !ok {
						return true // name computed at run time (DefineGetter in class bodies)
					}
					nd.Name = name
					cont := call.Args[0]
					if id, ok := ast.Unparen(cont).(*ast.Ident); ok {
						o := info.Uses[id]
						var best ast.Expr
						for _, a := range asgs {
							if a.obj == o && a.pos < call.Pos() {
								best = a.rhs
							}
						}
						if best != nil {
							cont = best
						}
					}
					obj, singleton, ok := resolveContainer(info, cont)
					if ok {
						nd.NSObj, nd.Singleton = obj, singleton
						if en, ok := nt.ElkName[obj]; ok {
							nd.NS = en
						} else {
							nd.NSObj = nil
						}
					}
					switch kind {
					case "Def":
						if len(call.Args) >= 3 {
							if fl, ok := ast.Unparen(call.Args[2]).(*ast.FuncLit); ok {
								nd.Func = fl
							} else if o, ok := exprObj(info, call.Args[2]).(*types.Func); ok {
								nd.FuncObj = o
							}
							for _, opt := range call.Args[3:] {
								oc, ok := opt.(*ast.CallExpr)
								if !ok || len(oc.Args) != 1 {
									continue
								}
								k, _ := ConstInt(info, oc.Args[0])
								switch FuncID(Callee(info, oc)) {
								case "vm.DefWithParameters":
									nd.Params = int(k)
								case "vm.DefWithOptionalParameters":
									nd.OptParams = int(k)
								}
							}
						}
					case "Alias":
						if len(call.Args) >= 3 {
							nd.AliasOf, _ = strConst(info, call.Args[2])
						}
					case "Setter":
						nd.Name += "="
						nd.Params = 1
					case "Accessor":
						// defines both name and name=
					}
					if nd.NSObj == nil {
						nt.Unresolv = append(nt.Unresolv, nd)
						return true
					}
					nt.Defs = append(nt.Defs, nd)
					nt.ByID[nd.ID()] = nd
					if kind == "Accessor" {
						s := *nd
						s.Name += "="
						s.Params = 1
						s.Kind = "Setter"
						nt.Defs = append(nt.Defs, &s)
						nt.ByID[s.ID()] = &s
					}
					return true
				})
			}
		}
	}
	// aliases take the arity of the aliased method
	for _, nd := range nt.Defs {
		if nd.Kind == "Alias" {
			sep := "#"
			if nd.Singleton {
				sep = "::"
			}
			if t := nt.ByID[nd.NS+sep+nd.AliasOf]; t != nil {
				nd.Params, nd.OptParams, nd.Func, nd.FuncObj = t.Params, t.OptParams, t.Func, t.FuncObj
			}
		}
	}
	sort.Slice(nt.Defs, func(i, j int) bool { return nt.Defs[i].ID() < nt.Defs[j].ID() })
	return nt
}

// ---------------------------------------------------------------------------
// hdr/native

func init() {
	register(&Rule{
		ID:    "hdr/native",
		Text:  "every method the std headers declare native has a native registration in the class the header names, with the same number of parameters and of optional parameters; every native registration on a std class has a header declaration",
		Floor: 2000,
		Run:   runHdrNative,
	})
}

func runHdrNative(c *Ctx) {
	h := c.parseHeaders()
	nt := c.parseNatives()
	c.Stats["header_methods"] = len(h.Methods)
	c.Stats["native_registrations"] = len(nt.Defs)
	c.Stats["native_registrations_unresolved_container"] = len(nt.Unresolv)
	haveNS := map[string]bool{}
	for _, nd := range nt.Defs {
		haveNS[nd.NS] = true
	}
	matched := 0
	for _, m := range h.Methods {
		if !m.Native || m.Abstract {
			continue // `sig` declarations are abstract: implemented by the including class
		}
		nd := nt.ByID[m.ID()]
		key := "hdr/" + m.ID()
		if nd == nil {
			// provided through an included mixin / a container this analysis
			// does not resolve, or genuinely missing: not decided here
			c.Stats["header_native_methods_without_resolved_registration"]++
			continue
		}
		matched++
		want := len(m.Params)
		opt := 0
		for _, p := range m.Params {
			if p.Kind == "DefaultValueParameterKind" {
				opt++
			}
		}
		if nd.Kind == "Getter" || nd.Kind == "Setter" || nd.Kind == "Accessor" {
			c.Check(nd.Params == want, key, m.Pos, "header: %d parameters; %s registration at %s", want, nd.Kind, c.Pos(nd.Call.Pos()))
			continue
		}
		// optional counts are not compared: call sites bound statically fill
		// omitted optional arguments with `undefined` from the header alone
		if reason, ok := hdrSurplusParams[m.ID()]; ok && nd.Params > want {
			c.OK(key, m.Pos, "native registration takes %d parameters, header %d: reasoned exception (%s)", nd.Params, want, reason)
			continue
		}
		c.Check(nd.Params == want, key, m.Pos,
			"header: %d parameters (%d optional); native registration at %s: %d parameters (%d optional)",
			want, opt, c.Pos(nd.Call.Pos()), nd.Params, nd.OptParams)
	}
	c.Stats["header_native_methods_matched"] = matched
	seenNative := map[string]bool{}
	for _, nd := range nt.Defs {
		if !strings.HasPrefix(nd.NS, "Std") {
			continue
		}
		if seenNative[nd.ID()] {
			c.Stats["native_registrations_repeated"]++
			continue
		}
		seenNative[nd.ID()] = true
		key := "native/" + nd.ID()
		m := h.ByID[nd.ID()]
		if m == nil {
			// a native override of a method the headers declare on a
			// superclass, mixin or interface: not an obligation
			c.Stats["native_registrations_without_own_header"]++
			continue
		}
		c.Check(m.Native, key, nd.Call.Pos(), "registered natively; header at %s declares it %s", c.Pos(m.Pos), map[bool]string{true: "native", false: "non-native"}[m.Native])
	}
}

// hdrSurplusParams: natives registered with more parameters than their
// header declares. The VM fills the surplus with `undefined`
// (populateMissingParametersOnStack), so this is harmless exactly when the
// surplus parameters are trailing and the native tolerates `undefined` there.
// One named method per entry, confirmed by reading its body.
var hdrSurplusParams = map[string]string{
	"Std::Iterable::Base#length": "the surplus parameter is never read (vm/iterable.go)",
	"Std::Regex#to_string":       "trailing `with_flags` parameter is tested with IsUndefined before use (vm/regex.go)",
}
