package main

import (
	"go/ast"
	"go/types"
	"sort"
	"strings"
)

// pool/patched-slot-unique (C29): the compiler reserves a slot in a
// function's value pool by loading a placeholder (value.Undefined), remembers
// the slot's index, and later overwrites that slot with an absolute jump
// offset (break/continue through finally). That is only sound if the pool
// never hands the same slot to two loads: AddValue de-duplicates equal inline
// values, so the placeholder's representation must be outside the set it
// de-duplicates. Otherwise two `break`s share one slot and the second patch
// overwrites the first jump target.

func init() {
	register(&Rule{
		ID:    "pool/patched-slot-unique",
		Text:  "for every value the bytecode compiler loads into the value pool only to overwrite the slot later (the argument of a load whose returned index is recorded for patching), the pool's AddValue does not search for an existing equal value of that representation: the flag of the placeholder is not among the case labels of the de-duplicating arm, and the default arm appends unconditionally",
		Floor: 2,
		Run:   runPoolSlots,
	})
}

func runPoolSlots(c *Ctx) {
	cp := c.Pkg("compiler")
	cinfo := cp.TypesInfo
	// 1. placeholders: id := c.emitLoadValue(ARG, ..) ; id appended to a
	// field of the compiler that is later used to index Values
	type ph struct {
		arg string
		pos ast.Node
		fn  string
	}
	var phs []ph
	c.Funcs("compiler", func(fr *FuncRef) {
		if recvTypeName(fr.Decl) != "BytecodeCompiler" {
			return
		}
		ast.Inspect(fr.Decl.Body, func(n ast.Node) bool {
			as, ok := n.(*ast.AssignStmt)
			if !ok || len(as.Lhs) != 1 || len(as.Rhs) != 1 {
				return true
			}
			call, ok := ast.Unparen(as.Rhs[0]).(*ast.CallExpr)
			if !ok || len(call.Args) < 1 {
				return true
			}
			fn := Callee(cinfo, call)
			if fn == nil || !(strings.HasPrefix(fn.Name(), "emitLoadValue") || strings.HasPrefix(fn.Name(), "emitAddValue")) {
				return true
			}
			id, ok := as.Lhs[0].(*ast.Ident)
			if !ok {
				return true
			}
			obj := cinfo.ObjectOf(id)
			// recorded for patching: appended to a compiler field or passed to addLoopJump
			recorded := false
			ast.Inspect(fr.Decl.Body, func(m ast.Node) bool {
				if c2, ok := m.(*ast.CallExpr); ok {
					for _, a := range c2.Args {
						if aid, ok := ast.Unparen(a).(*ast.Ident); ok && cinfo.Uses[aid] == obj {
							if f2 := Callee(cinfo, c2); f2 != nil && f2.Name() == "addLoopJump" {
								recorded = true
							}
							if bid, ok := ast.Unparen(c2.Fun).(*ast.Ident); ok && bid.Name == "append" {
								recorded = true
							}
						}
					}
				}
				return true
			})
			if recorded {
				phs = append(phs, ph{types.ExprString(ast.Unparen(call.Args[0])), call, FuncName(fr.Decl)})
			}
			return true
		})
	})
	if len(phs) == 0 {
		c.Stale("compiler: a pool load whose returned index is recorded for later patching")
	}
	// the representation flag of a placeholder expression: value.Undefined -> UNDEFINED_FLAG
	vp := c.Pkg("value")
	flagOfVar := map[string]string{}
	for _, f := range vp.Syntax {
		ast.Inspect(f, func(n ast.Node) bool {
			vs, ok := n.(*ast.ValueSpec)
			if !ok {
				return true
			}
			for i, nm := range vs.Names {
				if i >= len(vs.Values) {
					continue
				}
				cl, ok := ast.Unparen(vs.Values[i]).(*ast.CompositeLit)
				if !ok {
					// T{}.ToValue() where ToValue returns Value{flag: F}
					if call, isCall := ast.Unparen(vs.Values[i]).(*ast.CallExpr); isCall {
						if fn := Callee(vp.TypesInfo, call); fn != nil && fn.Name() == "ToValue" {
							if fr := c.FuncOpt("value", recvNameOf(fn), "ToValue"); fr != nil {
								ast.Inspect(fr.Decl.Body, func(m ast.Node) bool {
									if kv, ok := m.(*ast.KeyValueExpr); ok {
										if k, ok := kv.Key.(*ast.Ident); ok && k.Name == "flag" {
											flagOfVar["value."+nm.Name] = constName(vp.TypesInfo, kv.Value)
										}
									}
									return true
								})
							}
						}
					}
					continue
				}
				if NamedOf(vp.TypesInfo.TypeOf(cl)) != "value.Value" {
					continue
				}
				for _, el := range cl.Elts {
					if kv, ok := el.(*ast.KeyValueExpr); ok {
						if k, ok := kv.Key.(*ast.Ident); ok && k.Name == "flag" {
							flagOfVar["value."+nm.Name] = constName(vp.TypesInfo, kv.Value)
						}
					}
				}
			}
			return true
		})
	}
	// 2. AddValue: the BytecodeFunction method that appends to Values and searches them
	vmp := c.Pkg("vm")
	vinfo := vmp.TypesInfo
	var add *FuncRef
	c.Funcs("vm", func(fr *FuncRef) {
		if recvTypeName(fr.Decl) != "BytecodeFunction" {
			return
		}
		appends, searches := false, false
		ast.Inspect(fr.Decl.Body, func(n ast.Node) bool {
			if call, ok := n.(*ast.CallExpr); ok {
				if id, ok := ast.Unparen(call.Fun).(*ast.Ident); ok && id.Name == "append" && len(call.Args) > 0 && strings.HasSuffix(types.ExprString(call.Args[0]), ".Values") {
					appends = true
				}
				if fn := Callee(vinfo, call); fn != nil && fn.Pkg() != nil && fn.Pkg().Path() == "slices" && fn.Name() == "Index" {
					searches = true
				}
			}
			return true
		})
		if appends && searches {
			add = fr
		}
	})
	if add == nil {
		c.Stale("vm: BytecodeFunction method that searches and appends to Values")
	}
	isSearch := func(n ast.Node) bool {
		found := false
		ast.Inspect(n, func(m ast.Node) bool {
			if call, ok := m.(*ast.CallExpr); ok {
				if fn := Callee(vinfo, call); fn != nil && fn.Pkg() != nil && fn.Pkg().Path() == "slices" && (fn.Name() == "Index" || fn.Name() == "Contains") {
					found = true
				}
			}
			return true
		})
		return found
	}
	// the flag switch
	var sw *ast.SwitchStmt
	ast.Inspect(add.Decl.Body, func(n ast.Node) bool {
		if s, ok := n.(*ast.SwitchStmt); ok && s.Tag != nil && strings.HasSuffix(types.ExprString(s.Tag), ".ValueFlag()") {
			sw = s
		}
		return true
	})
	dedup := map[string]bool{}
	defaultSearches := false
	searchOutsideSwitch := false
	if sw != nil {
		for _, cl := range sw.Body.List {
			cc := cl.(*ast.CaseClause)
			s := false
			for _, st := range cc.Body {
				if isSearch(st) {
					s = true
				}
			}
			if cc.List == nil {
				defaultSearches = s
				continue
			}
			if s {
				for _, e := range cc.List {
					dedup[constName(vinfo, e)] = true
				}
			}
		}
	}
	// a search of inline values that is not inside the flag switch applies to every flag
	ast.Inspect(add.Decl.Body, func(n ast.Node) bool {
		if sw != nil && n == ast.Node(sw) {
			return false
		}
		if call, ok := n.(*ast.CallExpr); ok {
			if fn := Callee(vinfo, call); fn != nil && fn.Pkg() != nil && fn.Pkg().Path() == "slices" && fn.Name() == "Index" {
				searchOutsideSwitch = true
			}
		}
		return true
	})
	sort.Slice(phs, func(i, j int) bool { return phs[i].pos.Pos() < phs[j].pos.Pos() })
	seen := map[string]int{}
	for _, p := range phs {
		seen[p.fn]++
		key := p.fn + "/" + p.arg + "#" + itoa(seen[p.fn])
		flag := flagOfVar[p.arg]
		if flag == "" {
			c.Unknown(key, p.pos.Pos(), "placeholder `%s` is not a package-level value.Value with a known flag", p.arg)
			continue
		}
		shared := dedup[flag] || defaultSearches || searchOutsideSwitch
		c.Check(!shared, key, p.pos.Pos(), "%s reserves a pool slot with the placeholder %s (%s) and patches it later, but %s de-duplicates values of that representation (in its case list: %v, default arm searches: %v, search outside the flag switch: %v): two reservations share one slot and the second patch overwrites the first jump target", p.fn, p.arg, flag, FuncName(add.Decl), dedup[flag], defaultSearches, searchOutsideSwitch)
	}
}
