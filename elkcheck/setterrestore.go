package main

import (
	"go/ast"
	"go/token"
	"go/types"
)

// path/setter-restore (C12): a context-scoping function (one that brackets
// two or more context fields of the checker/compiler for a nested construct)
// may also change PART of a field through a setter (c.setGenerator(..) sets
// one bit of c.flags). Such a change must be undone on the way out: either
// the whole field is bracketed (prev := c.flags ... c.flags = prev) or the
// same setter is called again with a value saved before the body was
// processed (prev := c.isGenerator() ... c.setGenerator(prev)). Otherwise the
// nested construct's setting leaks into the rest of the enclosing construct.

func init() {
	register(&Rule{
		ID:    "path/setter-restore",
		Text:  "in every function of the checker/compiler that brackets two or more context fields, each call of a setter that writes a context field which the function does not bracket as a whole is matched by a later call of the same setter whose argument is a local saved from a getter before the first such call",
		Floor: 3,
		Run:   runSetterRestore,
	})
}

func runSetterRestore(c *Ctx) {
	for _, rel := range []string{"types/checker", "compiler"} {
		writers := c.fieldWriters(rel)
		c.Funcs(rel, func(fr *FuncRef) {
			sites := c.bracketSites(fr)
			if len(sites) < 2 {
				return
			}
			info := fr.Pkg.TypesInfo
			bracketed := map[string]bool{} // "base.field"
			bases := map[string]bool{}
			for _, s := range sites {
				bracketed[s.loc] = true
				if i := lastDot(s.loc); i > 0 {
					bases[s.loc[:i]] = true
				}
			}
			// setter calls on a bracketed base, in source order
			type scall struct {
				fn    *types.Func
				call  *ast.CallExpr
				base  string
				field string
			}
			var calls []scall
			ast.Inspect(fr.Decl.Body, func(n ast.Node) bool {
				if _, ok := n.(*ast.FuncLit); ok {
					return false
				}
				call, ok := n.(*ast.CallExpr)
				if !ok {
					return true
				}
				sel, ok := ast.Unparen(call.Fun).(*ast.SelectorExpr)
				if !ok {
					return true
				}
				base := types.ExprString(ast.Unparen(sel.X))
				if !bases[base] {
					return true
				}
				fn := Callee(info, call)
				if fn == nil {
					return true
				}
				ws := writers[fn.Origin()]
				// a setter: one parameter, writes exactly one field, small body
				sig := fn.Type().(*types.Signature)
				if len(ws) != 1 || sig.Params().Len() != 1 || sig.Results().Len() != 0 {
					return true
				}
				for f := range ws {
					calls = append(calls, scall{fn.Origin(), call, base, f})
				}
				return true
			})
			// a call whose argument is a local defined (:=) from a call is a
			// restore (c.SetHeader(prevIsHeader)), not a set
			isSavedLocal := func(e ast.Expr) bool {
				id, ok := ast.Unparen(e).(*ast.Ident)
				if !ok {
					return false
				}
				obj := info.Uses[id]
				if obj == nil || obj.Pos() < fr.Decl.Body.Pos() || obj.Pos() > fr.Decl.Body.End() {
					return false
				}
				saved := false
				ast.Inspect(fr.Decl.Body, func(n ast.Node) bool {
					if as, ok := n.(*ast.AssignStmt); ok && as.Tok == token.DEFINE && len(as.Lhs) == len(as.Rhs) {
						for i, l := range as.Lhs {
							if lid, ok := l.(*ast.Ident); ok && info.Defs[lid] == obj {
								if _, isCall := ast.Unparen(as.Rhs[i]).(*ast.CallExpr); isCall {
									saved = true
								}
							}
						}
					}
					return true
				})
				return saved
			}
			seen := map[*types.Func]bool{}
			for _, sc := range calls {
				if seen[sc.fn] || (len(sc.call.Args) == 1 && isSavedLocal(sc.call.Args[0])) {
					continue
				}
				seen[sc.fn] = true
				key := rel + "." + FuncName(fr.Decl) + "/" + sc.fn.Name()
				if bracketed[sc.base+"."+sc.field] {
					c.OK(key, sc.call.Pos(), "%s.%s is bracketed as a whole", sc.base, sc.field)
					continue
				}
				// first call position; need a later call of the same setter
				// with an identifier argument defined (:=) before the first call
				first := sc.call.Pos()
				restored := false
				for _, other := range calls {
					if other.fn != sc.fn || other.call.Pos() <= first {
						continue
					}
					id, ok := ast.Unparen(other.call.Args[0]).(*ast.Ident)
					if !ok {
						continue
					}
					obj := info.Uses[id]
					if obj == nil || obj.Pos() >= first || obj.Pos() < fr.Decl.Body.Pos() {
						continue
					}
					restored = true
				}
				// also accepted: the first call itself is the save/restore pair's
				// "set" and the saved local is defined before it
				if !restored {
					// defer c.setter(prev)
					ast.Inspect(fr.Decl.Body, func(n ast.Node) bool {
						if d, ok := n.(*ast.DeferStmt); ok {
							if fn := Callee(info, d.Call); fn != nil && fn.Origin() == sc.fn && len(d.Call.Args) == 1 {
								if _, ok := ast.Unparen(d.Call.Args[0]).(*ast.Ident); ok {
									restored = true
								}
							}
						}
						return true
					})
				}
				c.Check(restored, key, sc.call.Pos(), "%s scopes %d context fields for a nested construct and sets part of %s.%s through %s, but never calls %s again with a value saved on entry and does not bracket %s.%s as a whole: the setting made for the nested construct stays in force for the rest of the enclosing one", FuncName(fr.Decl), len(sites), sc.base, sc.field, sc.fn.Name(), sc.fn.Name(), sc.base, sc.field)
			}
		})
	}
	_ = token.NoPos
}
