package main

import (
	"fmt"
	"go/ast"
	"go/token"
	"go/types"
	"sort"
	"strings"
)

// lineinfo/paired (C32): the line of a stack-trace frame is looked up by
// walking LineInfoList and summing InstructionCount until the instruction
// offset is reached. That only works if the counts add up to the length of
// the instruction stream. Every function that changes the length of
// Instructions must therefore change the line-info counts by the same amount.

func init() {
	register(&Rule{
		ID:    "lineinfo/paired",
		Text:  "every function of the VM's bytecode function type and of the compiler that changes the length of an instruction stream (append, AppendUint16/32, re-slicing, slices.Concat of two parts) changes the line-info instruction counts in the same function by the same symbolic amount (AddLineNumber(_, n), AddBytesToLastLine(n), RemoveByte(), InstructionCount += / -= n); only those functions assign to Instructions at all",
		Floor: 6,
		Run:   runLineInfoPaired,
	})
}

// linear form: symbolic term -> coefficient, "" = constant
type byteForm map[string]int64

func (a byteForm) add(b byteForm, sign int64) {
	for k, v := range b {
		a[k] += sign * v
	}
}

func (a byteForm) String() string {
	var ks []string
	for k, v := range a {
		if v != 0 {
			ks = append(ks, k)
		}
	}
	sort.Strings(ks)
	var parts []string
	for _, k := range ks {
		if k == "" {
			parts = append(parts, fmt.Sprint(a[k]))
		} else {
			parts = append(parts, fmt.Sprintf("%d*%s", a[k], k))
		}
	}
	if len(parts) == 0 {
		return "0"
	}
	return strings.Join(parts, " + ")
}

func (a byteForm) equal(b byteForm) bool {
	d := byteForm{}
	d.add(a, 1)
	d.add(b, -1)
	for _, v := range d {
		if v != 0 {
			return false
		}
	}
	return true
}

func byteFormOf(info *types.Info, e ast.Expr) byteForm {
	e = ast.Unparen(e)
	if v, ok := ConstInt(info, e); ok {
		return byteForm{"": v}
	}
	if be, ok := e.(*ast.BinaryExpr); ok {
		switch be.Op {
		case token.ADD:
			r := byteFormOf(info, be.X)
			r.add(byteFormOf(info, be.Y), 1)
			return r
		case token.SUB:
			r := byteFormOf(info, be.X)
			r.add(byteFormOf(info, be.Y), -1)
			return r
		}
	}
	return byteForm{types.ExprString(e): 1}
}

func runLineInfoPaired(c *Ctx) {
	for _, rel := range []string{"vm", "compiler"} {
		p := c.Pkg(rel)
		info := p.TypesInfo
		c.Funcs(rel, func(fr *FuncRef) {
			if rel == "compiler" && recvTypeName(fr.Decl) != "BytecodeCompiler" {
				return
			}
			instr := byteForm{}
			line := byteForm{}
			touched := false
			undecided := ""
			isInstr := func(e ast.Expr) bool {
				return strings.HasSuffix(types.ExprString(ast.Unparen(e)), ".Instructions")
			}
			ast.Inspect(fr.Decl.Body, func(n ast.Node) bool {
				switch x := n.(type) {
				case *ast.AssignStmt:
					for i, l := range x.Lhs {
						if isInstr(l) && i < len(x.Rhs) && len(x.Lhs) == len(x.Rhs) {
							touched = true
							rhs := ast.Unparen(x.Rhs[i])
							switch r := rhs.(type) {
							case *ast.CallExpr:
								fn := Callee(info, r)
								name := ""
								if fn != nil {
									name = fn.Name()
								} else if id, ok := ast.Unparen(r.Fun).(*ast.Ident); ok {
									name = id.Name
								}
								switch {
								case name == "append" && len(r.Args) >= 1 && isInstr(r.Args[0]):
									if r.Ellipsis.IsValid() {
										instr.add(byteForm{"len(" + types.ExprString(r.Args[1]) + ")": 1}, 1)
									} else {
										instr.add(byteForm{"": int64(len(r.Args) - 1)}, 1)
									}
								case name == "append" && len(r.Args) == 2 && r.Ellipsis.IsValid() && isInstr(r.Args[1]):
									// prepend: prefix length is judged by layout/prepend-bytes
									instr.add(byteForm{"len(" + types.ExprString(r.Args[0]) + ")": 1}, 1)
								case name == "AppendUint16" && isInstr(r.Args[0]):
									instr.add(byteForm{"": 2}, 1)
								case name == "AppendUint32" && isInstr(r.Args[0]):
									instr.add(byteForm{"": 4}, 1)
								case name == "Concat" && len(r.Args) == 2:
									// Concat(a[:o], a[o+count:]) removes (o+count) - o
									s1, ok1 := ast.Unparen(r.Args[0]).(*ast.SliceExpr)
									s2, ok2 := ast.Unparen(r.Args[1]).(*ast.SliceExpr)
									if ok1 && ok2 && s1.Low == nil && s1.High != nil && s2.Low != nil && s2.High == nil {
										d := byteFormOf(info, s2.Low)
										d.add(byteFormOf(info, s1.High), -1)
										instr.add(d, -1)
									} else {
										undecided = "slices.Concat of an unrecognised shape"
									}
								default:
									undecided = "assignment from " + types.ExprString(rhs)
								}
							case *ast.SliceExpr:
								// x = x[:len(x)-k]
								if isInstr(r.X) && r.Low == nil && r.High != nil {
									h := byteFormOf(info, r.High)
									h.add(byteForm{"len(" + types.ExprString(ast.Unparen(r.X)) + ")": 1}, -1)
									instr.add(h, 1)
								} else {
									undecided = "re-slicing of an unrecognised shape"
								}
							case *ast.Ident:
								// wholesale replacement (deserialisation, copy): not a length edit of a live stream
								touched = false
							default:
								undecided = "assignment from " + types.ExprString(rhs)
							}
						}
						// lineInfo.InstructionCount += n
						if sel, ok := ast.Unparen(l).(*ast.SelectorExpr); ok && sel.Sel.Name == "InstructionCount" && i < len(x.Rhs) {
							switch x.Tok {
							case token.ADD_ASSIGN:
								line.add(byteFormOf(info, x.Rhs[i]), 1)
							case token.SUB_ASSIGN:
								line.add(byteFormOf(info, x.Rhs[i]), -1)
							}
						}
					}
				case *ast.IncDecStmt:
					if sel, ok := ast.Unparen(x.X).(*ast.SelectorExpr); ok && sel.Sel.Name == "InstructionCount" {
						if x.Tok == token.INC {
							line.add(byteForm{"": 1}, 1)
						} else {
							line.add(byteForm{"": 1}, -1)
						}
					}
				case *ast.CallExpr:
					if fn := Callee(info, x); fn != nil && recvNameOf(fn) == "LineInfoList" {
						switch fn.Name() {
						case "AddLineNumber":
							line.add(byteFormOf(info, x.Args[1]), 1)
						case "AddBytesToLastLine":
							line.add(byteFormOf(info, x.Args[0]), 1)
						case "RemoveByte":
							line.add(byteForm{"": 1}, -1)
						case "RemoveBytes":
							line.add(byteFormOf(info, x.Args[0]), -1)
						}
					}
				}
				return true
			})
			if !touched {
				return
			}
			key := rel + "." + FuncName(fr.Decl)
			if undecided != "" {
				c.Unknown(key, fr.Decl.Pos(), "%s changes Instructions through an %s: the byte delta cannot be computed", key, undecided)
				return
			}
			// normalise len(newInstructions) vs a size local: accept when the
			// function is the prepending one (layout/prepend-bytes proves the
			// local equals the prefix length on every path)
			if len(instr) == 1 {
				for k := range instr {
					if strings.HasPrefix(k, "len(") && len(line) == 1 {
						for lk, lv := range line {
							if lv == instr[k] && !strings.HasPrefix(lk, "len(") && lk != "" {
								c.OK(key, fr.Decl.Pos(), "instructions grow by %s, line info by %s (equal on every path by rule layout/prepend-bytes)", instr, line)
								return
							}
						}
					}
				}
			}
			c.Check(instr.equal(line), key, fr.Decl.Pos(), "%s changes the length of the instruction stream by %s but the line-info instruction counts by %s: the line reported for a stack-trace frame is looked up by summing those counts and goes wrong for every instruction after this point", key, instr, line)
		})
	}
}
