package main

import (
	"go/ast"
	"go/types"
)

// ast/splice-assert-type (C31, C03): `splice` rebuilds a node from the spliced
// copies of its children; each copy comes back as a plain Node and is
// converted to the type of the field it goes into. Asserting a *narrower*
// interface than the field's type compiles (the narrower interface is
// assignable to the field) and panics for every child that is of the field's
// type but not of the narrower one: `a ?? -1` spliced as a
// LogicalExpressionNode asserted its operands to be ComplexConstantNodes.

func init() {
	register(&Rule{
		ID:    "ast/splice-assert-type",
		Text:  "in package parser/ast, wherever a composite literal of a node type initialises a field with a type assertion on the result of a splice call (child.splice(..).(T)), T is identical to the declared type of the field",
		Floor: 100,
		Run:   runSpliceAssertType,
	})
}

func runSpliceAssertType(c *Ctx) {
	p := c.ByRel["parser/ast"]
	if p == nil {
		c.Stale("package parser/ast")
		return
	}
	info := p.TypesInfo
	c.Funcs("parser/ast", func(fr *FuncRef) {
		if fr.Decl.Name.Name != "splice" {
			return
		}
		n := 0
		ast.Inspect(fr.Decl.Body, func(nd ast.Node) bool {
			lit, ok := nd.(*ast.CompositeLit)
			if !ok {
				return true
			}
			st, ok := info.TypeOf(lit).Underlying().(*types.Struct)
			if !ok {
				return true
			}
			fieldType := func(name string) types.Type {
				for i := 0; i < st.NumFields(); i++ {
					if st.Field(i).Name() == name {
						return st.Field(i).Type()
					}
				}
				return nil
			}
			for _, el := range lit.Elts {
				kv, ok := el.(*ast.KeyValueExpr)
				if !ok {
					continue
				}
				k, ok := kv.Key.(*ast.Ident)
				if !ok {
					continue
				}
				ta, ok := ast.Unparen(kv.Value).(*ast.TypeAssertExpr)
				if !ok || ta.Type == nil {
					continue
				}
				call, ok := ast.Unparen(ta.X).(*ast.CallExpr)
				if !ok {
					continue
				}
				if sel, ok := call.Fun.(*ast.SelectorExpr); !ok || sel.Sel.Name != "splice" {
					continue
				}
				ft := fieldType(k.Name)
				if ft == nil {
					continue
				}
				n++
				key := FuncName(fr.Decl) + "/" + k.Name
				at := info.TypeOf(ta.Type)
				c.Check(types.Identical(at, ft), key, ta.Pos(), "%s converts the spliced child for field %s to %s although the field is declared %s: the narrower assertion panics for every child that is a %s but not a %s", FuncName(fr.Decl), k.Name, types.TypeString(at, nil), types.TypeString(ft, nil), types.TypeString(ft, nil), types.TypeString(at, nil))
			}
			return true
		})
	})
}
