package main

import (
	"fmt"
	"go/ast"
	"go/token"
	"go/types"
	"strings"
)

// C25 / C01: misuse of the synchronisation objects an Elk program holds must
// surface as an Elk error.
//
// effect/mayfatal-unlock  sync.(*Mutex).Unlock, (*RWMutex).Unlock and RUnlock
//   abort the whole process with an unrecoverable fatal error when the mutex
//   is not held (recover() does not help: it is not a panic). An unlock that
//   is not paired with a lock in the same function is driven by the program;
//   it must be dominated by a test of state the wrapper tracks itself.
// path/recoverguard  channel send, close, reflect.Select and WaitGroup
//   Add/Done on an object held in an Elk value panic on misuse (closed
//   channel, negative counter); the function must recover.

func init() {
	register(&Rule{
		ID:    "effect/mayfatal-unlock",
		Text:  "every call of sync.(*Mutex).Unlock, sync.(*RWMutex).Unlock or RUnlock in the runtime (value, vm, concurrent) either has the matching Lock/RLock on the same receiver in the same function (internal critical section), or is preceded in its function by a returning branch whose condition tests atomic state of the same object (CompareAndSwap/Load): unlocking a mutex that is not held is a fatal error no recover() can catch",
		Floor: 20,
		Run:   runMayFatalUnlock,
	})
	register(&Rule{
		ID:    "path/recoverguard",
		Text:  "every function of the runtime (value, vm) that sends on, closes or reflect.Selects over a channel belonging to an Elk-visible object (a field or method result of a type implementing value.Reference, or a channel popped from the VM stack), or calls Add/Done on such an object's sync.WaitGroup, has a deferred function that calls recover(): these operations panic on a closed channel / negative counter",
		Floor: 15,
		Run:   runRecoverGuard,
	})
}

// mayFatalElkVisible: wrapper types an Elk program can call unlock on.
var mayFatalElkVisible = map[string]bool{"value.Mutex": true, "value.RWMutex": true}

var recoverGuardExempt = map[string]string{
	"vm.ThreadPool.Close":   "no program the type checker accepts can obtain a ThreadPool object: the class is noinit and the headers declare no constant or method returning one, so #close cannot be called twice",
	"vm.ThreadPool.AddTask": "the task queue is only closed by ThreadPool.Close, which no accepted program can reach (see vm.ThreadPool.Close)",
}

var mayFatalExempt = map[string]string{
	"vm.executeBytecodePromise": "hand-over protocol of await: the AWAIT instruction locks the awaited promise and leaves the VM in awaitState; this worker function is entered only with that lock held (it checks the state before) and releases it after registering the continuation",
}

func syncMethod(fn *types.Func) (typ, name string) {
	if fn == nil || fn.Pkg() == nil || fn.Pkg().Path() != "sync" {
		return "", ""
	}
	return recvNameOf(fn), fn.Name()
}

// rootRecv strips field selections: w.Native -> w.
func rootRecv(e ast.Expr) ast.Expr {
	for {
		e = ast.Unparen(e)
		if sel, ok := e.(*ast.SelectorExpr); ok {
			e = sel.X
			continue
		}
		return e
	}
}

// hasAtomicGuard: before pos, the function returns early from a branch and
// consults sync/atomic state of an object whose expression starts with base
// (the tracked-state idiom of the mutex and wait-group wrappers).
func hasAtomicGuard(info *types.Info, fd *ast.FuncDecl, base string, pos token.Pos) bool {
	ret, atomicUse := false, false
	ast.Inspect(fd.Body, func(n ast.Node) bool {
		if n == nil || n.Pos() >= pos {
			return n == nil
		}
		switch x := n.(type) {
		case *ast.IfStmt:
			if len(x.Body.List) > 0 {
				if _, isRet := x.Body.List[len(x.Body.List)-1].(*ast.ReturnStmt); isRet {
					ret = true
				}
			}
		case *ast.CallExpr:
			if fn := Callee(info, x); fn != nil && fn.Pkg() != nil && fn.Pkg().Path() == "sync/atomic" {
				if sel, ok := ast.Unparen(x.Fun).(*ast.SelectorExpr); ok && strings.HasPrefix(types.ExprString(ast.Unparen(sel.X)), base+".") {
					atomicUse = true
				}
			}
		}
		return true
	})
	return ret && atomicUse
}

func hasDeferredRecover(info *types.Info, body *ast.BlockStmt) bool {
	found := false
	ast.Inspect(body, func(n ast.Node) bool {
		d, ok := n.(*ast.DeferStmt)
		if !ok {
			return true
		}
		ast.Inspect(d, func(m ast.Node) bool {
			if call, ok := m.(*ast.CallExpr); ok {
				if id, ok := ast.Unparen(call.Fun).(*ast.Ident); ok {
					if b, ok := info.Uses[id].(*types.Builtin); ok && b.Name() == "recover" {
						found = true
					}
				}
			}
			return true
		})
		return true
	})
	return found
}

func runMayFatalUnlock(c *Ctx) {
	for _, rel := range []string{"value", "vm", "concurrent", "position/diagnostic", "types/checker", "compiler", "ext/std/test"} {
		p := c.ByRel[rel]
		if p == nil {
			continue
		}
		info := p.TypesInfo
		c.Funcs(rel, func(fr *FuncRef) {
			type ucall struct {
				call *ast.CallExpr
				recv string
				name string
			}
			var unlocks []ucall
			locks := map[string]bool{} // "recv/Lock", "recv/RLock"
			ast.Inspect(fr.Decl.Body, func(n ast.Node) bool {
				call, ok := n.(*ast.CallExpr)
				if !ok {
					return true
				}
				typ, name := syncMethod(Callee(info, call))
				if typ != "Mutex" && typ != "RWMutex" {
					return true
				}
				sel, ok := ast.Unparen(call.Fun).(*ast.SelectorExpr)
				if !ok {
					return true
				}
				recv := types.ExprString(ast.Unparen(sel.X))
				switch name {
				case "Lock", "RLock", "TryLock", "TryRLock":
					locks[recv+"/"+strings.TrimPrefix(name, "Try")] = true
				case "Unlock", "RUnlock":
					unlocks = append(unlocks, ucall{call, recv, name})
				}
				return true
			})
			// a forwarder: `func (m *T) Unlock() { m.mu.Unlock() }` hands the
			// obligation to its callers (Go-internal users of the container,
			// who pair it with the Lock forwarder; that pairing is rule
			// path/lock-containers' business)
			if len(unlocks) == 1 && len(fr.Decl.Body.List) == 1 && fr.Decl.Recv != nil {
				if n := strings.ToLower(fr.Decl.Name.Name); n == "unlock" || n == "runlock" || n == "readunlock" {
					if _, isElk := mayFatalElkVisible[rel+"."+recvTypeName(fr.Decl)]; !isElk {
						c.OK(fmt.Sprintf("%s.%s/forwarder", rel, FuncName(fr.Decl)), fr.Decl.Pos(), "one-line forwarder of an internal (not Elk-visible) container; its Go callers pair it with the Lock forwarder")
						return
					}
				}
			}
			for i, u := range unlocks {
				key := fmt.Sprintf("%s.%s/%s#%d", rel, FuncName(fr.Decl), u.name, i+1)
				if reason, ok := mayFatalExempt[rel+"."+FuncName(fr.Decl)]; ok {
					c.OK(key, u.call.Pos(), "reasoned exception: %s", reason)
					continue
				}
				want := "Lock"
				if u.name == "RUnlock" {
					want = "RLock"
				}
				if locks[u.recv+"/"+want] {
					c.OK(key, u.call.Pos(), "paired with %s on %s in the same function", want, u.recv)
					continue
				}
				// program-driven unlock: need a preceding returning branch testing
				// atomic state of the same object
				base := u.recv
				if i := strings.LastIndex(base, "."); i > 0 {
					base = base[:i]
				}
				guarded := false
				for _, st := range fr.Decl.Body.List {
					if st.Pos() >= u.call.Pos() {
						break
					}
					isGuard := func(ifs *ast.IfStmt) bool {
						if len(ifs.Body.List) == 0 {
							return false
						}
						if _, isRet := ifs.Body.List[len(ifs.Body.List)-1].(*ast.ReturnStmt); !isRet {
							return false
						}
						ok := false
						check := func(e ast.Node) {
							ast.Inspect(e, func(m ast.Node) bool {
								if cc, isCall := m.(*ast.CallExpr); isCall {
									if fn := Callee(info, cc); fn != nil && fn.Pkg() != nil && fn.Pkg().Path() == "sync/atomic" {
										if s2, isSel := ast.Unparen(cc.Fun).(*ast.SelectorExpr); isSel && strings.HasPrefix(types.ExprString(ast.Unparen(s2.X)), base+".") {
											ok = true
										}
									}
								}
								return true
							})
						}
						check(ifs.Cond)
						return ok
					}
					switch x := st.(type) {
					case *ast.IfStmt:
						if isGuard(x) {
							guarded = true
						}
					case *ast.ForStmt:
						// CAS retry loop: for { v := load; if v <= 0 { return err }; if cas { break } }
						ast.Inspect(x, func(m ast.Node) bool {
							if ifs, ok := m.(*ast.IfStmt); ok && len(ifs.Body.List) > 0 {
								if _, isRet := ifs.Body.List[len(ifs.Body.List)-1].(*ast.ReturnStmt); isRet {
									usesAtomic := false
									ast.Inspect(x, func(k ast.Node) bool {
										if cc, isCall := k.(*ast.CallExpr); isCall {
											if fn := Callee(info, cc); fn != nil && fn.Pkg() != nil && fn.Pkg().Path() == "sync/atomic" && fn.Name() == "CompareAndSwap" {
												if s2, isSel := ast.Unparen(cc.Fun).(*ast.SelectorExpr); isSel && strings.HasPrefix(types.ExprString(ast.Unparen(s2.X)), base+".") {
													usesAtomic = true
												}
											}
										}
										return true
									})
									if usesAtomic {
										guarded = true
									}
								}
							}
							return true
						})
					}
				}
				if guarded && u.name == "RUnlock" {
					// the guard has to be sufficient, not just present
					if g := intGuardBefore(info, fr.Decl, base, u.call.Pos()); g != nil {
						fieldName := g.field[strings.LastIndex(g.field, ".")+1:]
						neg, negPos := storesNegative(c, rel, info, fieldName)
						bad := ""
						if g.passing[0] {
							bad = "the value 0 (no reader holds the mutex) gets past it"
						} else if (g.passing[-1] || g.passing[-2]) && neg {
							bad = "negative values get past it, and " + c.Pos(negPos) + " stores a negative constant into the same field (a write-lock marker): releasing for reading a mutex that is held for writing reaches RUnlock"
						}
						c.Check(bad == "", key+"/guard-excludes-unheld", g.pos, "%s.%s refuses the read-unlock by comparing the atomic counter %s with a constant, but %s; RUnlock of a mutex that is not read-locked is a fatal error of the Go runtime that no recover() catches", rel, FuncName(fr.Decl), g.field, bad)
					}
				}
				c.Check(guarded, key, u.call.Pos(), "%s.%s calls %s on %s without the matching lock in the same function and without first testing state it tracks itself: if the program unlocks a mutex that is not held the Go runtime aborts the process (fatal error: sync: unlock of unlocked mutex), which the surrounding recover() cannot catch", rel, FuncName(fr.Decl), u.name, u.recv)
			}
		})
	}
}

func runRecoverGuard(c *Ctx) {
	vp := c.Pkg("value")
	var refIface *types.Interface
	if tn, ok := vp.Types.Scope().Lookup("Reference").(*types.TypeName); ok {
		refIface, _ = tn.Type().Underlying().(*types.Interface)
	}
	if refIface == nil {
		c.Stale("value.Reference interface")
	}
	isElkObject := func(t types.Type) bool {
		if t == nil {
			return false
		}
		if types.Implements(t, refIface) {
			return true
		}
		if _, isPtr := t.(*types.Pointer); !isPtr {
			return types.Implements(types.NewPointer(t), refIface)
		}
		return false
	}
	for _, rel := range []string{"value", "vm"} {
		p := c.Pkg(rel)
		info := p.TypesInfo
		// does the expression denote something owned by an Elk-visible object:
		// x.field / x.method() / conversion of x, with x an Elk object
		var ofElkObject func(e ast.Expr) bool
		ofElkObject = func(e ast.Expr) bool {
			e = ast.Unparen(e)
			if isElkObject(info.TypeOf(e)) {
				return true
			}
			switch x := e.(type) {
			case *ast.SelectorExpr:
				return ofElkObject(x.X)
			case *ast.CallExpr:
				if tv, ok := info.Types[x.Fun]; ok && tv.IsType() && len(x.Args) == 1 {
					return ofElkObject(x.Args[0])
				}
				if sel, ok := ast.Unparen(x.Fun).(*ast.SelectorExpr); ok {
					return ofElkObject(sel.X)
				}
			case *ast.StarExpr:
				return ofElkObject(x.X)
			case *ast.IndexExpr:
				return ofElkObject(x.X)
			}
			return false
		}
		c.Funcs(rel, func(fr *FuncRef) {
			type site struct {
				pos  token.Pos
				what string
			}
			var sites []site
			guardedSites := 0
			defer func() {
				if guardedSites > 0 {
					c.OK(fmt.Sprintf("%s.%s/tracked-counter", rel, FuncName(fr.Decl)), fr.Decl.Pos(), "%d wait-group operation(s) guarded by a counter the wrapper tracks itself", guardedSites)
				}
			}()
			ast.Inspect(fr.Decl.Body, func(n ast.Node) bool {
				switch x := n.(type) {
				case *ast.FuncLit:
					return false
				case *ast.SendStmt:
					if ofElkObject(x.Chan) {
						sites = append(sites, site{x.Pos(), "send"})
					}
				case *ast.CallExpr:
					if id, ok := ast.Unparen(x.Fun).(*ast.Ident); ok {
						if b, ok := info.Uses[id].(*types.Builtin); ok && b.Name() == "close" && len(x.Args) == 1 && ofElkObject(x.Args[0]) {
							sites = append(sites, site{x.Pos(), "close"})
						}
					}
					if fn := Callee(info, x); fn != nil && fn.Pkg() != nil {
						if fn.Pkg().Path() == "reflect" && fn.Name() == "Select" {
							sites = append(sites, site{x.Pos(), "reflect.Select"})
						}
						if typ, name := syncMethod(fn); typ == "WaitGroup" && (name == "Add" || name == "Done") {
							// only the wait group an Elk program counts itself
							// (Std::Sync::WaitGroup); the pool's internal group is
							// incremented and decremented once per promise (C15)
							if sel, ok := ast.Unparen(x.Fun).(*ast.SelectorExpr); ok && ofElkObject(sel.X) && strings.Contains(NamedOf(info.TypeOf(rootRecv(sel.X))), "value.WaitGroup") {
								// Add with a non-negative constant cannot drive the counter below zero
								if name == "Add" && len(x.Args) == 1 {
									if v, ok := ConstInt(info, x.Args[0]); ok && v >= 0 {
										return true
									}
								}
								// the wrapper refuses to go below zero from a counter it tracks itself
								if hasAtomicGuard(info, fr.Decl, types.ExprString(rootRecv(sel.X)), x.Pos()) {
									guardedSites++
									return true
								}
								sites = append(sites, site{x.Pos(), "WaitGroup." + name})
							}
						}
					}
				}
				return true
			})
			if len(sites) == 0 {
				return
			}
			rec := hasDeferredRecover(info, fr.Decl.Body)
			for i, s := range sites {
				key := fmt.Sprintf("%s.%s/%s#%d", rel, FuncName(fr.Decl), s.what, i+1)
				if reason, ok := recoverGuardExempt[rel+"."+FuncName(fr.Decl)]; ok {
					c.OK(key, s.pos, "reasoned exception: %s", reason)
					continue
				}
				c.Check(rec, key, s.pos, "%s.%s performs a %s on an object an Elk program holds, which panics on misuse (closed channel, negative counter), but has no deferred recover(): the panic escapes the VM and kills the process", rel, FuncName(fr.Decl), s.what)
			}
		})
	}
}
