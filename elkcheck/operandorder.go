package main

import (
	"go/ast"
	"go/types"
)

// order/operands-left-first (C14, C08): operands are evaluated left to right.
// Wherever the compiler emits the code of both operands of a binary node in
// one straight-line sequence, the code of `.Left` comes before the code of
// `.Right`; an emission that wants them on the stack in the other order has
// to swap afterwards. (Found in the specialised Int comparisons of
// conditions, which pushed the right operand first when only it was
// statically an Int.)

func init() {
	register(&Rule{
		ID:    "order/operands-left-first",
		Text:  "in package compiler, in every statement list (function, closure or block body) that compiles both the Left and the Right of the same node by direct calls of a node compiler (compileNode*, mustCompileNode), the call for Left precedes the call for Right; a static-value guard (`resolve(..)` tested for a static value in the enclosing if) is the one accepted exception",
		Floor: 20,
		Run:   runOperandsLeftFirst,
	})
}

func runOperandsLeftFirst(c *Ctx) {
	p := c.Pkg("compiler")
	info := p.TypesInfo
	isNodeCompiler := func(call *ast.CallExpr) bool {
		fn := Callee(info, call)
		if fn == nil || recvNameOf(fn) != "BytecodeCompiler" {
			return false
		}
		switch fn.Name() {
		case "compileNode", "compileNodeWithResult", "compileNodeWithoutResult", "mustCompileNode":
			return true
		}
		return false
	}
	// operand reference: X.Left / X.Right, or a parameter named left/right of a helper
	side := func(e ast.Expr) (base string, which string) {
		e = ast.Unparen(e)
		if sel, ok := e.(*ast.SelectorExpr); ok && (sel.Sel.Name == "Left" || sel.Sel.Name == "Right") {
			return types.ExprString(sel.X), sel.Sel.Name
		}
		if id, ok := e.(*ast.Ident); ok {
			if v, ok := info.Uses[id].(*types.Var); ok && (v.Name() == "left" || v.Name() == "right") {
				if v.Name() == "left" {
					return "param", "Left"
				}
				return "param", "Right"
			}
		}
		return "", ""
	}
	c.Funcs("compiler", func(fr *FuncRef) {
		if recvTypeName(fr.Decl) != "BytecodeCompiler" {
			return
		}
		n := 0
		var stack []ast.Node
		ast.Inspect(fr.Decl.Body, func(nd ast.Node) bool {
			if nd == nil {
				stack = stack[:len(stack)-1]
				return true
			}
			stack = append(stack, nd)
			var list []ast.Stmt
			switch x := nd.(type) {
			case *ast.BlockStmt:
				list = x.List
			case *ast.CaseClause:
				list = x.Body
			default:
				return true
			}
			firstPos := map[string]map[string]int{}
			for i, st := range list {
				es, ok := st.(*ast.ExprStmt)
				if !ok {
					continue
				}
				call, ok := es.X.(*ast.CallExpr)
				if !ok || len(call.Args) == 0 || !isNodeCompiler(call) {
					continue
				}
				b, w := side(call.Args[0])
				if b == "" {
					continue
				}
				if firstPos[b] == nil {
					firstPos[b] = map[string]int{}
				}
				if _, seen := firstPos[b][w]; !seen {
					firstPos[b][w] = i
				}
			}
			for b, m := range firstPos {
				li, lok := m["Left"]
				ri, rok := m["Right"]
				if !lok || !rok {
					continue
				}
				n++
				key := FuncName(fr.Decl) + "/" + b + "#" + itoa(n)
				if li < ri {
					c.OK(key, list[li].Pos(), "Left is compiled before Right")
					continue
				}
				// static-value guard: the block is the body of an `if` whose condition calls resolve(..)
				guarded := false
				if len(stack) >= 2 {
					if ifs, ok := stack[len(stack)-2].(*ast.IfStmt); ok && ifs.Body == nd {
						ast.Inspect(ifs.Cond, func(m ast.Node) bool {
							if call, ok := m.(*ast.CallExpr); ok {
								if fn := Callee(info, call); fn != nil && fn.Name() == "resolve" {
									guarded = true
								}
							}
							return true
						})
					}
				}
				if guarded {
					c.OK(key, list[ri].Pos(), "Right first, under a test that one operand is a static value: the order cannot be observed")
					continue
				}
				c.Bad(key, list[ri].Pos(), "%s emits the code of %s.Right before the code of %s.Left: the right operand is evaluated first, so a program whose operands have effects (calls, assignments) observes them in the wrong order", FuncName(fr.Decl), b, b)
			}
			return true
		})
	})
}
