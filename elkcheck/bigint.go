package main

import (
	"go/ast"
	"go/token"
	"go/types"
	"strings"
)

// Rules on the use of math/big behind Elk's Int (C06).

func init() {
	register(&Rule{
		ID:    "bigint/truncdiv",
		Text:  "Int division and modulo truncate toward zero in every representation: no function of the runtime (value, vm, compiler) calls the Euclidean (*big.Int).Div/Mod/DivMod; only the truncating Quo/Rem/QuoRem family, which agrees with Go's / and % used for small integers",
		Floor: 6,
		Run:   runBigTruncDiv,
	})
	register(&Rule{
		ID:    "bigint/nomutate",
		Text:  "Int values are immutable: the receiver (destination) of a mutating math/big method is never the big.Int behind an existing *value.BigInt (X.ToGoBigInt() of a parameter, receiver or field), only a freshly allocated number",
		Floor: 40,
		Run:   runBigNoMutate,
	})
	register(&Rule{
		ID:    "bigint/normalise",
		Text:  "an Int result is returned as *BigInt only when it cannot be a SmallInt: every construction of a Value from a *BigInt in Int arithmetic is on the failing branch of a fits-test (IsSmallInt/IsInt64, an overflow flag) of that number",
		Floor: 35,
		Run:   runBigNormalise,
	})
}

func isBigIntMethod(fn *types.Func, names ...string) bool {
	if fn == nil || fn.Pkg() == nil || fn.Pkg().Path() != "math/big" {
		return false
	}
	sig := fn.Type().(*types.Signature)
	if sig.Recv() == nil || NamedOf(sig.Recv().Type()) != "math/big.Int" {
		return false
	}
	if len(names) == 0 {
		return true
	}
	for _, n := range names {
		if fn.Name() == n {
			return true
		}
	}
	return false
}

var runtimePkgs = []string{"value", "vm", "compiler"}

func runBigTruncDiv(c *Ctx) {
	for _, rel := range runtimePkgs {
		c.Funcs(rel, func(fr *FuncRef) {
			info := fr.Pkg.TypesInfo
			n := 0
			ast.Inspect(fr.Decl.Body, func(x ast.Node) bool {
				call, ok := x.(*ast.CallExpr)
				if !ok {
					return true
				}
				fn := Callee(info, call)
				if !isBigIntMethod(fn, "Div", "Mod", "DivMod", "Quo", "Rem", "QuoRem") {
					return true
				}
				n++
				key := rel + "." + FuncName(fr.Decl) + "/" + fn.Name()
				if n > 1 {
					key += "#" + string(rune('0'+n))
				}
				switch fn.Name() {
				case "Quo", "Rem", "QuoRem":
					c.OK(key, call.Pos(), "truncating big.Int.%s", fn.Name())
				default:
					c.Bad(key, call.Pos(), "Euclidean big.Int.%s: for a negative dividend it differs from the truncating / and %% used for small integers, so the quotient depends on the representation", fn.Name())
				}
				return true
			})
		})
	}
}

var bigMutators = map[string]bool{
	"Abs": true, "Add": true, "And": true, "AndNot": true, "Binomial": true, "Div": true, "DivMod": true,
	"Exp": true, "GCD": true, "Lsh": true, "Mod": true, "ModInverse": true, "ModSqrt": true, "Mul": true,
	"MulRange": true, "Neg": true, "Not": true, "Or": true, "Quo": true, "QuoRem": true, "Rand": true,
	"Rem": true, "Rsh": true, "Set": true, "SetBit": true, "SetBits": true, "SetBytes": true, "SetInt64": true,
	"SetString": true, "SetUint64": true, "Sqrt": true, "Sub": true, "Xor": true, "FillBytes": false,
}

// freshBig reports whether expression e denotes a big.Int allocated in fd
// (big.NewInt, &big.Int{}, new(big.Int), a local big.Int variable) possibly
// through chained mutator calls (x.Set(...).Add(...)). A variable is fresh
// when every assignment to it in fd is fresh.
func freshBig(info *types.Info, fd *ast.FuncDecl, e ast.Expr, depth int) bool {
	return freshBigV(info, fd, e, depth, map[*types.Var]bool{})
}

func freshBigV(info *types.Info, fd *ast.FuncDecl, e ast.Expr, depth int, visiting map[*types.Var]bool) bool {
	if depth > 8 {
		return false
	}
	switch x := ast.Unparen(e).(type) {
	case *ast.UnaryExpr:
		if x.Op == token.AND {
			if _, ok := ast.Unparen(x.X).(*ast.CompositeLit); ok {
				return true
			}
			// &local where local is a big.Int value variable
			if id, ok := ast.Unparen(x.X).(*ast.Ident); ok {
				if v, ok := info.Uses[id].(*types.Var); ok && !v.IsField() && v.Parent() != nil && v.Parent() != v.Pkg().Scope() {
					if _, isPtr := v.Type().(*types.Pointer); !isPtr {
						return true
					}
				}
			}
		}
	case *ast.CallExpr:
		fn := Callee(info, x)
		if fn != nil && fn.Pkg() != nil && fn.Pkg().Path() == "math/big" && fn.Name() == "NewInt" {
			return true
		}
		if id, ok := ast.Unparen(x.Fun).(*ast.Ident); ok && id.Name == "new" {
			return true
		}
		// chained: z.Op(...) returns z
		if isBigIntMethod(fn) && bigMutators[fn.Name()] {
			if sel, ok := x.Fun.(*ast.SelectorExpr); ok {
				return freshBigV(info, fd, sel.X, depth+1, visiting)
			}
		}
		// conversion (*big.Int)(p)
		if tv, ok := info.Types[x.Fun]; ok && tv.IsType() && len(x.Args) == 1 {
			return freshBigV(info, fd, x.Args[0], depth+1, visiting)
		}
		// helper constructors of the value package that allocate
		switch FuncID(fn) {
		case "value.NewBigInt", "value.ParseBigInt", "value.ToElkBigInt", "value.parseUBigInt":
			if FuncID(fn) == "value.ToElkBigInt" && len(x.Args) == 1 {
				return freshBigV(info, fd, x.Args[0], depth+1, visiting)
			}
			return true
		case "value.BigInt.ToGoBigInt":
			if sel, ok := x.Fun.(*ast.SelectorExpr); ok {
				return freshBigV(info, fd, sel.X, depth+1, visiting)
			}
		}
		// a function of the module all of whose returns are fresh numbers
		if fn != nil && freshDecls != nil {
			if d := freshDecls[fn.Origin()]; d != nil && d.Decl != fd {
				allFresh, any := true, false
				ast.Inspect(d.Decl.Body, func(n ast.Node) bool {
					switch r := n.(type) {
					case *ast.FuncLit:
						return false
					case *ast.ReturnStmt:
						if len(r.Results) == 0 {
							allFresh = false
							return true
						}
						if id, ok := ast.Unparen(r.Results[0]).(*ast.Ident); ok && id.Name == "nil" {
							return true
						}
						any = true
						if !freshBigV(d.Pkg.TypesInfo, d.Decl, r.Results[0], depth+1, map[*types.Var]bool{}) {
							allFresh = false
						}
					}
					return true
				})
				return any && allFresh
			}
		}
		return false
	case *ast.Ident:
		v, ok := info.Uses[x].(*types.Var)
		if !ok || v.IsField() {
			return false
		}
		if v.Parent() == nil || v.Parent() == v.Pkg().Scope() {
			return false
		}
		// parameter or receiver: not fresh
		if _, isParam := paramIndex(info, fd, v); isParam {
			return false
		}
		if fd.Recv != nil {
			for _, f := range fd.Recv.List {
				for _, n := range f.Names {
					if info.Defs[n] == v {
						return false
					}
				}
			}
		}
		// `i = i.Sub(i, ..)`: a variable is fresh when all its *other*
		// definitions are (greatest fixed point)
		if visiting[v] {
			return true
		}
		visiting[v] = true
		defer delete(visiting, v)
		found, allFresh := false, true
		ast.Inspect(fd, func(n ast.Node) bool {
			switch as := n.(type) {
			case *ast.AssignStmt:
				for i, l := range as.Lhs {
					lid, ok := l.(*ast.Ident)
					if !ok || (info.Defs[lid] != v && info.Uses[lid] != v) {
						continue
					}
					found = true
					if len(as.Lhs) == len(as.Rhs) {
						if !freshBigV(info, fd, as.Rhs[i], depth+1, visiting) {
							allFresh = false
						}
					} else if i == 0 && len(as.Rhs) == 1 {
						// v, err := f(...): first result
						if !freshBigV(info, fd, as.Rhs[0], depth+1, visiting) {
							allFresh = false
						}
					} else {
						allFresh = false
					}
				}
			case *ast.ValueSpec:
				for i, n := range as.Names {
					if info.Defs[n] != v {
						continue
					}
					found = true
					if i < len(as.Values) && !freshBigV(info, fd, as.Values[i], depth+1, visiting) {
						allFresh = false
					}
				}
			case *ast.RangeStmt:
				for _, l := range []ast.Expr{as.Key, as.Value} {
					if lid, ok := l.(*ast.Ident); ok && info.Defs[lid] == v {
						found, allFresh = true, false
					}
				}
			}
			return true
		})
		return found && allFresh
	}
	return false
}

// freshDecls: declarations of the runtime packages, for interprocedural
// freshness of returned numbers.
var freshDecls map[*types.Func]*FuncRef

func runBigNoMutate(c *Ctx) {
	freshDecls = map[*types.Func]*FuncRef{}
	for _, rel := range runtimePkgs {
		c.Funcs(rel, func(fr *FuncRef) {
			if fr.Obj != nil {
				freshDecls[fr.Obj] = fr
			}
		})
	}
	for _, rel := range runtimePkgs {
		c.Funcs(rel, func(fr *FuncRef) {
			info := fr.Pkg.TypesInfo
			n := 0
			ast.Inspect(fr.Decl.Body, func(x ast.Node) bool {
				call, ok := x.(*ast.CallExpr)
				if !ok {
					return true
				}
				fn := Callee(info, call)
				if !isBigIntMethod(fn) || !bigMutators[fn.Name()] {
					return true
				}
				sel, ok := call.Fun.(*ast.SelectorExpr)
				if !ok {
					return true
				}
				n++
				key := rel + "." + FuncName(fr.Decl) + "/" + fn.Name()
				if n > 1 {
					key += "#" + itoa(n)
				}
				if mutatorFuncs[rel+"."+FuncName(fr.Decl)] != "" {
					c.OK(key, call.Pos(), "documented in-place operation: %s", mutatorFuncs[rel+"."+FuncName(fr.Decl)])
					return true
				}
				c.Check(freshBig(info, fr.Decl, sel.X, 0), key, call.Pos(),
					"destination `%s` of big.Int.%s must be a number allocated in this function, not the storage of an existing Int value", types.ExprString(sel.X), fn.Name())
				return true
			})
		})
	}
}

// mutatorFuncs: functions whose contract is to modify their receiver in
// place (the receiver is a number the caller has just allocated).
var mutatorFuncs = map[string]string{}

func itoa(n int) string {
	if n < 10 {
		return string(rune('0' + n))
	}
	return itoa(n/10) + string(rune('0'+n%10))
}

// ---------------------------------------------------------------------------
// bigint/normalise

func runBigNormalise(c *Ctx) {
	vp := c.Pkg("value")
	info := vp.TypesInfo
	for _, recv := range []string{"SmallInt", "BigInt"} {
		c.Funcs("value", func(fr *FuncRef) {
			if recvTypeName(fr.Decl) != recv {
				return
			}
			// only arithmetic returning value.Value
			res := fr.Decl.Type.Results
			if res == nil || len(res.List) == 0 || NamedOf(info.TypeOf(res.List[0].Type)) != "value.Value" {
				return
			}
			n := 0
			var visit func(stmts []ast.Stmt, guards []ast.Stmt, inFail bool)
			visit = func(stmts []ast.Stmt, guards []ast.Stmt, inFail bool) {
				for i, st := range stmts {
					before := append(append([]ast.Stmt{}, guards...), stmts[:i]...)
					switch x := st.(type) {
					case *ast.ReturnStmt:
						if len(x.Results) == 0 {
							continue
						}
						e := bigValueOperand(info, x.Results[0])
						if e == nil {
							continue
						}
						n++
						key := "value." + FuncName(fr.Decl) + "/return"
						if n > 1 {
							key += "#" + itoa(n)
						}
						if inFail {
							c.OK(key, x.Pos(), "on the failing branch of a fits-test")
							continue
						}
						if fitsGuarded(info, before, e) {
							c.OK(key, x.Pos(), "preceded by a returning fits-test of the same number")
							continue
						}
						if reason := normaliseExceptions["value."+FuncName(fr.Decl)]; reason != "" {
							c.OK(key, x.Pos(), "reasoned exception: %s", reason)
							continue
						}
						c.Bad(key, x.Pos(), "returns the *BigInt `%s` as an Int without testing whether it fits a SmallInt: the same integer would then exist in two representations", types.ExprString(e))
					case *ast.IfStmt:
						fail := inFail || isFitsFailCond(info, x.Cond)
						visit(x.Body.List, before, fail)
						if x.Else != nil {
							elseFail := inFail || isFitsOKCond(info, x.Cond)
							switch el := x.Else.(type) {
							case *ast.BlockStmt:
								visit(el.List, before, elseFail)
							case *ast.IfStmt:
								visit([]ast.Stmt{el}, before, elseFail)
							}
						}
					case *ast.BlockStmt:
						visit(x.List, before, inFail)
					case *ast.SwitchStmt:
						for _, cl := range x.Body.List {
							visit(cl.(*ast.CaseClause).Body, before, inFail)
						}
					case *ast.TypeSwitchStmt:
						for _, cl := range x.Body.List {
							visit(cl.(*ast.CaseClause).Body, before, inFail)
						}
					case *ast.ForStmt:
						visit(x.Body.List, before, inFail)
					case *ast.RangeStmt:
						visit(x.Body.List, before, inFail)
					}
				}
			}
			visit(fr.Decl.Body.List, nil, false)
		})
	}
}

// normaliseExceptions: Int-returning functions whose *BigInt result cannot
// fit a SmallInt for a reason the fits-test pattern does not show.
var normaliseExceptions = map[string]string{
	"value.BigInt.ToValue": "representation conversion of an existing *BigInt, not arithmetic: *BigInt values are created only by the normalising constructors checked here",
}

// bigValueOperand: if e is Ref(<*BigInt>) (possibly ToElkBigInt(x)) return the
// *BigInt operand expression.
func bigValueOperand(info *types.Info, e ast.Expr) ast.Expr {
	call, ok := ast.Unparen(e).(*ast.CallExpr)
	if !ok || len(call.Args) != 1 || FuncID(Callee(info, call)) != "value.Ref" {
		return nil
	}
	arg := call.Args[0]
	if NamedOf(info.TypeOf(arg)) != "value.BigInt" {
		return nil
	}
	return arg
}

// rootIdents: identifiers a *BigInt expression is built from.
func rootIdents(info *types.Info, e ast.Expr) map[types.Object]bool {
	out := map[types.Object]bool{}
	ast.Inspect(e, func(n ast.Node) bool {
		if id, ok := n.(*ast.Ident); ok {
			if v, ok := info.Uses[id].(*types.Var); ok && !v.IsField() {
				out[v] = true
			}
		}
		return true
	})
	return out
}

var fitsMethods = map[string]bool{"IsSmallInt": true, "IsInt64": true}

// fitsCall: the receiver expression of an IsSmallInt()/IsInt64() call in cond.
func fitsCalls(info *types.Info, cond ast.Expr) []ast.Expr {
	var out []ast.Expr
	ast.Inspect(cond, func(n ast.Node) bool {
		if call, ok := n.(*ast.CallExpr); ok {
			if sel, ok := call.Fun.(*ast.SelectorExpr); ok && fitsMethods[sel.Sel.Name] && len(call.Args) == 0 {
				out = append(out, sel.X)
			}
		}
		return true
	})
	return out
}

// fitsGuarded: among the statements executed before the return there is
// `if X.IsSmallInt() { ... return }` where X shares a root variable with e.
func fitsGuarded(info *types.Info, before []ast.Stmt, e ast.Expr) bool {
	roots := rootIdents(info, e)
	// aliases: v := ToElkBigInt(w) / w.Op(...)
	for changed := true; changed; {
		changed = false
		for _, st := range before {
			as, ok := st.(*ast.AssignStmt)
			if !ok {
				continue
			}
			for i, l := range as.Lhs {
				id, ok := l.(*ast.Ident)
				if !ok || i >= len(as.Rhs) {
					continue
				}
				o := info.Defs[id]
				if o == nil {
					o = info.Uses[id]
				}
				if o == nil {
					continue
				}
				isBig := func(v types.Object) bool {
					t, ok := v.Type().(*types.Pointer)
					return ok && strings.HasSuffix(t.Elem().String(), "Int")
				}
				rhs := rootIdents(info, as.Rhs[i])
				if roots[o] {
					for r := range rhs {
						if isBig(r) && !roots[r] {
							roots[r] = true
							changed = true
						}
					}
				} else if isBig(o) {
					for r := range rhs {
						if roots[r] && isBig(r) {
							roots[o] = true
							changed = true
						}
					}
				}
			}
		}
	}
	for _, st := range before {
		ifs, ok := st.(*ast.IfStmt)
		if !ok || len(ifs.Body.List) == 0 {
			continue
		}
		if _, isRet := ifs.Body.List[len(ifs.Body.List)-1].(*ast.ReturnStmt); !isRet {
			continue
		}
		if u, ok := ast.Unparen(ifs.Cond).(*ast.UnaryExpr); ok && u.Op == token.NOT {
			continue
		}
		for _, x := range fitsCalls(info, ifs.Cond) {
			for r := range rootIdents(info, x) {
				if roots[r] {
					return true
				}
			}
		}
	}
	return false
}

// isFitsFailCond: `!ok` where ok is an overflow flag, or `!x.IsSmallInt()`.
func isFitsFailCond(info *types.Info, cond ast.Expr) bool {
	// `i == MinSmallInt`: the one operand whose negation / decrement overflows
	if b, ok := ast.Unparen(cond).(*ast.BinaryExpr); ok && b.Op == token.EQL {
		for _, side := range []ast.Expr{b.X, b.Y} {
			if id, ok := ast.Unparen(side).(*ast.Ident); ok && (id.Name == "MinSmallInt" || id.Name == "MaxSmallInt") {
				if _, isConst := info.Uses[id].(*types.Const); isConst {
					return true
				}
			}
		}
	}
	u, ok := ast.Unparen(cond).(*ast.UnaryExpr)
	if !ok || u.Op != token.NOT {
		return false
	}
	return isFitsOKCond(info, u.X)
}

// isFitsOKCond: `ok` (bool result of an *Overflow function) or x.IsSmallInt().
func isFitsOKCond(info *types.Info, cond ast.Expr) bool {
	switch x := ast.Unparen(cond).(type) {
	case *ast.Ident:
		return x.Name == "ok" && types.Identical(info.TypeOf(x), types.Typ[types.Bool])
	case *ast.CallExpr:
		if sel, ok := x.Fun.(*ast.SelectorExpr); ok && fitsMethods[sel.Sel.Name] {
			return true
		}
	}
	return false
}
