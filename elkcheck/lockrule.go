package main

import (
	"go/ast"
	"go/token"
	"go/types"
	"sort"
	"strings"
)

// path/lock (DESIGN.md §4.4): lockset analysis for structs that carry their
// own mutex. For every function of the owning package, along every path:
// a read of a guarded field needs the mutex held (read or write mode), a
// write needs it in write mode, and a function that decides on a guarded
// read and then writes must do both inside one critical section.

type lockSpec struct {
	pkg, typ string
	mutex    string            // mutex field name
	guarded  []string          // guarded fields (empty: every other field)
	exempt   map[string]string // function (as FuncName) -> reason
	// unlockedSuffix: methods whose name ends with this suffix are the
	// documented caller-locks variants and are not obligated
	unlockedSuffix string
}

type lockState struct {
	mode      uint8 // 0 none, 1 read, 2 write
	epoch     uint8 // number of acquisitions so far on this path
	// last[i]: epoch of the most recent read of guarded field i on this path
	// (0: none yet; calleeEpoch: read inside a callee's own critical section)
	last [4]uint8
}

const calleeEpoch = 255

type lockViolation struct {
	pos  token.Pos
	what string
}

func (c *Ctx) runLockSpec(spec *lockSpec) {
	p := c.Pkg(spec.pkg)
	info := p.TypesInfo
	tn, ok := p.Types.Scope().Lookup(spec.typ).(*types.TypeName)
	if !ok {
		c.Stale(spec.pkg + "." + spec.typ)
	}
	st, ok := tn.Type().Underlying().(*types.Struct)
	if !ok {
		c.Stale(spec.pkg + "." + spec.typ + " (struct)")
	}
	guarded := map[*types.Var]bool{}
	var mutexField *types.Var
	for i := 0; i < st.NumFields(); i++ {
		f := st.Field(i)
		if f.Name() == spec.mutex {
			mutexField = f
			continue
		}
		if len(spec.guarded) == 0 {
			guarded[f] = true
		}
		for _, g := range spec.guarded {
			if g == f.Name() {
				guarded[f] = true
			}
		}
	}
	if mutexField == nil || len(guarded) == 0 {
		c.Stale(spec.pkg + "." + spec.typ + ": mutex field " + spec.mutex + " / guarded fields")
	}
	named := tn.Type().(*types.Named)
	isT := func(t types.Type) bool {
		if pt, ok := t.(*types.Pointer); ok {
			t = pt.Elem()
		}
		n, _ := types.Unalias(t).(*types.Named)
		return n != nil && n.Origin() == named.Origin()
	}

	fieldIdx := map[*types.Var]int{}
	for i := 0; i < st.NumFields(); i++ {
		if guarded[st.Field(i)] {
			if len(fieldIdx) >= 4 {
				c.Stale(spec.pkg + "." + spec.typ + ": more than 4 guarded fields")
			}
			fieldIdx[st.Field(i)] = len(fieldIdx)
		}
	}
	// methods of T that read guarded fields themselves (under their own lock)
	calleeReads := map[*types.Func]map[int]bool{}
	c.Funcs(spec.pkg, func(fr *FuncRef) {
		if fr.Decl.Recv == nil || !isT(info.TypeOf(fr.Decl.Recv.List[0].Type)) {
			return
		}
		ast.Inspect(fr.Decl.Body, func(n ast.Node) bool {
			if sel, ok := n.(*ast.SelectorExpr); ok {
				if sl := info.Selections[sel]; sl != nil && sl.Kind() == types.FieldVal && isT(sl.Recv()) {
					if f, _ := sl.Obj().(*types.Var); f != nil && guarded[f.Origin()] {
						if calleeReads[fr.Obj] == nil {
							calleeReads[fr.Obj] = map[int]bool{}
						}
						calleeReads[fr.Obj][fieldIdx[f.Origin()]] = true
					}
				}
			}
			return true
		})
	})

	prefix := spec.typ + "/"
	c.Funcs(spec.pkg, func(fr *FuncRef) {
		// does the function touch a guarded field at all?
		touches := false
		ast.Inspect(fr.Decl.Body, func(n ast.Node) bool {
			if sel, ok := n.(*ast.SelectorExpr); ok {
				if s := info.Selections[sel]; s != nil && s.Kind() == types.FieldVal && isT(s.Recv()) {
					if f, _ := s.Obj().(*types.Var); f != nil && guarded[f.Origin()] {
						touches = true
					}
				}
			}
			return true
		})
		if !touches {
			return
		}
		key := prefix + FuncName(fr.Decl)
		if reason, ok := spec.exempt[FuncName(fr.Decl)]; ok {
			c.OK(key, fr.Decl.Pos(), "reasoned exception: %s", reason)
			return
		}
		if spec.unlockedSuffix != "" && strings.HasSuffix(fr.Decl.Name.Name, spec.unlockedSuffix) {
			c.OK(key, fr.Decl.Pos(), "documented caller-locks variant (%s suffix); its callers are obligated instead", spec.unlockedSuffix)
			return
		}
		// constructors: the object is a local composite literal, not yet shared
		var viol []lockViolation
		// writes: guarded selector on the left of an assignment, IncDec,
		// or as the map/slice operand of an index on the left, or append target
		writes := map[*ast.SelectorExpr]bool{}
		markWrite := func(e ast.Expr) {
			for {
				switch x := ast.Unparen(e).(type) {
				case *ast.IndexExpr:
					e = x.X
					continue
				case *ast.SelectorExpr:
					writes[x] = true
				}
				return
			}
		}
		ast.Inspect(fr.Decl.Body, func(n ast.Node) bool {
			switch x := n.(type) {
			case *ast.AssignStmt:
				for _, l := range x.Lhs {
					markWrite(l)
				}
			case *ast.IncDecStmt:
				markWrite(x.X)
			case *ast.CallExpr:
				if id, ok := x.Fun.(*ast.Ident); ok && (id.Name == "delete" || id.Name == "clear") && len(x.Args) > 0 {
					markWrite(x.Args[0])
				}
			}
			return true
		})
		pe := &PathEval[lockState]{Info: info}
		lockOp := func(call *ast.CallExpr) (string, bool) {
			sel, ok := call.Fun.(*ast.SelectorExpr)
			if !ok {
				return "", false
			}
			inner, ok := ast.Unparen(sel.X).(*ast.SelectorExpr)
			if !ok {
				return "", false
			}
			s := info.Selections[inner]
			if s == nil || s.Obj() != mutexField && (s.Obj().(*types.Var)).Origin() != mutexField {
				return "", false
			}
			return sel.Sel.Name, true
		}
		pe.Call = func(s lockState, call *ast.CallExpr) []lockState {
			if fn := Callee(info, call); fn != nil && calleeReads[fn.Origin()] != nil {
				if sel, ok := ast.Unparen(call.Fun).(*ast.SelectorExpr); ok && isT(info.TypeOf(sel.X)) {
					for i := range calleeReads[fn.Origin()] {
						s.last[i] = calleeEpoch
					}
				}
			}
			if op, ok := lockOp(call); ok {
				switch op {
				case "Lock":
					s.mode, s.epoch = 2, s.epoch+1
				case "RLock":
					s.mode, s.epoch = 1, s.epoch+1
				case "Unlock", "RUnlock":
					s.mode = 0
				}
			}
			return []lockState{s}
		}
		pe.Other = func(s lockState, e ast.Expr) []lockState {
			sel, ok := e.(*ast.SelectorExpr)
			if !ok {
				return []lockState{s}
			}
			sl := info.Selections[sel]
			if sl == nil || sl.Kind() != types.FieldVal || !isT(sl.Recv()) {
				return []lockState{s}
			}
			f, _ := sl.Obj().(*types.Var)
			if f == nil || !guarded[f.Origin()] {
				return []lockState{s}
			}
			// an object under construction in this function is not shared
			if freshTable(info, fr.Decl, sel.X) {
				return []lockState{s}
			}
			if writes[sel] {
				if s.mode != 2 {
					viol = append(viol, lockViolation{sel.Pos(), "writes " + f.Name() + " without holding " + spec.mutex + " in write mode"})
				} else if le := s.last[fieldIdx[f.Origin()]]; le != 0 && le != s.epoch {
					where := "an earlier critical section of this function"
					if le == calleeEpoch {
						where = "the critical section of a method it called"
					}
					viol = append(viol, lockViolation{sel.Pos(), "writes " + f.Name() + " in a different critical section than the read of " + f.Name() + " it decided on, which happened in " + where + " (check-then-act across an unlock: two threads can both miss and both insert)"})
				}
			} else {
				if s.mode == 0 {
					viol = append(viol, lockViolation{sel.Pos(), "reads " + f.Name() + " without holding " + spec.mutex})
				}
			}
			if s.mode != 0 && !writes[sel] {
				s.last[fieldIdx[f.Origin()]] = s.epoch
			}
			return []lockState{s}
		}
		// deferred unlocks keep the lock to the end of the function
		pe.Stmt = func(s lockState, st ast.Stmt) ([]lockState, bool) {
			if _, ok := st.(*ast.DeferStmt); ok {
				return []lockState{s}, true
			}
			return nil, false
		}
		pe.Widen = func(s lockState) lockState { return s }
		pe.Block(newSet(lockState{}), fr.Decl.Body.List)
		if len(viol) == 0 {
			c.OK(key, fr.Decl.Pos(), "every guarded access holds %s in a sufficient mode", spec.mutex)
			return
		}
		sort.Slice(viol, func(i, j int) bool { return viol[i].pos < viol[j].pos })
		c.Bad(key, viol[0].pos, "%s %s (%d such access(es) in this function)", FuncName(fr.Decl), viol[0].what, len(viol))
	})
}

func init() {
	register(&Rule{
		ID:    "path/lock-containers",
		Text:  "the synchronised containers the parallel checker shares (concurrent.Slice/Map/Set/OrderedMap, diagnostic.SyncDiagnosticList) hold their mutex in a sufficient mode around every access to the wrapped collection in every method that is not an explicitly unsynchronised (…Unsafe) variant",
		Floor: 25,
		Run: func(c *Ctx) {
			for _, t := range []string{"Slice", "Map", "Set", "OrderedMap"} {
				f := map[string]string{"Slice": "Slice", "Map": "Map", "Set": "Map", "OrderedMap": "Map"}[t]
				sizeOnly := "returns only len/cap of the collection (one word, never a dangling pointer); a stale size cannot change a checker verdict, which is all the property names"
				c.runLockSpec(&lockSpec{pkg: "concurrent", typ: t, mutex: "mu", guarded: []string{f}, unlockedSuffix: "Unsafe",
					exempt: map[string]string{t + ".Len": sizeOnly, t + ".Cap": sizeOnly}})
			}
			c.runLockSpec(&lockSpec{pkg: "position/diagnostic", typ: "SyncDiagnosticList", mutex: "Mutex", guarded: []string{"DiagnosticList"},
				unlockedSuffix: "Unsafe", exempt: map[string]string{}})
		},
	})
	register(&Rule{
		ID:    "path/lock-symboltable",
		Text:  "every access to the symbol table's name and id tables holds its RWMutex in a sufficient mode on every path, and Add decides and inserts inside one write-locked section; no code outside the type's own functions touches the tables",
		Floor: 3,
		Run: func(c *Ctx) {
			c.runLockSpec(&lockSpec{
				pkg: "value", typ: "SymbolTableStruct", mutex: "mutex", guarded: []string{"nameTable", "idTable"},
				exempt: map[string]string{
					"SymbolTableStruct.ExistsId":  "reads only len(idTable), which grows monotonically, and a Symbol value can only be obtained after Add's unlock; the property does not demand more",
					"SymbolTableWithNameTable":    "constructor option, applied by NewSymbolTable before the table is published",
					"SymbolTableWithIdTable":      "constructor option, applied by NewSymbolTable before the table is published",
					"NewSymbolTableComparer":      "go-cmp comparer used by tests on quiescent tables",
				},
			})
		},
	})
}
