package main

import (
	"go/ast"
	"go/types"
	"strings"
)

// await/handover (C16): `await p` must not lose the wake-up of a promise that
// settles while the awaiting task is being suspended. The runtime closes that
// window with one lock: the AWAIT instruction takes p's mutex and tests
// whether p is settled under it; if not, it leaves the interpreter WITH THE
// LOCK HELD (state = awaitState), and the worker registers the suspended task
// as p's continuation before it releases the lock. A settlement of p has to
// take the same lock before it reads the continuation list.

func init() {
	register(&Rule{
		ID:    "await/handover",
		Text:  "in the run-loop clause of the AWAIT opcode, every path either releases the awaited promise's mutex inside the clause or leaves the clause by a return after setting the await state (handing the lock to the worker); in the worker's await-state arm, the continuation is registered before the mutex is released; the promise's continuation list is only touched with that mutex held (the *Unsafe and enqueue helpers are called only from such regions)",
		Floor: 4,
		Run:   runAwaitHandover,
	})
}

type awState struct {
	locked   bool
	awaitSet bool
}

func runAwaitHandover(c *Ctx) {
	p := c.Pkg("vm")
	info := p.TypesInfo
	isMutexOp := func(call *ast.CallExpr, op string) bool {
		typ, name := syncMethod(Callee(info, call))
		return typ == "Mutex" && name == op
	}
	// (1) the AWAIT clause
	var clause *ast.CaseClause
	var clauseFn *FuncRef
	c.Funcs("vm", func(fr *FuncRef) {
		if recvTypeName(fr.Decl) != "Thread" {
			return
		}
		ast.Inspect(fr.Decl.Body, func(n ast.Node) bool {
			cc, ok := n.(*ast.CaseClause)
			if !ok {
				return true
			}
			for _, e := range cc.List {
				if constName(info, e) == "AWAIT" {
					clause, clauseFn = cc, fr
				}
			}
			return true
		})
	})
	if clause == nil {
		c.Stale("vm: run-loop clause for bytecode.AWAIT")
	}
	{
		pe := &PathEval[awState]{Info: info}
		badRet := false
		pe.Call = func(s awState, call *ast.CallExpr) []awState {
			switch {
			case isMutexOp(call, "Lock"):
				s.locked = true
			case isMutexOp(call, "Unlock"):
				s.locked = false
			}
			return []awState{s}
		}
		pe.Stmt = func(s awState, st ast.Stmt) ([]awState, bool) {
			if as, ok := st.(*ast.AssignStmt); ok && len(as.Lhs) == 1 && len(as.Rhs) == 1 {
				if strings.HasSuffix(types.ExprString(as.Lhs[0]), ".state") && constName(info, as.Rhs[0]) == "awaitState" {
					s.awaitSet = true
					return []awState{s}, true
				}
			}
			return nil, false
		}
		pe.Return = func(s awState, r *ast.ReturnStmt) []awState {
			if s.locked && !s.awaitSet {
				badRet = true
			}
			return []awState{s}
		}
		pe.Widen = func(s awState) awState { return s }
		fl := pe.Block(newSet(awState{}), clause.Body)
		fall := false
		for s := range fl.next {
			if s.locked {
				fall = true
			}
		}
		locks := false
		ast.Inspect(clause, func(n ast.Node) bool {
			if call, ok := n.(*ast.CallExpr); ok && isMutexOp(call, "Lock") {
				locks = true
			}
			return true
		})
		c.Check(locks && !badRet && !fall, "AWAIT-clause", clause.Pos(), "the AWAIT clause of %s does not take the awaited promise's mutex, or leaves with it held without having set the await state (returns locked without hand-over: %v, falls through locked: %v): the promise can settle between the test and the registration of the continuation, and the awaiting task is never resumed, or the mutex is never released", FuncName(clauseFn.Decl), badRet, fall)
	}
	// (2) the worker's await-state arm
	found := false
	c.Funcs("vm", func(fr *FuncRef) {
		ast.Inspect(fr.Decl.Body, func(n ast.Node) bool {
			cc, ok := n.(*ast.CaseClause)
			if !ok {
				return true
			}
			isAwait := false
			for _, e := range cc.List {
				if constName(info, e) == "awaitState" {
					isAwait = true
				}
			}
			if !isAwait {
				return true
			}
			// does the arm release a mutex? then it is the hand-over arm
			var regPos, unlockPos ast.Node
			ast.Inspect(cc, func(m ast.Node) bool {
				if call, ok := m.(*ast.CallExpr); ok {
					if fn := Callee(info, call); fn != nil && strings.HasPrefix(fn.Name(), "RegisterContinuation") && regPos == nil {
						regPos = call
					}
					if isMutexOp(call, "Unlock") && unlockPos == nil {
						unlockPos = call
					}
				}
				return true
			})
			if unlockPos == nil && regPos == nil {
				return true
			}
			found = true
			c.Check(regPos != nil && unlockPos != nil && regPos.Pos() < unlockPos.Pos(), FuncName(fr.Decl)+"/register-before-unlock", cc.Pos(), "%s releases the awaited promise's mutex before (or without) registering the suspended task as its continuation: a settlement in between finds no continuation and the task is never resumed", FuncName(fr.Decl))
			return true
		})
	})
	if !found {
		c.Stale("vm: a `case awaitState:` arm that registers a continuation and unlocks")
	}
	// (3) continuation list under the mutex
	c.runLockSpec(&lockSpec{
		pkg: "vm", typ: "Promise", mutex: "m", guarded: []string{"continuations"}, unlockedSuffix: "Unsafe",
		exempt: map[string]string{
			"Promise.enqueueContinuations": "helper of the settlement methods: called only between their Lock and Unlock (obligation await/handover/enqueue-callers)",
		},
	})
	// callers of enqueueContinuations hold the lock
	c.Funcs("vm", func(fr *FuncRef) {
		ast.Inspect(fr.Decl.Body, func(n ast.Node) bool {
			call, ok := n.(*ast.CallExpr)
			if !ok {
				return true
			}
			fn := Callee(info, call)
			if fn == nil || fn.Name() != "enqueueContinuations" {
				return true
			}
			var lockPos, unlockPos ast.Node
			ast.Inspect(fr.Decl.Body, func(m ast.Node) bool {
				if c2, ok := m.(*ast.CallExpr); ok {
					if isMutexOp(c2, "Lock") && lockPos == nil {
						lockPos = c2
					}
					if isMutexOp(c2, "Unlock") {
						unlockPos = c2
					}
				}
				return true
			})
			c.Check(lockPos != nil && unlockPos != nil && lockPos.Pos() < call.Pos() && call.Pos() < unlockPos.Pos(), "enqueue-callers/"+FuncName(fr.Decl), call.Pos(), "%s enqueues the continuations outside its Lock/Unlock region: a task registering itself concurrently is lost", FuncName(fr.Decl))
			return true
		})
	})
}
