package main

import (
	"go/ast"
	"go/token"
	"go/types"
	"strings"
)

// lexer/newline-tracked (C04): the lexer advances its line counter by hand,
// at the places where it knows the character it has just consumed is a
// newline. A call of the raw advanceChar that consumes a character nobody has
// looked at - and that is not examined for '\n' afterwards - loses a line
// whenever that character happens to be a newline; every later token is then
// reported one line too early.

func init() {
	register(&Rule{
		ID:    "lexer/newline-tracked",
		Text:  "every call of the lexer's raw advanceChar either consumes a character that a test of the next character has just established (the call is inside, or guarded by, a condition that reads peekChar/peekNextChar/acceptChar(s)/hasMoreTokens-free lookahead, or inside a case of a switch over peekChar), or binds the consumed character to a variable that the function compares with '\\n' (directly, in a case, or through isNewLine); every other consumption goes through the line-tracking variants",
		Floor: 40,
		Run:   runLexerNewlineTracked,
	})
}

var lexerNewlineExempt = map[string]string{
	"Lexer.scanRegexFlag": "regexFlagMode is only pushed when the character after the closing `/` (or after the previous flag) is a letter (unicode.IsLetter(peekNextChar) at both push sites), so the one character consumed here is that letter",
}

func runLexerNewlineTracked(c *Ctx) {
	p := c.Pkg("lexer")
	info := p.TypesInfo
	primitive := map[string]bool{}
	// primitives: functions whose body is the consumption mechanism itself
	for _, n := range []string{"advanceChar", "advanceAnyChar", "matchChar", "matchChars", "matchCharsRune", "matchCharN", "swallowUntil", "backupChar", "backupChars", "backupCharsTo", "skipChar", "skipByte"} {
		primitive[n] = true
	}
	lookaheadVars := map[types.Object]bool{}
	isLookaheadCall := func(e ast.Expr) bool {
		call, ok := ast.Unparen(e).(*ast.CallExpr)
		if !ok {
			return false
		}
		fn := Callee(info, call)
		if fn == nil || recvNameOf(fn) != "Lexer" {
			return false
		}
		switch fn.Name() {
		case "peekChar", "peekNextChar", "nextChar":
			return true
		}
		return false
	}
	for _, f := range p.Syntax {
		ast.Inspect(f, func(n ast.Node) bool {
			as, ok := n.(*ast.AssignStmt)
			if !ok || len(as.Rhs) != 1 || !isLookaheadCall(as.Rhs[0]) {
				return true
			}
			if id, ok := as.Lhs[0].(*ast.Ident); ok {
				o := info.Defs[id]
				if o == nil {
					o = info.Uses[id]
				}
				if o != nil {
					lookaheadVars[o] = true
				}
			}
			return true
		})
	}
	// flags set to true only under a test of such a variable (`if peek ==
	// terminator { endOfLiteral = true; break }`) carry the same knowledge
	for _, f := range p.Syntax {
		ast.Inspect(f, func(n ast.Node) bool {
			ifs, ok := n.(*ast.IfStmt)
			if !ok {
				return true
			}
			mentions := false
			ast.Inspect(ifs.Cond, func(m ast.Node) bool {
				if id, ok := m.(*ast.Ident); ok && lookaheadVars[info.Uses[id]] {
					mentions = true
				}
				return true
			})
			if !mentions {
				return true
			}
			for _, s := range ifs.Body.List {
				if as, ok := s.(*ast.AssignStmt); ok && len(as.Lhs) == 1 && len(as.Rhs) == 1 {
					if tv, ok := info.Types[as.Rhs[0]]; ok && tv.Value != nil && tv.Value.String() == "true" {
						if id, ok := as.Lhs[0].(*ast.Ident); ok {
							if o := info.Uses[id]; o != nil {
								lookaheadVars[o] = true
							}
						}
					}
				}
			}
			return true
		})
	}
	isLookahead := func(e ast.Node) bool {
		found := false
		ast.Inspect(e, func(n ast.Node) bool {
			if id, ok := n.(*ast.Ident); ok && lookaheadVars[info.Uses[id]] {
				found = true
			}
			if call, ok := n.(*ast.CallExpr); ok {
				if fn := Callee(info, call); fn != nil && recvNameOf(fn) == "Lexer" {
					switch fn.Name() {
					case "peekChar", "peekNextChar", "acceptChar", "acceptChars", "acceptNextChar", "acceptCharsN", "acceptNextChars", "nextChar":
						found = true
					}
				}
			}
			return true
		})
		return found
	}
	if c.FuncOpt("lexer", "Lexer", "advanceChar") == nil {
		c.Stale("lexer.(*Lexer).advanceChar")
	}
	c.Funcs("lexer", func(fr *FuncRef) {
		if recvTypeName(fr.Decl) != "Lexer" || primitive[fr.Decl.Name.Name] {
			return
		}
		// variables compared with '\n' somewhere in the function
		newlineChecked := map[types.Object]bool{}
		isNL := func(e ast.Expr) bool {
			tv, ok := info.Types[e]
			return ok && tv.Value != nil && tv.Value.String() == "10"
		}
		ast.Inspect(fr.Decl.Body, func(n ast.Node) bool {
			switch x := n.(type) {
			case *ast.BinaryExpr:
				if x.Op == token.EQL || x.Op == token.NEQ {
					for _, pair := range [][2]ast.Expr{{x.X, x.Y}, {x.Y, x.X}} {
						if id, ok := ast.Unparen(pair[0]).(*ast.Ident); ok && isNL(pair[1]) {
							newlineChecked[info.Uses[id]] = true
						}
					}
				}
			case *ast.SwitchStmt:
				if x.Tag == nil {
					return true
				}
				var tagObj types.Object
				if id, ok := ast.Unparen(x.Tag).(*ast.Ident); ok {
					tagObj = info.Uses[id]
				}
				// switch ch, _ := l.advanceChar(); ch {
				if tagObj == nil {
					return true
				}
				for _, cl := range x.Body.List {
					for _, e := range cl.(*ast.CaseClause).List {
						if isNL(e) {
							newlineChecked[tagObj] = true
						}
					}
				}
			case *ast.CallExpr:
				if fn := Callee(info, x); fn != nil && fn.Name() == "isNewLine" && len(x.Args) == 1 {
					if id, ok := ast.Unparen(x.Args[0]).(*ast.Ident); ok {
						newlineChecked[info.Uses[id]] = true
					}
				}
			}
			return true
		})
		n := 0
		var stack []ast.Node
		ast.Inspect(fr.Decl.Body, func(nd ast.Node) bool {
			if nd == nil {
				stack = stack[:len(stack)-1]
				return true
			}
			stack = append(stack, nd)
			call, ok := nd.(*ast.CallExpr)
			if !ok {
				return true
			}
			fn := Callee(info, call)
			if fn == nil || recvNameOf(fn) != "Lexer" || fn.Name() != "advanceChar" {
				return true
			}
			n++
			key := FuncName(fr.Decl) + "/advanceChar#" + itoa(n)
			// (T) result bound to a variable that is compared with '\n'
			tracked := false
			if len(stack) >= 2 {
				if as, ok := stack[len(stack)-2].(*ast.AssignStmt); ok && len(as.Lhs) >= 1 {
					if id, ok := as.Lhs[0].(*ast.Ident); ok && id.Name != "_" {
						o := info.Defs[id]
						if o == nil {
							o = info.Uses[id]
						}
						if newlineChecked[o] {
							tracked = true
						}
					}
				}
			}
			// (K) guarded by a lookahead test
			known := false
			for i := len(stack) - 2; i >= 0 && !known; i-- {
				switch x := stack[i].(type) {
				case *ast.IfStmt:
					if isLookahead(x.Cond) {
						known = true
					}
				case *ast.ForStmt:
					if x.Cond != nil && isLookahead(x.Cond) {
						known = true
					}
				case *ast.CaseClause:
					if i > 1 {
						if sw, ok := stack[i-2].(*ast.SwitchStmt); ok && sw.Tag != nil && isLookahead(sw.Tag) {
							known = true
						}
					}
					// switch { case l.acceptChar(..): }
					for _, e := range x.List {
						if isLookahead(e) {
							known = true
						}
					}
				case *ast.BlockStmt:
					// a preceding `if !<lookahead> { return / break / continue }` in the same block
					for _, s := range x.List {
						if s.Pos() >= call.Pos() {
							break
						}
						if ifs, ok := s.(*ast.IfStmt); ok && isLookahead(ifs.Cond) && len(ifs.Body.List) > 0 {
							switch ifs.Body.List[len(ifs.Body.List)-1].(type) {
							case *ast.ReturnStmt, *ast.BranchStmt:
								known = true
							}
						}
					}
				case *ast.FuncLit:
					i = -1
				}
			}
			// a function that is only entered after its caller has looked at
			// the character (its doc says so: "Assumes that ... has been consumed" is
			// about earlier characters; the first advance of such helpers follows a
			// caller-side test) cannot be decided locally: treat the first statement
			// consumption in helpers named scan*/consume* conservatively as unknown
			if reason, ok := lexerNewlineExempt[FuncName(fr.Decl)]; ok && !tracked && !known {
				c.OK(key, call.Pos(), "reasoned exception: %s", reason)
				return true
			}
			c.Check(tracked || known, key, call.Pos(), "%s consumes a character with the raw advanceChar although no test has established which character it is, and never examines it for a newline: if it is one the line counter is not advanced and every later token is reported one line too early", FuncName(fr.Decl))
			return true
		})
	})
	_ = strings.Contains
}

// lexer/source-identity (C04): offsets, lines and columns are counted on the
// text the lexer holds; the parser, the diagnostics and Colorize index the
// text the CALLER holds with them. The two must be the same string: a
// constructor that stores a transformed copy (a stripped prefix, normalised
// line ends) shifts every span against the bytes it was lexed from.
func init() {
	register(&Rule{
		ID:    "lexer/source-identity",
		Text:  "every value stored into the `source` field of a lexer (Elk and regex lexers; composite literals and assignments) is a parameter of the enclosing function, unmodified",
		Floor: 2,
		Run:   runLexerSourceIdentity,
	})
}

func runLexerSourceIdentity(c *Ctx) {
	for _, rel := range []string{"lexer", "regex/lexer"} {
		p := c.ByRel[rel]
		if p == nil {
			continue
		}
		info := p.TypesInfo
		c.Funcs(rel, func(fr *FuncRef) {
			params := map[types.Object]bool{}
			if fr.Decl.Type.Params != nil {
				for _, f := range fr.Decl.Type.Params.List {
					for _, n := range f.Names {
						params[info.Defs[n]] = true
					}
				}
			}
			n := 0
			check := func(val ast.Expr, pos token.Pos) {
				n++
				key := rel + "." + FuncName(fr.Decl) + "/source#" + itoa(n)
				id, ok := ast.Unparen(val).(*ast.Ident)
				c.Check(ok && params[info.Uses[id]], key, pos, "%s.%s stores `%s` as the lexer's source: positions are counted on that text but used to index the caller's text, so unless the two are the same string every span is displaced", rel, FuncName(fr.Decl), types.ExprString(val))
			}
			ast.Inspect(fr.Decl.Body, func(nd ast.Node) bool {
				switch x := nd.(type) {
				case *ast.CompositeLit:
					if NamedOf(info.TypeOf(x)) != rel+".Lexer" {
						return true
					}
					for _, el := range x.Elts {
						if kv, ok := el.(*ast.KeyValueExpr); ok {
							if k, ok := kv.Key.(*ast.Ident); ok && k.Name == "source" {
								check(kv.Value, kv.Pos())
							}
						}
					}
				case *ast.AssignStmt:
					for i, l := range x.Lhs {
						if sel, ok := ast.Unparen(l).(*ast.SelectorExpr); ok && sel.Sel.Name == "source" && NamedOf(info.TypeOf(sel.X)) == rel+".Lexer" && i < len(x.Rhs) {
							check(x.Rhs[i], x.Pos())
						}
					}
				}
				return true
			})
		})
	}
}
