package main

import (
	"fmt"
	"go/ast"
	"go/token"
	"go/types"
)

// stack/stale-after-reentry (C10, C01): the value stack is reallocated when it
// grows. A Go local that holds an address into the stack (a slice of the
// argument slots, a pointer computed with spAdd/fpAdd) is only valid until the
// next call that can run Elk code or grow the stack; using it afterwards reads
// or writes the abandoned old stack - the program's result then depends on
// the initial stack size.

func init() {
	register(&Rule{
		ID:    "stack/stale-after-reentry",
		Text:  "in the VM, a local holding an address into the value stack (derived from spAdd/fpAdd/stackAdd/&stack[i]/stack[a:b], possibly through unsafe.Slice) is not used after a later call in the same function that can re-enter the interpreter or grow the stack (a call through a native-function value taking the thread, or a thread method from which growValueStack is reachable)",
		Floor: 10,
		Run:   runStaleStack,
	})
}

func runStaleStack(c *Ctx) {
	p := c.Pkg("vm")
	info := p.TypesInfo
	byObj := map[*types.Func]*FuncRef{}
	c.Funcs("vm", func(fr *FuncRef) { byObj[fr.Obj] = fr })
	if c.FuncOpt("vm", "Thread", "growValueStack") == nil {
		c.Stale("vm.(*Thread).growValueStack")
	}
	isThreadPtr := func(t types.Type) bool { return NamedOf(t) == "vm.Thread" }
	// calls through function values whose first parameter is *Thread
	isNativeFuncCall := func(call *ast.CallExpr) bool {
		if Callee(info, call) != nil {
			return false
		}
		if tv, ok := info.Types[call.Fun]; ok && tv.IsType() {
			return false
		}
		sig, ok := info.TypeOf(call.Fun).Underlying().(*types.Signature)
		return ok && sig.Params().Len() >= 1 && isThreadPtr(sig.Params().At(0).Type())
	}
	// may-grow: functions from which growValueStack or a native function call is reachable
	mayGrow := map[*types.Func]bool{}
	for fn, fr := range byObj {
		if fr.Decl.Name.Name == "growValueStack" {
			mayGrow[fn] = true
		}
	}
	for changed := true; changed; {
		changed = false
		for fn, fr := range byObj {
			if mayGrow[fn] {
				continue
			}
			ast.Inspect(fr.Decl.Body, func(n ast.Node) bool {
				if mayGrow[fn] {
					return false
				}
				if call, ok := n.(*ast.CallExpr); ok {
					if cal := Callee(info, call); cal != nil && mayGrow[cal.Origin()] {
						mayGrow[fn] = true
						changed = true
					} else if isNativeFuncCall(call) {
						mayGrow[fn] = true
						changed = true
					}
				}
				return true
			})
		}
	}
	c.Stats["vm_functions_that_may_grow_the_stack"] = len(mayGrow)

	// helpers that hand out a stack address: a Thread method returning a
	// slice/pointer whose returned expression is itself stack-derived
	returnsStack := map[*types.Func]bool{}
	var stackAddr func(e ast.Expr) bool
	stackAddr = func(e ast.Expr) bool {
		found := false
		ast.Inspect(e, func(n ast.Node) bool {
			switch x := n.(type) {
			case *ast.CallExpr:
				if fn := Callee(info, x); fn != nil && returnsStack[fn.Origin()] {
					found = true
				}
				if fn := Callee(info, x); fn != nil && recvNameOf(fn) == "Thread" {
					switch fn.Name() {
					case "spAdd", "fpAdd", "stackAdd", "spAddRaw", "fpAddRaw", "stackAddRaw", "spSubtractRaw", "spGet", "fpGet":
						found = true
					}
				}
			case *ast.SliceExpr:
				if isThreadStack(info, x.X) {
					found = true
				}
			case *ast.UnaryExpr:
				if x.Op == token.AND {
					if ix, ok := ast.Unparen(x.X).(*ast.IndexExpr); ok && isThreadStack(info, ix.X) {
						found = true
					}
				}
			}
			return true
		})
		return found
	}
	// summaries (two rounds: a helper may return what another helper returned)
	for round := 0; round < 2; round++ {
		for fn, fr := range byObj {
			if returnsStack[fn] || recvTypeName(fr.Decl) != "Thread" {
				continue
			}
			sig := fn.Type().(*types.Signature)
			if sig.Results().Len() != 1 {
				continue
			}
			switch sig.Results().At(0).Type().Underlying().(type) {
			case *types.Slice:
			default:
				// pointer-returning primitives (spAdd, fpAdd ...) are the named sources themselves
				continue
			}
			local := map[types.Object]bool{}
			ast.Inspect(fr.Decl.Body, func(n ast.Node) bool {
				switch x := n.(type) {
				case *ast.AssignStmt:
					if len(x.Lhs) == len(x.Rhs) {
						for i, l := range x.Lhs {
							if id, ok := l.(*ast.Ident); ok && stackAddr(x.Rhs[i]) {
								local[info.ObjectOf(id)] = true
							}
						}
					}
				case *ast.ReturnStmt:
					if len(x.Results) == 1 {
						if stackAddr(x.Results[0]) {
							returnsStack[fn] = true
						}
						if id, ok := ast.Unparen(x.Results[0]).(*ast.Ident); ok && local[info.Uses[id]] {
							returnsStack[fn] = true
						}
					}
				}
				return true
			})
		}
	}
	c.Stats["vm_helpers_returning_a_stack_slice"] = len(returnsStack)
	c.Funcs("vm", func(fr *FuncRef) {
		if recvTypeName(fr.Decl) != "Thread" {
			return
		}
		// tainted locals with their definition position
		type tl struct {
			obj types.Object
			pos token.Pos
		}
		var tainted []tl
		ast.Inspect(fr.Decl.Body, func(n ast.Node) bool {
			as, ok := n.(*ast.AssignStmt)
			if !ok || as.Tok != token.DEFINE || len(as.Lhs) != len(as.Rhs) {
				return true
			}
			for i, l := range as.Lhs {
				id, ok := l.(*ast.Ident)
				if !ok {
					continue
				}
				o := info.Defs[id]
				if o == nil {
					continue
				}
				// only address-like locals: pointers and slices
				switch o.Type().Underlying().(type) {
				case *types.Pointer, *types.Slice:
				default:
					if b, ok := o.Type().Underlying().(*types.Basic); !ok || b.Kind() != types.UnsafePointer && b.Kind() != types.Uintptr {
						continue
					}
				}
				// a dereferenced load (*vm.spAdd(-1)) is a value, not an address
				if st, ok := ast.Unparen(as.Rhs[i]).(*ast.StarExpr); ok {
					_ = st
					continue
				}
				if stackAddr(as.Rhs[i]) {
					tainted = append(tainted, tl{o, as.Pos()})
				}
			}
			return true
		})
		if len(tainted) == 0 {
			return
		}
		// re-entrant calls in the function
		var reentries []token.Pos
		ast.Inspect(fr.Decl.Body, func(n ast.Node) bool {
			if _, ok := n.(*ast.FuncLit); ok {
				return false
			}
			if call, ok := n.(*ast.CallExpr); ok {
				if cal := Callee(info, call); cal != nil && mayGrow[cal.Origin()] {
					reentries = append(reentries, call.End())
				} else if isNativeFuncCall(call) {
					reentries = append(reentries, call.End())
				}
			}
			return true
		})
		for i, t := range tainted {
			key := fmt.Sprintf("%s/%s#%d", FuncName(fr.Decl), t.obj.Name(), i+1)
			var stale token.Pos
			ast.Inspect(fr.Decl.Body, func(n ast.Node) bool {
				id, ok := n.(*ast.Ident)
				if !ok || info.Uses[id] != t.obj || stale != token.NoPos {
					return true
				}
				for _, r := range reentries {
					if r > t.pos && id.Pos() > r {
						stale = id.Pos()
					}
				}
				return true
			})
			c.Check(stale == token.NoPos, key, stale, "%s keeps `%s`, an address into the value stack taken at %s, and uses it again at %s after a call that can run Elk code or grow the stack: if the stack was reallocated in between, this touches the abandoned copy and the outcome depends on the configured stack size", FuncName(fr.Decl), t.obj.Name(), c.Pos(t.pos), c.Pos(stale))
		}
	})
}

// isThreadStack: the expression is the `stack` field of a Thread (the value
// stack that growValueStack reallocates), not the saved stack of a Generator,
// which lives on the heap and never moves.
func isThreadStack(info *types.Info, e ast.Expr) bool {
	sel, ok := ast.Unparen(e).(*ast.SelectorExpr)
	if !ok || sel.Sel.Name != "stack" {
		return false
	}
	return NamedOf(info.TypeOf(sel.X)) == "vm.Thread"
}
