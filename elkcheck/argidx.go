package main

import (
	"go/ast"
	"go/types"
)

// native/argidx: the VM hands a native method a slice of exactly
// parameterCount+1 values (callNativeMethod); a constant index into that
// slice beyond the registered parameter count is an out-of-range read that
// crashes the interpreter.

func init() {
	register(&Rule{
		ID:    "native/argidx",
		Text:  "every constant index args[k] in the body of a native method registered with Def satisfies k <= the parameter count it is registered with (the VM sizes the argument slice from the registration)",
		Floor: 2500,
		Run:   runNativeArgIdx,
	})
}

func runNativeArgIdx(c *Ctx) {
	nt := c.parseNatives()
	seen := map[string]int{}
	all := append([]*nativeDef{}, nt.Defs...)
	all = append(all, nt.Unresolv...)
	for _, nd := range all {
		if nd.Kind != "Def" || nd.Func == nil {
			continue
		}
		info := nd.Pkg.Info
		if len(nd.Func.Type.Params.List) < 2 || len(nd.Func.Type.Params.List[1].Names) == 0 {
			continue
		}
		argsObj := info.Defs[nd.Func.Type.Params.List[1].Names[0]]
		if argsObj == nil {
			continue // `_ []value.Value`
		}
		maxIdx := int64(0)
		var at ast.Node
		ast.Inspect(nd.Func.Body, func(n ast.Node) bool {
			ix, ok := n.(*ast.IndexExpr)
			if !ok {
				return true
			}
			id, ok := ast.Unparen(ix.X).(*ast.Ident)
			if !ok || info.Uses[id] != argsObj {
				return true
			}
			if k, ok := ConstInt(info, ix.Index); ok && k > maxIdx {
				maxIdx, at = k, ix
			}
			return true
		})
		id := nd.ID()
		if nd.NSObj == nil {
			id = nd.Pkg.Rel + "." + FuncName(nd.In) + "/" + nd.Name
		}
		seen[id]++
		if seen[id] > 1 {
			id = id + "#" + string(rune('0'+seen[id]))
		}
		if at == nil {
			c.OK(id, nd.Call.Pos(), "no constant index beyond args[0]; registered with %d parameters", nd.Params)
			continue
		}
		c.Check(maxIdx <= int64(nd.Params), id, at.Pos(), "body reads args[%d]; registered with %d parameters (argument slice has %d elements)", maxIdx, nd.Params, nd.Params+1)
	}
	_ = types.Typ
}
