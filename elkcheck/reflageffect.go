package main

import (
	"go/ast"
	"go/constant"
	"go/token"
	"go/types"
	"sort"
	"strings"
)

// reflags/effective (C21): a flag written after a regex literal has a meaning
// only if the translation does something with it. There are two ways: the
// transpiler tests the flag itself while translating (x, a), or the flag is one
// of those Go's engine implements and the entry point of the translation
// writes it into the Go pattern. A flag that is neither is silently ignored:
// `%/a/i` compiles to the pattern `a`.
//
// regex/compose-ambient (C21): `a + b` embeds each operand as `(?flags:src)`
// with only the operand's ENABLED flags; a flag the operand does not have is
// not switched off. That is only the operand's own meaning if the whole is
// compiled without ambient flags.

func init() {
	register(&Rule{
		ID:    "reflags/effective",
		Text:  "every flag constant of regex/flag is either tested individually (HasFlag(flag.X)) somewhere in the transpiler, or is let through by IsSupportedByGo and the function that parses the pattern and starts the translation writes the letters of the flags IsSupportedByGo lets through into the output",
		Floor: 6,
		Run:   runReFlagsEffective,
	})
	register(&Rule{
		ID:    "regex/compose-ambient",
		Text:  "a function of package value that compiles a pattern assembled from operands embedded with their enabled flags only (through a helper writing `(?` + flag.ToString(flags) + `:` ...) passes an empty flag set to the compilation, so that no flag of one operand leaks into the other",
		Floor: 1,
		Run:   runRegexComposeAmbient,
	})
}

func runReFlagsEffective(c *Ctx) {
	fp := c.Pkg("regex/flag")
	finfo := fp.TypesInfo
	flagVal := map[string]constant.Value{}
	for _, n := range fp.Types.Scope().Names() {
		if k, ok := fp.Types.Scope().Lookup(n).(*types.Const); ok && strings.HasSuffix(n, "Flag") && NamedOf(k.Type()) == "bitfield.BitFlag8" {
			flagVal[n] = k.Val()
		}
	}
	if len(flagVal) < 4 {
		c.Stale("regex/flag: the flag constants")
	}
	// IsSupportedByGo: `return flag OP Const`
	var supported func(v constant.Value) (bool, bool)
	if fr := c.FuncOpt("regex/flag", "", "IsSupportedByGo"); fr != nil && len(fr.Decl.Body.List) == 1 {
		if ret, ok := fr.Decl.Body.List[0].(*ast.ReturnStmt); ok && len(ret.Results) == 1 {
			if be, ok := ast.Unparen(ret.Results[0]).(*ast.BinaryExpr); ok {
				if tv, ok := finfo.Types[be.Y]; ok && tv.Value != nil {
					if _, isIdent := ast.Unparen(be.X).(*ast.Ident); isIdent {
						op, bound := be.Op, tv.Value
						switch op {
						case token.LEQ, token.LSS, token.GEQ, token.GTR, token.EQL, token.NEQ:
							supported = func(v constant.Value) (bool, bool) { return constant.Compare(v, op, bound), true }
						}
					}
				}
			}
		}
	}
	if supported == nil {
		c.Stale("regex/flag.IsSupportedByGo of the form `return flag <op> Constant`")
	}
	rp := c.Pkg("regex")
	rinfo := rp.TypesInfo
	flagName := func(e ast.Expr) string {
		sel, ok := ast.Unparen(e).(*ast.SelectorExpr)
		if !ok {
			return ""
		}
		k, ok := rinfo.Uses[sel.Sel].(*types.Const)
		if !ok || k.Pkg() == nil || relPkg(k.Pkg().Path()) != "regex/flag" {
			return ""
		}
		if _, known := flagVal[k.Name()]; !known {
			return ""
		}
		return k.Name()
	}
	tested := map[string]token.Pos{}
	var entry *FuncRef
	emits := false
	c.Funcs("regex", func(fr *FuncRef) {
		callsParse, callsSupported, callsToChar, writes := false, false, false, false
		ast.Inspect(fr.Decl.Body, func(n ast.Node) bool {
			call, ok := n.(*ast.CallExpr)
			if !ok {
				return true
			}
			fn := Callee(rinfo, call)
			if fn == nil {
				return true
			}
			if fn.Name() == "HasFlag" && len(call.Args) == 1 {
				if k := flagName(call.Args[0]); k != "" {
					if _, seen := tested[k]; !seen {
						tested[k] = call.Pos()
					}
				}
			}
			if fn.Pkg() != nil {
				switch relPkg(fn.Pkg().Path()) + "." + fn.Name() {
				case "regex/parser.Parse":
					callsParse = true
				case "regex/flag.IsSupportedByGo":
					callsSupported = true
				case "regex/flag.ToChar":
					callsToChar = true
				}
			}
			if strings.HasPrefix(fn.Name(), "Write") {
				writes = true
			}
			return true
		})
		if callsParse && entry == nil {
			entry = fr
			emits = callsSupported && callsToChar && writes
		}
	})
	if entry == nil {
		c.Stale("regex: the function that parses the pattern (calls parser.Parse) and starts the translation")
	}
	var names []string
	for n := range flagVal {
		names = append(names, n)
	}
	sort.Strings(names)
	for _, n := range names {
		if pos, ok := tested[n]; ok {
			c.OK(n, pos, "tested individually by the transpiler")
			continue
		}
		sup, _ := supported(flagVal[n])
		c.Check(sup && emits, n, entry.Decl.Pos(), "the transpiler never tests %s, and %s: the flag written after a regex literal changes nothing, the regex compiles to the pattern without it", n, map[bool]string{true: entry.Decl.Name.Name + " does not write the flags IsSupportedByGo lets through into the Go pattern", false: "IsSupportedByGo does not let it through to Go's engine"}[sup])
	}
}

func runRegexComposeAmbient(c *Ctx) {
	p := c.Pkg("value")
	info := p.TypesInfo
	// embedding helpers: functions writing flag.ToString(<x>.Flags) (enabled flags only)
	embeds := map[*types.Func]bool{}
	callsFlagFn := func(body ast.Node, name string) bool {
		f := false
		ast.Inspect(body, func(n ast.Node) bool {
			if call, ok := n.(*ast.CallExpr); ok {
				if fn := Callee(info, call); fn != nil && fn.Pkg() != nil && relPkg(fn.Pkg().Path()) == "regex/flag" && fn.Name() == name {
					f = true
				}
			}
			return true
		})
		return f
	}
	c.Funcs("value", func(fr *FuncRef) {
		if recvTypeName(fr.Decl) != "Regex" {
			return
		}
		if callsFlagFn(fr.Decl.Body, "ToString") && !callsFlagFn(fr.Decl.Body, "ToStringWithDisabledFlags") {
			// only helpers that write into a writer/builder (not Inspect, which returns a string)
			sig := fr.Obj.Type().(*types.Signature)
			if sig.Results().Len() == 0 {
				embeds[fr.Obj] = true
			}
		}
	})
	if len(embeds) == 0 {
		c.Stale("value: a Regex method without result that writes `(?` + flag.ToString(flags) + `:` + source + `)` (WriteSourceTo)")
	}
	n := 0
	c.Funcs("value", func(fr *FuncRef) {
		usesEmbed := false
		var compiles []*ast.CallExpr
		ast.Inspect(fr.Decl.Body, func(m ast.Node) bool {
			call, ok := m.(*ast.CallExpr)
			if !ok {
				return true
			}
			fn := Callee(info, call)
			if fn == nil {
				return true
			}
			if embeds[fn.Origin()] {
				usesEmbed = true
			}
			if fn.Pkg() != nil && relPkg(fn.Pkg().Path()) == "value" && (fn.Name() == "CompileRegex" || fn.Name() == "MustCompileRegex" || fn.Name() == "CompileRegexVal") && len(call.Args) == 2 {
				compiles = append(compiles, call)
			}
			return true
		})
		if !usesEmbed || len(compiles) == 0 || embeds[fr.Obj] {
			return
		}
		for i, call := range compiles {
			n++
			key := FuncName(fr.Decl) + "/compile#" + itoa(i+1)
			empty := false
			if cl, ok := ast.Unparen(call.Args[1]).(*ast.CompositeLit); ok && len(cl.Elts) == 0 {
				empty = true
			}
			c.Check(empty, key, call.Args[1].Pos(), "%s embeds its operands with their enabled flags only and compiles the result with the flag set `%s`: every flag in it that an operand lacks (extended mode, ASCII classes, case folding ...) now applies to that operand's sub-pattern too, so the composed regex accepts other strings than its parts denote", FuncName(fr.Decl), types.ExprString(call.Args[1]))
		}
	})
	c.Stats["compositions_of_embedded_operands"] = n
}
