package main

import (
	"go/ast"
	"go/token"
	"go/types"
	"sort"
	"strings"
)

// cover/offsets (C29, C15, C32, C01): byte offsets into a function's
// instruction stream are stored in several persistent places (catch entries,
// value-pool integers, recorded calls, loop jump records). A function that
// changes the instruction stream other than by appending at the end must
// move all of them.

func init() {
	register(&Rule{
		ID:    "cover/offsets",
		Text:  "every compiler function that rewrites Instructions other than by appending (prepending the PREP_LOCALS prologue, cutting bytes out) updates every persistent location that holds an instruction offset; the set of such locations is computed by taint from nextInstructionOffset() / len(Instructions)",
		Floor: 5,
		Run:   runCoverOffsets,
	})
}

// offsetFields: struct fields of the compiler and vm packages that are
// assigned a value derived from the current instruction offset.
func (c *Ctx) offsetFields() map[fieldKey]token.Pos {
	out := map[fieldKey]token.Pos{}
	cp := c.Pkg("compiler")
	info := cp.TypesInfo

	isOffsetSource := func(e ast.Expr) bool {
		found := false
		ast.Inspect(e, func(n ast.Node) bool {
			if call, ok := n.(*ast.CallExpr); ok {
				if fn := Callee(info, call); fn != nil && fn.Name() == "nextInstructionOffset" {
					found = true
				}
				if id, ok := call.Fun.(*ast.Ident); ok && id.Name == "len" && len(call.Args) == 1 {
					if strings.HasSuffix(types.ExprString(call.Args[0]), ".Instructions") {
						found = true
					}
				}
			}
			return true
		})
		return found
	}

	// constructor summaries: function -> param index -> field it initialises
	type ctorKey struct {
		fn  *types.Func
		idx int
	}
	ctor := map[ctorKey]fieldKey{}
	for _, rel := range []string{"compiler", "vm"} {
		p := c.Pkg(rel)
		pinfo := p.TypesInfo
		c.Funcs(rel, func(fr *FuncRef) {
			if fr.Obj == nil {
				return
			}
			ast.Inspect(fr.Decl.Body, func(n ast.Node) bool {
				cl, ok := n.(*ast.CompositeLit)
				if !ok {
					return true
				}
				t := pinfo.TypeOf(cl)
				if t == nil {
					return true
				}
				if pt, ok := t.(*types.Pointer); ok {
					t = pt.Elem()
				}
				if _, ok := t.Underlying().(*types.Struct); !ok {
					return true
				}
				for _, el := range cl.Elts {
					kv, ok := el.(*ast.KeyValueExpr)
					if !ok {
						continue
					}
					kid, ok := kv.Key.(*ast.Ident)
					if !ok {
						continue
					}
					vid, ok := ast.Unparen(kv.Value).(*ast.Ident)
					if !ok {
						continue
					}
					if pv, ok := pinfo.Uses[vid].(*types.Var); ok {
						if idx, isParam := paramIndex(pinfo, fr.Decl, pv); isParam {
							ctor[ctorKey{fr.Obj, idx}] = fieldKey{NamedOf(t), kid.Name}
						}
					}
				}
				return true
			})
		})
	}

	// tainted locals and parameters: one flow-insensitive fixpoint over the
	// methods of the bytecode compiler (an argument taints the parameter)
	tainted := map[types.Object]bool{}
	isTainted := func(e ast.Expr) bool {
		if isOffsetSource(e) {
			return true
		}
		t := false
		ast.Inspect(e, func(n ast.Node) bool {
			if id, ok := n.(*ast.Ident); ok && tainted[info.Uses[id]] {
				t = true
			}
			return true
		})
		return t
	}
	isInt := func(o types.Object) bool {
		b, ok := o.Type().Underlying().(*types.Basic)
		return ok && b.Info()&types.IsInteger != 0
	}
	declOf := map[*types.Func]*ast.FuncDecl{}
	c.Funcs("compiler", func(fr *FuncRef) {
		if fr.Obj != nil {
			declOf[fr.Obj] = fr.Decl
		}
	})
	for changed := true; changed; {
		changed = false
		c.Funcs("compiler", func(fr *FuncRef) {
			if recvTypeName(fr.Decl) != "BytecodeCompiler" {
				return
			}
			ast.Inspect(fr.Decl.Body, func(n ast.Node) bool {
				switch x := n.(type) {
				case *ast.AssignStmt:
					if len(x.Lhs) != len(x.Rhs) {
						return true
					}
					for i, l := range x.Lhs {
						id, ok := l.(*ast.Ident)
						if !ok {
							continue
						}
						o := info.Defs[id]
						if o == nil {
							o = info.Uses[id]
						}
						if o != nil && !tainted[o] && isInt(o) && isTainted(x.Rhs[i]) {
							tainted[o] = true
							changed = true
						}
					}
				case *ast.CallExpr:
					fn := Callee(info, x)
					if fn == nil {
						return true
					}
					d := declOf[fn.Origin()]
					if d == nil || recvTypeName(d) != "BytecodeCompiler" {
						return true
					}
					i := 0
					for _, f := range d.Type.Params.List {
						for _, pn := range f.Names {
							if i < len(x.Args) {
								po := info.Defs[pn]
								if po != nil && !tainted[po] && isInt(po) && isTainted(x.Args[i]) {
									tainted[po] = true
									changed = true
								}
							}
							i++
						}
					}
				}
				return true
			})
		})
	}
	c.Funcs("compiler", func(fr *FuncRef) {
		if recvTypeName(fr.Decl) != "BytecodeCompiler" {
			return
		}
		ast.Inspect(fr.Decl.Body, func(n ast.Node) bool {
			switch x := n.(type) {
			case *ast.AssignStmt:
				if len(x.Lhs) != len(x.Rhs) {
					return true
				}
				for i, l := range x.Lhs {
					sel, ok := ast.Unparen(l).(*ast.SelectorExpr)
					if !ok {
						continue
					}
					s := info.Selections[sel]
					if s == nil || s.Kind() != types.FieldVal || !isTainted(x.Rhs[i]) {
						continue
					}
					if b, ok := s.Type().Underlying().(*types.Basic); !ok || b.Info()&types.IsInteger == 0 {
						continue
					}
					k := fieldKey{NamedOf(s.Recv()), sel.Sel.Name}
					if _, ok := out[k]; !ok {
						out[k] = x.Pos()
					}
				}
			case *ast.CallExpr:
				fn := Callee(info, x)
				if fn == nil {
					return true
				}
				for i, a := range x.Args {
					if !isTainted(a) {
						continue
					}
					if k, ok := ctor[ctorKey{fn.Origin(), i}]; ok {
						if _, seen := out[k]; !seen {
							out[k] = x.Pos()
						}
					}
				}
			case *ast.CompositeLit:
				t := info.TypeOf(x)
				if t == nil {
					return true
				}
				if pt, ok := t.(*types.Pointer); ok {
					t = pt.Elem()
				}
				if _, ok := t.Underlying().(*types.Struct); !ok {
					return true
				}
				for _, el := range x.Elts {
					if kv, ok := el.(*ast.KeyValueExpr); ok {
						if kid, ok := kv.Key.(*ast.Ident); ok && isTainted(kv.Value) {
							k := fieldKey{NamedOf(t), kid.Name}
							if _, seen := out[k]; !seen {
								out[k] = kv.Pos()
							}
						}
					}
				}
			}
			return true
		})
	})
	return out
}

// fieldOf looks a struct field up by package, type and name.
func (c *Ctx) fieldOf(pkgRel, typ, field string) *types.Var {
	p := c.Pkg(pkgRel)
	tn, ok := p.Types.Scope().Lookup(typ).(*types.TypeName)
	if !ok {
		return nil
	}
	st, ok := tn.Type().Underlying().(*types.Struct)
	if !ok {
		return nil
	}
	for i := 0; i < st.NumFields(); i++ {
		if st.Field(i).Name() == field {
			return st.Field(i)
		}
	}
	return nil
}

// tailCutOnly: fr has parameters (offset, count); every call site in the
// package passes count with offset + count = nextInstructionOffset().
func (c *Ctx) tailCutOnly(fr *FuncRef) (int, bool) {
	info := fr.Pkg.TypesInfo
	sites, all := 0, true
	c.Funcs("compiler", func(caller *FuncRef) {
		ast.Inspect(caller.Decl.Body, func(n ast.Node) bool {
			call, ok := n.(*ast.CallExpr)
			if !ok {
				return true
			}
			if fn := Callee(info, call); fn == nil || fn.Origin() != fr.Obj {
				return true
			}
			sites++
			if len(call.Args) != 2 {
				all = false
				return true
			}
			le := c.newLinEval(caller)
			le.AtPos = call.Pos()
			sum := le.Eval(call.Args[0]).add(le.Eval(call.Args[1]), 1)
			// nextInstructionOffset() is len(Instructions) of the compiler's function
			end := linSym("len(c.bytecode.Instructions)")
			if !sum.equal(end) {
				all = false
			}
			return true
		})
	})
	return sites, sites > 0 && all
}

// offsetFieldExempt: offset-holding fields that need no adjustment, with the
// reason (one named field per entry).
var offsetFieldExempt = map[string]string{}

func runCoverOffsets(c *Ctx) {
	fields := c.offsetFields()
	c.Stats["offset_holding_fields"] = len(fields)
	cp := c.Pkg("compiler")
	info := cp.TypesInfo

	// value-pool integers that hold offsets are tracked through a list of
	// ids (a []int field of the compiler appended next to emitLoadValue).
	// Rewriters: functions assigning X.Instructions something that is not
	// append(X.Instructions, ...)
	type rewriter struct {
		fr      *FuncRef
		prepend bool
		pos     token.Pos
	}
	var rws []rewriter
	c.Funcs("compiler", func(fr *FuncRef) {
		ast.Inspect(fr.Decl.Body, func(n ast.Node) bool {
			as, ok := n.(*ast.AssignStmt)
			if !ok || len(as.Lhs) != 1 || len(as.Rhs) != 1 {
				return true
			}
			sel, ok := ast.Unparen(as.Lhs[0]).(*ast.SelectorExpr)
			if !ok || sel.Sel.Name != "Instructions" {
				return true
			}
			lhs := types.ExprString(sel)
			// plain append at the end?
			if call, ok := ast.Unparen(as.Rhs[0]).(*ast.CallExpr); ok {
				if id, ok := call.Fun.(*ast.Ident); ok && id.Name == "append" && len(call.Args) > 0 && types.ExprString(call.Args[0]) == lhs {
					return true
				}
				// append(prefix, X.Instructions...): prepend
				if id, ok := call.Fun.(*ast.Ident); ok && id.Name == "append" {
					rws = append(rws, rewriter{fr, true, as.Pos()})
					return true
				}
			}
			rws = append(rws, rewriter{fr, false, as.Pos()})
			return true
		})
	})
	if len(rws) == 0 {
		c.Stale("compiler: functions that rewrite Instructions")
	}

	var keys []fieldKey
	for k := range fields {
		keys = append(keys, k)
	}
	sort.Slice(keys, func(i, j int) bool { return keys[i].typ+keys[i].field < keys[j].typ+keys[j].field })

	for _, rw := range rws {
		// fields the rewriter assigns (+=, -=, =), on any object
		assigned := map[fieldKey]bool{}
		ast.Inspect(rw.fr.Decl.Body, func(n ast.Node) bool {
			switch x := n.(type) {
			case *ast.AssignStmt:
				for _, l := range x.Lhs {
					if sel, ok := ast.Unparen(l).(*ast.SelectorExpr); ok {
						if s := info.Selections[sel]; s != nil && s.Kind() == types.FieldVal {
							assigned[fieldKey{NamedOf(s.Recv()), sel.Sel.Name}] = true
						}
					}
				}
			case *ast.IncDecStmt:
				if sel, ok := ast.Unparen(x.X).(*ast.SelectorExpr); ok {
					if s := info.Selections[sel]; s != nil && s.Kind() == types.FieldVal {
						assigned[fieldKey{NamedOf(s.Recv()), sel.Sel.Name}] = true
					}
				}
			}
			return true
		})
		kind := "cuts bytes out of"
		if rw.prepend {
			kind = "prepends bytes to"
			// value-pool integers holding offsets are tracked by id in a
			// []int field of the compiler; the prologue must move them too
			usesIds := false
			ast.Inspect(rw.fr.Decl.Body, func(n ast.Node) bool {
				if sel, ok := n.(*ast.SelectorExpr); ok && sel.Sel.Name == "offsetValueIds" {
					usesIds = true
				}
				return true
			})
			if c.fieldOf("compiler", "BytecodeCompiler", "offsetValueIds") == nil {
				c.Stale("compiler.BytecodeCompiler.offsetValueIds")
			}
			c.Check(usesIds, FuncName(rw.fr.Decl)+"/value-pool-offsets", rw.pos, "%s prepends bytes but does not adjust the value-pool integers listed in offsetValueIds (absolute jump targets of break/continue through finally)", FuncName(rw.fr.Decl))
		} else if sites, allTail := c.tailCutOnly(rw.fr); allTail {
			// a cut that always reaches the end of the stream leaves every
			// earlier offset valid
			c.OK(FuncName(rw.fr.Decl)+"/tail-cut", rw.pos, "all %d call site(s) cut from an offset to the end of the instruction stream (offset + count = nextInstructionOffset()), so no stored offset lies behind the cut", sites)
			continue
		}
		for _, k := range keys {
			name := k.typ + "." + k.field
			key := FuncName(rw.fr.Decl) + "/" + name
			if reason := offsetFieldExempt[FuncName(rw.fr.Decl)+"/"+name]; reason != "" {
				c.OK(key, rw.pos, "reasoned exception: %s", reason)
				continue
			}
			c.Check(assigned[k], key, rw.pos, "%s %s the instruction stream but does not adjust %s, which stores an instruction offset (set at %s): the stored offset then names a different byte", FuncName(rw.fr.Decl), kind, name, c.Pos(fields[k]))
		}
	}
}
