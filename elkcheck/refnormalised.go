package main

import (
	"go/ast"
)

// bigint/ref-normalised (C06, C18): an Int has one representation per value:
// a small Int when it fits a machine word, a BigInt otherwise. `==` compares
// across the two, hashing does not, so a BigInt holding a word-sized number
// equals the small Int and hashes differently - hash map and set lookups miss.
// A native that computes a *big.Int and hands it to the program has to go
// through Normalize (or test IsSmallInt), not wrap it in a reference as is.

func init() {
	register(&Rule{
		ID:    "bigint/ref-normalised",
		Text:  "in package vm, no expression wraps the result of value.ToElkBigInt(..) directly in value.Ref(..): a computed big integer reaches the program through Normalize() or after an IsSmallInt test",
		Floor: 5,
		Run:   runRefNormalised,
	})
}

var refNormalisedExempt = map[string]string{
	"initInt/Ref(ToElkBigInt)#1": "Int#times for a receiver beyond the small Int range: this loop is reached only after MaxSmallInt iterations of the loop before it, and its values start above the small Int range after the first step",
}

func runRefNormalised(c *Ctx) {
	p := c.Pkg("vm")
	info := p.TypesInfo
	total := 0
	c.Funcs("vm", func(fr *FuncRef) {
		n := 0
		ast.Inspect(fr.Decl.Body, func(nd ast.Node) bool {
			call, ok := nd.(*ast.CallExpr)
			if !ok || len(call.Args) != 1 {
				return true
			}
			fn := Callee(info, call)
			if fn == nil || fn.Name() != "ToElkBigInt" {
				return true
			}
			total++
			return true
		})
		var stack []ast.Node
		ast.Inspect(fr.Decl.Body, func(nd ast.Node) bool {
			if nd == nil {
				stack = stack[:len(stack)-1]
				return true
			}
			stack = append(stack, nd)
			call, ok := nd.(*ast.CallExpr)
			if !ok || len(call.Args) != 1 {
				return true
			}
			fn := Callee(info, call)
			if fn == nil || fn.Name() != "ToElkBigInt" {
				return true
			}
			n++
			key := FuncName(fr.Decl) + "/ToElkBigInt#" + itoa(n)
			wrapped := false
			if len(stack) >= 2 {
				if outer, ok := stack[len(stack)-2].(*ast.CallExpr); ok {
					if of := Callee(info, outer); of != nil && of.Name() == "Ref" && len(outer.Args) == 1 && outer.Args[0] == ast.Expr(call) {
						wrapped = true
					}
				}
			}
			if wrapped {
				if reason, ok := refNormalisedExempt[FuncName(fr.Decl)+"/Ref(ToElkBigInt)#1"]; ok {
					c.OK(key, call.Pos(), "reasoned exception: %s", reason)
					return true
				}
			}
			c.Check(!wrapped, key, call.Pos(), "%s wraps a freshly computed big integer in a reference without normalising it: when the number fits a machine word the program holds a BigInt that is == to the small Int of the same value but hashes differently, so hash map and set lookups miss", FuncName(fr.Decl))
			return true
		})
	})
	c.Stats["ToElkBigInt_calls_in_vm"] = total
}
