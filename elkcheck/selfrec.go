package main

import (
	"go/ast"
	"go/types"
)

// effect/selfrec: a method whose every path calls itself on the same
// receiver with the same arguments never returns: Go aborts the process with
// a fatal stack overflow that no recover() can catch.

func init() {
	register(&Rule{
		ID:    "effect/selfrec",
		Text:  "no function calls itself unconditionally with its own parameters unchanged (same receiver, same arguments) on every path: such a call never terminates and ends in Go's unrecoverable stack-overflow abort",
		Floor: 10000,
		Run:   runSelfRec,
	})
}

// selfRecPkgs: every package of the module is scanned.
func runSelfRec(c *Ctx) {
	for _, p := range c.Pkgs {
		rel := relPkg(p.PkgPath)
		info := p.TypesInfo
		seen := map[string]int{}
		for _, f := range p.Syntax {
			for _, d := range f.Decls {
				fd, ok := d.(*ast.FuncDecl)
				if !ok || fd.Body == nil {
					continue
				}
				obj, _ := info.Defs[fd.Name].(*types.Func)
				if obj == nil {
					continue
				}
				key := rel + "." + FuncName(fd)
				seen[key]++
				if seen[key] > 1 {
					key += "#" + itoa(seen[key])
				}
				// path-set interpretation: state = "has already made an
				// unconditional identical self call on this path"
				pe := &PathEval[bool]{Info: info}
				var at ast.Node
				pe.Call = func(s bool, call *ast.CallExpr) []bool {
					if id, ok := ast.Unparen(call.Fun).(*ast.Ident); ok {
						if b, ok := info.Uses[id].(*types.Builtin); ok && b.Name() == "panic" {
							return nil
						}
					}
					if s {
						return []bool{true}
					}
					fn := Callee(info, call)
					if fn == nil || fn.Origin() != obj {
						return []bool{false}
					}
					if !sameReceiverAndArgs(info, fd, call) {
						return []bool{false}
					}
					at = call
					return []bool{true}
				}
				fl := pe.Block(newSet(false), fd.Body.List)
				out := fl.next.clone()
				out.addAll(fl.ret)
				_, escapes := out[false]
				if at == nil {
					c.OKTrivial(key, fd.Pos(), "no call to itself with unchanged receiver and arguments")
					continue
				}
				if escapes {
					c.OK(key, fd.Pos(), "calls itself with unchanged arguments, but some path returns without doing so")
					continue
				}
				c.Bad(key, at.Pos(), "every path through %s calls %s again with the same receiver and arguments", FuncName(fd), FuncName(fd))
			}
		}
	}
	// keep evidence small: discharged obligations of this rule carry no detail
}

func sameReceiverAndArgs(info *types.Info, fd *ast.FuncDecl, call *ast.CallExpr) bool {
	// receiver
	if fd.Recv != nil && len(fd.Recv.List) == 1 {
		sel, ok := ast.Unparen(call.Fun).(*ast.SelectorExpr)
		if !ok {
			return false
		}
		if len(fd.Recv.List[0].Names) == 0 {
			return false
		}
		rid, ok := ast.Unparen(sel.X).(*ast.Ident)
		if !ok || info.Uses[rid] != info.Defs[fd.Recv.List[0].Names[0]] {
			return false
		}
	}
	// arguments: exactly the parameters, in order
	var params []types.Object
	for _, f := range fd.Type.Params.List {
		if len(f.Names) == 0 {
			return false
		}
		for _, n := range f.Names {
			params = append(params, info.Defs[n])
		}
	}
	if len(params) != len(call.Args) {
		return false
	}
	for i, a := range call.Args {
		id, ok := ast.Unparen(a).(*ast.Ident)
		if !ok || info.Uses[id] != params[i] {
			return false
		}
	}
	// parameters must not have been reassigned before the call (conservative:
	// any assignment to a parameter in the body disqualifies)
	reassigned := false
	ast.Inspect(fd.Body, func(n ast.Node) bool {
		switch x := n.(type) {
		case *ast.AssignStmt:
			for _, l := range x.Lhs {
				if id, ok := l.(*ast.Ident); ok {
					for _, p := range params {
						if info.Uses[id] == p {
							reassigned = true
						}
					}
				}
			}
		case *ast.IncDecStmt:
			if id, ok := x.X.(*ast.Ident); ok {
				for _, p := range params {
					if info.Uses[id] == p {
						reassigned = true
					}
				}
			}
		}
		return true
	})
	return !reassigned
}
