package main

import (
	"fmt"
	"go/ast"
	"go/types"
	"sort"
	"strings"
)

// native/argrep (C28, C01, C02) - the narrow, exact core of the ARGREP engine
// of DESIGN.md §4.6. A native method reads its arguments with accessors that
// assume a run-time representation (AsFloat reinterprets the payload bits as
// a float64, AsSmallInt as an integer, a pointer cast assumes a reference).
// When the header declares the parameter as one of the simple built-in value
// classes, the representations the argument can have are known, and an
// UNCHECKED accessor of another representation family reads garbage or
// dereferences nil.

func init() {
	register(&Rule{
		ID:    "native/argrep",
		Text:  "for every native method whose header parameter type is one of the simple built-in classes (Float, Int, Char, Symbol, String, BigFloat, Bool and the sized numbers), every accessor the native applies directly to that argument (args[i].AsX(), MustX(), a pointer cast of args[i].Pointer(), a type assertion on AsReference()) belongs to a representation family that class can have, unless the same argument is tested with the matching IsX() first in the closure",
		Floor: 300,
		Arch:  true,
		Run:   runNativeArgRep,
	})
}

// repFamilies: representation families a declared class admits.
var repFamilies = map[string][]string{
	"any":           {},
	"Std::Float":    {"Float"},
	"Std::Int":      {"SmallInt", "BigInt", "Ref", "Int"},
	"Std::Char":     {"Char"},
	"Std::Symbol":   {"InlineSymbol", "Symbol"},
	"Std::String":   {"Ref", "String"},
	"Std::BigFloat": {"Ref", "BigFloat"},
	"Std::Bool":     {"Bool", "True", "False"},
	"Std::Int64":    {"Int64", "InlineInt64", "Ref"},
	"Std::Int32":    {"Int32"},
	"Std::Int16":    {"Int16"},
	"Std::Int8":     {"Int8"},
	"Std::UInt64":   {"UInt64", "InlineUInt64", "Ref"},
	"Std::UInt32":   {"UInt32"},
	"Std::UInt16":   {"UInt16"},
	"Std::UInt8":    {"UInt8"},
	"Std::UInt":     {"UInt"},
	"Std::Float64":  {"Float64", "InlineFloat64", "Ref"},
	"Std::Float32":  {"Float32"},
}

// accessor family from a value.Value method name; "" = not a
// representation-assuming accessor (AsInt, AsAnyInt ... dispatch themselves)
func accessorFamily(name string) string {
	for _, p := range []string{"As", "Must"} {
		if strings.HasPrefix(name, p) {
			f := strings.TrimPrefix(name, p)
			switch f {
			case "Float", "SmallInt", "Char", "InlineSymbol", "Bool",
				"Int64", "InlineInt64", "Int32", "Int16", "Int8",
				"UInt64", "InlineUInt64", "UInt32", "UInt16", "UInt8", "UInt",
				"Float64", "InlineFloat64", "Float32", "BigInt":
				return f
			case "Reference":
				return "Ref"
			}
		}
	}
	if name == "Pointer" {
		return "Ref"
	}
	return ""
}

func runNativeArgRep(c *Ctx) {
	h := c.parseHeaders()
	nt := c.parseNatives()
	hinfo := h.info
	classOf := func(e ast.Expr) string {
		// Any{}: every representation is possible, so every unchecked
		// representation-assuming accessor is wrong for some argument
		if cl, ok := ast.Unparen(e).(*ast.CompositeLit); ok && len(cl.Elts) == 0 {
			if NamedOf(hinfo.TypeOf(cl)) == "types.Any" {
				return "any"
			}
		}
		call, ok := ast.Unparen(e).(*ast.CallExpr)
		if !ok || len(call.Args) < 1 {
			return ""
		}
		if fn := Callee(hinfo, call); fn == nil || fn.Name() != "NameToType" {
			return ""
		}
		s, _ := strConst(hinfo, call.Args[0])
		return s
	}
	var ms []*hdrMethod
	for _, m := range h.Methods {
		ms = append(ms, m)
	}
	sort.SliceStable(ms, func(i, j int) bool { return ms[i].ID() < ms[j].ID() })
	// natives that override a method every value inherits (==, =~, ...): the
	// signature they must honour is the one declared on Std::Value
	for _, nd := range nt.Defs {
		if nd.Func == nil || nd.Singleton || h.ByID[nd.ID()] != nil || !strings.HasPrefix(nd.NS, "Std") {
			continue
		}
		if base := h.ByID["Std::Value#"+nd.Name]; base != nil && len(base.Params) == nd.Params {
			cp := *base
			cp.NS = nd.NS
			cp.Native = true
			cp.Abstract = false
			ms = append(ms, &cp)
		}
	}
	sort.SliceStable(ms, func(i, j int) bool { return ms[i].ID() < ms[j].ID() })
	seen := map[string]bool{}
	for _, m := range ms {
		if !m.Native || m.Abstract || seen[m.ID()] {
			continue
		}
		seen[m.ID()] = true
		nd := nt.ByID[m.ID()]
		if nd == nil || nd.Func == nil || nd.Func.Type.Params == nil || len(nd.Func.Type.Params.List) < 2 {
			continue
		}
		info := nd.Pkg.Info
		// the `args` parameter of the closure
		var argsObj types.Object
		last := nd.Func.Type.Params.List[len(nd.Func.Type.Params.List)-1]
		if len(last.Names) > 0 {
			argsObj = info.Defs[last.Names[len(last.Names)-1]]
		}
		if argsObj == nil {
			continue
		}
		// receiver (args[0]) and declared parameters
		decl := map[int]string{}
		if fam := repFamilies[m.NS]; fam != nil && !m.Singleton {
			decl[0] = m.NS
		}
		for i, p := range m.Params {
			if p.Kind != "NormalParameterKind" {
				continue
			}
			if cls := classOf(p.Type); repFamilies[cls] != nil {
				decl[i+1] = cls
			}
		}
		if len(decl) == 0 {
			continue
		}
		// IsX tests present per argument index
		tested := map[int]map[string]bool{}
		type use struct {
			idx int
			fam string
			pos ast.Node
		}
		var uses []use
		argIndex := func(e ast.Expr) (int, bool) {
			ix, ok := ast.Unparen(e).(*ast.IndexExpr)
			if !ok {
				return 0, false
			}
			id, ok := ast.Unparen(ix.X).(*ast.Ident)
			if !ok || info.Uses[id] != argsObj {
				return 0, false
			}
			v, ok := ConstInt(info, ix.Index)
			return int(v), ok
		}
		ast.Inspect(nd.Func.Body, func(n ast.Node) bool {
			call, ok := n.(*ast.CallExpr)
			if !ok {
				return true
			}
			sel, ok := ast.Unparen(call.Fun).(*ast.SelectorExpr)
			if !ok {
				return true
			}
			idx, ok := argIndex(sel.X)
			if !ok {
				return true
			}
			name := sel.Sel.Name
			if strings.HasPrefix(name, "Is") {
				if tested[idx] == nil {
					tested[idx] = map[string]bool{}
				}
				tested[idx][strings.TrimPrefix(name, "Is")] = true
				if name == "IsReference" {
					tested[idx]["Ref"] = true
				}
				return true
			}
			if f := accessorFamily(name); f != "" {
				uses = append(uses, use{idx, f, call})
			}
			return true
		})
		byIdx := map[int][]use{}
		for _, u := range uses {
			byIdx[u.idx] = append(byIdx[u.idx], u)
		}
		var idxs []int
		for i := range decl {
			idxs = append(idxs, i)
		}
		sort.Ints(idxs)
		for _, i := range idxs {
			cls := decl[i]
			allowed := map[string]bool{}
			for _, f := range repFamilies[cls] {
				allowed[f] = true
			}
			key := fmt.Sprintf("%s/arg%d", m.ID(), i)
			var bad *use
			for k := range byIdx[i] {
				u := byIdx[i][k]
				if allowed[u.fam] || tested[i][u.fam] {
					continue
				}
				bad = &byIdx[i][k]
				break
			}
			what := "parameter " + fmt.Sprint(i)
			if i == 0 {
				what = "the receiver"
			}
			if bad != nil {
				c.Bad(key, bad.pos.Pos(), "the header declares %s of %s as %s, but the native registered at %s reads args[%d] with an accessor of the %s representation without testing for it: a well-typed call reinterprets the value's bits or dereferences a nil reference", what, m.ID(), cls, c.Pos(nd.Call.Pos()), i, bad.fam)
			} else if len(byIdx[i]) == 0 {
				c.OKTrivial(key, nd.Call.Pos(), "no representation-assuming accessor is applied directly to this argument")
			} else {
				c.OK(key, nd.Call.Pos(), "%d direct accessor(s), all of a representation %s can have", len(byIdx[i]), cls)
			}
		}
	}
}
