package main

import (
	"fmt"
	"go/ast"
	"go/token"
	"go/types"
	"strings"
)

// hash/grow-by-occupied (C17, C01): the open-addressing tables grow when the
// number of OCCUPIED slots (live entries plus tombstones) reaches the load
// limit. The new capacity must be computed from that same quantity, with a
// factor of at least two: a capacity derived from the live count alone can
// equal the current capacity, the rehash is skipped, the table fills up with
// tombstones, and the next insertion finds no free slot (the runtime panics
// with "no room in target hashset").

func init() {
	register(&Rule{
		ID:    "hash/grow-by-occupied",
		Text:  "wherever the hash table code tests the load (a condition mentioning the occupied-slot counter) and then changes the capacity, every value the capacity argument can take in that function is the occupied-slot counter of the same table multiplied by a constant of at least 2",
		Floor: 2,
		Run:   runHashGrow,
	})
}

func runHashGrow(c *Ctx) {
	p := c.Pkg("vm")
	info := p.TypesInfo
	isOccupied := func(e ast.Expr) (string, bool) {
		sel, ok := ast.Unparen(e).(*ast.SelectorExpr)
		if !ok {
			return "", false
		}
		n := strings.ToLower(sel.Sel.Name)
		if n != "occupiedslots" {
			return "", false
		}
		return types.ExprString(sel), true
	}
	mentionsOccupied := func(e ast.Node) string {
		found := ""
		ast.Inspect(e, func(n ast.Node) bool {
			if x, ok := n.(ast.Expr); ok {
				if s, ok := isOccupied(x); ok {
					found = s
				}
			}
			return true
		})
		return found
	}
	// expr == occ * k, k >= 2
	var growsFrom func(fd *ast.FuncDecl, e ast.Expr, occ string, depth int) (bool, string)
	growsFrom = func(fd *ast.FuncDecl, e ast.Expr, occ string, depth int) (bool, string) {
		e = ast.Unparen(e)
		switch x := e.(type) {
		case *ast.BinaryExpr:
			if x.Op == token.MUL {
				for _, pair := range [][2]ast.Expr{{x.X, x.Y}, {x.Y, x.X}} {
					if s, ok := isOccupied(pair[0]); ok && s == occ {
						if k, ok := ConstInt(info, pair[1]); ok && k >= 2 {
							return true, ""
						}
					}
				}
			}
		case *ast.Ident:
			if depth > 2 {
				return false, "too many levels of locals"
			}
			obj := info.Uses[x]
			if obj == nil {
				return false, "unresolved identifier"
			}
			n, okAll := 0, true
			why := ""
			ast.Inspect(fd.Body, func(m ast.Node) bool {
				as, ok := m.(*ast.AssignStmt)
				if !ok || len(as.Lhs) != len(as.Rhs) {
					return true
				}
				for i, l := range as.Lhs {
					if id, ok := l.(*ast.Ident); ok && info.ObjectOf(id) == obj {
						n++
						if ok2, w := growsFrom(fd, as.Rhs[i], occ, depth+1); !ok2 {
							okAll = false
							why = "`" + x.Name + " = " + types.ExprString(as.Rhs[i]) + "`" + w
						}
					}
				}
				return true
			})
			if n > 0 && okAll {
				return true, ""
			}
			if why == "" {
				why = "`" + x.Name + "` has no assignment of the required form"
			}
			return false, why
		}
		return false, "`" + types.ExprString(e) + "` is not " + occ + " * k (k >= 2)"
	}
	c.Funcs("vm", func(fr *FuncRef) {
		n := 0
		ast.Inspect(fr.Decl.Body, func(nd ast.Node) bool {
			ifs, ok := nd.(*ast.IfStmt)
			if !ok {
				return true
			}
			occ := mentionsOccupied(ifs.Cond)
			if occ == "" {
				return true
			}
			for _, st := range ifs.Body.List {
				ast.Inspect(st, func(m ast.Node) bool {
					call, ok := m.(*ast.CallExpr)
					if !ok {
						return true
					}
					fn := Callee(info, call)
					if fn == nil || !strings.HasSuffix(fn.Name(), "SetCapacity") || len(call.Args) < 1 {
						return true
					}
					n++
					key := fmt.Sprintf("%s/grow#%d", FuncName(fr.Decl), n)
					ok2, why := growsFrom(fr.Decl, call.Args[len(call.Args)-1], occ, 0)
					c.Check(ok2, key, call.Pos(), "%s tests the load through %s but sets a capacity that is not always %s * k with k >= 2 (%s): when the chosen capacity equals the current one the rehash is skipped, tombstones are kept, and a later insertion finds no free slot", FuncName(fr.Decl), occ, occ, why)
					return true
				})
			}
			return true
		})
	})
}
