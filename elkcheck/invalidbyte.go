package main

import (
	"fmt"
	"go/ast"
	"go/types"
	"strings"
)

// str/invalid-byte-source (C20): Elk strings may hold invalid UTF-8. The
// string code decodes one character at a time and, when the decoder reports an
// invalid byte (RuneError with size 1), substitutes the raw byte AT THE DECODE
// POSITION: the first byte of the remaining text for a forward decode, the
// last byte for a backward decode. Taking the byte from the other end makes
// `s.char_at(-k)` disagree with `s.char_at(s.length - k)`.

func init() {
	register(&Rule{
		ID:    "str/invalid-byte-source",
		Text:  "wherever the string code handles the decoder's invalid-byte result (a branch whose condition mentions utf8.RuneError) by indexing the text it just decoded from, the index is 0 after DecodeRune/DecodeRuneInString and len(text)-1 after DecodeLastRune/DecodeLastRuneInString",
		Floor: 3,
		Run:   runInvalidByteSource,
	})
}

func runInvalidByteSource(c *Ctx) {
	for _, rel := range []string{"value", "vm", "lexer"} {
		p := c.Pkg(rel)
		info := p.TypesInfo
		c.Funcs(rel, func(fr *FuncRef) {
			// decoded texts: expression text -> direction
			dir := map[string]string{}
			ast.Inspect(fr.Decl.Body, func(n ast.Node) bool {
				call, ok := n.(*ast.CallExpr)
				if !ok || len(call.Args) != 1 {
					return true
				}
				fn := Callee(info, call)
				if fn == nil || fn.Pkg() == nil || fn.Pkg().Path() != "unicode/utf8" {
					return true
				}
				switch {
				case strings.HasPrefix(fn.Name(), "DecodeLastRune"):
					dir[types.ExprString(ast.Unparen(call.Args[0]))] = "last"
				case strings.HasPrefix(fn.Name(), "DecodeRune"):
					if _, seen := dir[types.ExprString(ast.Unparen(call.Args[0]))]; !seen {
						dir[types.ExprString(ast.Unparen(call.Args[0]))] = "first"
					}
				}
				return true
			})
			if len(dir) == 0 {
				return
			}
			n := 0
			ast.Inspect(fr.Decl.Body, func(nd ast.Node) bool {
				ifs, ok := nd.(*ast.IfStmt)
				if !ok || !strings.Contains(types.ExprString(ifs.Cond), "utf8.RuneError") {
					return true
				}
				ast.Inspect(ifs.Body, func(m ast.Node) bool {
					ix, ok := m.(*ast.IndexExpr)
					if !ok {
						return true
					}
					txt := types.ExprString(ast.Unparen(ix.X))
					d, ok := dir[txt]
					if !ok {
						// string(x)[0] style conversions
						for k, v := range dir {
							if strings.Contains(txt, k) {
								d, ok = v, true
							}
						}
						if !ok {
							return true
						}
					}
					n++
					key := fmt.Sprintf("%s.%s/byte#%d", rel, FuncName(fr.Decl), n)
					idx := types.ExprString(ast.Unparen(ix.Index))
					good := false
					switch d {
					case "first":
						good = idx == "0"
					case "last":
						good = idx == "len("+txt+") - 1" || idx == "len("+txt+")-1"
					}
					c.Check(good, key, ix.Pos(), "%s.%s decodes the %s character of %s and, for an invalid byte, substitutes %s[%s]: that is not the byte the decoder was looking at", rel, FuncName(fr.Decl), d, txt, txt, idx)
					return true
				})
				return true
			})
		})
	}
}
