package main

import (
	"go/ast"
	"go/token"
	"go/types"
	"strings"
)

// prec/assoc (C05): the printer decides whether an operand of EQUAL
// precedence needs parentheses from ast.ExpressionAssociativity. The parser's
// associativity is the shape of the production: a loop that folds
// `left = New(left, right)` nests to the left, a production that parses its
// right operand by calling itself nests to the right. The table must say LEFT
// for every operator of a looping rung and RIGHT for every operator of a
// self-recursive rung, otherwise `a == (b != c)` is printed as `a == b != c`
// and reparses as another tree.

func init() {
	register(&Rule{
		ID:    "prec/assoc",
		Text:  "for every operator token the parser can put into a Binary/LogicalExpressionNode, ast.ExpressionAssociativity (evaluated statically for that node kind and token) returns LEFT_ASSOCIATIVE when the production folds in a loop and RIGHT_ASSOCIATIVE when the production recurses into itself for the right operand",
		Floor: 30,
		Run:   func(c *Ctx) { precLadder(c, true) },
	})
}

// evalAssoc statically evaluates the statements of one case clause of
// ExpressionAssociativity for a given operator token. Supported shapes:
// `return K`; `switch x.Op.Type { case T...: return K; default: return K }`;
// tagless `switch { case x.Op.Type == T, x.Op.Type.IsXOperator(): ... }`;
// `if cond { return K }`. Anything else is undecided ("").
func (c *Ctx) evalAssoc(info *types.Info, body []ast.Stmt, tok string) string {
	condHolds := func(e ast.Expr) (bool, bool) { return false, false }
	condHolds = func(e ast.Expr) (holds bool, decided bool) {
		e = ast.Unparen(e)
		switch x := e.(type) {
		case *ast.BinaryExpr:
			switch x.Op {
			case token.EQL, token.NEQ:
				l, r := constName(info, x.X), constName(info, x.Y)
				k := l
				other := x.Y
				if k == "" {
					k, other = r, x.X
				}
				if k == "" || !strings.HasSuffix(types.ExprString(ast.Unparen(other)), ".Type") {
					return false, false
				}
				return (k == tok) == (x.Op == token.EQL), true
			case token.LOR:
				a, da := condHolds(x.X)
				b, db := condHolds(x.Y)
				return a || b, da && db
			case token.LAND:
				a, da := condHolds(x.X)
				b, db := condHolds(x.Y)
				return a && b, da && db
			}
		case *ast.UnaryExpr:
			if x.Op == token.NOT {
				a, d := condHolds(x.X)
				return !a, d
			}
		case *ast.CallExpr:
			if fn := Callee(info, x); fn != nil && fn.Pkg() != nil && relPkg(fn.Pkg().Path()) == "token" && len(x.Args) == 0 {
				set := c.tokenPredicate(fn, 0)
				if len(set) == 0 {
					return false, false
				}
				for _, t := range set {
					if t == tok {
						return true, true
					}
				}
				return false, true
			}
		}
		return false, false
	}
	retConst := func(st ast.Stmt) string {
		if r, ok := st.(*ast.ReturnStmt); ok && len(r.Results) == 1 {
			return constName(info, r.Results[0])
		}
		return ""
	}
	for _, st := range body {
		switch x := st.(type) {
		case *ast.ReturnStmt:
			return retConst(x)
		case *ast.IfStmt:
			h, d := condHolds(x.Cond)
			if !d {
				return ""
			}
			if h {
				return c.evalAssoc(info, x.Body.List, tok)
			}
			if x.Else != nil {
				if b, ok := x.Else.(*ast.BlockStmt); ok {
					if r := c.evalAssoc(info, b.List, tok); r != "" {
						return r
					}
				} else {
					return ""
				}
			}
		case *ast.SwitchStmt:
			var def *ast.CaseClause
			matched := false
			for _, cl := range x.Body.List {
				cc := cl.(*ast.CaseClause)
				if cc.List == nil {
					def = cc
					continue
				}
				for _, e := range cc.List {
					var h, d bool
					if x.Tag != nil {
						k := constName(info, e)
						if k == "" || !strings.HasSuffix(types.ExprString(ast.Unparen(x.Tag)), ".Type") {
							return ""
						}
						h, d = k == tok, true
					} else {
						h, d = condHolds(e)
					}
					if !d {
						return ""
					}
					if h {
						matched = true
						break
					}
				}
				if matched {
					if r := c.evalAssoc(info, cc.Body, tok); r != "" {
						return r
					}
					break
				}
			}
			if !matched && def != nil {
				if r := c.evalAssoc(info, def.Body, tok); r != "" {
					return r
				}
			}
		default:
			return ""
		}
	}
	return ""
}

func precAssoc(c *Ctx, chain []string, methods map[string]*FuncRef, itemsOf func(*FuncRef) []ladderItem) {
	afr := c.Func("parser/ast", "", "ExpressionAssociativity")
	ainfo := afr.Pkg.TypesInfo
	// node kind -> case body; statements after the switch are the fallthrough
	caseOf := map[string][]ast.Stmt{}
	var tail []ast.Stmt
	for i, st := range afr.Decl.Body.List {
		ts, ok := st.(*ast.TypeSwitchStmt)
		if !ok {
			continue
		}
		for _, cl := range ts.Body.List {
			cc := cl.(*ast.CaseClause)
			for _, e := range cc.List {
				if t := ainfo.TypeOf(e); t != nil {
					caseOf[strings.TrimPrefix(NamedOf(t), "parser/ast.")] = cc.Body
				}
			}
		}
		tail = afr.Decl.Body.List[i+1:]
		break
	}
	if len(caseOf) < 5 {
		c.Stale("parser/ast.ExpressionAssociativity: type switch over node kinds")
	}
	pinfo := c.Pkg("parser").TypesInfo
	for _, name := range chain {
		fr := methods[name]
		// production shape
		selfCall, loop := false, false
		ast.Inspect(fr.Decl.Body, func(n ast.Node) bool {
			switch x := n.(type) {
			case *ast.ForStmt:
				loop = true
			case *ast.CallExpr:
				if fn := Callee(pinfo, x); fn != nil {
					if fn == fr.Obj {
						selfCall = true
					}
					if id := FuncID(fn); id == "parser.Parser.binaryExpression" || id == "parser.Parser.logicalExpression" {
						loop = true
					}
				}
			}
			return true
		})
		for _, it := range itemsOf(fr) {
			if it.tok == "" {
				continue
			}
			key := "assoc/" + name + "/" + it.node + "[" + it.tok + "]"
			want := ""
			switch {
			case loop && !selfCall:
				want = "LEFT_ASSOCIATIVE"
			case selfCall && !loop:
				want = "RIGHT_ASSOCIATIVE"
			default:
				c.Unknown(key, fr.Decl.Pos(), "production %s neither folds in a loop nor recurses into itself (loop=%v, self call=%v): associativity not classified", name, loop, selfCall)
				continue
			}
			body, ok := caseOf[it.node]
			got := ""
			if ok {
				got = c.evalAssoc(ainfo, body, it.tok)
			}
			if got == "" {
				got = c.evalAssoc(ainfo, tail, it.tok)
			}
			if got == "" {
				c.Unknown(key, afr.Decl.Pos(), "ExpressionAssociativity could not be evaluated statically for %s with operator %s", it.node, it.tok)
				continue
			}
			c.Check(got == want, key, afr.Decl.Pos(), "the parser's production %s nests %s operators to the %s, but ExpressionAssociativity returns %s for it: an operand of equal precedence on the other side is printed without the parentheses needed to reparse to the same tree", name, it.tok, strings.ToLower(strings.TrimSuffix(want, "_ASSOCIATIVE")), got)
		}
	}
}
