package main

import (
	"go/ast"
	"go/types"
)

// pattern/subpattern-type (C30, C01): the pattern compilers resolve `length`,
// `[]` and attribute getters statically against the static type of the value
// being matched. A pattern that extracts a part of that value - an element,
// the value under a key, an attribute - and matches a sub-pattern on the part
// must not hand the sub-pattern the type of the whole: the sub-pattern would
// resolve its own operations against the collection (`case [String(length:
// 3)]` calls ArrayList#length on a String).

func init() {
	register(&Rule{
		ID:    "pattern/subpattern-type",
		Text:  "in package compiler, wherever a call of the pattern dispatcher directly follows (as the next statement of the same block) an extraction resolved against a type T (compileSubscript(T, ..) or compileCallMethod(T, ..)), the type handed to the dispatcher is not T",
		Floor: 5,
		Run:   runSubpatternType,
	})
}

func runSubpatternType(c *Ctx) {
	p := c.Pkg("compiler")
	info := p.TypesInfo
	disp := c.FuncOpt("compiler", "BytecodeCompiler", "pattern")
	if disp == nil {
		c.Stale("compiler.(*BytecodeCompiler).pattern")
		return
	}
	typeVarOf := func(e ast.Expr) types.Object {
		if id, ok := ast.Unparen(e).(*ast.Ident); ok {
			return info.Uses[id]
		}
		return nil
	}
	c.Funcs("compiler", func(fr *FuncRef) {
		if recvTypeName(fr.Decl) != "BytecodeCompiler" {
			return
		}
		n := 0
		ast.Inspect(fr.Decl.Body, func(nd ast.Node) bool {
			var list []ast.Stmt
			switch x := nd.(type) {
			case *ast.BlockStmt:
				list = x.List
			case *ast.CaseClause:
				list = x.Body
			default:
				return true
			}
			for i := 1; i < len(list); i++ {
				es, ok := list[i].(*ast.ExprStmt)
				if !ok {
					continue
				}
				call, ok := es.X.(*ast.CallExpr)
				if !ok || len(call.Args) != 2 {
					continue
				}
				if fn := Callee(info, call); fn == nil || fn.Origin() != disp.Obj {
					continue
				}
				prev, ok := list[i-1].(*ast.ExprStmt)
				if !ok {
					continue
				}
				pc, ok := prev.X.(*ast.CallExpr)
				if !ok || len(pc.Args) == 0 {
					continue
				}
				pf := Callee(info, pc)
				if pf == nil || (pf.Name() != "compileSubscript" && pf.Name() != "compileCallMethod") {
					continue
				}
				n++
				key := FuncName(fr.Decl) + "/" + pf.Name() + "#" + itoa(n)
				t := typeVarOf(pc.Args[0])
				same := t != nil && typeVarOf(call.Args[1]) == t
				c.Check(!same, key, call.Pos(), "%s extracts a part of the matched value with %s resolved against `%s` and then matches the sub-pattern on that part with the same type: the sub-pattern resolves its own `length`, `[]` and getters statically against the type of the whole, and calls the collection's native on the element (Go panic) or the enclosing object's method (wrong match)", FuncName(fr.Decl), pf.Name(), types.ExprString(pc.Args[0]))
			}
			return true
		})
	})
}

// scope/hidden-local-unique (C30, C01): defineLocal answers nil (after
// reporting a redeclaration) when it is given a location and the name already
// exists in the current scope. For the names of the user's variables the type
// checker has ruled that out; for hidden locals whose names the compiler makes
// up nobody has, so a site defining one must either tolerate the existing
// local (nil location), check the answer, have looked the name up first, or
// build the name from the depth of a scope it has just opened.
func init() {
	register(&Rule{
		ID:    "scope/hidden-local-unique",
		Text:  "in package compiler, every defineLocal whose name is made up by the compiler (a string constant, or fmt.Sprintf of one) passes a nil location, or nil-checks the answer, or follows a failed resolveLocal of the same name, or builds the name from len(c.scopes) after an enterScope of the same function, or is a reasoned exception",
		Floor: 6,
		Run:   runHiddenLocalUnique,
	})
}

var hiddenLocalExempt = map[string]string{
	`NewBytecodeCompiler/"$self"`: "the first local of a fresh compiler: its scope is empty",
}

func runHiddenLocalUnique(c *Ctx) {
	p := c.Pkg("compiler")
	info := p.TypesInfo
	def := c.FuncOpt("compiler", "BytecodeCompiler", "defineLocal")
	if def == nil {
		c.Stale("compiler.(*BytecodeCompiler).defineLocal")
		return
	}
	c.Funcs("compiler", func(fr *FuncRef) {
		// name variables assigned from a made-up string in this function
		madeUp := map[types.Object]ast.Expr{}
		isMadeUp := func(e ast.Expr) (string, bool, bool) { // label, made up, depth-based
			e = ast.Unparen(e)
			if tv, ok := info.Types[e]; ok && tv.Value != nil {
				return tv.Value.ExactString(), true, false
			}
			if call, ok := e.(*ast.CallExpr); ok {
				if fn := Callee(info, call); fn != nil && fn.Pkg() != nil && fn.Pkg().Path() == "fmt" && fn.Name() == "Sprintf" && len(call.Args) > 0 {
					lbl := "Sprintf"
					if tv, ok := info.Types[call.Args[0]]; ok && tv.Value != nil {
						lbl = tv.Value.ExactString()
					}
					depth := false
					for _, a := range call.Args[1:] {
						if lc, ok := ast.Unparen(a).(*ast.CallExpr); ok {
							if id, ok := lc.Fun.(*ast.Ident); ok && id.Name == "len" && len(lc.Args) == 1 {
								if sel, ok := ast.Unparen(lc.Args[0]).(*ast.SelectorExpr); ok && sel.Sel.Name == "scopes" {
									depth = true
								}
							}
						}
					}
					return lbl, true, depth
				}
			}
			return "", false, false
		}
		ast.Inspect(fr.Decl.Body, func(n ast.Node) bool {
			if as, ok := n.(*ast.AssignStmt); ok && len(as.Lhs) == 1 && len(as.Rhs) == 1 {
				if id, ok := as.Lhs[0].(*ast.Ident); ok {
					if _, mu, _ := isMadeUp(as.Rhs[0]); mu {
						if o := info.ObjectOf(id); o != nil {
							madeUp[o] = as.Rhs[0]
						}
					}
				}
			}
			return true
		})
		hasEnterScope := false
		resolved := map[string]bool{}
		ast.Inspect(fr.Decl.Body, func(n ast.Node) bool {
			if call, ok := n.(*ast.CallExpr); ok {
				if fn := Callee(info, call); fn != nil {
					switch fn.Name() {
					case "enterScope":
						hasEnterScope = true
					case "resolveLocal":
						if len(call.Args) > 0 {
							resolved[types.ExprString(call.Args[0])] = true
						}
					}
				}
			}
			return true
		})
		n := 0
		var stack []ast.Node
		ast.Inspect(fr.Decl.Body, func(nd ast.Node) bool {
			if nd == nil {
				stack = stack[:len(stack)-1]
				return true
			}
			stack = append(stack, nd)
			call, ok := nd.(*ast.CallExpr)
			if !ok || len(call.Args) != 2 {
				return true
			}
			if fn := Callee(info, call); fn == nil || fn.Origin() != def.Obj {
				return true
			}
			nameExpr := call.Args[0]
			lbl, mu, depth := isMadeUp(nameExpr)
			if !mu {
				if id, ok := ast.Unparen(nameExpr).(*ast.Ident); ok {
					if src, ok2 := madeUp[info.Uses[id]]; ok2 {
						lbl, mu, depth = isMadeUp(src)
					} else if k, isConst := info.Uses[id].(*types.Const); isConst {
						lbl, mu = k.Val().ExactString(), true
					}
				}
			}
			if !mu {
				return true
			}
			n++
			key := FuncName(fr.Decl) + "/" + lbl
			if n > 1 {
				key += "#" + itoa(n)
			}
			// nil location
			if tv, ok := info.Types[call.Args[1]]; ok && tv.IsNil() {
				c.OK(key, call.Pos(), "nil location: an existing local is reused")
				return true
			}
			if depth && hasEnterScope {
				c.OK(key, call.Pos(), "name built from the depth of a scope this function opens")
				return true
			}
			if resolved[types.ExprString(nameExpr)] {
				c.OK(key, call.Pos(), "defined only after resolveLocal of the same name failed")
				return true
			}
			// nil check of the answer: `x := defineLocal(..); if x != nil`
			if len(stack) >= 2 {
				if as, ok := stack[len(stack)-2].(*ast.AssignStmt); ok && len(as.Lhs) == 1 {
					if id, ok := as.Lhs[0].(*ast.Ident); ok {
						o := info.ObjectOf(id)
						checked := false
						ast.Inspect(fr.Decl.Body, func(m ast.Node) bool {
							if be, ok := m.(*ast.BinaryExpr); ok {
								if x, ok := ast.Unparen(be.X).(*ast.Ident); ok && info.Uses[x] == o {
									if tv, ok := info.Types[be.Y]; ok && tv.IsNil() {
										checked = true
									}
								}
							}
							return true
						})
						if checked {
							c.OK(key, call.Pos(), "the answer is compared with nil")
							return true
						}
					}
				}
			}
			if reason, ok := hiddenLocalExempt[key]; ok {
				c.OK(key, call.Pos(), "reasoned exception: %s", reason)
				return true
			}
			c.Bad(key, call.Pos(), "%s defines the hidden local %s with a location: if a local of that name already exists in the current scope (a second construct of the same kind on the same level) defineLocal reports a redeclaration the user never wrote and answers nil, which is dereferenced", FuncName(fr.Decl), lbl)
			return true
		})
	})
}
