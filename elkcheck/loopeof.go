package main

import (
	"fmt"
	"go/ast"
	"go/token"
	"go/types"
)

// front/loop-eof (C03): a `for { ... }` loop of a lexer that consumes input
// until it finds a terminator must also stop at the end of the input. The
// consuming primitives return (rune, ok) and do nothing once the input is
// exhausted, so a path around the loop that neither tests an `ok` result nor
// asks hasMoreTokens() spins forever on unterminated input (`(?#abc` without
// the closing parenthesis).

func init() {
	register(&Rule{
		ID:    "front/loop-eof",
		Text:  "in both lexers, every path around an unconditional `for { }` loop that reaches the back edge has evaluated an end-of-input test: a condition that mentions a boolean obtained from a consuming primitive (the `ok` of advanceChar and friends), or a call of hasMoreTokens / a peek compared with the NUL the peek functions return at the end, or it has called a match/accept/swallow helper whose result decides an exit on that path",
		Floor: 15,
		Run:   runLoopEOF,
	})
}

type eofState struct{ checked bool }

func runLoopEOF(c *Ctx) {
	for _, rel := range []string{"lexer", "regex/lexer"} {
		p := c.Pkg(rel)
		info := p.TypesInfo
		// booleans that come from a Lexer method call (comma-ok or plain bool)
		isLexerCall := func(e ast.Expr) bool {
			call, ok := ast.Unparen(e).(*ast.CallExpr)
			if !ok {
				return false
			}
			fn := Callee(info, call)
			return fn != nil && recvNameOf(fn) == "Lexer"
		}
		c.Funcs(rel, func(fr *FuncRef) {
			if recvTypeName(fr.Decl) != "Lexer" {
				return
			}
			okVars := map[types.Object]bool{}
			ast.Inspect(fr.Decl.Body, func(n ast.Node) bool {
				as, ok := n.(*ast.AssignStmt)
				if !ok || len(as.Rhs) != 1 || !isLexerCall(as.Rhs[0]) {
					return true
				}
				isPeek := false
				if call, ok := ast.Unparen(as.Rhs[0]).(*ast.CallExpr); ok {
					if fn := Callee(info, call); fn != nil && (fn.Name() == "peekChar" || fn.Name() == "peekNextChar") {
						isPeek = true
					}
				}
				for _, l := range as.Lhs {
					if id, ok := l.(*ast.Ident); ok {
						if o := info.ObjectOf(id); o != nil {
							if b, ok := o.Type().Underlying().(*types.Basic); ok && b.Kind() == types.Bool {
								okVars[o] = true
							}
							// a peeked character: the peek functions return NUL at
							// the end, so a branch taken because the peeked
							// character is a space / a given character has input left
							if isPeek {
								okVars[o] = true
							}
						}
					}
				}
				return true
			})
			// an end-of-input test inside an expression
			testsEOF := func(e ast.Expr) bool {
				found := false
				ast.Inspect(e, func(n ast.Node) bool {
					switch x := n.(type) {
					case *ast.Ident:
						if okVars[info.Uses[x]] {
							found = true
						}
					case *ast.CallExpr:
						if fn := Callee(info, x); fn != nil && recvNameOf(fn) == "Lexer" {
							if sig := fn.Type().(*types.Signature); sig.Results().Len() >= 1 {
								last := sig.Results().At(sig.Results().Len() - 1).Type()
								if b, ok := last.Underlying().(*types.Basic); ok && b.Kind() == types.Bool {
									// hasMoreTokens, matchChar, acceptChar(s), swallowUntil ...: all
									// answer false at the end of the input
									found = true
								}
							}
						}
					case *ast.BasicLit:
						if x.Kind == token.CHAR && (x.Value == `'\x00'` || x.Value == `'\0'` || x.Value == `0`) {
							found = true
						}
					}
					return true
				})
				return found
			}
			n := 0
			ast.Inspect(fr.Decl.Body, func(nd ast.Node) bool {
				loop, ok := nd.(*ast.ForStmt)
				if !ok || loop.Cond != nil || loop.Init != nil || loop.Post != nil {
					return true
				}
				n++
				key := fmt.Sprintf("%s.%s/loop#%d", rel, FuncName(fr.Decl), n)
				pe := &PathEval[eofState]{Info: info}
				// impliesInput: taking this branch of cond is impossible at the end
				// of the input (all helpers answer false / NUL there), so the path
				// has consumed or seen a real character
				var impliesInput func(cond ast.Expr, branch bool) bool
				impliesInput = func(cond ast.Expr, branch bool) bool {
					cond = ast.Unparen(cond)
					switch x := cond.(type) {
					case *ast.UnaryExpr:
						if x.Op == token.NOT {
							return impliesInput(x.X, !branch)
						}
					case *ast.BinaryExpr:
						switch x.Op {
						case token.LAND:
							return branch && (impliesInput(x.X, true) || impliesInput(x.Y, true))
						case token.LOR:
							return !branch && (impliesInput(x.X, false) || impliesInput(x.Y, false))
						case token.EQL, token.NEQ:
							// peeked == 'c' (non-NUL constant)
							id, ok := ast.Unparen(x.X).(*ast.Ident)
							if ok && okVars[info.Uses[id]] {
								if v, ok := ConstInt(info, x.Y); ok && v != 0 {
									return branch == (x.Op == token.EQL)
								}
								// peeked == terminatorChar (a variable holding a delimiter)
								if _, isId := ast.Unparen(x.Y).(*ast.Ident); isId {
									return branch == (x.Op == token.EQL)
								}
							}
						}
					case *ast.Ident:
						if o := info.Uses[x]; okVars[o] {
							if b, ok := o.Type().Underlying().(*types.Basic); ok && b.Kind() == types.Bool {
								return branch
							}
						}
					case *ast.CallExpr:
						if fn := Callee(info, x); fn != nil {
							if recvNameOf(fn) == "Lexer" {
								if sig := fn.Type().(*types.Signature); sig.Results().Len() == 1 {
									if b, ok := sig.Results().At(0).Type().Underlying().(*types.Basic); ok && b.Kind() == types.Bool {
										return branch
									}
								}
							}
							// unicode.IsSpace(peeked), isDigit(peeked), ...
							if len(x.Args) == 1 {
								if id, ok := ast.Unparen(x.Args[0]).(*ast.Ident); ok && okVars[info.Uses[id]] {
									return branch
								}
							}
						}
					}
					return false
				}
				pe.Cond = func(s eofState, cond ast.Expr, branch bool) []eofState {
					if impliesInput(cond, branch) {
						s.checked = true
					}
					return []eofState{s}
				}
				_ = testsEOF
				pe.Stmt = func(s eofState, st ast.Stmt) ([]eofState, bool) {
					switch x := st.(type) {
					case *ast.SwitchStmt:
						// switch on a peeked/advanced character with a NUL case, or
						// a tagless switch whose cases test EOF
						if x.Tag != nil && testsEOF(x.Tag) {
							return nil, false
						}
					case *ast.ForStmt:
						// nested loop: judged on its own
						if x != loop {
							return []eofState{s}, true
						}
					}
					return nil, false
				}
				pe.Call = func(s eofState, call *ast.CallExpr) []eofState {
					if id, ok := ast.Unparen(call.Fun).(*ast.Ident); ok {
						if b, ok := info.Uses[id].(*types.Builtin); ok && b.Name() == "panic" {
							return nil
						}
					}
					return []eofState{s}
				}
				pe.Widen = func(s eofState) eofState { return s }
				fl := pe.Block(newSet(eofState{}), loop.Body.List)
				bad := false
				for s := range fl.next {
					if !s.checked {
						bad = true
					}
				}
				for s := range fl.cont {
					if !s.checked {
						bad = true
					}
				}
				// case clauses of a switch over the current character: the tag
				// switch itself is the test when it has a NUL/EOF arm; handled by
				// testsEOF on conditions only, so a loop whose exits are all in
				// switch arms is accepted when the switch tag came from a
				// comma-ok advance that is tested
				c.Check(!bad, key, loop.Pos(), "%s.%s: a path around this unconditional loop reaches the back edge without any end-of-input test (no `ok` result tested, no hasMoreTokens/match/accept call in a condition): on input that ends before the terminator the lexer never returns", rel, FuncName(fr.Decl))
				return true
			})
		})
	}
}
