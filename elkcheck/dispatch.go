package main

import (
	"go/ast"
	"go/types"
	"sort"
	"strings"
)

// SWITCH engine (DESIGN.md §4.3): representation coverage of functions that
// dispatch on a value.Value operand with `switch v.ValueFlag()` and/or
// `switch r := v.AsReference().(type)`.

type dispatchInfo struct {
	fr      *FuncRef
	param   *types.Var
	flags   map[string]ast.Node // *_FLAG constant name -> case clause
	refs    map[string]ast.Node // reference type (as written by go/types) -> case clause
	errCtor string              // constructor of the error the default arm returns ("" if none)
	hasFlag bool
	hasRef  bool
}

func (d *dispatchInfo) reps() []string {
	var out []string
	for f := range d.flags {
		out = append(out, f)
	}
	for r := range d.refs {
		out = append(out, "ref:"+r)
	}
	sort.Strings(out)
	return out
}

// valueParamOf: expression is v.M() for a parameter v of type value.Value.
func valueParamCall(info *types.Info, fd *ast.FuncDecl, e ast.Expr, method string) *types.Var {
	call, ok := ast.Unparen(e).(*ast.CallExpr)
	if !ok {
		return nil
	}
	sel, ok := call.Fun.(*ast.SelectorExpr)
	if !ok || sel.Sel.Name != method {
		return nil
	}
	id, ok := ast.Unparen(sel.X).(*ast.Ident)
	if !ok {
		return nil
	}
	v, ok := info.Uses[id].(*types.Var)
	if !ok || NamedOf(v.Type()) != "value.Value" {
		return nil
	}
	if _, isParam := paramIndex(info, fd, v); !isParam {
		return nil
	}
	return v
}

// errCtorIn: name of a New*Error constructor called in the statements.
func errCtorIn(info *types.Info, stmts []ast.Stmt) string {
	name := ""
	for _, st := range stmts {
		ast.Inspect(st, func(n ast.Node) bool {
			if call, ok := n.(*ast.CallExpr); ok {
				if fn := Callee(info, call); fn != nil && strings.HasPrefix(fn.Name(), "New") && strings.HasSuffix(fn.Name(), "Error") {
					name = fn.Name()
				}
			}
			return true
		})
	}
	return name
}

func (c *Ctx) dispatchFuncs(pkgRel string) []*dispatchInfo {
	var out []*dispatchInfo
	c.Funcs(pkgRel, func(fr *FuncRef) {
		info := fr.Pkg.TypesInfo
		per := map[*types.Var]*dispatchInfo{}
		get := func(v *types.Var) *dispatchInfo {
			d := per[v]
			if d == nil {
				d = &dispatchInfo{fr: fr, param: v, flags: map[string]ast.Node{}, refs: map[string]ast.Node{}}
				per[v] = d
			}
			return d
		}
		ast.Inspect(fr.Decl.Body, func(n ast.Node) bool {
			switch sw := n.(type) {
			case *ast.FuncLit:
				return false
			case *ast.SwitchStmt:
				if sw.Tag == nil {
					return true
				}
				v := valueParamCall(info, fr.Decl, sw.Tag, "ValueFlag")
				if v == nil {
					return true
				}
				d := get(v)
				d.hasFlag = true
				for _, cl := range sw.Body.List {
					cc := cl.(*ast.CaseClause)
					if cc.List == nil {
						if e := errCtorIn(info, cc.Body); e != "" {
							d.errCtor = e
						}
						continue
					}
					for _, e := range cc.List {
						if k := constName(info, e); k != "" {
							d.flags[k] = cc
						}
					}
				}
			case *ast.TypeSwitchStmt:
				var x ast.Expr
				switch a := sw.Assign.(type) {
				case *ast.AssignStmt:
					x = a.Rhs[0]
				case *ast.ExprStmt:
					x = a.X
				}
				ta, ok := ast.Unparen(x).(*ast.TypeAssertExpr)
				if !ok {
					return true
				}
				v := valueParamCall(info, fr.Decl, ta.X, "AsReference")
				if v == nil {
					return true
				}
				d := get(v)
				d.hasRef = true
				for _, cl := range sw.Body.List {
					cc := cl.(*ast.CaseClause)
					if cc.List == nil {
						if e := errCtorIn(info, cc.Body); e != "" && d.errCtor == "" {
							d.errCtor = e
						}
						continue
					}
					for _, e := range cc.List {
						if t := info.TypeOf(e); t != nil {
							d.refs[types.TypeString(t, func(p *types.Package) string { return relPkg(p.Path()) })] = cc
						}
					}
				}
			}
			return true
		})
		for _, d := range per {
			out = append(out, d)
		}
	})
	sort.Slice(out, func(i, j int) bool { return FuncName(out[i].fr.Decl) < FuncName(out[j].fr.Decl) })
	return out
}

func constName(info *types.Info, e ast.Expr) string {
	switch x := ast.Unparen(e).(type) {
	case *ast.Ident:
		if k, ok := info.Uses[x].(*types.Const); ok {
			return k.Name()
		}
	case *ast.SelectorExpr:
		if k, ok := info.Uses[x.Sel].(*types.Const); ok {
			return k.Name()
		}
	}
	return ""
}

func init() {
	register(&Rule{
		ID:    "switch/shift-siblings",
		Text:  "all functions that dispatch on the right operand of a bit shift (default arm: NewBitshiftOperandError) accept the same set of integer representations: an operand representation one shift accepts and a sibling rejects is a TypeError for a well-typed program",
		Floor: 4,
		Arch:  true,
		Run:   runShiftSiblings,
	})
}

func runShiftSiblings(c *Ctx) {
	var fam []*dispatchInfo
	for _, rel := range []string{"value", "vm"} {
		for _, d := range c.dispatchFuncs(rel) {
			if d.errCtor == "NewBitshiftOperandError" {
				fam = append(fam, d)
			}
		}
	}
	union := map[string]bool{}
	for _, d := range fam {
		for _, r := range d.reps() {
			union[r] = true
		}
	}
	c.Stats["shift_dispatch_functions"] = len(fam)
	c.Stats["shift_operand_representations"] = len(union)
	for _, d := range fam {
		have := map[string]bool{}
		for _, r := range d.reps() {
			have[r] = true
		}
		var missing []string
		for r := range union {
			if !have[r] {
				missing = append(missing, r)
			}
		}
		sort.Strings(missing)
		key := relPkg(d.fr.Pkg.PkgPath) + "." + FuncName(d.fr.Decl)
		if len(missing) == 0 {
			c.OK(key, d.fr.Decl.Pos(), "handles all %d operand representations its siblings handle", len(union))
		} else {
			c.Bad(key, d.fr.Decl.Pos(), "rejects with NewBitshiftOperandError the operand representation(s) %s, which sibling shift functions accept", strings.Join(missing, ", "))
		}
	}
}

func init() {
	register(&Rule{ID: "debug/dispatch", Text: "debug dump", Run: func(c *Ctx) {
		groups := map[string]map[string][]string{}
		for _, rel := range []string{"value", "vm"} {
			for _, d := range c.dispatchFuncs(rel) {
				g := groups[d.errCtor]
				if g == nil {
					g = map[string][]string{}
					groups[d.errCtor] = g
				}
				k := strings.Join(d.reps(), ",")
				g[k] = append(g[k], FuncName(d.fr.Decl))
			}
		}
		for e, g := range groups {
			println("== errCtor:", e)
			for k, fs := range g {
				if len(fs) > 6 {
					println("  ", len(fs), "funcs e.g.", strings.Join(fs[:6], " "), "::", k)
				} else {
					println("  ", len(fs), "funcs", strings.Join(fs, " "), "::", k)
				}
			}
		}
	}})
}
