package main

import (
	"go/ast"
	"go/types"
	"sort"
	"strings"
)

// COVER engine for the syntax tree (DESIGN.md §4.2): every node type has
// structure-walking methods (splice, traverse, Equal, String) whose job is to
// visit every field. A field a walker forgets is a sub-tree that macro
// expansion drops, a traversal never sees, or two different trees that print
// alike.

type astNodeType struct {
	named  *types.Named
	fields []*types.Var // own fields (embedded bases excluded)
	pos    ast.Node
}

// astFieldExempt: fields that are not syntax (annotations written by the
// checker or caches), one named field per entry: "Type.field" -> reason.
var astFieldExempt = map[string]string{
	"splice:UnquoteNode.Kind":                      "splicing an unquote replaces the node by the macro argument it names",
	"splice:UnquoteNode.Expression":                "splicing an unquote replaces the node by the macro argument it names",
	"InterfaceDeclarationNode.Implements":          "derived list, never set by the parser (collected from the body by the checker)",
	"MixinDeclarationNode.IncludesAndImplements":   "derived list, never set by the parser (collected from the body by the checker)",
	"String:MacroCallNode.Kind":                    "the macro kind follows from the syntactic position of the call (expression / pattern / type), it has no spelling of its own",
	"String:ReceiverlessMacroCallNode.Kind":        "the macro kind follows from the syntactic position of the call, it has no spelling of its own",
	"String:ScopedMacroCallNode.Kind":              "the macro kind follows from the syntactic position of the call, it has no spelling of its own",
	"String:InvalidNode.Token":                     "InvalidNode exists only in trees of rejected inputs, which are outside the round-trip property",
	"Equal:InvalidNode.Token":                      "InvalidNode exists only in trees of rejected inputs",
	"traverse:ReceiverlessMacroCallNode.MacroName": "an identifier leaf; no traversal client looks for identifiers of macro names (the sibling MacroCallNode does visit it — recorded as an inconsistency without an observable consequence)",
	"traverse:SymbolKeyValueExpressionNode.Key":    "an identifier leaf that is a literal key, not an evaluated sub-expression",
}

// astAnnotationFieldNames: fields the checker or compiler writes onto the
// tree; they are not syntax. Matched by name on any node type.
var astAnnotationFieldNames = map[string]string{
	"HasDefer":    "set by the checker: whether the body contains a defer",
	"TailCall":    "set by the checker: whether the call is in tail position",
	"FsPaths":     "resolved file system paths of an import, filled in by the checker",
	"ImportPaths": "resolved import paths of a program, filled in by the checker",
}

// isAnnotationType: fields holding checker/compiler artefacts (types,
// resolved methods, compiled bytecode, evaluated static values).
func isAnnotationType(t types.Type) string {
	n := NamedOf(t)
	switch {
	case strings.HasPrefix(n, "types."):
		return "holds a type-checker artefact (" + n + ")"
	case strings.HasPrefix(n, "value."):
		return "holds a runtime/compiler artefact (" + n + ")"
	case n == "parser/ast.static":
		return "memoised result of IsStatic"
	case n == "parser/ast.ProgramState":
		return "checker state of the program node"
	}
	return ""
}

func (c *Ctx) astNodeTypes() []*astNodeType {
	p := c.Pkg("parser/ast")
	nodeIface, _ := p.Types.Scope().Lookup("Node").Type().Underlying().(*types.Interface)
	if nodeIface == nil {
		c.Stale("parser/ast.Node interface")
	}
	var out []*astNodeType
	sc := p.Types.Scope()
	for _, name := range sc.Names() {
		tn, ok := sc.Lookup(name).(*types.TypeName)
		if !ok || tn.IsAlias() {
			continue
		}
		named, ok := tn.Type().(*types.Named)
		if !ok {
			continue
		}
		st, ok := named.Underlying().(*types.Struct)
		if !ok {
			continue
		}
		if !types.Implements(types.NewPointer(named), nodeIface) {
			continue
		}
		nt := &astNodeType{named: named}
		for i := 0; i < st.NumFields(); i++ {
			f := st.Field(i)
			if f.Embedded() {
				continue
			}
			nt.fields = append(nt.fields, f)
		}
		out = append(out, nt)
	}
	return out
}

// isChildType: the field can hold sub-trees (a node, a slice of nodes).
func isChildType(t types.Type, nodeIface *types.Interface) bool {
	switch u := t.(type) {
	case *types.Slice:
		return isChildType(u.Elem(), nodeIface)
	case *types.Pointer:
		return types.Implements(u, nodeIface)
	}
	if _, ok := t.Underlying().(*types.Interface); ok {
		return types.Implements(t, nodeIface)
	}
	return false
}

// fieldsUsedBy: own fields of the receiver referenced in the method body,
// following calls to other methods of the same receiver one level.
func (c *Ctx) fieldsUsedBy(fr *FuncRef, depth int) map[string]bool {
	used := map[string]bool{}
	if fr == nil || len(fr.Decl.Recv.List[0].Names) == 0 {
		return used
	}
	info := fr.Pkg.TypesInfo
	recv := info.Defs[fr.Decl.Recv.List[0].Names[0]]
	ast.Inspect(fr.Decl.Body, func(n ast.Node) bool {
		sel, ok := n.(*ast.SelectorExpr)
		if !ok {
			return true
		}
		id, ok := ast.Unparen(sel.X).(*ast.Ident)
		if !ok || info.Uses[id] != recv {
			return true
		}
		if s := info.Selections[sel]; s != nil {
			switch s.Kind() {
			case types.FieldVal:
				used[sel.Sel.Name] = true
			case types.MethodVal:
				if depth < 2 {
					if fn, ok := s.Obj().(*types.Func); ok {
						if fr2 := c.FuncOpt(relPkg(fn.Pkg().Path()), recvTypeName(fr.Decl), fn.Name()); fr2 != nil && fr2.Decl != fr.Decl {
							for k := range c.fieldsUsedBy(fr2, depth+1) {
								used[k] = true
							}
						}
					}
				}
			}
		}
		return true
	})
	// the receiver passed whole to a helper (e.g. ExpressionPrecedence(n)) does
	// not count as reading fields
	return used
}

func (c *Ctx) runAstCover(method string, childrenOnly bool, what string) {
	p := c.Pkg("parser/ast")
	nodeIface := p.Types.Scope().Lookup("Node").Type().Underlying().(*types.Interface)
	nts := c.astNodeTypes()
	sort.Slice(nts, func(i, j int) bool { return nts[i].named.Obj().Name() < nts[j].named.Obj().Name() })
	for _, nt := range nts {
		name := nt.named.Obj().Name()
		fr := c.FuncOpt("parser/ast", name, method)
		if fr == nil {
			continue
		}
		used := c.fieldsUsedBy(fr, 0)
		for _, f := range nt.fields {
			if childrenOnly && !isChildType(f.Type(), nodeIface) {
				continue
			}
			key := name + "." + f.Name()
			if reason := isAnnotationType(f.Type()); reason != "" {
				c.OK(key, fr.Decl.Pos(), "not syntax: %s", reason)
				continue
			}
			if reason, ok := astAnnotationFieldNames[f.Name()]; ok {
				c.OK(key, fr.Decl.Pos(), "not syntax: %s", reason)
				continue
			}
			if reason, ok := astFieldExempt[key]; ok {
				c.OK(key, fr.Decl.Pos(), "not syntax: %s", reason)
				continue
			}
			if reason, ok := astFieldExempt[method+":"+key]; ok {
				c.OK(key, fr.Decl.Pos(), "reasoned exception: %s", reason)
				continue
			}
			c.Check(used[f.Name()], key, fr.Decl.Pos(), "%s.%s never touches field %s: %s", name, method, f.Name(), what)
		}
	}
}

func init() {
	register(&Rule{
		ID:    "cover/astsplice",
		Text:  "every syntax-tree node's splice method (macro expansion) carries over every field of the node: a forgotten field is a sub-tree or attribute the expansion silently drops",
		Floor: 300,
		Run: func(c *Ctx) {
			c.runAstCover("splice", false, "the spliced copy loses it")
		},
	})
	register(&Rule{
		ID:    "cover/asttraverse",
		Text:  "every syntax-tree node's traverse method visits every field that can hold a sub-tree",
		Floor: 200,
		Run: func(c *Ctx) {
			c.runAstCover("traverse", true, "the sub-tree is invisible to every traversal (unquote search, hygiene marking)")
		},
	})
	register(&Rule{
		ID:    "cover/astprint",
		Text:  "every syntax-tree node's String method reads every syntactic field of the node: two trees that differ only in a field the printer ignores print identically, so one of them cannot survive print-and-reparse",
		Floor: 300,
		Run: func(c *Ctx) {
			c.runAstCover("String", false, "trees differing only there print identically")
		},
	})
	register(&Rule{
		ID:    "cover/astequal",
		Text:  "every syntax-tree node's Equal method compares every field of the node (Equal is the oracle of the print/reparse round trip)",
		Floor: 300,
		Run: func(c *Ctx) {
			c.runAstCover("Equal", false, "trees differing only there compare equal")
		},
	})
}

var _ = strings.TrimSpace
