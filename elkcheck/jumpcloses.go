package main

import (
	"go/ast"
	"go/token"
	"go/types"
)

// Two rules on the compiler's non-local exits (C13). The instructions that
// close the upvalues of a scope are emitted where the scope ends in program
// text; control that leaves the scope any other way (break, continue, a throw
// caught by a handler of the same function) does not execute them, and the
// slots of the scope's locals are handed to whatever is declared next. A
// closure that captured one of those locals then reads and writes an
// unrelated variable, or closures of different iterations share one.
//
// path/jump-closes-upvalues: wherever the compiler registers a `break` or
// `continue` jump it has emitted the closing for the scopes the jump leaves
// (the multi-scope closers), or has established that none of their locals is
// captured.
//
// path/handler-closes-body: between the entry offset of an exception handler
// (the offset handed to registerCatch) and the first thing the handler
// declares or compiles, the closing for the protected body is emitted, or it
// has been established that no local of the body is captured.

func init() {
	register(&Rule{
		ID:    "path/jump-closes-upvalues",
		Text:  "in package compiler, on every path to a call that registers a loop jump (addLoopJump, addLoopJumpTo) the function has called a multi-scope upvalue closer (a method that walks c.scopes and emits the closing for each) or is on the negative arm of a predicate over the captured flag of the locals in those scopes",
		Floor: 4,
		Run:   runJumpClosesUpvalues,
	})
	register(&Rule{
		ID:    "path/handler-closes-body",
		Text:  "in package compiler, for every handler entry offset that is registered with registerCatch for a sub-range of the function: on every path from taking the offset to the first call that opens a scope, defines a local or compiles user code (a call of a func-typed value, enterScope, defineLocal, compile*, pattern), the closing of the protected body's upvalues is emitted (emitCloseUpvalues or a closer) or the path is on the arm where the body's lowest captured local is -1",
		Floor: 2,
		Run:   runHandlerClosesBody,
	})
}

// upvalueFuncs classifies the compiler's functions by what they do with the
// captured flag of locals.
type upvalueFuncs struct {
	emit       *types.Func          // emitCloseUpvalues
	closers    map[*types.Func]bool // reach emit within two calls
	multi      map[*types.Func]bool // closers that walk c.scopes
	predicates map[*types.Func]bool // return bool, read .hasUpvalue
	indexFns   map[*types.Func]bool // return int, read .hasUpvalue
}

func classifyUpvalueFuncs(c *Ctx) *upvalueFuncs {
	p := c.Pkg("compiler")
	info := p.TypesInfo
	u := &upvalueFuncs{closers: map[*types.Func]bool{}, multi: map[*types.Func]bool{}, predicates: map[*types.Func]bool{}, indexFns: map[*types.Func]bool{}}
	if fr := c.FuncOpt("compiler", "BytecodeCompiler", "emitCloseUpvalues"); fr != nil {
		u.emit = fr.Obj
	} else {
		c.Stale("compiler.(*BytecodeCompiler).emitCloseUpvalues")
		return u
	}
	calls := map[*types.Func][]*types.Func{}
	var all []*FuncRef
	c.Funcs("compiler", func(fr *FuncRef) {
		all = append(all, fr)
		ast.Inspect(fr.Decl.Body, func(n ast.Node) bool {
			if call, ok := n.(*ast.CallExpr); ok {
				if fn := Callee(info, call); fn != nil {
					calls[fr.Obj] = append(calls[fr.Obj], fn.Origin())
				}
			}
			return true
		})
	})
	level := map[*types.Func]bool{u.emit: true}
	for depth := 0; depth < 2; depth++ {
		next := map[*types.Func]bool{}
		for _, fr := range all {
			for _, cal := range calls[fr.Obj] {
				if level[cal] || u.closers[cal] {
					next[fr.Obj] = true
				}
			}
		}
		for f := range next {
			u.closers[f] = true
		}
	}
	for _, fr := range all {
		readsFlag := false
		ast.Inspect(fr.Decl.Body, func(n ast.Node) bool {
			if sel, ok := n.(*ast.SelectorExpr); ok && sel.Sel.Name == "hasUpvalue" {
				if _, isField := info.Uses[sel.Sel].(*types.Var); isField {
					readsFlag = true
				}
			}
			return true
		})
		sig := fr.Obj.Type().(*types.Signature)
		if readsFlag && sig.Results().Len() == 1 {
			if b, ok := sig.Results().At(0).Type().Underlying().(*types.Basic); ok {
				switch {
				case b.Kind() == types.Bool:
					u.predicates[fr.Obj] = true
				case b.Info()&types.IsInteger != 0:
					u.indexFns[fr.Obj] = true
				}
			}
		}
		if !u.closers[fr.Obj] {
			continue
		}
		// walks the scope stack: a range/for statement over a value of the scopes type
		// whose body calls a closer or the emitter
		ast.Inspect(fr.Decl.Body, func(n ast.Node) bool {
			var body *ast.BlockStmt
			switch x := n.(type) {
			case *ast.RangeStmt:
				if NamedOf(info.TypeOf(x.X)) == "compiler.bytecodeScopes" {
					body = x.Body
				}
			}
			if body == nil {
				return true
			}
			ast.Inspect(body, func(m ast.Node) bool {
				if call, ok := m.(*ast.CallExpr); ok {
					if fn := Callee(info, call); fn != nil && (fn.Origin() == u.emit || u.closers[fn.Origin()]) {
						u.multi[fr.Obj] = true
					}
				}
				return true
			})
			return true
		})
	}
	return u
}

// negArm reports whether taking `branch` of cond establishes that nothing is
// captured: `!pred(..)` true, `pred(..)` false, `v == -1` true, `v != -1`
// false, with v assigned from an index function.
func (u *upvalueFuncs) negArm(info *types.Info, idxVars map[types.Object]bool, cond ast.Expr, branch bool) bool {
	cond = ast.Unparen(cond)
	if un, ok := cond.(*ast.UnaryExpr); ok && un.Op == token.NOT {
		return u.negArm(info, idxVars, un.X, !branch)
	}
	if call, ok := cond.(*ast.CallExpr); ok {
		if fn := Callee(info, call); fn != nil && u.predicates[fn.Origin()] {
			return !branch
		}
		return false
	}
	if be, ok := cond.(*ast.BinaryExpr); ok && (be.Op == token.EQL || be.Op == token.NEQ) {
		for _, pr := range [][2]ast.Expr{{be.X, be.Y}, {be.Y, be.X}} {
			id, ok := ast.Unparen(pr[0]).(*ast.Ident)
			if !ok || !idxVars[info.Uses[id]] {
				continue
			}
			if tv, ok := info.Types[pr[1]]; ok && tv.Value != nil && tv.Value.String() == "-1" {
				return (be.Op == token.EQL) == branch
			}
		}
	}
	return false
}

func indexVarsOf(info *types.Info, u *upvalueFuncs, body *ast.BlockStmt) map[types.Object]bool {
	vars := map[types.Object]bool{}
	ast.Inspect(body, func(n ast.Node) bool {
		as, ok := n.(*ast.AssignStmt)
		if !ok || len(as.Lhs) != 1 || len(as.Rhs) != 1 {
			return true
		}
		call, ok := ast.Unparen(as.Rhs[0]).(*ast.CallExpr)
		if !ok {
			return true
		}
		if fn := Callee(info, call); fn != nil && u.indexFns[fn.Origin()] {
			if id, ok := as.Lhs[0].(*ast.Ident); ok {
				if o := info.ObjectOf(id); o != nil {
					vars[o] = true
				}
			}
		}
		return true
	})
	return vars
}

func runJumpClosesUpvalues(c *Ctx) {
	p := c.Pkg("compiler")
	info := p.TypesInfo
	u := classifyUpvalueFuncs(c)
	if u.emit == nil {
		return
	}
	c.Stats["multi_scope_closers"] = len(u.multi)
	c.Stats["captured_flag_predicates"] = len(u.predicates)
	if len(u.multi) == 0 {
		c.Bad("closers", p.Syntax[0].Pos(), "the compiler has no function that walks the scope stack and emits the closing of upvalues for each scope a jump leaves")
		return
	}
	var reg = map[*types.Func]bool{}
	for _, n := range []string{"addLoopJump", "addLoopJumpTo"} {
		if fr := c.FuncOpt("compiler", "BytecodeCompiler", n); fr != nil {
			reg[fr.Obj] = true
		}
	}
	if len(reg) == 0 {
		c.Stale("compiler.(*BytecodeCompiler).addLoopJump")
		return
	}
	type st struct{ closed bool }
	c.Funcs("compiler", func(fr *FuncRef) {
		if reg[fr.Obj] || recvTypeName(fr.Decl) != "BytecodeCompiler" {
			return
		}
		has := false
		ast.Inspect(fr.Decl.Body, func(n ast.Node) bool {
			if call, ok := n.(*ast.CallExpr); ok {
				if fn := Callee(info, call); fn != nil && reg[fn.Origin()] {
					has = true
				}
			}
			return true
		})
		if !has {
			return
		}
		idxVars := indexVarsOf(info, u, fr.Decl.Body)
		bad := map[*ast.CallExpr]bool{}
		seen := map[*ast.CallExpr]bool{}
		var order []*ast.CallExpr
		pe := &PathEval[st]{Info: info}
		pe.Call = func(s st, call *ast.CallExpr) []st {
			fn := Callee(info, call)
			if fn == nil {
				return []st{s}
			}
			if u.multi[fn.Origin()] {
				return []st{{closed: true}}
			}
			if reg[fn.Origin()] {
				if !seen[call] {
					seen[call] = true
					order = append(order, call)
				}
				if !s.closed {
					bad[call] = true
				}
				// the next registration needs its own closing
				return []st{{closed: false}}
			}
			return []st{s}
		}
		pe.Cond = func(s st, cond ast.Expr, branch bool) []st {
			if u.negArm(info, idxVars, cond, branch) {
				return []st{{closed: true}}
			}
			return []st{s}
		}
		pe.Block(newSet(st{}), fr.Decl.Body.List)
		for i, call := range order {
			key := FuncName(fr.Decl) + "/" + Callee(info, call).Name() + "#" + itoa(i+1)
			c.Check(!bad[call], key, call.Pos(), "%s registers a loop jump here on a path on which it has neither emitted the closing of upvalues for the scopes the jump leaves nor established that none of their locals is captured: after the jump the slots are reused while closures still point at them, so closures of different iterations share one variable or observe an unrelated one", FuncName(fr.Decl))
		}
	})
}

func runHandlerClosesBody(c *Ctx) {
	p := c.Pkg("compiler")
	info := p.TypesInfo
	u := classifyUpvalueFuncs(c)
	if u.emit == nil {
		return
	}
	regFr := c.FuncOpt("compiler", "BytecodeCompiler", "registerCatch")
	if regFr == nil {
		c.Stale("compiler.(*BytecodeCompiler).registerCatch")
		return
	}
	type st struct {
		marker types.Object // handler entry taken, body not yet closed
	}
	c.Funcs("compiler", func(fr *FuncRef) {
		if recvTypeName(fr.Decl) != "BytecodeCompiler" || fr.Obj == regFr.Obj {
			return
		}
		// handler entry variables: third argument of registerCatch, for a sub-range
		markers := map[types.Object]*ast.CallExpr{}
		ast.Inspect(fr.Decl.Body, func(n ast.Node) bool {
			call, ok := n.(*ast.CallExpr)
			if !ok || len(call.Args) < 3 {
				return true
			}
			if fn := Callee(info, call); fn == nil || fn.Origin() != regFr.Obj {
				return true
			}
			if tv, ok := info.Types[call.Args[0]]; ok && tv.Value != nil {
				return true // constant range: not a handler of a sub-range of the function
			}
			id, ok := ast.Unparen(call.Args[2]).(*ast.Ident)
			if !ok {
				c.Unknown(FuncName(fr.Decl)+"/registerCatch", call.Pos(), "the handler entry `%s` is not a variable", types.ExprString(call.Args[2]))
				return true
			}
			markers[info.Uses[id]] = call
			return true
		})
		if len(markers) == 0 {
			return
		}
		idxVars := indexVarsOf(info, u, fr.Decl.Body)
		bad := map[types.Object]ast.Node{}
		pe := &PathEval[st]{Info: info}
		opens := func(call *ast.CallExpr) bool {
			// a call of a func-typed value (the body/finally callbacks)
			if id, ok := ast.Unparen(call.Fun).(*ast.Ident); ok {
				if v, ok := info.Uses[id].(*types.Var); ok {
					if _, isSig := v.Type().Underlying().(*types.Signature); isSig {
						return true
					}
				}
			}
			fn := Callee(info, call)
			if fn == nil || recvNameOf(fn) != "BytecodeCompiler" {
				return false
			}
			switch n := fn.Name(); {
			case n == "enterScope", n == "defineLocal", n == "pattern":
				return true
			case len(n) > 7 && n[:7] == "compile":
				return true
			}
			return false
		}
		pe.Stmt = func(s st, stm ast.Stmt) ([]st, bool) {
			as, ok := stm.(*ast.AssignStmt)
			if !ok || len(as.Lhs) != 1 || len(as.Rhs) != 1 {
				return nil, false
			}
			id, ok := as.Lhs[0].(*ast.Ident)
			if !ok {
				return nil, false
			}
			o := info.ObjectOf(id)
			if markers[o] == nil {
				return nil, false
			}
			if call, ok := ast.Unparen(as.Rhs[0]).(*ast.CallExpr); ok {
				if fn := Callee(info, call); fn != nil && fn.Name() == "nextInstructionOffset" {
					return []st{{marker: o}}, true
				}
			}
			return nil, false
		}
		pe.Call = func(s st, call *ast.CallExpr) []st {
			if s.marker == nil {
				return []st{s}
			}
			if fn := Callee(info, call); fn != nil && (fn.Origin() == u.emit || u.closers[fn.Origin()]) {
				return []st{{}}
			}
			// a helper that is handed the body's lowest captured local takes over the obligation
			for _, a := range call.Args {
				if id, ok := ast.Unparen(a).(*ast.Ident); ok && idxVars[info.Uses[id]] {
					return []st{{}}
				}
			}
			if opens(call) {
				if bad[s.marker] == nil {
					bad[s.marker] = call
				}
				return []st{{}}
			}
			return []st{s}
		}
		pe.Cond = func(s st, cond ast.Expr, branch bool) []st {
			if s.marker != nil && u.negArm(info, idxVars, cond, branch) {
				return []st{{}}
			}
			return []st{s}
		}
		pe.Block(newSet(st{}), fr.Decl.Body.List)
		for o, reg := range markers {
			key := FuncName(fr.Decl) + "/" + o.Name()
			if at := bad[o]; at != nil {
				c.Bad(key, at.Pos(), "%s enters the handler at `%s` and starts declaring or compiling here without having emitted the closing of the protected body's upvalues (and without having established that no local of the body is captured): a throw, break or continue leaves the body without executing its own closing, the handler reuses the body's slots, and a closure over one of the body's locals then observes the handler's variables", FuncName(fr.Decl), o.Name())
			} else {
				c.OK(key, reg.Pos(), "closing emitted (or nothing captured) before the handler declares anything")
			}
		}
	})
}
