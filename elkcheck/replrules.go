package main

import (
	"go/ast"
	"go/token"
	"go/types"
	"strings"
)

// repl/snapshot-restore (C27): Checker.CheckSource snapshots the state a REPL
// input may change before it checks the input and restores it when the input
// is rejected. A snapshot that is taken and not restored, or a copy helper
// that leaves a field of the copied record behind, is a trace a rejected
// input leaves.

func init() {
	register(&Rule{
		ID:    "repl/snapshot-restore",
		Text:  "in the REPL entry point of the checker every snapshot taken before the input is checked (a local initialised from a *DeepCopy* call) is stored back on the failure branch (the branch guarded by Errors.IsFailure()), the failure branch is reached on every path after the check, and the checker's own copy helpers (deepCopyLocalEnvs and the record copy it uses) write every field of the records they build",
		Floor: 8,
		Run:   runReplSnapshotRestore,
	})
}

func isDeepCopyName(n string) bool {
	return strings.Contains(n, "DeepCopy") || strings.Contains(n, "deepCopy")
}

func runReplSnapshotRestore(c *Ctx) {
	// anchor by shape: the Checker methods that take snapshots through
	// GlobalEnvironment.DeepCopyEnv
	var entries []*FuncRef
	c.Funcs("types/checker", func(fr *FuncRef) {
		if recvTypeName(fr.Decl) != "Checker" {
			return
		}
		info := fr.Pkg.TypesInfo
		found := false
		ast.Inspect(fr.Decl.Body, func(n ast.Node) bool {
			if call, ok := n.(*ast.CallExpr); ok && IsCall(info, call, "types.GlobalEnvironment.DeepCopyEnv") {
				found = true
			}
			return true
		})
		if found {
			entries = append(entries, fr)
		}
	})
	if len(entries) == 0 {
		c.Stale("a Checker method calling GlobalEnvironment.DeepCopyEnv")
	}
	for _, fr := range entries {
		info := fr.Pkg.TypesInfo
		fname := FuncName(fr.Decl)
		// snapshots: top-level `x := <call to *DeepCopy*>`
		type snap struct {
			obj types.Object
			pos token.Pos
		}
		var snaps []snap
		var failIf *ast.IfStmt
		failIdx, lastSnapIdx := -1, -1
		for i, st := range fr.Decl.Body.List {
			switch x := st.(type) {
			case *ast.AssignStmt:
				if x.Tok != token.DEFINE || len(x.Lhs) != 1 || len(x.Rhs) != 1 {
					continue
				}
				call, ok := ast.Unparen(x.Rhs[0]).(*ast.CallExpr)
				if !ok {
					continue
				}
				fn := Callee(info, call)
				if fn == nil || !isDeepCopyName(fn.Name()) {
					continue
				}
				id := x.Lhs[0].(*ast.Ident)
				snaps = append(snaps, snap{info.Defs[id], id.Pos()})
				lastSnapIdx = i
			case *ast.IfStmt:
				if failIf == nil && x.Init == nil && x.Else == nil {
					if call, ok := ast.Unparen(x.Cond).(*ast.CallExpr); ok {
						if fn := Callee(info, call); fn != nil && fn.Name() == "IsFailure" {
							failIf, failIdx = x, i
						}
					}
				}
			}
		}
		if failIf == nil {
			c.Bad(fname+"/failure-branch", fr.Decl.Pos(), "%s takes %d snapshots but has no top-level `if ...IsFailure()` branch that restores them", fname, len(snaps))
			continue
		}
		// the failure branch is reached on every path: no return between the
		// last snapshot and the branch
		early := false
		for _, st := range fr.Decl.Body.List[lastSnapIdx+1 : failIdx] {
			ast.Inspect(st, func(n ast.Node) bool {
				switch n.(type) {
				case *ast.ReturnStmt:
					early = true
				case *ast.FuncLit:
					return false
				}
				return true
			})
		}
		c.Check(!early && failIdx > lastSnapIdx, fname+"/failure-branch", failIf.Pos(), "%s can return between taking its snapshots and the failure branch that restores them", fname)
		for _, s := range snaps {
			restored := false
			ast.Inspect(failIf.Body, func(n ast.Node) bool {
				switch x := n.(type) {
				case *ast.AssignStmt:
					for i, r := range x.Rhs {
						if id, ok := ast.Unparen(r).(*ast.Ident); ok && info.Uses[id] == s.obj && i < len(x.Lhs) {
							// stored into a field of the receiver
							if sel, ok := ast.Unparen(x.Lhs[i]).(*ast.SelectorExpr); ok {
								if sl := info.Selections[sel]; sl != nil && sl.Kind() == types.FieldVal {
									restored = true
								}
							}
						}
					}
				case *ast.CallExpr:
					// c.setRuntimeGlobalEnv(envCopy): a Checker method taking the snapshot
					if fn := Callee(info, x); fn != nil && recvNameOf(fn) == "Checker" {
						for _, a := range x.Args {
							if id, ok := ast.Unparen(a).(*ast.Ident); ok && info.Uses[id] == s.obj {
								restored = true
							}
						}
					}
				}
				return true
			})
			c.Check(restored, fname+"/restore/"+s.obj.Name(), s.pos, "%s snapshots %s before checking the input but the failure branch never stores it back: a rejected input leaves that part of the state changed", fname, s.obj.Name())
		}
	}

	// copy helpers of the checker: every composite literal of a checker-local
	// record type built inside a deepCopy* function, together with the later
	// stores to the variable holding it, writes every field of the record
	c.Funcs("types/checker", func(fr *FuncRef) {
		if !isDeepCopyName(fr.Decl.Name.Name) || recvTypeName(fr.Decl) != "Checker" {
			return
		}
		info := fr.Pkg.TypesInfo
		fname := FuncName(fr.Decl)
		ast.Inspect(fr.Decl.Body, func(n ast.Node) bool {
			as, ok := n.(*ast.AssignStmt)
			if !ok || as.Tok != token.DEFINE || len(as.Lhs) != 1 || len(as.Rhs) != 1 {
				return true
			}
			id, ok := as.Lhs[0].(*ast.Ident)
			if !ok {
				return true
			}
			obj := info.Defs[id]
			rhs := ast.Unparen(as.Rhs[0])
			var rt types.Type
			switch r := rhs.(type) {
			case *ast.UnaryExpr:
				if cl, ok := r.X.(*ast.CompositeLit); ok && r.Op == token.AND {
					rt = info.TypeOf(cl)
				}
			case *ast.CompositeLit:
				rt = info.TypeOf(r)
			case *ast.CallExpr:
				// x := y.copy()
				if fn := Callee(info, r); fn != nil && (fn.Name() == "copy" || fn.Name() == "Copy") && fn.Pkg() == fr.Pkg.Types {
					rt = derefType(info.TypeOf(r))
				}
			}
			if rt == nil {
				return true
			}
			named, ok := types.Unalias(rt).(*types.Named)
			if !ok || named.Obj().Pkg() != fr.Pkg.Types {
				return true
			}
			if _, isStruct := named.Underlying().(*types.Struct); !isStruct {
				return true
			}
			written := map[string]bool{}
			c.writesIn(fr, obj, written, 0)
			for _, f := range flattenFields(named, map[types.Type]bool{}) {
				key := fname + "/" + named.Obj().Name() + "." + f.Name()
				c.Check(written[f.Name()], key, as.Pos(), "%s builds a %s for the snapshot without writing its field %s", fname, named.Obj().Name(), f.Name())
			}
			return true
		})
	})
}
