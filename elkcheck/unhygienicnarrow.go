package main

import (
	"go/ast"
	"go/types"
	"strings"
)

// macro/no-unhygienic-narrowing (C31): narrowing a local that lives in an
// outer environment creates a shadow of it, under the same name, in the
// current environment. Inside a macro expansion the current environment lies
// within the macro boundary; a shadow of a *caller's* local created there
// (by narrowing through an unhygienic splice in a condition) makes the
// caller's variable visible to the hygienic code of the branch, which can
// then read and overwrite it.

func init() {
	register(&Rule{
		ID:    "macro/no-unhygienic-narrowing",
		Text:  "in the type checker, no function of the narrowing family (the functions from which createShadow is reachable within two calls) unwraps an *ast.UnhygienicNode (has a type-switch case or type assertion for it)",
		Floor: 5,
		Run:   runNoUnhygienicNarrowing,
	})
}

func runNoUnhygienicNarrowing(c *Ctx) {
	p := c.ByRel["types/checker"]
	if p == nil {
		c.Stale("package types/checker")
		return
	}
	info := p.TypesInfo
	calls := map[*types.Func][]*types.Func{}
	var all []*FuncRef
	c.Funcs("types/checker", func(fr *FuncRef) {
		all = append(all, fr)
		ast.Inspect(fr.Decl.Body, func(n ast.Node) bool {
			if call, ok := n.(*ast.CallExpr); ok {
				if fn := Callee(info, call); fn != nil {
					calls[fr.Obj] = append(calls[fr.Obj], fn.Origin())
				}
			}
			return true
		})
	})
	family := map[*types.Func]bool{}
	for _, fr := range all {
		for _, cal := range calls[fr.Obj] {
			if cal.Name() == "createShadow" {
				family[fr.Obj] = true
			}
		}
	}
	for depth := 0; depth < 2; depth++ {
		next := map[*types.Func]bool{}
		for _, fr := range all {
			if !strings.HasPrefix(fr.Decl.Name.Name, "narrow") {
				continue // the family is the checker's narrow* functions; other callers only use the result
			}
			for _, cal := range calls[fr.Obj] {
				if family[cal] {
					next[fr.Obj] = true
				}
			}
		}
		for f := range next {
			family[f] = true
		}
	}
	if len(family) == 0 {
		c.Stale("types/checker: functions reaching createShadow")
		return
	}
	for _, fr := range all {
		if !family[fr.Obj] {
			continue
		}
		var at ast.Node
		ast.Inspect(fr.Decl.Body, func(n ast.Node) bool {
			switch x := n.(type) {
			case *ast.CaseClause:
				for _, e := range x.List {
					if t := info.TypeOf(e); t != nil && strings.HasSuffix(NamedOf(t), "ast.UnhygienicNode") && at == nil {
						at = x
					}
				}
			case *ast.TypeAssertExpr:
				if x.Type != nil {
					if t := info.TypeOf(x.Type); t != nil && strings.HasSuffix(NamedOf(t), "ast.UnhygienicNode") && at == nil {
						at = x
					}
				}
			}
			return true
		})
		pos := fr.Decl.Pos()
		if at != nil {
			pos = at.Pos()
		}
		c.Check(at == nil, FuncName(fr.Decl), pos, "%s belongs to the narrowing family (it creates shadows of outer locals in the current environment) and unwraps an unhygienic node: narrowing a caller's local through an unhygienic condition puts a shadow of it inside the macro boundary, where the hygienic code of the expansion can then see, read and overwrite the caller's variable", FuncName(fr.Decl))
	}
}
