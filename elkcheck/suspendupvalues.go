package main

import (
	"go/ast"
	"go/types"
)

// upvalue/suspend-rebinds (C13): a generator (and the body of an async
// function, which is one) does not keep its frame on the stack while it is
// suspended: the slots are copied into the Generator and copied back - to
// other addresses - when it is resumed. Leaving the frame closes the upvalues
// that pointed into it, which moves the captured variables into the upvalues;
// the resumed body however keeps reading and writing the copied slots. Unless
// the resuming function re-attaches those upvalues to the new slots, a closure
// created before a `yield`/`await` and the body after it no longer share the
// variable.

func init() {
	register(&Rule{
		ID:    "upvalue/suspend-rebinds",
		Text:  "every VM function that resumes a generator (restores the thread's instruction pointer from a Generator and copies the Generator's saved slots onto the stack) re-attaches the upvalues that captured those slots: the function, or a function it calls directly, assigns the `slot` field of an Upvalue or the thread's open-upvalue list",
		Floor: 2,
		Run:   runSuspendRebinds,
	})
}

func runSuspendRebinds(c *Ctx) {
	p := c.Pkg("vm")
	info := p.TypesInfo
	// functions that assign Upvalue.slot or Thread.openUpvalueHead
	rebinds := map[*types.Func]bool{}
	writesUpvalueState := func(body *ast.BlockStmt) bool {
		found := false
		ast.Inspect(body, func(n ast.Node) bool {
			as, ok := n.(*ast.AssignStmt)
			if !ok {
				return true
			}
			for _, l := range as.Lhs {
				sel, ok := ast.Unparen(l).(*ast.SelectorExpr)
				if !ok {
					continue
				}
				switch {
				case sel.Sel.Name == "slot" && NamedOf(info.TypeOf(sel.X)) == "vm.Upvalue":
					found = true
				case sel.Sel.Name == "openUpvalueHead" && NamedOf(info.TypeOf(sel.X)) == "vm.Thread":
					found = true
				}
			}
			return true
		})
		return found
	}
	// the function that reallocates the value stack moves every open upvalue
	// along with its slot; that is not re-attaching a closed one
	grow, _, _ := c.growFunc()
	c.Funcs("vm", func(fr *FuncRef) {
		if grow != nil && fr.Obj == grow.Obj {
			return
		}
		if writesUpvalueState(fr.Decl.Body) {
			rebinds[fr.Obj] = true
		}
	})
	c.Funcs("vm", func(fr *FuncRef) {
		if recvTypeName(fr.Decl) != "Thread" {
			return
		}
		// vm.ip = <Generator>.ip
		var at ast.Node
		ast.Inspect(fr.Decl.Body, func(n ast.Node) bool {
			as, ok := n.(*ast.AssignStmt)
			if !ok || len(as.Lhs) != 1 || len(as.Rhs) != 1 {
				return true
			}
			l, ok := ast.Unparen(as.Lhs[0]).(*ast.SelectorExpr)
			if !ok || l.Sel.Name != "ip" || NamedOf(info.TypeOf(l.X)) != "vm.Thread" {
				return true
			}
			r, ok := ast.Unparen(as.Rhs[0]).(*ast.SelectorExpr)
			if ok && r.Sel.Name == "ip" && NamedOf(info.TypeOf(r.X)) == "vm.Generator" {
				at = as
			}
			return true
		})
		if at == nil {
			return
		}
		ok := writesUpvalueState(fr.Decl.Body)
		ast.Inspect(fr.Decl.Body, func(n ast.Node) bool {
			if call, isCall := n.(*ast.CallExpr); isCall {
				if fn := Callee(info, call); fn != nil && rebinds[fn.Origin()] {
					ok = true
				}
			}
			return true
		})
		c.Check(ok, FuncName(fr.Decl), at.Pos(), "%s resumes a generator on slots copied from the Generator, but neither it nor a function it calls re-attaches the upvalues that captured the generator's locals (they were closed when the generator was suspended): after the first `yield`/`await` a closure created in the body and the body itself each work on their own copy of a captured variable", FuncName(fr.Decl))
	})
}
