package main

import (
	"go/ast"
	"go/token"
	"go/types"
	"sort"
	"strings"
)

// ops/token-family (C08): emitBinaryOperation is the table that says which
// opcodes implement which operator token (`/` -> DIVIDE, DIVIDE_INT,
// DIVIDE_FLOAT). Any other place in the compiler that emits one of those
// opcodes while it knows (from a test of the operator token) that it is
// compiling a DIFFERENT operator has picked another operation for that
// operator than the generic path, the folding path and the method call use:
// the result then depends on which path the compiler chose.

func init() {
	register(&Rule{
		ID:    "ops/token-family",
		Text:  "the opcodes emitted under `case token.T` in the compiler's operator table form T's family; every other emission site in the bytecode compiler of an opcode that belongs to some family, and that is control-dependent on a test of the operator token (case token.U, `x.Type == token.U`, or an early `if x.Type != token.U { return }`), has the opcode in U's family",
		Floor: 40,
		Run:   runTokenFamily,
	})
}

func runTokenFamily(c *Ctx) {
	p := c.Pkg("compiler")
	info := p.TypesInfo
	isTypeSel := func(e ast.Expr) bool {
		return e != nil && strings.HasSuffix(types.ExprString(ast.Unparen(e)), ".Type")
	}
	tokConst := func(e ast.Expr) string {
		sel, ok := ast.Unparen(e).(*ast.SelectorExpr)
		if !ok {
			return ""
		}
		k, ok := info.Uses[sel.Sel].(*types.Const)
		if !ok || k.Pkg() == nil || relPkg(k.Pkg().Path()) != "token" {
			return ""
		}
		return k.Name()
	}
	opConst := func(e ast.Expr) string {
		sel, ok := ast.Unparen(e).(*ast.SelectorExpr)
		if !ok {
			return ""
		}
		k, ok := info.Uses[sel.Sel].(*types.Const)
		if !ok || k.Pkg() == nil || relPkg(k.Pkg().Path()) != "bytecode" {
			return ""
		}
		return k.Name()
	}
	emitted := func(call *ast.CallExpr) string {
		if !IsCall(info, call, "compiler.BytecodeCompiler.emit") || len(call.Args) < 2 {
			return ""
		}
		return opConst(call.Args[1])
	}

	// 1. the operator table: the BytecodeCompiler method with the largest
	// token switch whose clauses emit opcodes
	var table *ast.SwitchStmt
	var tableFn *FuncRef
	best := 0
	c.Funcs("compiler", func(fr *FuncRef) {
		if recvTypeName(fr.Decl) != "BytecodeCompiler" {
			return
		}
		ast.Inspect(fr.Decl.Body, func(n ast.Node) bool {
			sw, ok := n.(*ast.SwitchStmt)
			if !ok || !isTypeSel(sw.Tag) {
				return true
			}
			cnt := 0
			for _, cl := range sw.Body.List {
				cc := cl.(*ast.CaseClause)
				hasTok, hasEmit := false, false
				for _, e := range cc.List {
					if tokConst(e) != "" {
						hasTok = true
					}
				}
				for _, st := range cc.Body {
					ast.Inspect(st, func(m ast.Node) bool {
						if call, ok := m.(*ast.CallExpr); ok && emitted(call) != "" {
							hasEmit = true
						}
						return true
					})
				}
				if hasTok && hasEmit {
					cnt++
				}
			}
			if cnt > best {
				best, table, tableFn = cnt, sw, fr
			}
			return true
		})
	})
	if table == nil || best < 15 {
		c.Stale("compiler: BytecodeCompiler method with a switch over operator tokens emitting opcodes (>= 15 clauses)")
	}
	family := map[string]map[string]bool{} // token -> opcodes
	tokOf := map[string]map[string]bool{}  // opcode -> tokens
	for _, cl := range table.Body.List {
		cc := cl.(*ast.CaseClause)
		var toks []string
		for _, e := range cc.List {
			if t := tokConst(e); t != "" {
				toks = append(toks, t)
			}
		}
		for _, st := range cc.Body {
			ast.Inspect(st, func(m ast.Node) bool {
				if call, ok := m.(*ast.CallExpr); ok {
					if op := emitted(call); op != "" {
						for _, t := range toks {
							if family[t] == nil {
								family[t] = map[string]bool{}
							}
							family[t][op] = true
							if tokOf[op] == nil {
								tokOf[op] = map[string]bool{}
							}
							tokOf[op][t] = true
						}
					}
				}
				return true
			})
		}
	}
	c.Stats["operator_tokens_in_table"] = len(family)
	c.Stats["family_opcodes"] = len(tokOf)

	// 2. all other emission sites of family opcodes
	c.Funcs("compiler", func(fr *FuncRef) {
		if recvTypeName(fr.Decl) != "BytecodeCompiler" {
			return
		}
		// early-return guards at the top level of the function
		var early []struct {
			pos token.Pos
			tok string
		}
		for _, st := range fr.Decl.Body.List {
			ifs, ok := st.(*ast.IfStmt)
			if !ok || ifs.Else != nil || len(ifs.Body.List) == 0 {
				continue
			}
			if _, isRet := ifs.Body.List[len(ifs.Body.List)-1].(*ast.ReturnStmt); !isRet {
				continue
			}
			if be, ok := ast.Unparen(ifs.Cond).(*ast.BinaryExpr); ok && be.Op == token.NEQ && isTypeSel(be.X) {
				if t := tokConst(be.Y); t != "" {
					early = append(early, struct {
						pos token.Pos
						tok string
					}{ifs.End(), t})
				}
			}
		}
		n := map[string]int{}
		var stack []ast.Node
		ast.Inspect(fr.Decl.Body, func(nd ast.Node) bool {
			if nd == nil {
				stack = stack[:len(stack)-1]
				return true
			}
			stack = append(stack, nd)
			call, ok := nd.(*ast.CallExpr)
			if !ok {
				return true
			}
			op := emitted(call)
			if op == "" {
				// an opcode handed to a helper as an argument (relational and
				// literal patterns: c.relationalPattern(pat.Right, bytecode.LESS))
				for _, a := range call.Args {
					if k := opConst(a); k != "" && tokOf[k] != nil {
						op = k
					}
				}
			}
			if op == "" || tokOf[op] == nil {
				return true
			}
			// inside the table itself: defines the family
			if fr == tableFn && call.Pos() >= table.Pos() && call.End() <= table.End() {
				return true
			}
			ctx := map[string]bool{}
			for i := len(stack) - 2; i >= 0; i-- {
				switch x := stack[i].(type) {
				case *ast.CaseClause:
					// is this a clause of a token switch?
					if i > 1 {
						if sw, ok := stack[i-2].(*ast.SwitchStmt); ok && isTypeSel(sw.Tag) {
							for _, e := range x.List {
								if t := tokConst(e); t != "" {
									ctx[t] = true
								}
							}
						}
					}
				case *ast.IfStmt:
					if be, ok := ast.Unparen(x.Cond).(*ast.BinaryExpr); ok && be.Op == token.EQL && isTypeSel(be.X) {
						if t := tokConst(be.Y); t != "" && call.Pos() >= x.Body.Pos() && call.End() <= x.Body.End() {
							ctx[t] = true
						}
					}
				}
				if len(ctx) > 0 {
					break
				}
			}
			if len(ctx) == 0 {
				for _, e := range early {
					if e.pos <= call.Pos() {
						ctx[e.tok] = true
					}
				}
			}
			n[op]++
			key := FuncName(fr.Decl) + "/" + op + "#" + itoa(n[op])
			if len(ctx) == 0 {
				c.OKTrivial(key, call.Pos(), "emitted without a test of the operator token in scope (not an operator-selected site)")
				return true
			}
			var ctxs []string
			bad := false
			for t := range ctx {
				ctxs = append(ctxs, t)
				if family[t] != nil && !family[t][op] {
					bad = true
				}
			}
			sort.Strings(ctxs)
			var fam []string
			for t := range tokOf[op] {
				fam = append(fam, t)
			}
			sort.Strings(fam)
			c.Check(!bad, key, call.Pos(), "%s emits %s, which the operator table uses for token(s) %s, at a site that is only reached when the operator token is %s: the expression is compiled to a different operation than the generic opcode, constant folding and the method call perform for that operator", FuncName(fr.Decl), op, strings.Join(fam, ","), strings.Join(ctxs, ","))
			return true
		})
	})
}
