package main

import (
	"go/ast"
)

// macro/boundary-resets-unhygienic (C31): `unhygienic(e)` switches the
// checker's name resolution to the caller's scope while `e` is checked. If
// `e` contains a macro call, the expansion of that macro - a macro boundary
// node - has to be checked hygienically again: the function that checks a
// macro boundary must clear the unhygienic flag for the duration of the body
// and put the previous value back.

func init() {
	register(&Rule{
		ID:    "macro/boundary-resets-unhygienic",
		Text:  "in the type checker, the function that checks a macro boundary node (it pushes the macro-boundary local environment) calls setUnhygienic(false) before it checks the body and restores the previous value afterwards",
		Floor: 1,
		Run:   runBoundaryResetsUnhygienic,
	})
}

func runBoundaryResetsUnhygienic(c *Ctx) {
	p := c.ByRel["types/checker"]
	if p == nil {
		c.Stale("package types/checker")
		return
	}
	info := p.TypesInfo
	c.Funcs("types/checker", func(fr *FuncRef) {
		var push, clear, restore ast.Node
		ast.Inspect(fr.Decl.Body, func(n ast.Node) bool {
			call, ok := n.(*ast.CallExpr)
			if !ok {
				return true
			}
			fn := Callee(info, call)
			if fn == nil {
				return true
			}
			switch fn.Name() {
			case "pushMacroBoundaryLocalEnv":
				if push == nil {
					push = call
				}
			case "setUnhygienic":
				if len(call.Args) == 1 {
					if boolConst(info, call.Args[0]) == "false" {
						if clear == nil {
							clear = call
						}
					} else if _, isIdent := ast.Unparen(call.Args[0]).(*ast.Ident); isIdent {
						restore = call
					}
				}
			}
			return true
		})
		if push == nil || fr.Decl.Name.Name == "pushMacroBoundaryLocalEnv" {
			return
		}
		ok := clear != nil && restore != nil && clear.Pos() < push.Pos() && restore.Pos() > push.Pos()
		c.Check(ok, FuncName(fr.Decl), push.Pos(), "%s checks the body of a macro expansion without clearing the unhygienic flag first (and restoring it afterwards): a macro called inside an unhygienic splice is expanded with the caller's names visible, so its plain body can read and write the caller's locals", FuncName(fr.Decl))
	})
}
