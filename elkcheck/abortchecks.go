package main

import (
	"go/ast"
	"go/token"
	"go/types"
	"sort"
)

// Rules on cancellation (C33): a running program can only be stopped at
// CHECK_ABORT instructions, which the compiler emits before back edges when
// additionalAbortChecks is set.

func init() {
	register(&Rule{
		ID:    "cover/flagprop",
		Text:  "every bytecode compiler constructed from within another one (NewBytecodeCompiler inside a method of *BytecodeCompiler) copies from its parent every configuration field that some construction site copies (X.f = c.f): a field copied at one site and forgotten at another makes the child compile under a different configuration",
		Floor: 14,
		Run:   runFlagProp,
	})
	register(&Rule{
		ID:    "path/abort-before-backedge",
		Text:  "every backward jump the compiler emits for a user-level loop (emitLoop) is preceded, in the same function, by the `if c.additionalAbortChecks { emit CHECK_ABORT }` guard (or by a call of a helper whose body reaches that guard on every path), so every iteration of every unbounded loop passes a cancellation point",
		Floor: 7,
		Run:   runAbortBeforeBackedge,
	})
}

func runFlagProp(c *Ctx) {
	cp := c.Pkg("compiler")
	info := cp.TypesInfo
	type site struct {
		fr     *FuncRef
		v      types.Object
		pos    token.Pos
		copied map[string]bool
	}
	var sites []*site
	c.Funcs("compiler", func(fr *FuncRef) {
		if recvTypeName(fr.Decl) != "BytecodeCompiler" || len(fr.Decl.Recv.List[0].Names) == 0 {
			return
		}
		recv := info.Defs[fr.Decl.Recv.List[0].Names[0]]
		byVar := map[types.Object]*site{}
		ast.Inspect(fr.Decl.Body, func(n ast.Node) bool {
			as, ok := n.(*ast.AssignStmt)
			if !ok || len(as.Lhs) != 1 || len(as.Rhs) != 1 {
				return true
			}
			// X := NewBytecodeCompiler(...)
			if call, ok := as.Rhs[0].(*ast.CallExpr); ok && FuncID(Callee(info, call)) == "compiler.NewBytecodeCompiler" {
				if id, ok := as.Lhs[0].(*ast.Ident); ok {
					o := info.Defs[id]
					if o == nil {
						o = info.Uses[id]
					}
					s := &site{fr: fr, v: o, pos: as.Pos(), copied: map[string]bool{}}
					byVar[o] = s
					sites = append(sites, s)
				}
				return true
			}
			// X.f = c.f, or X.f = <parameter of the same type> (a root
			// compiler that receives the setting from its caller)
			l, ok1 := ast.Unparen(as.Lhs[0]).(*ast.SelectorExpr)
			if !ok1 {
				return true
			}
			lid, ok1 := ast.Unparen(l.X).(*ast.Ident)
			if !ok1 {
				return true
			}
			s := byVar[info.Uses[lid]]
			if s == nil {
				return true
			}
			switch r := ast.Unparen(as.Rhs[0]).(type) {
			case *ast.SelectorExpr:
				if rid, ok := ast.Unparen(r.X).(*ast.Ident); ok && info.Uses[rid] == recv && r.Sel.Name == l.Sel.Name {
					s.copied[l.Sel.Name] = true
				}
			case *ast.Ident:
				if pv, ok := info.Uses[r].(*types.Var); ok {
					if _, isParam := paramIndex(info, fr.Decl, pv); isParam {
						s.copied[l.Sel.Name] = true
					}
				}
			}
			return true
		})
	})
	// the inherited configuration: fields a majority of construction sites
	// copy from the parent (confirmed by reading: the shared diagnostic list
	// and the cancellation flag). Fields copied at a minority of sites
	// (scopes, local indices of the breakpoint compiler) are not configuration.
	count := map[string]int{}
	for _, s := range sites {
		for f := range s.copied {
			count[f]++
		}
	}
	union := map[string]bool{}
	for f, n := range count {
		if 2*n > len(sites) {
			union[f] = true
		}
	}
	for _, f := range []string{"Errors", "additionalAbortChecks"} {
		if c.fieldOf("compiler", "BytecodeCompiler", f) == nil {
			c.Stale("compiler.BytecodeCompiler." + f)
		}
		union[f] = true
	}
	var fields []string
	for f := range union {
		fields = append(fields, f)
	}
	sort.Strings(fields)
	c.Stats["child_compiler_sites"] = len(sites)
	c.Stats["inherited_config_fields"] = len(fields)
	seen := map[string]int{}
	for _, s := range sites {
		for _, f := range fields {
			key := FuncName(s.fr.Decl) + "/" + s.v.Name() + "." + f
			seen[key]++
			if seen[key] > 1 {
				key += "#" + itoa(seen[key])
			}
			c.Check(s.copied[f], key, s.pos, "the compiler `%s` created here does not inherit %s from its parent although other child compilers do: code compiled by it ignores that setting", s.v.Name(), f)
		}
	}
}

// backedgeExempt: emitLoop sites that need no cancellation point.
var backedgeExempt = map[string]string{
	"BytecodeCompiler.listOrTuplePattern": "internal loop over the elements of the matched collection: bounded by the collection's length",
	"BytecodeCompiler.emitFinalReturn": "generator tail: jumps back to STOP_ITERATION, executed once per resume",
}

func runAbortBeforeBackedge(c *Ctx) {
	info := c.Pkg("compiler").TypesInfo
	c.Funcs("compiler", func(fr *FuncRef) {
		// statements at any depth, in source order; the guard must precede the
		// emitLoop call in the same statement list
		n := 0
		var walk func(list []ast.Stmt)
		isGuard := func(st ast.Stmt) bool {
			ifs, ok := st.(*ast.IfStmt)
			if !ok {
				return false
			}
			sel, ok := ast.Unparen(ifs.Cond).(*ast.SelectorExpr)
			if !ok || sel.Sel.Name != "additionalAbortChecks" {
				return false
			}
			emits := false
			ast.Inspect(ifs.Body, func(x ast.Node) bool {
				if call, ok := x.(*ast.CallExpr); ok && len(call.Args) >= 2 {
					if constName(info, call.Args[1]) == "CHECK_ABORT" {
						emits = true
					}
				}
				return true
			})
			return emits
		}
		// a helper that does nothing but the guard (and does it on every
		// path: no return in front of it) is as good as the guard itself
		isGuardHelperCall := func(st ast.Stmt) bool {
			es, ok := st.(*ast.ExprStmt)
			if !ok {
				return false
			}
			call, ok := es.X.(*ast.CallExpr)
			if !ok {
				return false
			}
			fn := Callee(info, call)
			if fn == nil || recvNameOf(fn) != "BytecodeCompiler" {
				return false
			}
			h := c.FuncOpt("compiler", "BytecodeCompiler", fn.Name())
			if h == nil {
				return false
			}
			// on every path on which the flag is set, CHECK_ABORT is emitted
			// before the helper returns
			type abSt struct{ emitted bool }
			flagPolarity := func(cond ast.Expr) int {
				e := ast.Unparen(cond)
				neg := 1
				for {
					if u, ok := e.(*ast.UnaryExpr); ok && u.Op == token.NOT {
						neg = -neg
						e = ast.Unparen(u.X)
						continue
					}
					break
				}
				if sel, ok := e.(*ast.SelectorExpr); ok && sel.Sel.Name == "additionalAbortChecks" {
					return neg
				}
				return 0
			}
			missing := false
			pe := &PathEval[abSt]{Info: info}
			pe.Cond = func(s abSt, cond ast.Expr, branch bool) []abSt {
				switch flagPolarity(cond) {
				case 1:
					if !branch {
						return nil // flag not set: nothing is required
					}
				case -1:
					if branch {
						return nil
					}
				}
				return []abSt{s}
			}
			pe.Call = func(s abSt, call *ast.CallExpr) []abSt {
				if len(call.Args) >= 2 && constName(info, call.Args[1]) == "CHECK_ABORT" {
					s.emitted = true
				}
				return []abSt{s}
			}
			pe.Return = func(s abSt, r *ast.ReturnStmt) []abSt {
				if !s.emitted {
					missing = true
				}
				return []abSt{s}
			}
			f := pe.Block(newSet(abSt{}), h.Decl.Body.List)
			for s := range f.next {
				if !s.emitted {
					missing = true
				}
			}
			return !missing && len(pe.Unsupported) == 0
		}
		walk = func(list []ast.Stmt) {
			guarded := false
			for _, abSt := range list {
				if isGuard(abSt) || isGuardHelperCall(abSt) {
					guarded = true
				}
				if es, ok := abSt.(*ast.ExprStmt); ok {
					if call, ok := es.X.(*ast.CallExpr); ok {
						if fn := Callee(info, call); fn != nil && fn.Name() == "emitLoop" && FuncID(fn) == "compiler.BytecodeCompiler.emitLoop" {
							n++
							key := FuncName(fr.Decl)
							if n > 1 {
								key += "#" + itoa(n)
							}
							if reason, ok := backedgeExempt[FuncName(fr.Decl)]; ok {
								c.OK(key, call.Pos(), "reasoned exception: %s", reason)
							} else {
								c.Check(guarded, key, call.Pos(), "emits a backward jump without the `if c.additionalAbortChecks { CHECK_ABORT }` guard before it: a loop compiled here cannot be cancelled")
							}
						}
					}
				}
				// nested lists
				ast.Inspect(abSt, func(x ast.Node) bool {
					switch y := x.(type) {
					case *ast.BlockStmt:
						walk(y.List)
						return false
					case *ast.CaseClause:
						walk(y.Body)
						return false
					case *ast.FuncLit:
						walk(y.Body.List)
						return false
					}
					return true
				})
			}
		}
		walk(fr.Decl.Body.List)
	})
}
