package main

import (
	"fmt"
	"go/ast"
	"go/types"
	"os"
	"sort"
	"strings"
)

// switch/panic-default (C03): a type switch over an AST node interface whose
// default arm panics is total only if every concrete node type that can reach
// it has a case. For each such switch the set of concrete implementers of the
// switched interface that have no case is computed and compared with the
// reviewed set frozen below: a node type added to the parser (or a case
// removed) without revisiting the switch is reported.

func init() {
	register(&Rule{
		ID:    "switch/panic-default",
		Text:  "every type switch of the front end (parser, checker, compiler, macro expansion, regex transpiler) over a syntax-tree interface whose default arm panics covers every concrete implementer of that interface, except the implementers listed in the reviewed table for that switch (with the reason they cannot reach it); a new node type without a case would turn a well-formed input into an interpreter crash",
		Floor: 1,
		Run:   runSwitchPanicDefault,
	})
}

var panicSwitchPackages = []string{"parser", "parser/ast", "types/checker", "compiler", "regex/parser", "regex/parser/ast", "regex/transpiler", "macro", "lexer"}

// implementers of an interface among the named non-interface types of the
// module (pointer receiver or value receiver).
func (c *Ctx) implementers(iface *types.Interface) []*types.Named {
	var out []*types.Named
	for _, p := range c.Pkgs {
		sc := p.Types.Scope()
		for _, n := range sc.Names() {
			tn, ok := sc.Lookup(n).(*types.TypeName)
			if !ok || tn.IsAlias() {
				continue
			}
			named, ok := tn.Type().(*types.Named)
			if !ok || named.TypeParams().Len() > 0 {
				continue
			}
			if _, isIface := named.Underlying().(*types.Interface); isIface {
				continue
			}
			if types.Implements(named, iface) || types.Implements(types.NewPointer(named), iface) {
				out = append(out, named)
			}
		}
	}
	return out
}

func clausePanics(info *types.Info, body []ast.Stmt) bool {
	for _, st := range body {
		es, ok := st.(*ast.ExprStmt)
		if !ok {
			continue
		}
		call, ok := es.X.(*ast.CallExpr)
		if !ok {
			continue
		}
		if id, ok := ast.Unparen(call.Fun).(*ast.Ident); ok {
			if b, ok := info.Uses[id].(*types.Builtin); ok && b.Name() == "panic" {
				return true
			}
		}
	}
	return false
}

type panicSwitch struct {
	key     string
	pos     ast.Node
	iface   string
	missing []string
	nImpl   int
	// ifaceCase: some case names an interface type; coverage is then decided
	// by interface membership and a new implementer is covered or not by its
	// own method set, which the Go type checker already settles
	ifaceCase bool
}

func (c *Ctx) panicSwitches() []panicSwitch {
	var out []panicSwitch
	implCache := map[*types.Interface][]*types.Named{}
	for _, rel := range panicSwitchPackages {
		p := c.ByRel[rel]
		if p == nil {
			continue
		}
		info := p.TypesInfo
		c.Funcs(rel, func(fr *FuncRef) {
			n := 0
			ast.Inspect(fr.Decl.Body, func(nd ast.Node) bool {
				ts, ok := nd.(*ast.TypeSwitchStmt)
				if !ok {
					return true
				}
				// switched expression
				var x ast.Expr
				switch a := ts.Assign.(type) {
				case *ast.AssignStmt:
					x = a.Rhs[0].(*ast.TypeAssertExpr).X
				case *ast.ExprStmt:
					x = a.X.(*ast.TypeAssertExpr).X
				}
				t := info.TypeOf(x)
				if t == nil {
					return true
				}
				iface, ok := t.Underlying().(*types.Interface)
				if !ok || iface.NumMethods() == 0 {
					return true
				}
				var def *ast.CaseClause
				covered := []types.Type{}
				for _, cl := range ts.Body.List {
					cc := cl.(*ast.CaseClause)
					if cc.List == nil {
						def = cc
						continue
					}
					for _, e := range cc.List {
						if ct := info.TypeOf(e); ct != nil {
							covered = append(covered, ct)
						}
					}
				}
				if def == nil || !clausePanics(info, def.Body) {
					return true
				}
				n++
				impls, ok := implCache[iface]
				if !ok {
					impls = c.implementers(iface)
					implCache[iface] = impls
				}
				ifaceCase := false
				for _, ct := range covered {
					if _, isIface := ct.Underlying().(*types.Interface); isIface {
						ifaceCase = true
					}
				}
				var missing []string
				for _, im := range impls {
					cov := false
					for _, ct := range covered {
						if ci, isIface := ct.Underlying().(*types.Interface); isIface {
							if types.Implements(im, ci) || types.Implements(types.NewPointer(im), ci) {
								cov = true
							}
						} else if types.Identical(derefType(ct), im) {
							cov = true
						}
						if cov {
							break
						}
					}
					if !cov {
						missing = append(missing, NamedOf(im))
					}
				}
				sort.Strings(missing)
				out = append(out, panicSwitch{
					key:       fmt.Sprintf("%s.%s#%d", rel, FuncName(fr.Decl), n),
					pos:       ts,
					iface:     NamedOf(t),
					missing:   missing,
					nImpl:     len(impls),
					ifaceCase: ifaceCase,
				})
				return true
			})
		})
	}
	return out
}

func runSwitchPanicDefault(c *Ctx) {
	sws := c.panicSwitches()
	c.Stats["panic_default_type_switches"] = len(sws)
	for _, sw := range sws {
		if !intendsExhaustive(sw) || strings.HasPrefix(sw.key, "compiler.GoCompiler.") {
			c.Stats["panic_default_type_switches_narrow_not_decided"]++
			continue
		}
		allowed, known := panicSwitchReviewed[sw.key]
		if !known {
			if len(sw.missing) == 0 {
				c.OK(sw.key, sw.pos.Pos(), "covers all %d implementers of %s", sw.nImpl, sw.iface)
			} else {
				c.Bad(sw.key, sw.pos.Pos(), "type switch over %s with a panicking default has no case for %d of %d implementers and is not in the reviewed table: %s", sw.iface, len(sw.missing), sw.nImpl, strings.Join(sw.missing, " "))
			}
			continue
		}
		al := map[string]bool{}
		for _, a := range strings.Fields(allowed.missing) {
			al[a] = true
		}
		var extra []string
		for _, m := range sw.missing {
			if !al[m] {
				extra = append(extra, m)
			}
		}
		c.Check(len(extra) == 0, sw.key, sw.pos.Pos(), "type switch over %s with a panicking default has no case for %s, which the reviewed table for this switch does not list (reviewed reason for the listed ones: %s)", sw.iface, strings.Join(extra, " "), allowed.reason)
	}
	if os.Getenv("ELKCHECK_DUMP") != "" {
		for _, sw := range sws {
			fmt.Printf("SWITCH %s iface=%s impl=%d missing=%d: %s\n", sw.key, sw.iface, sw.nImpl, len(sw.missing), strings.Join(sw.missing, " "))
		}
	}
}

type reviewedSwitch struct {
	missing string // space-separated type ids with no case
	reason  string
}

// panicSwitchReviewed: filled from the dump of today's tree after reading
// each switch (see DESIGN.md §5 C03).
var panicSwitchReviewed = map[string]reviewedSwitch{
	"types/checker.Checker.checkPattern#1": {
		missing: "parser/ast.GenericConstantNode parser/ast.InvalidNode parser/ast.KeyValuePatternNode parser/ast.MacroNameNode parser/ast.SymbolKeyValuePatternNode parser/ast.UnquoteNode",
		reason:  "InvalidNode: programs with syntax errors are not checked; KeyValuePatternNode and SymbolKeyValuePatternNode only occur as elements of map/record/object patterns, which dispatch on them in their own switches; GenericConstantNode is never produced in pattern position (`case Foo[Int]` is a syntax error); MacroNameNode and UnquoteNode only occur inside quote blocks, whose content is checked after expansion has replaced them",
	},
}

// intendsExhaustive: a switch is treated as a dispatcher over the whole
// interface (and therefore obligated) when it has a case for at least half of
// the implementers. Narrow dispatchers (two or three node kinds out of 150)
// rely on which kinds the parser puts into one particular slot; deciding those
// needs the per-slot production sets of the parser and is not claimed.
func intendsExhaustive(sw panicSwitch) bool {
	// only syntax-tree interfaces: the semantic-type switches (types.Type)
	// are preceded by chains of early returns for the kinds they omit
	if !strings.HasPrefix(sw.iface, "parser/ast.") && !strings.HasPrefix(sw.iface, "regex/parser/ast.") {
		return false
	}
	// small marker interfaces (UsingEntryNode, NamedArgumentNode, ...) have
	// more implementers than the parser's production for that slot can
	// yield; deciding those needs per-slot production sets (not claimed)
	if sw.nImpl-len(sw.missing) < 20 {
		return false
	}
	return !sw.ifaceCase && sw.nImpl >= 5 && 2*(sw.nImpl-len(sw.missing)) >= sw.nImpl
}
