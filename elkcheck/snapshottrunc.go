package main

import (
	"go/ast"
	"go/token"
	"go/types"
)

// alias/snapshot-truncate (C12): the checker and the compiler save a context
// field in a local, change the field while they work on a nested construct and
// put the local back afterwards. For a slice-typed field the local shares the
// backing array with the field. Emptying the field by re-slicing it
// (`c.f = c.f[:0]`) instead of giving it a fresh value keeps that sharing: the
// first element the nested construct pushes lands in slot 0 of the array the
// snapshot still points to, and the "restored" context is no longer the one
// that was saved.

func init() {
	register(&Rule{
		ID:    "alias/snapshot-truncate",
		Text:  "in the checker and the compiler, a function that saves a slice-typed field of its receiver in a local and later assigns that local back never assigns the field a re-slice of itself with a constant upper bound (`x.f = x.f[:0]`) in between: the truncated slice shares its backing array with the snapshot, so later appends overwrite the saved elements",
		Floor: 6,
		Run:   runSnapshotTruncate,
	})
}

func runSnapshotTruncate(c *Ctx) {
	seenKey := map[string]int{}
	for _, rel := range []string{"types/checker", "compiler"} {
		p := c.Pkg(rel)
		info := p.TypesInfo
		c.Funcs(rel, func(fr *FuncRef) {
			// saved: local := x.f (f slice-typed field)
			type save struct {
				local types.Object
				field *types.Var
				sel   string
				pos   ast.Node
			}
			var saves []save
			fieldOf := func(e ast.Expr) (*types.Var, string) {
				sel, ok := ast.Unparen(e).(*ast.SelectorExpr)
				if !ok {
					return nil, ""
				}
				sl := info.Selections[sel]
				if sl == nil || sl.Kind() != types.FieldVal {
					return nil, ""
				}
				v, ok := sl.Obj().(*types.Var)
				if !ok {
					return nil, ""
				}
				if _, isSlice := v.Type().Underlying().(*types.Slice); !isSlice {
					return nil, ""
				}
				return v, types.ExprString(sel)
			}
			ast.Inspect(fr.Decl.Body, func(n ast.Node) bool {
				as, ok := n.(*ast.AssignStmt)
				if !ok || len(as.Lhs) != len(as.Rhs) {
					return true
				}
				for i, l := range as.Lhs {
					id, ok := l.(*ast.Ident)
					if !ok {
						continue
					}
					if f, s := fieldOf(as.Rhs[i]); f != nil {
						o := info.Defs[id]
						if o == nil {
							o = info.Uses[id]
						}
						if o != nil {
							saves = append(saves, save{o, f, s, as})
						}
					}
				}
				return true
			})
			for _, sv := range saves {
				// restored later?
				var restore ast.Node
				ast.Inspect(fr.Decl.Body, func(n ast.Node) bool {
					as, ok := n.(*ast.AssignStmt)
					if !ok || len(as.Lhs) != len(as.Rhs) || as.Pos() <= sv.pos.Pos() {
						return true
					}
					for i, l := range as.Lhs {
						if f, _ := fieldOf(l); f == sv.field {
							if id, ok := ast.Unparen(as.Rhs[i]).(*ast.Ident); ok && info.Uses[id] == sv.local {
								restore = as
							}
						}
					}
					return true
				})
				if restore == nil {
					continue
				}
				var bad ast.Node
				ast.Inspect(fr.Decl.Body, func(n ast.Node) bool {
					as, ok := n.(*ast.AssignStmt)
					if !ok || len(as.Lhs) != len(as.Rhs) || as.Pos() <= sv.pos.Pos() || as.Pos() >= restore.Pos() {
						return true
					}
					for i, l := range as.Lhs {
						if f, _ := fieldOf(l); f != sv.field {
							continue
						}
						se, ok := ast.Unparen(as.Rhs[i]).(*ast.SliceExpr)
						if !ok || se.High == nil {
							continue
						}
						if f2, _ := fieldOf(se.X); f2 != sv.field {
							continue
						}
						if tv, ok := info.Types[se.High]; ok && tv.Value != nil {
							bad = as
						}
					}
					return true
				})
				key := rel + "." + FuncName(fr.Decl) + "/" + sv.field.Name()
				seenKey[key]++
				if seenKey[key] > 1 {
					key += "#" + itoa(seenKey[key])
				}
				c.Check(bad == nil, key, posOf(bad, sv.pos), "%s.%s saves %s in `%s`, then truncates the field by re-slicing it with a constant bound and restores the local afterwards: the truncated slice and the snapshot share one backing array, so the first element pushed in between overwrites element 0 of the saved context, and the enclosing construct continues with the nested construct's entry", rel, FuncName(fr.Decl), sv.sel, sv.local.Name())
			}
		})
	}
}

func posOf(n ast.Node, fallback ast.Node) token.Pos {
	if n != nil {
		return n.Pos()
	}
	return fallback.Pos()
}
