package main

import (
	"go/ast"
	"go/parser"
	"go/token"
	"go/types"
	"strings"
)

// hash/equal-by-lookup (C17): with open addressing the bucket a key ends up in
// depends on the order in which colliding keys were inserted. Two tables with
// the same contents need not have them in the same buckets, so equality has to
// look every key of one table up in the other; a loop that walks one table and
// reads the other at the same index compares layouts, not contents.

func init() {
	register(&Rule{
		ID:    "hash/equal-by-lookup",
		Text:  "in package vm, no loop ranges over one bucket table (a []value.PairOfValue, or the Table field of a hash container) and reads another bucket table at the loop's index; a built-in example keeps the matcher honest since the tree has no instance",
		Floor: 1,
		Run:   runHashEqualByLookup,
	})
}

const hashPositionalFixture = `package fixture

type pair struct{ k, v int }
type table struct{ Table []pair }

func bad(x, y *table) bool {
	for i, p := range x.Table {
		if y.Table[i] != p { // must be reported
			return false
		}
	}
	return true
}

func good(x, y *table) bool {
	for _, p := range x.Table {
		found := false
		for _, q := range y.Table {
			if p == q {
				found = true
			}
		}
		if !found {
			return false
		}
	}
	return true
}
`

func hashPositionalSites(info *types.Info, fd *ast.FuncDecl, isTable func(e ast.Expr) bool) []token.Pos {
	if fd.Body == nil {
		return nil
	}
	var out []token.Pos
	ast.Inspect(fd.Body, func(n ast.Node) bool {
		rs, ok := n.(*ast.RangeStmt)
		if !ok || rs.Key == nil || !isTable(rs.X) {
			return true
		}
		keyID, ok := rs.Key.(*ast.Ident)
		if !ok || keyID.Name == "_" {
			return true
		}
		idx := info.Defs[keyID]
		ranged := types.ExprString(ast.Unparen(rs.X))
		ast.Inspect(rs.Body, func(m ast.Node) bool {
			ix, ok := m.(*ast.IndexExpr)
			if !ok {
				return true
			}
			id, ok := ast.Unparen(ix.Index).(*ast.Ident)
			if !ok || info.Uses[id] != idx {
				return true
			}
			if isTable(ix.X) && types.ExprString(ast.Unparen(ix.X)) != ranged {
				out = append(out, ix.Pos())
			}
			return true
		})
		return true
	})
	return out
}

func runHashEqualByLookup(c *Ctx) {
	{
		fset := token.NewFileSet()
		f, err := parser.ParseFile(fset, "fixture.go", hashPositionalFixture, 0)
		if err != nil {
			panic(err)
		}
		finfo := &types.Info{Types: map[ast.Expr]types.TypeAndValue{}, Defs: map[*ast.Ident]types.Object{}, Uses: map[*ast.Ident]types.Object{}}
		if _, err := (&types.Config{}).Check("fixture", fset, []*ast.File{f}, finfo); err != nil {
			panic(err)
		}
		isTable := func(e ast.Expr) bool {
			sel, ok := ast.Unparen(e).(*ast.SelectorExpr)
			return ok && sel.Sel.Name == "Table"
		}
		bad, good := 0, 0
		for _, d := range f.Decls {
			if fd, ok := d.(*ast.FuncDecl); ok {
				if len(hashPositionalSites(finfo, fd, isTable)) > 0 {
					bad++
				} else {
					good++
				}
			}
		}
		c.Check(bad == 1 && good == 1, "fixture", 0, "the matcher no longer recognises the built-in example (reported=%d, accepted=%d; want 1 and 1): the rule would pass vacuously", bad, good)
	}
	p := c.Pkg("vm")
	info := p.TypesInfo
	isTable := func(e ast.Expr) bool {
		e = ast.Unparen(e)
		if sel, ok := e.(*ast.SelectorExpr); ok && sel.Sel.Name == "Table" {
			return true
		}
		t := info.TypeOf(e)
		if t == nil {
			return false
		}
		if sl, ok := t.Underlying().(*types.Slice); ok && strings.HasSuffix(NamedOf(sl.Elem()), "value.PairOfValue") {
			return true
		}
		return false
	}
	c.Funcs("vm", func(fr *FuncRef) {
		for i, pos := range hashPositionalSites(info, fr.Decl, isTable) {
			c.Bad(FuncName(fr.Decl)+"/positional#"+itoa(i+1), pos, "%s walks one bucket table and reads another at the same index: it compares where the entries lie, which depends on the order in which colliding keys were inserted, not what the tables contain - two maps with the same pairs built in a different order compare unequal", FuncName(fr.Decl))
		}
	})
}
