package main

import (
	"go/ast"
	"go/token"
	"go/types"
)

// path/snapshot-first (C12, C14): a bracketing function restores a context
// field from the snapshot it took (c.f = prev). If the function has already
// modified the field before taking the snapshot - directly or through a setter
// such as setHasDefer(false), which clears one bit of c.flags - the final
// whole-field restore writes the modified value back and the enclosing
// construct loses that part of its context (a method with a `defer` that
// contains a closure literal is compiled without its defer prologue).

func init() {
	register(&Rule{
		ID:    "path/snapshot-first",
		Text:  "in every function of the checker and compiler that saves a context field in a local and later restores the field from it, no write to that field (direct, or through a method of the same object that writes it) precedes the snapshot inside the function: the snapshot must be the value on entry",
		Floor: 20,
		Run:   runSnapshotFirst,
	})
}

// fieldWriters: for the methods of package rel, the set of receiver field
// names each one writes, directly or through same-receiver callees.
func (c *Ctx) fieldWriters(rel string) map[*types.Func]map[string]bool {
	p := c.Pkg(rel)
	info := p.TypesInfo
	direct := map[*types.Func]map[string]bool{}
	calls := map[*types.Func][]*types.Func{}
	bracketed := map[*types.Func][]string{}
	c.Funcs(rel, func(fr *FuncRef) {
		if fr.Decl.Recv == nil || len(fr.Decl.Recv.List) == 0 || len(fr.Decl.Recv.List[0].Names) == 0 {
			return
		}
		recv := info.Defs[fr.Decl.Recv.List[0].Names[0]]
		w := map[string]bool{}
		onRecv := func(e ast.Expr) (string, bool) {
			sel, ok := ast.Unparen(e).(*ast.SelectorExpr)
			if !ok {
				return "", false
			}
			id, ok := ast.Unparen(sel.X).(*ast.Ident)
			if !ok || info.Uses[id] != recv {
				return "", false
			}
			if s := info.Selections[sel]; s != nil && s.Kind() == types.FieldVal {
				return sel.Sel.Name, true
			}
			return "", false
		}
		ast.Inspect(fr.Decl.Body, func(n ast.Node) bool {
			switch x := n.(type) {
			case *ast.FuncLit:
				return false
			case *ast.AssignStmt:
				for _, l := range x.Lhs {
					if f, ok := onRecv(l); ok {
						w[f] = true
					}
				}
			case *ast.IncDecStmt:
				if f, ok := onRecv(x.X); ok {
					w[f] = true
				}
			case *ast.CallExpr:
				if sel, ok := ast.Unparen(x.Fun).(*ast.SelectorExpr); ok {
					// recv.f.M(...) with a pointer-receiver M mutates recv.f
					if f, ok := onRecv(sel.X); ok {
						if fn := Callee(info, x); fn != nil {
							if sig, ok := fn.Type().(*types.Signature); ok && sig.Recv() != nil {
								if _, isPtr := sig.Recv().Type().(*types.Pointer); isPtr {
									if _, fieldIsPtr := info.TypeOf(sel.X).(*types.Pointer); !fieldIsPtr {
										w[f] = true
									}
								}
							}
						}
					}
					// recv.m(...)
					if id, ok := ast.Unparen(sel.X).(*ast.Ident); ok && info.Uses[id] == recv {
						if fn := Callee(info, x); fn != nil {
							calls[fr.Obj] = append(calls[fr.Obj], fn.Origin())
						}
					}
				}
			}
			return true
		})
		// a function that brackets a field (saves it, restores it on every
		// exit: rule path/savedrestore-*) leaves it unchanged on return
		for _, s := range c.bracketSites(fr) {
			if i := lastDot(s.loc); i > 0 && s.leakPos == token.NoPos {
				if id, ok := fr.Decl.Recv.List[0].Names[0], true; ok && s.loc[:i] == id.Name {
					bracketed[fr.Obj] = append(bracketed[fr.Obj], s.loc[i+1:])
					delete(w, s.loc[i+1:])
				}
			}
		}
		direct[fr.Obj] = w
	})
	isBracketed := func(fn *types.Func, f string) bool {
		for _, b := range bracketed[fn] {
			if b == f {
				return true
			}
		}
		return false
	}
	// Only direct writers (setters) are used: propagating through the call
	// graph makes every checkExpression call a "writer" of c.mode because some
	// function far below assigns it and resets it in a way the bracketing
	// recogniser does not follow; that is a may-write, not a net write.
	for changed := false; changed; {
		changed = false
		for fn, cs := range calls {
			for _, cal := range cs {
				for f := range direct[cal] {
					if !direct[fn][f] && !isBracketed(fn, f) {
						direct[fn][f] = true
						changed = true
					}
				}
			}
		}
	}
	return direct
}

func runSnapshotFirst(c *Ctx) {
	for _, rel := range []string{"types/checker", "compiler"} {
		writers := c.fieldWriters(rel)
		c.Funcs(rel, func(fr *FuncRef) {
			sites := c.bracketSites(fr)
			if len(sites) == 0 {
				return
			}
			info := fr.Pkg.TypesInfo
			for _, s := range sites {
				i := lastDot(s.loc)
				if i < 0 {
					continue
				}
				base, field := s.loc[:i], s.loc[i+1:]
				snapPos := s.saveVar.Pos()
				var early token.Pos
				var how string
				ast.Inspect(fr.Decl.Body, func(n ast.Node) bool {
					if n == nil || n.Pos() >= snapPos || early != token.NoPos {
						return n != nil && n.Pos() < snapPos
					}
					switch x := n.(type) {
					case *ast.FuncLit:
						return false
					case *ast.AssignStmt:
						for _, l := range x.Lhs {
							if types.ExprString(ast.Unparen(l)) == s.loc {
								early, how = x.Pos(), "assigned"
							}
						}
					case *ast.CallExpr:
						sel, ok := ast.Unparen(x.Fun).(*ast.SelectorExpr)
						if !ok {
							return true
						}
						if types.ExprString(ast.Unparen(sel.X)) == base {
							if fn := Callee(info, x); fn != nil && writers[fn.Origin()][field] {
								early, how = x.Pos(), "written by "+fn.Name()
							}
						}
						if types.ExprString(ast.Unparen(sel.X)) == s.loc {
							if fn := Callee(info, x); fn != nil {
								if sig, ok := fn.Type().(*types.Signature); ok && sig.Recv() != nil {
									if _, isPtr := sig.Recv().Type().(*types.Pointer); isPtr {
										if _, fieldIsPtr := info.TypeOf(sel.X).(*types.Pointer); !fieldIsPtr {
											early, how = x.Pos(), "mutated by "+fn.Name()
										}
									}
								}
							}
						}
					}
					return true
				})
				key := rel + "." + FuncName(fr.Decl) + "/" + s.loc
				c.Check(early == token.NoPos, key, early, "%s restores %s from `%s`, but %s is %s at %s before that snapshot is taken: the restore writes the already modified value back and the caller's %s is lost", FuncName(fr.Decl), s.loc, s.saveVar.Name(), s.loc, how, c.Pos(early), s.loc)
			}
		})
	}
}
