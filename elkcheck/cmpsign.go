package main

import (
	"go/ast"
	"go/token"
	"go/types"
	"strings"
)

// conv/cmp-sign-guard (C18): comparing a signed with an unsigned integer by
// converting one of them to the other's type compares bit patterns, not
// numbers: uint64(-1) == 18446744073709551615. Such a conversion inside a
// comparison is only sound after a test that the converted operand is in the
// range both types share. Where one operator takes the conversion without
// the test and its mirror image keeps it, `=~` stops being symmetric.

func init() {
	register(&Rule{
		ID:    "conv/cmp-sign-guard",
		Text:  "in package value, wherever an operand of a comparison (== != < <= > >=) is a conversion between a signed and an unsigned integer type of 64 bits or word size (in either direction), the function tests the converted operand against a bound first (a relational test mentioning the operand: `x < 0`, `uint64(x) > math.MaxInt64`, ...) on the way to the comparison",
		Floor: 10,
		Run:   runCmpSignGuard,
	})
}

func runCmpSignGuard(c *Ctx) {
	p := c.Pkg("value")
	info := p.TypesInfo
	kindOf := func(t types.Type) (signed bool, wide bool, ok bool) {
		if tp, isTP := t.(*types.TypeParam); isTP {
			// a type parameter constrained to unsigned / signed integers
			if iface, ok2 := tp.Constraint().Underlying().(*types.Interface); ok2 {
				allUnsigned, allSigned, any := true, true, false
				for i := 0; i < iface.NumEmbeddeds(); i++ {
					if u, ok3 := iface.EmbeddedType(i).(*types.Union); ok3 {
						for j := 0; j < u.Len(); j++ {
							if b, ok4 := u.Term(j).Type().Underlying().(*types.Basic); ok4 && b.Info()&types.IsInteger != 0 {
								any = true
								if b.Info()&types.IsUnsigned != 0 {
									allSigned = false
								} else {
									allUnsigned = false
								}
							}
						}
					}
				}
				if any && allUnsigned {
					return false, true, true
				}
				if any && allSigned {
					return true, true, true
				}
			}
			return false, false, false
		}
		b, isBasic := t.Underlying().(*types.Basic)
		if !isBasic || b.Info()&types.IsInteger == 0 {
			return false, false, false
		}
		switch b.Kind() {
		case types.Int64, types.Int:
			return true, true, true
		case types.Uint64, types.Uint, types.Uintptr:
			return false, true, true
		case types.Int8, types.Int16, types.Int32:
			return true, false, true
		case types.Uint8, types.Uint16, types.Uint32:
			return false, false, true
		}
		return false, false, false
	}
	c.Funcs("value", func(fr *FuncRef) {
		n := 0
		// NewBigInt(int64(u)) with u unsigned and 64 bits wide: the BigInt is
		// built from the reinterpreted bits
		ast.Inspect(fr.Decl.Body, func(nd ast.Node) bool {
			call, ok := nd.(*ast.CallExpr)
			if !ok || len(call.Args) != 1 {
				return true
			}
			if fn := Callee(info, call); fn == nil || fn.Name() != "NewBigInt" {
				return true
			}
			conv, ok := ast.Unparen(call.Args[0]).(*ast.CallExpr)
			if !ok || len(conv.Args) != 1 {
				return true
			}
			tv, ok := info.Types[conv.Fun]
			if !ok || !tv.IsType() {
				return true
			}
			toSigned, toWide, ok1 := kindOf(tv.Type)
			fromSigned, fromWide, ok2 := kindOf(info.TypeOf(conv.Args[0]))
			if !ok1 || !ok2 || !toSigned || fromSigned || !toWide || !fromWide {
				return true
			}
			operand := types.ExprString(ast.Unparen(conv.Args[0]))
			n++
			key := FuncName(fr.Decl) + "/NewBigInt/" + operand + "#" + itoa(n)
			guarded := false
			ast.Inspect(fr.Decl.Body, func(m ast.Node) bool {
				ifs, ok := m.(*ast.IfStmt)
				if !ok || ifs.Pos() >= call.Pos() {
					return true
				}
				ast.Inspect(ifs.Cond, func(k ast.Node) bool {
					if cb, ok := k.(*ast.BinaryExpr); ok {
						switch cb.Op {
						case token.LSS, token.LEQ, token.GTR, token.GEQ:
							if strings.Contains(types.ExprString(cb.X), operand) || strings.Contains(types.ExprString(cb.Y), operand) {
								guarded = true
							}
						}
					}
					return true
				})
				return true
			})
			c.Check(guarded, key, call.Pos(), "%s builds a BigInt from `%s`, the bits of the unsigned 64-bit operand `%s` reinterpreted as a signed number: values from 2**63 up become negative, so the operation disagrees with its mirror image on the unsigned operand's class", FuncName(fr.Decl), types.ExprString(call.Args[0]), operand)
			return true
		})
		ast.Inspect(fr.Decl.Body, func(nd ast.Node) bool {
			be, ok := nd.(*ast.BinaryExpr)
			if !ok {
				return true
			}
			switch be.Op {
			case token.EQL, token.NEQ, token.LSS, token.LEQ, token.GTR, token.GEQ:
			default:
				return true
			}
			for _, side := range []ast.Expr{be.X, be.Y} {
				conv, ok := ast.Unparen(side).(*ast.CallExpr)
				if !ok || len(conv.Args) != 1 {
					continue
				}
				tv, ok := info.Types[conv.Fun]
				if !ok || !tv.IsType() {
					continue
				}
				toSigned, toWide, ok1 := kindOf(tv.Type)
				fromSigned, fromWide, ok2 := kindOf(info.TypeOf(conv.Args[0]))
				if !ok1 || !ok2 || toSigned == fromSigned {
					continue
				}
				// only reinterpretations that can change the number:
				// signed -> unsigned (any negative value), unsigned wide -> signed wide
				if fromSigned && !toSigned {
					// negative values wrap; relevant when the target is at least as wide
					if !toWide {
						continue
					}
				} else {
					if !(fromWide && toWide) {
						continue
					}
				}
				if tvArg, ok := info.Types[conv.Args[0]]; ok && tvArg.Value != nil {
					continue // a constant
				}
				operand := types.ExprString(ast.Unparen(conv.Args[0]))
				n++
				key := FuncName(fr.Decl) + "/" + operand + "#" + itoa(n)
				guarded := false
				ast.Inspect(fr.Decl.Body, func(m ast.Node) bool {
					ifs, ok := m.(*ast.IfStmt)
					if !ok || ifs.Pos() >= be.Pos() {
						return true
					}
					ast.Inspect(ifs.Cond, func(k ast.Node) bool {
						cb, ok := k.(*ast.BinaryExpr)
						if !ok {
							return true
						}
						switch cb.Op {
						case token.LSS, token.LEQ, token.GTR, token.GEQ:
							if cb == be {
								return true
							}
							l, r := types.ExprString(cb.X), types.ExprString(cb.Y)
							if strings.Contains(l, operand) || strings.Contains(r, operand) {
								guarded = true
							}
						}
						return true
					})
					return true
				})
				c.Check(guarded, key, be.Pos(), "%s compares `%s`, a conversion of `%s` to an integer type of the other signedness, without having tested `%s` against a bound first: values outside the range the two types share compare by bit pattern (uint64(-1) == 18446744073709551615), so the comparison disagrees with its mirror image on the other operand's class", FuncName(fr.Decl), types.ExprString(side), operand, operand)
			}
			return true
		})
	})
}
