package main

import (
	"go/ast"
	"go/token"
	"go/types"
)

// stack/result-consumed (C29, C15): a node compiler that is asked to ignore
// the value of its expression may not be able to (a method call always
// pushes its result); it then answers `expressionCompiled` and the caller has
// to pop. A caller that throws the answer away leaves that value on the
// operand stack - or, when it reports an answer of its own, makes its caller
// pop a slot that was never pushed. Dropping the answer is sound only when it
// is determined by the request: the callee is "exact" (answers "nothing
// pushed" exactly when asked to ignore, "pushed" exactly when not), or the
// value was requested (`false`).

func init() {
	register(&Rule{
		ID:    "stack/result-consumed",
		Text:  "in package compiler, wherever the expressionResult of a call is discarded (the call is a statement), either the callee is exact - on every path it returns valueIgnoredToResult(flag), or expressionCompiledWithoutResult under `flag` and expressionCompiled under `!flag`, or the answer of another exact function given the same flag - or the flag argument is the constant false",
		Floor: 15,
		Run:   runResultConsumed,
	})
}

// resultConsumedExempt: discarded answers that nothing can observe.
var resultConsumedExempt = map[string]string{
	"BytecodeCompiler.compileDeferExpressionNode/compileNode#1": "the call is the whole body of the deferred closure's own function: the function returns right after it, the frame with whatever the expression left is discarded, and the result of a deferred closure is never used",
}

func runResultConsumed(c *Ctx) {
	p := c.Pkg("compiler")
	info := p.TypesInfo
	isResultType := func(t types.Type) bool { return NamedOf(t) == "compiler.expressionResult" }
	constName := func(e ast.Expr) string {
		id, ok := ast.Unparen(e).(*ast.Ident)
		if !ok {
			return ""
		}
		if k, ok := info.Uses[id].(*types.Const); ok && isResultType(k.Type()) {
			return k.Name()
		}
		return ""
	}
	type cand struct {
		fr    *FuncRef
		flags []int // indices of bool parameters
	}
	cands := map[*types.Func]*cand{}
	c.Funcs("compiler", func(fr *FuncRef) {
		sig := fr.Obj.Type().(*types.Signature)
		if sig.Results().Len() != 1 || !isResultType(sig.Results().At(0).Type()) {
			return
		}
		cd := &cand{fr: fr}
		for i := 0; i < sig.Params().Len(); i++ {
			if b, ok := sig.Params().At(i).Type().Underlying().(*types.Basic); ok && b.Kind() == types.Bool {
				cd.flags = append(cd.flags, i)
			}
		}
		cands[fr.Obj] = cd
	})
	// exactFlag[fn] = index of the parameter the function is exact in, or absent
	exactFlag := map[*types.Func]int{}
	for fn, cd := range cands {
		if len(cd.flags) > 0 {
			exactFlag[fn] = cd.flags[len(cd.flags)-1]
		}
	}
	type st struct{ flag int8 } // 0 unknown, 1 true, 2 false
	checkExact := func(cd *cand, flagIdx int) bool {
		sig := cd.fr.Obj.Type().(*types.Signature)
		flagObj := types.Object(sig.Params().At(flagIdx))
		isFlag := func(e ast.Expr) bool {
			id, ok := ast.Unparen(e).(*ast.Ident)
			return ok && info.Uses[id] == flagObj
		}
		exact := true
		pe := &PathEval[st]{Info: info}
		pe.Cond = func(s st, cond ast.Expr, branch bool) []st {
			cond = ast.Unparen(cond)
			neg := false
			for {
				un, ok := cond.(*ast.UnaryExpr)
				if !ok || un.Op != token.NOT {
					break
				}
				neg = !neg
				cond = ast.Unparen(un.X)
			}
			if isFlag(cond) {
				if branch != neg {
					return []st{{flag: 1}}
				}
				return []st{{flag: 2}}
			}
			return []st{s}
		}
		pe.Return = func(s st, r *ast.ReturnStmt) []st {
			if len(r.Results) != 1 {
				exact = false
				return []st{s}
			}
			e := ast.Unparen(r.Results[0])
			switch constName(e) {
			case "expressionCompiledWithoutResult":
				if s.flag != 1 {
					exact = false
				}
				return []st{s}
			case "expressionCompiled":
				if s.flag != 2 {
					exact = false
				}
				return []st{s}
			case "":
			default:
				exact = false
				return []st{s}
			}
			call, ok := e.(*ast.CallExpr)
			if !ok {
				exact = false
				return []st{s}
			}
			fn := Callee(info, call)
			if fn == nil {
				exact = false
				return []st{s}
			}
			gi, ok := exactFlag[fn.Origin()]
			if !ok || gi >= len(call.Args) {
				exact = false
				return []st{s}
			}
			arg := call.Args[gi]
			switch {
			case isFlag(arg):
			case boolConst(info, arg) == "true" && s.flag == 1:
			case boolConst(info, arg) == "false" && s.flag == 2:
			default:
				exact = false
			}
			return []st{s}
		}
		fl := pe.Block(newSet(st{}), cd.fr.Decl.Body.List)
		if len(fl.next) > 0 {
			exact = false // falls off the end (cannot for a function with a result, but be safe)
		}
		return exact
	}
	for changed := true; changed; {
		changed = false
		for fn, idx := range exactFlag {
			if !checkExact(cands[fn], idx) {
				delete(exactFlag, fn)
				changed = true
			}
		}
	}
	c.Stats["functions_returning_expressionResult"] = len(cands)
	c.Stats["exact_functions"] = len(exactFlag)
	// discarded answers
	c.Funcs("compiler", func(fr *FuncRef) {
		if recvTypeName(fr.Decl) != "BytecodeCompiler" {
			return
		}
		n := map[string]int{}
		ast.Inspect(fr.Decl.Body, func(nd ast.Node) bool {
			es, ok := nd.(*ast.ExprStmt)
			if !ok {
				return true
			}
			call, ok := ast.Unparen(es.X).(*ast.CallExpr)
			if !ok {
				return true
			}
			fn := Callee(info, call)
			if fn == nil || cands[fn.Origin()] == nil {
				return true
			}
			cd := cands[fn.Origin()]
			n[fn.Name()]++
			key := FuncName(fr.Decl) + "/" + fn.Name() + "#" + itoa(n[fn.Name()])
			if _, ok := exactFlag[fn.Origin()]; ok {
				c.OK(key, call.Pos(), "callee is exact: its answer is determined by the flag")
				return true
			}
			if reason, ok := resultConsumedExempt[key]; ok {
				c.OK(key, call.Pos(), "reasoned exception: %s", reason)
				return true
			}
			if len(cd.flags) == 0 {
				c.Bad(key, call.Pos(), "%s discards the answer of %s, which has no value-is-ignored flag: whether a value was pushed is unknown to the caller", FuncName(fr.Decl), fn.Name())
				return true
			}
			flagArg := call.Args[cd.flags[len(cd.flags)-1]]
			if boolConst(info, flagArg) == "false" {
				c.OK(key, call.Pos(), "value requested (flag false)")
				return true
			}
			c.Bad(key, call.Pos(), "%s discards the answer of %s(.., %s): when the expression cannot honour a request to ignore its value (a call always pushes its result) the value stays on the operand stack, and when %s reports an answer of its own its caller pops a slot that was never pushed", FuncName(fr.Decl), fn.Name(), types.ExprString(flagArg), FuncName(fr.Decl))
			return true
		})
	})
}

func boolConst(info *types.Info, e ast.Expr) string {
	if tv, ok := info.Types[e]; ok && tv.Value != nil {
		return tv.Value.String()
	}
	return ""
}
