package main

import (
	"go/ast"
	"go/types"
)

// path/return-modes-finally (C15, C14): `return` inside `do ... finally` has
// to run the pending finally blocks before it leaves the function, so the
// compiler emits RETURN_FINALLY instead of the plain returning instruction
// there. emitReturn does this separately for every compilation mode (method,
// setter, initialiser, namespace, breakpoint, generator); a mode that emits
// its returning instruction without asking whether it is nested in a
// `finally` skips those blocks.

func init() {
	register(&Rule{
		ID:    "path/return-modes-finally",
		Text:  "in the compiler's emitReturn, every emission of an instruction that ends the function (RETURN, RETURN_FIRST_ARG, RETURN_SELF, YIELD directly or through emitYield) lies on a path that has tested isNestedInFinally()",
		Floor: 4,
		Run:   runReturnModesFinally,
	})
}

func runReturnModesFinally(c *Ctx) {
	fr := c.FuncOpt("compiler", "BytecodeCompiler", "emitReturn")
	if fr == nil {
		c.Stale("compiler.(*BytecodeCompiler).emitReturn")
		return
	}
	info := fr.Pkg.TypesInfo
	ending := map[string]bool{"RETURN": true, "RETURN_FIRST_ARG": true, "RETURN_SELF": true, "YIELD": true}
	type st struct{ asked bool }
	n := 0
	type site struct {
		call *ast.CallExpr
		what string
		bad  bool
	}
	var sites []*site
	byCall := map[*ast.CallExpr]*site{}
	pe := &PathEval[st]{Info: info}
	pe.Cond = func(s st, cond ast.Expr, branch bool) []st {
		ast.Inspect(cond, func(m ast.Node) bool {
			if call, ok := m.(*ast.CallExpr); ok {
				if fn := Callee(info, call); fn != nil && fn.Name() == "isNestedInFinally" {
					s.asked = true
				}
			}
			return true
		})
		return []st{s}
	}
	pe.Call = func(s st, call *ast.CallExpr) []st {
		fn := Callee(info, call)
		if fn == nil {
			return []st{s}
		}
		what := ""
		switch fn.Name() {
		case "emit":
			if len(call.Args) >= 2 {
				if sel, ok := ast.Unparen(call.Args[1]).(*ast.SelectorExpr); ok && ending[sel.Sel.Name] {
					if _, isConst := info.Uses[sel.Sel].(*types.Const); isConst {
						what = sel.Sel.Name
					}
				}
			}
		case "emitYield":
			what = "YIELD (emitYield)"
		}
		if what == "" {
			return []st{s}
		}
		sv := byCall[call]
		if sv == nil {
			n++
			sv = &site{call: call, what: what}
			byCall[call] = sv
			sites = append(sites, sv)
		}
		if !s.asked {
			sv.bad = true
		}
		return []st{s}
	}
	pe.Block(newSet(st{}), fr.Decl.Body.List)
	for i, sv := range sites {
		key := "emitReturn/" + sv.what + "#" + itoa(i+1)
		c.Check(!sv.bad, key, sv.call.Pos(), "emitReturn emits %s on a path that never asked isNestedInFinally(): a `return` inside `do ... finally` compiled in this mode leaves the function without running the finally blocks (in a generator the next resumption then continues behind the return)", sv.what)
	}
}
