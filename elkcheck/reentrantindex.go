package main

import (
	"go/ast"
	"go/token"
	"go/types"
	"strings"
)

// loop/reentrant-index (C01, C24): a native that walks a mutable collection
// by index and calls back into Elk code for every element (map, each,
// filter ...) hands control to a closure that may remove elements from the
// very collection. If the loop bound was evaluated once (`for i := range
// n.Length()`, or a length cached in a variable before the loop), the next
// index is beyond the end: a Go index-out-of-range panic.

func init() {
	register(&Rule{
		ID:    "loop/reentrant-index",
		Text:  "in package vm, in every loop whose bound is a collection length evaluated once (range over Length()/len(..), or a variable assigned from one before the loop) and whose body both calls into Elk code (CallClosure, CallCallable, CallMethodByName*, CallBytecodeClosure) and indexes that collection with the loop variable after such a call can have happened, the index is re-checked against the current length; loops that re-evaluate the length on every iteration are fine",
		Floor: 2,
		Run:   runReentrantIndex,
	})
}

var reentrantIndexExempt = map[string]string{
	"initArrayTuple": "tuples are immutable: no Elk code can change the length of the receiver while the native runs",
}

func runReentrantIndex(c *Ctx) {
	p := c.Pkg("vm")
	info := p.TypesInfo
	reenters := func(call *ast.CallExpr) bool {
		fn := Callee(info, call)
		if fn == nil {
			return false
		}
		n := fn.Name()
		return n == "CallClosure" || n == "CallCallable" || n == "CallBytecodeClosure" || n == "CallNativeClosure" || strings.HasPrefix(n, "CallMethodByName") || n == "CallCallableWithCache"
	}
	n := map[string]int{}
	c.Funcs("vm", func(fr *FuncRef) {
		ast.Inspect(fr.Decl.Body, func(nd ast.Node) bool {
			rs, ok := nd.(*ast.RangeStmt)
			if !ok || rs.Key == nil {
				return true
			}
			// range over an integer expression: Length() call or len(..)
			t := info.TypeOf(rs.X)
			if t == nil {
				return true
			}
			if b, ok := t.Underlying().(*types.Basic); !ok || b.Info()&types.IsInteger == 0 {
				return true
			}
			lenCall, ok := ast.Unparen(rs.X).(*ast.CallExpr)
			if !ok {
				return true
			}
			var coll string
			if sel, ok := lenCall.Fun.(*ast.SelectorExpr); ok && sel.Sel.Name == "Length" {
				coll = types.ExprString(sel.X)
			} else if id, ok := lenCall.Fun.(*ast.Ident); ok && id.Name == "len" && len(lenCall.Args) == 1 {
				coll = types.ExprString(ast.Unparen(lenCall.Args[0]))
				coll = strings.TrimPrefix(coll, "*")
			}
			if coll == "" {
				return true
			}
			keyID, ok := rs.Key.(*ast.Ident)
			if !ok {
				return true
			}
			idx := info.Defs[keyID]
			hasCall := false
			var firstIndex token.Pos
			ast.Inspect(rs.Body, func(m ast.Node) bool {
				switch x := m.(type) {
				case *ast.CallExpr:
					if reenters(x) {
						hasCall = true
					}
					// coll.At(i) / coll.AtVal(i) / coll.Get(i)
					if sel, ok := x.Fun.(*ast.SelectorExpr); ok && types.ExprString(sel.X) == coll && len(x.Args) >= 1 {
						if id, ok := ast.Unparen(x.Args[0]).(*ast.Ident); ok && info.Uses[id] == idx && firstIndex == token.NoPos {
							switch sel.Sel.Name {
							case "At", "AtVal", "Get", "GetVal":
								firstIndex = x.Pos()
							}
						}
					}
				case *ast.IndexExpr:
					base := strings.TrimPrefix(strings.Trim(types.ExprString(ast.Unparen(x.X)), "()"), "*")
					if base == coll {
						if id, ok := ast.Unparen(x.Index).(*ast.Ident); ok && info.Uses[id] == idx && firstIndex == token.NoPos {
							firstIndex = x.Pos()
						}
					}
				}
				return true
			})
			if !hasCall || firstIndex == token.NoPos {
				return true
			}
			name := FuncName(fr.Decl)
			n[name]++
			key := name + "/loop#" + itoa(n[name])
			// a re-check of the index against the current length inside the body
			rechecked := false
			ast.Inspect(rs.Body, func(m ast.Node) bool {
				be, ok := m.(*ast.BinaryExpr)
				if !ok {
					return true
				}
				switch be.Op {
				case token.LSS, token.LEQ, token.GTR, token.GEQ:
					txt := types.ExprString(be)
					if strings.Contains(txt, keyID.Name) && (strings.Contains(txt, coll+".Length()") || strings.Contains(txt, "len(")) {
						rechecked = true
					}
				}
				return true
			})
			if reason, ok := reentrantIndexExempt[name]; ok && !rechecked {
				c.OK(key, firstIndex, "reasoned exception: %s", reason)
				return true
			}
			c.Check(rechecked, key, firstIndex, "a native defined in %s walks `%s` by index up to a length evaluated once before the loop and calls into Elk code for every element; a closure that removes elements from that collection makes the next index lie beyond its end: Go index-out-of-range panic", name, coll)
			return true
		})
	})
}
