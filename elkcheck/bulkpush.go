package main

import (
	"go/ast"
	"go/token"
	"go/types"
)

// stack/bulk-push-checked (C10, C01): the value stack is a Go slice written
// through raw pointers; it only grows when a bytecode function is called and
// finds it more than 70% full. Code that advances the stack pointer by an
// amount only known at run time - the saved frame of a generator, the locals
// a function reserves - writes past the end of the slice when that amount
// exceeds the headroom, unless it makes room first. Whether it does changes
// the outcome with ELK_INIT_VALUE_STACK_SIZE, and at the default size for
// frames of more than about 300 slots.

func init() {
	register(&Rule{
		ID:    "stack/bulk-push-checked",
		Text:  "in package vm, every function that advances the thread's stack pointer by a run-time amount (spIncrementBy with a non-constant argument) compares the stack's occupancy with its length, or calls the function growing the stack, before it does",
		Floor: 3,
		Run:   runBulkPushChecked,
	})
}

func runBulkPushChecked(c *Ctx) {
	p := c.Pkg("vm")
	info := p.TypesInfo
	c.Funcs("vm", func(fr *FuncRef) {
		if recvTypeName(fr.Decl) != "Thread" {
			return
		}
		n := 0
		ast.Inspect(fr.Decl.Body, func(nd ast.Node) bool {
			call, ok := nd.(*ast.CallExpr)
			if !ok || len(call.Args) != 1 {
				return true
			}
			fn := Callee(info, call)
			if fn == nil || fn.Name() != "spIncrementBy" || recvNameOf(fn) != "Thread" {
				return true
			}
			if tv, ok := info.Types[call.Args[0]]; ok && tv.Value != nil {
				return true // a constant number of slots
			}
			n++
			key := FuncName(fr.Decl) + "/spIncrementBy#" + itoa(n)
			checked := false
			ast.Inspect(fr.Decl.Body, func(m ast.Node) bool {
				if m == nil || m.Pos() >= call.Pos() {
					return true
				}
				switch x := m.(type) {
				case *ast.CallExpr:
					if g := Callee(info, x); g != nil && g.Name() == "growValueStack" {
						checked = true
					}
					if id, ok := x.Fun.(*ast.Ident); ok && id.Name == "len" && len(x.Args) == 1 {
						if sel, ok := ast.Unparen(x.Args[0]).(*ast.SelectorExpr); ok && sel.Sel.Name == "stack" {
							// len(vm.stack) inside a comparison
							checked = checked || insideComparison(fr.Decl.Body, x)
						}
					}
				}
				return true
			})
			c.Check(checked, key, call.Pos(), "%s advances the stack pointer by `%s`, an amount only known at run time, without having compared the occupancy of the value stack with its length or grown it: when the amount exceeds the headroom left by the last growth (which only calls trigger) the slots are written past the end of the stack", FuncName(fr.Decl), types.ExprString(call.Args[0]))
			return true
		})
	})
}

func insideComparison(root ast.Node, target ast.Node) bool {
	found := false
	ast.Inspect(root, func(n ast.Node) bool {
		be, ok := n.(*ast.BinaryExpr)
		if !ok {
			return true
		}
		switch be.Op {
		case token.LSS, token.LEQ, token.GTR, token.GEQ:
			if be.Pos() <= target.Pos() && target.End() <= be.End() {
				found = true
			}
		}
		return true
	})
	return found
}
