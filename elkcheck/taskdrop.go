package main

import (
	"fmt"
	"go/ast"
	"go/parser"
	"go/token"
	"go/types"
	"sort"
)

// await/task-not-dropped (C16, C15): a task (a continuation of an awaiting
// body, or a fresh async call) exists only as the *Promise somebody puts on
// the pool's task queue. A send that can fail - an arm of a select with a
// default clause - therefore leaves the sender responsible for the task: on
// the path where the send did not happen the very same task has to be handed
// on some other way (another send, a goroutine, a call, a store). A path on
// which it is not is a lost wake-up: the awaiting body is never resumed and
// its promise never settles. The obvious repair of the blocking sends reported
// by await/queue-blocking is to make them non-blocking, which is exactly where
// this obligation arises.

func init() {
	register(&Rule{
		ID:    "await/task-not-dropped",
		Text:  "for every non-blocking send of a task variable on a task queue in package vm (`select { case q <- t: ...; default: ... }` with q a channel of *Promise), and for every call of a helper that returns false on the path where such a send of its parameter did not happen, the task variable is handed on (sent, passed to a call or goroutine, stored or returned) on every path from the failed send to the end of the function, and is not overwritten before that",
		Floor: 1,
		Run:   runTaskNotDropped,
	})
}

const taskDropFixture = `package fixture

type Promise struct{ id int }

func tryEnqueue(q chan *Promise, t *Promise) bool {
	select {
	case q <- t:
		return true
	default:
		return false
	}
}

func enqueueAll(q chan *Promise, ts []*Promise) {
	for _, t := range ts {
		q <- t
	}
}

// correct: the task whose send failed goes to the background with the rest
func settleGood(q chan *Promise, pending []*Promise) {
	for i, t := range pending {
		if !tryEnqueue(q, t) {
			go enqueueAll(q, pending[i:])
			return
		}
	}
}

// correct: the task itself goes to a goroutine
func settleGood2(q chan *Promise, pending []*Promise) {
	for _, t := range pending {
		if ok := tryEnqueue(q, t); !ok {
			go func() { q <- t }()
		}
	}
}

// wrong: the rest starts behind the task whose send failed
func settleBad2(q chan *Promise, pending []*Promise) {
	for i, t := range pending {
		if !tryEnqueue(q, t) {
			go enqueueAll(q, pending[i+1:])
			return
		}
	}
}

// wrong: the task popped before the failed send is in nobody's hands
func settleBad(q chan *Promise, pending []*Promise) {
	for len(pending) > 0 {
		t := pending[0]
		pending = pending[1:]
		if tryEnqueue(q, t) {
			continue
		}
		go enqueueAll(q, pending)
		return
	}
}

// wrong: the result is ignored
func settleIgnored(q chan *Promise, pending []*Promise) {
	for _, t := range pending {
		tryEnqueue(q, t)
	}
}

// wrong: dropped directly
func addOrDrop(q chan *Promise, t *Promise) {
	select {
	case q <- t:
	default:
	}
}
`

type dropState struct {
	held  types.Object // task whose send failed and that nobody has taken yet
	okVar types.Object // bool variable holding the result of a try-send of okFor
	okFor types.Object
}

type dropProblem struct {
	pos token.Pos
	msg string
}

type dropUnit struct {
	name    string
	decl    *ast.FuncDecl
	obj     *types.Func
	sites   int
	probs   []dropProblem
	wrapper int // parameter index this function try-sends and reports with false, -1 if none
}

func usesWhole(info *types.Info, e ast.Node, obj types.Object) bool {
	if e == nil || obj == nil {
		return false
	}
	found := false
	var stack []ast.Node
	ast.Inspect(e, func(n ast.Node) bool {
		if n == nil {
			stack = stack[:len(stack)-1]
			return true
		}
		stack = append(stack, n)
		if id, ok := n.(*ast.Ident); ok && info.Uses[id] == obj {
			// t.field reads a part of the task, it does not hand the task on
			if len(stack) > 1 {
				if sel, ok := stack[len(stack)-2].(*ast.SelectorExpr); ok && sel.X == id {
					return true
				}
			}
			found = true
		}
		return true
	})
	return found
}

func analyseTaskDrops(info *types.Info, isTask func(types.Type) bool, decls []*ast.FuncDecl) []*dropUnit {
	wrappers := map[*types.Func]int{}
	var units []*dropUnit
	for round := 0; round < 4; round++ {
		units = units[:0]
		changed := false
		for _, fd := range decls {
			if fd.Body == nil {
				continue
			}
			obj, _ := info.Defs[fd.Name].(*types.Func)
			u := analyseTaskDropFunc(info, isTask, fd, obj, wrappers)
			units = append(units, u)
			if u.wrapper >= 0 && obj != nil {
				if _, ok := wrappers[obj]; !ok {
					wrappers[obj] = u.wrapper
					changed = true
				}
			}
		}
		if !changed {
			break
		}
	}
	return units
}

func analyseTaskDropFunc(info *types.Info, isTask func(types.Type) bool, fd *ast.FuncDecl, obj *types.Func, wrappers map[*types.Func]int) *dropUnit {
	u := &dropUnit{name: FuncName(fd), decl: fd, obj: obj, wrapper: -1}
	problem := func(pos token.Pos, f string, a ...any) {
		u.probs = append(u.probs, dropProblem{pos, fmt.Sprintf(f, a...)})
	}
	// parameters of the function
	paramIdx := map[types.Object]int{}
	if fd.Type.Params != nil {
		i := 0
		for _, f := range fd.Type.Params.List {
			if len(f.Names) == 0 {
				i++
				continue
			}
			for _, n := range f.Names {
				paramIdx[info.Defs[n]] = i
				i++
			}
		}
	}
	// where a task variable was taken from: `for k, t := range X` or `t := X[..]`
	type origin struct {
		cont, key types.Object
		pos       token.Pos
	}
	origins := map[types.Object]origin{}
	var contWrites []struct {
		obj types.Object
		pos token.Pos
	}
	objOf := func(e ast.Expr) types.Object {
		id, ok := ast.Unparen(e).(*ast.Ident)
		if !ok {
			return nil
		}
		if o := info.Defs[id]; o != nil {
			return o
		}
		return info.Uses[id]
	}
	ast.Inspect(fd.Body, func(n ast.Node) bool {
		switch x := n.(type) {
		case *ast.RangeStmt:
			if x.Value != nil {
				if t, cont := objOf(x.Value), objOf(x.X); t != nil && cont != nil {
					o := origin{cont: cont, pos: x.Pos()}
					if x.Key != nil {
						o.key = objOf(x.Key)
					}
					origins[t] = o
				}
			}
		case *ast.AssignStmt:
			for i, l := range x.Lhs {
				if o := objOf(l); o != nil {
					contWrites = append(contWrites, struct {
						obj types.Object
						pos token.Pos
					}{o, x.Pos()})
					if len(x.Lhs) == len(x.Rhs) {
						if ix, ok := ast.Unparen(x.Rhs[i]).(*ast.IndexExpr); ok {
							if cont := objOf(ix.X); cont != nil {
								origins[o] = origin{cont: cont, pos: x.Pos()}
							}
						}
					}
				}
			}
		}
		return true
	})
	// handsOn: e passes the task t itself, or the container t was taken from
	// (whole, or sliced from t's own index on) provided the container has not
	// been assigned since t was taken
	handsOn := func(e ast.Node, t types.Object) bool {
		if e == nil || t == nil {
			return false
		}
		if usesWhole(info, e, t) {
			return true
		}
		or, ok := origins[t]
		if !ok {
			return false
		}
		for _, w := range contWrites {
			if w.obj == or.cont && w.pos > or.pos && w.pos < e.Pos() {
				return false
			}
		}
		found := false
		var stack []ast.Node
		ast.Inspect(e, func(n ast.Node) bool {
			if n == nil {
				stack = stack[:len(stack)-1]
				return true
			}
			stack = append(stack, n)
			id, ok := n.(*ast.Ident)
			if !ok || info.Uses[id] != or.cont || len(stack) < 2 {
				if ok && info.Uses[id] == or.cont && len(stack) == 1 {
					found = true
				}
				return true
			}
			switch par := stack[len(stack)-2].(type) {
			case *ast.IndexExpr:
				if par.X == id {
					return true // one element, not known to be t
				}
			case *ast.SelectorExpr:
				if par.X == id {
					return true
				}
			case *ast.SliceExpr:
				if par.X == id {
					if par.High != nil {
						return true
					}
					if par.Low == nil {
						found = true
						return true
					}
					if tv, ok := info.Types[par.Low]; ok && tv.Value != nil && tv.Value.String() == "0" {
						found = true
						return true
					}
					if or.key != nil && objOf(par.Low) == or.key {
						found = true
					}
					return true
				}
			}
			found = true
			return true
		})
		return found
	}
	boolResult := fd.Type.Results != nil && len(fd.Type.Results.List) == 1 && len(fd.Type.Results.List[0].Names) <= 1 &&
		types.Identical(info.TypeOf(fd.Type.Results.List[0].Type), types.Typ[types.Bool])
	// default clauses of selects with a send of a task variable
	defaultOf := map[*ast.CommClause]types.Object{}
	ast.Inspect(fd.Body, func(n ast.Node) bool {
		if _, ok := n.(*ast.FuncLit); ok {
			return false
		}
		sel, ok := n.(*ast.SelectStmt)
		if !ok {
			return true
		}
		var def *ast.CommClause
		var sent []ast.Expr
		for _, cl := range sel.Body.List {
			cc := cl.(*ast.CommClause)
			if cc.Comm == nil {
				def = cc
				continue
			}
			if s, ok := cc.Comm.(*ast.SendStmt); ok {
				if ch, ok := info.TypeOf(s.Chan).Underlying().(*types.Chan); ok && isTask(ch.Elem()) {
					sent = append(sent, s.Value)
				}
			}
		}
		if def == nil || len(sent) == 0 {
			return true
		}
		u.sites++
		if len(sent) > 1 {
			problem(sel.Pos(), "a select with several sends on task queues and a default clause cannot be followed")
			return true
		}
		id, ok := ast.Unparen(sent[0]).(*ast.Ident)
		if !ok || info.Uses[id] == nil {
			problem(sent[0].Pos(), "the task of this non-blocking send is not a plain variable, so the path on which the send fails cannot be followed")
			return true
		}
		defaultOf[def] = info.Uses[id]
		return true
	})
	// try-send through a helper: (task variable, negated) for a condition
	wrapperCall := func(e ast.Expr) (types.Object, *types.Func, bool) {
		call, ok := ast.Unparen(e).(*ast.CallExpr)
		if !ok {
			return nil, nil, false
		}
		fn := Callee(info, call)
		if fn == nil {
			return nil, nil, false
		}
		idx, ok := wrappers[fn.Origin()]
		if !ok || idx >= len(call.Args) {
			return nil, nil, false
		}
		id, ok := ast.Unparen(call.Args[idx]).(*ast.Ident)
		if !ok || info.Uses[id] == nil {
			return nil, fn, true
		}
		return info.Uses[id], fn, true
	}
	countedCalls := map[*ast.CallExpr]bool{}
	ast.Inspect(fd.Body, func(n ast.Node) bool {
		if call, ok := n.(*ast.CallExpr); ok {
			if _, _, is := wrapperCall(call); is && !countedCalls[call] {
				countedCalls[call] = true
				u.sites++
			}
		}
		return true
	})
	if u.sites == 0 {
		return u
	}
	take := func(s dropState, t types.Object, pos token.Pos) dropState {
		if s.held != nil && s.held != t {
			problem(pos, "`%s`, whose send on the task queue failed, is still in nobody's hands when the send of `%s` fails", s.held.Name(), t.Name())
		}
		s.held = t
		return s
	}
	pe := &PathEval[dropState]{Info: info}
	pe.Comm = func(s dropState, cc *ast.CommClause) []dropState {
		if t := defaultOf[cc]; t != nil {
			return []dropState{take(s, t, cc.Pos())}
		}
		return []dropState{s}
	}
	pe.Call = func(s dropState, call *ast.CallExpr) []dropState {
		if s.held == nil {
			return []dropState{s}
		}
		if _, _, isW := wrapperCall(call); isW {
			// another attempt for the same task: the condition decides
			return []dropState{s}
		}
		for _, a := range call.Args {
			if handsOn(a, s.held) {
				s.held = nil
				break
			}
		}
		return []dropState{s}
	}
	pe.Cond = func(s dropState, cond ast.Expr, branch bool) []dropState {
		e := ast.Unparen(cond)
		neg := false
		for {
			if un, ok := e.(*ast.UnaryExpr); ok && un.Op == token.NOT {
				neg = !neg
				e = ast.Unparen(un.X)
				continue
			}
			break
		}
		failedOn := neg // the branch on which the send did not happen
		if t, fn, isW := wrapperCall(e); isW {
			if t == nil {
				if branch == failedOn {
					problem(e.Pos(), "the task handed to %s is not a plain variable, so the path on which its send fails cannot be followed", fn.Name())
				}
				return []dropState{s}
			}
			if branch == failedOn {
				return []dropState{take(s, t, e.Pos())}
			}
			if s.held == t {
				s.held = nil
			}
			return []dropState{s}
		}
		if id, ok := e.(*ast.Ident); ok && s.okVar != nil && info.Uses[id] == s.okVar {
			t := s.okFor
			s.okVar, s.okFor = nil, nil
			if branch == failedOn {
				return []dropState{take(s, t, e.Pos())}
			}
			return []dropState{s}
		}
		return []dropState{s}
	}
	pe.Stmt = func(s dropState, st ast.Stmt) ([]dropState, bool) {
		switch x := st.(type) {
		case *ast.ExprStmt:
			if t, fn, isW := wrapperCall(x.X); isW {
				name := "the task"
				if t != nil {
					name = "`" + t.Name() + "`"
				}
				problem(x.Pos(), "the result of %s is ignored: when the queue is full %s is dropped", fn.Name(), name)
				return []dropState{s}, true
			}
		case *ast.SendStmt:
			if s.held != nil && handsOn(x.Value, s.held) {
				s.held = nil
				return []dropState{s}, true
			}
		case *ast.GoStmt:
			if s.held != nil && handsOn(x.Call, s.held) {
				s.held = nil
			}
			return []dropState{s}, true
		case *ast.DeferStmt:
			if s.held != nil && handsOn(x.Call, s.held) {
				s.held = nil
			}
			return []dropState{s}, true
		case *ast.AssignStmt:
			// ok := try(q, t)
			if len(x.Lhs) == 1 && len(x.Rhs) == 1 {
				if t, fn, isW := wrapperCall(x.Rhs[0]); isW {
					id, ok := x.Lhs[0].(*ast.Ident)
					if !ok || id.Name == "_" || t == nil {
						problem(x.Pos(), "the result of %s is not kept in a plain variable (or its task is not one): the path on which the send fails cannot be followed", fn.Name())
						return []dropState{s}, true
					}
					o := info.Defs[id]
					if o == nil {
						o = info.Uses[id]
					}
					if s.held == t {
						s.held = nil
					}
					s.okVar, s.okFor = o, t
					return []dropState{s}, true
				}
			}
			if s.held != nil {
				for _, r := range x.Rhs {
					if handsOn(r, s.held) {
						// stored somewhere (or aliased: followed no further)
						s.held = nil
						return []dropState{s}, true
					}
				}
				for _, l := range x.Lhs {
					if id, ok := l.(*ast.Ident); ok {
						o := info.Defs[id]
						if o == nil {
							o = info.Uses[id]
						}
						if o == s.held {
							problem(x.Pos(), "`%s` is overwritten here although its send on the task queue failed and nobody has taken it since", s.held.Name())
							s.held = nil
							return []dropState{s}, true
						}
					}
				}
			}
		}
		return nil, false
	}
	wrapperOK := true
	wrapperIdx := -1
	pe.Return = func(s dropState, r *ast.ReturnStmt) []dropState {
		if s.held == nil {
			return []dropState{s}
		}
		for _, res := range r.Results {
			if handsOn(res, s.held) {
				s.held = nil
				return []dropState{s}
			}
		}
		if idx, isParam := paramIdx[s.held]; isParam && boolResult && len(r.Results) == 1 {
			if tv, ok := info.Types[r.Results[0]]; ok && tv.Value != nil && tv.Value.String() == "false" {
				if wrapperIdx == -1 || wrapperIdx == idx {
					wrapperIdx = idx
					s.held = nil
					return []dropState{s}
				}
			}
		}
		wrapperOK = false
		problem(r.Pos(), "the function returns here while `%s`, whose send on the task queue failed, is in nobody's hands: the task is never run", s.held.Name())
		s.held = nil
		return []dropState{s}
	}
	pe.Widen = func(s dropState) dropState { return s }
	f := pe.Block(newSet(dropState{}), fd.Body.List)
	for s := range f.next {
		if s.held != nil {
			wrapperOK = false
			problem(fd.Body.Rbrace, "the function ends while `%s`, whose send on the task queue failed, is in nobody's hands: the task is never run", s.held.Name())
		}
	}
	for _, n := range pe.Unsupported {
		problem(n.Pos(), "control flow the path evaluator cannot follow")
	}
	if wrapperOK && wrapperIdx >= 0 {
		u.wrapper = wrapperIdx
	}
	// deterministic order, one report per position
	sort.SliceStable(u.probs, func(i, j int) bool { return u.probs[i].pos < u.probs[j].pos })
	return u
}

func runTaskNotDropped(c *Ctx) {
	// positive fixture
	{
		fset := token.NewFileSet()
		f, err := parser.ParseFile(fset, "fixture.go", taskDropFixture, 0)
		if err != nil {
			panic(err)
		}
		info := &types.Info{Types: map[ast.Expr]types.TypeAndValue{}, Defs: map[*ast.Ident]types.Object{}, Uses: map[*ast.Ident]types.Object{}, Selections: map[*ast.SelectorExpr]*types.Selection{}}
		if _, err := (&types.Config{}).Check("fixture", fset, []*ast.File{f}, info); err != nil {
			panic(err)
		}
		var decls []*ast.FuncDecl
		for _, d := range f.Decls {
			if fd, ok := d.(*ast.FuncDecl); ok {
				decls = append(decls, fd)
			}
		}
		got := map[string]string{}
		for _, u := range analyseTaskDrops(info, func(t types.Type) bool { return NamedOf(t) == "fixture.Promise" }, decls) {
			switch {
			case u.sites == 0:
				got[u.name] = "none"
			case len(u.probs) > 0:
				got[u.name] = "bad"
			default:
				got[u.name] = "ok"
			}
		}
		want := map[string]string{"tryEnqueue": "ok", "enqueueAll": "none", "settleGood": "ok", "settleGood2": "ok", "settleBad": "bad", "settleBad2": "bad", "settleIgnored": "bad", "addOrDrop": "bad"}
		okFix := len(got) == len(want)
		for k, v := range want {
			if got[k] != v {
				okFix = false
			}
		}
		c.Check(okFix, "fixture", 0, "the analysis no longer classifies the built-in examples as expected (got %v, want %v): the rule would pass vacuously", got, want)
	}
	p := c.Pkg("vm")
	info := p.TypesInfo
	var decls []*ast.FuncDecl
	c.Funcs("vm", func(fr *FuncRef) { decls = append(decls, fr.Decl) })
	sort.Slice(decls, func(i, j int) bool { return decls[i].Pos() < decls[j].Pos() })
	units := analyseTaskDrops(info, func(t types.Type) bool { return NamedOf(t) == "vm.Promise" }, decls)
	nSites, nQueues := 0, 0
	for _, f := range p.Syntax {
		ast.Inspect(f, func(n ast.Node) bool {
			if s, ok := n.(*ast.SendStmt); ok {
				if ch, ok := info.TypeOf(s.Chan).Underlying().(*types.Chan); ok && NamedOf(ch.Elem()) == "vm.Promise" {
					nQueues++
				}
			}
			return true
		})
	}
	if nQueues == 0 {
		c.Stale("vm: a send on a channel of *Promise (the task queue)")
	}
	c.Stats["sends_on_task_queues"] = nQueues
	for _, u := range units {
		if u.sites == 0 {
			continue
		}
		nSites += u.sites
		key := u.name + "/tasks-handed-on"
		if len(u.probs) > 0 {
			c.Bad(key, u.probs[0].pos, "%s has %d non-blocking send(s) of a task (directly or through a helper): %s", u.name, u.sites, u.probs[0].msg)
		} else {
			c.OK(key, u.decl.Pos(), "%d non-blocking send(s); on every path where one fails the task is handed on or reported to the caller with `false`", u.sites)
		}
	}
	c.Stats["non_blocking_task_sends"] = nSites
	if nSites == 0 {
		c.OKTrivial("vm/no-non-blocking-task-send", 0, "every send on a task queue in package vm is a plain blocking send: no path on which a send fails exists (the blocking sends are the subject of await/queue-blocking)")
	}
}
