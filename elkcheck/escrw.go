package main

import (
	"fmt"
	"go/ast"
	"go/constant"
	"go/token"
	"go/types"
	"sort"
	"strings"
)

// esc/rw (C19): inspect WRITES escape sequences, the lexer READS them. The
// two tables are written in different packages and must agree:
//  pairs     every single-letter escape a writer emits for character v is read
//            back by the matching scanner as v;
//  special   every character the scanner treats specially when it is NOT
//            escaped (the delimiter, the backslash, the interpolation
//            openers) has an escape in the writer;
//  x-unit    the scanner turns \xNN into ONE BYTE, so a writer may emit \x
//            only for values below 0x80 or for a raw byte taken from the
//            string (not for a decoded character in 0x80..0xFF).

func init() {
	register(&Rule{
		ID:    "esc/rw",
		Text:  "for each inspect writer (String, Char, Symbol) and the lexer scanner that reads its output: every `\\c` escape the writer emits for a character is decoded by the scanner to the same character; every character that the scanner treats specially when unescaped has an escape in the writer; and the writer emits `\\x` (which the scanner decodes to a single byte) only under a guard that bounds the formatted value below 0x80, or for an operand that is a byte of the string itself",
		Floor: 30,
		Run:   runEscRW,
	})
}

type escWriter struct {
	fr      *FuncRef
	pairs   map[int64]string // character value -> escape letter(s) after the backslash
	pairPos map[int64]token.Pos
	xSites  []*ast.CallExpr
}

type escReader struct {
	fr      *FuncRef
	pairs   map[string]int64 // letter -> decoded value
	special map[int64]bool   // characters tested before the escape switch
	xByte   bool             // case 'x' arm writes a byte
}

func runeConst(info *types.Info, e ast.Expr) (int64, bool) {
	tv, ok := info.Types[e]
	if !ok || tv.Value == nil || tv.Value.Kind() != constant.Int {
		return 0, false
	}
	return constant.Int64Val(tv.Value)
}

func stringConst(info *types.Info, e ast.Expr) (string, bool) {
	tv, ok := info.Types[e]
	if !ok || tv.Value == nil || tv.Value.Kind() != constant.String {
		return "", false
	}
	return constant.StringVal(tv.Value), true
}

// caseClausesOf returns the clauses of switches whose tag is a rune-typed
// expression, in the function.
func runeSwitches(info *types.Info, body *ast.BlockStmt) []*ast.SwitchStmt {
	var out []*ast.SwitchStmt
	ast.Inspect(body, func(n ast.Node) bool {
		if sw, ok := n.(*ast.SwitchStmt); ok && sw.Tag != nil {
			if b, ok := info.TypeOf(sw.Tag).Underlying().(*types.Basic); ok && (b.Kind() == types.Int32 || b.Kind() == types.UntypedRune) {
				out = append(out, sw)
			}
		}
		return true
	})
	return out
}

func (c *Ctx) escWriters() []*escWriter {
	var out []*escWriter
	p := c.Pkg("value")
	info := p.TypesInfo
	c.Funcs("value", func(fr *FuncRef) {
		w := &escWriter{fr: fr, pairs: map[int64]string{}, pairPos: map[int64]token.Pos{}}
		for _, sw := range runeSwitches(info, fr.Decl.Body) {
			for _, cl := range sw.Body.List {
				cc := cl.(*ast.CaseClause)
				for _, st := range cc.Body {
					es, ok := st.(*ast.ExprStmt)
					if !ok {
						continue
					}
					call, ok := es.X.(*ast.CallExpr)
					if !ok || len(call.Args) != 1 {
						continue
					}
					if fn := Callee(info, call); fn == nil || fn.Name() != "WriteString" {
						continue
					}
					s, ok := stringConst(info, call.Args[0])
					if !ok || len(s) != 2 || s[0] != '\\' {
						continue
					}
					for _, e := range cc.List {
						if v, ok := runeConst(info, e); ok {
							w.pairs[v] = s[1:]
							w.pairPos[v] = call.Pos()
						}
					}
				}
			}
		}
		ast.Inspect(fr.Decl.Body, func(n ast.Node) bool {
			if call, ok := n.(*ast.CallExpr); ok && len(call.Args) >= 3 {
				if fn := Callee(info, call); fn != nil && fn.Pkg() != nil && fn.Pkg().Path() == "fmt" && fn.Name() == "Fprintf" {
					if s, ok := stringConst(info, call.Args[1]); ok && strings.HasPrefix(s, `\x%`) {
						w.xSites = append(w.xSites, call)
					}
				}
			}
			return true
		})
		// a writer: at least the backslash pair and one more
		if w.pairs['\\'] == `\` && len(w.pairs) >= 3 {
			out = append(out, w)
		}
	})
	sort.Slice(out, func(i, j int) bool { return FuncName(out[i].fr.Decl) < FuncName(out[j].fr.Decl) })
	return out
}

func (c *Ctx) escReaders() []*escReader {
	var out []*escReader
	p := c.Pkg("lexer")
	info := p.TypesInfo
	c.Funcs("lexer", func(fr *FuncRef) {
		r := &escReader{fr: fr, pairs: map[string]int64{}, special: map[int64]bool{}}
		var escSwitch *ast.SwitchStmt
		for _, sw := range runeSwitches(info, fr.Decl.Body) {
			n := 0
			for _, cl := range sw.Body.List {
				cc := cl.(*ast.CaseClause)
				if len(cc.List) != 1 || len(cc.Body) == 0 {
					continue
				}
				letter, ok := runeConst(info, cc.List[0])
				if !ok {
					continue
				}
				// lexemeBuff.WriteByte('\n') / WriteRune(..)
				es, ok := cc.Body[0].(*ast.ExprStmt)
				if !ok {
					continue
				}
				call, ok := es.X.(*ast.CallExpr)
				if !ok || len(call.Args) != 1 {
					continue
				}
				fn := Callee(info, call)
				if fn == nil || (fn.Name() != "WriteByte" && fn.Name() != "WriteRune") {
					continue
				}
				if v, ok := runeConst(info, call.Args[0]); ok {
					r.pairs[string(rune(letter))] = v
					n++
				}
			}
			if n >= 5 {
				escSwitch = sw
				// the 'x' arm
				for _, cl := range sw.Body.List {
					cc := cl.(*ast.CaseClause)
					if len(cc.List) == 1 {
						if v, ok := runeConst(info, cc.List[0]); ok && v == 'x' {
							ast.Inspect(cc, func(m ast.Node) bool {
								if call, ok := m.(*ast.CallExpr); ok {
									if fn := Callee(info, call); fn != nil && fn.Name() == "WriteByte" {
										r.xByte = true
									}
								}
								return true
							})
						}
					}
				}
				break
			}
		}
		if escSwitch == nil {
			return
		}
		// characters compared with == before the escape switch (delimiters,
		// interpolation openers), and the backslash test itself
		ast.Inspect(fr.Decl.Body, func(n ast.Node) bool {
			if n != nil && n.Pos() >= escSwitch.Pos() {
				return false
			}
			if be, ok := n.(*ast.BinaryExpr); ok && (be.Op == token.EQL || be.Op == token.NEQ) {
				if v, ok := runeConst(info, be.Y); ok && v != '\n' && v < 0x80 {
					// only tests of the character the escape switch dispatches
					// on (same name: the scanners re-declare `char` per step)
					if id, ok := ast.Unparen(be.X).(*ast.Ident); ok && id.Name == types.ExprString(ast.Unparen(escSwitch.Tag)) {
						if b, ok := info.TypeOf(id).Underlying().(*types.Basic); ok && b.Kind() == types.Int32 {
							r.special[v] = true
						}
					}
				}
			}
			return true
		})
		out = append(out, r)
	})
	sort.Slice(out, func(i, j int) bool { return FuncName(out[i].fr.Decl) < FuncName(out[j].fr.Decl) })
	return out
}

// xBound computes an upper bound for the value formatted at a `\x` site from
// the chain of enclosing if/else conditions. Returns (bound, rawByte, ok).
func xBound(info *types.Info, fn *ast.FuncDecl, call *ast.CallExpr) (int64, bool, bool) {
	// operand: a byte of a string (s[i]) is a raw byte
	arg := ast.Unparen(call.Args[2])
	if ix, ok := arg.(*ast.IndexExpr); ok {
		if b, ok := info.TypeOf(ix.X).Underlying().(*types.Basic); ok && b.Info()&types.IsString != 0 {
			return 0xFF, true, true
		}
	}
	// the formatted variable (possibly v.Rune())
	var vname string
	switch x := arg.(type) {
	case *ast.Ident:
		vname = x.Name
	case *ast.CallExpr:
		if sel, ok := ast.Unparen(x.Fun).(*ast.SelectorExpr); ok {
			vname = types.ExprString(ast.Unparen(sel.X))
		}
	}
	if vname == "" {
		return 0, false, false
	}
	// path of enclosing if statements: collect conditions known true on the
	// way to the call (then-branches) - else branches contribute negations,
	// which only widen, so they are ignored
	bound := int64(1<<31 - 1)
	var path []ast.Node
	found := false
	ast.Inspect(fn.Body, func(n ast.Node) bool {
		if found {
			return false
		}
		if n == nil {
			path = path[:len(path)-1]
			return true
		}
		path = append(path, n)
		if n == ast.Node(call) {
			found = true
			for i, p := range path {
				ifs, ok := p.(*ast.IfStmt)
				if !ok || i+1 >= len(path) || path[i+1] != ast.Node(ifs.Body) {
					continue
				}
				if b, ok := condBound(info, ifs.Cond, vname); ok && b < bound {
					bound = b
				}
				if oneByteDecoded(info, fn, ifs.Cond, vname) && 0x7F < bound {
					bound = 0x7F
				}
			}
			return false
		}
		return true
	})
	if !found {
		return 0, false, false
	}
	return bound, false, true
}

// condBound: an upper bound on v implied by cond (forms v>>K == 0, v < C,
// v <= C, conjunctions; a disjunction gives the max of its sides).
func condBound(info *types.Info, cond ast.Expr, v string) (int64, bool) {
	cond = ast.Unparen(cond)
	be, ok := cond.(*ast.BinaryExpr)
	if !ok {
		return 0, false
	}
	is := func(e ast.Expr) bool { return types.ExprString(ast.Unparen(e)) == v }
	switch be.Op {
	case token.LAND:
		a, oka := condBound(info, be.X, v)
		b, okb := condBound(info, be.Y, v)
		switch {
		case oka && okb:
			if a < b {
				return a, true
			}
			return b, true
		case oka:
			return a, true
		case okb:
			return b, true
		}
	case token.LOR:
		a, oka := condBound(info, be.X, v)
		b, okb := condBound(info, be.Y, v)
		if oka && okb {
			if a > b {
				return a, true
			}
			return b, true
		}
	case token.EQL:
		if sh, ok := ast.Unparen(be.X).(*ast.BinaryExpr); ok && sh.Op == token.SHR && is(sh.X) {
			if k, ok := ConstInt(info, sh.Y); ok {
				if z, ok := ConstInt(info, be.Y); ok && z == 0 {
					return 1<<uint(k) - 1, true
				}
			}
		}
	case token.LSS:
		if is(be.X) {
			if k, ok := ConstInt(info, be.Y); ok {
				return k - 1, true
			}
		}
	case token.LEQ:
		if is(be.X) {
			if k, ok := ConstInt(info, be.Y); ok {
				return k, true
			}
		}
	}
	return 0, false
}

func runEscRW(c *Ctx) {
	writers := c.escWriters()
	readers := c.escReaders()
	c.Stats["escape_writers"] = len(writers)
	c.Stats["escape_readers"] = len(readers)
	if len(writers) < 3 || len(readers) < 3 {
		c.Stale(fmt.Sprintf("escape writers in value/ (found %d, need >= 3) / escape scanners in lexer/ (found %d, need >= 3)", len(writers), len(readers)))
	}
	vinfo := c.Pkg("value").TypesInfo
	for _, w := range writers {
		wname := FuncName(w.fr.Decl)
		// the delimiter the writer escapes identifies its scanner(s)
		var delim int64
		for _, d := range []int64{'"', '`'} {
			if w.pairs[d] == string(rune(d)) {
				delim = d
			}
		}
		if delim == 0 {
			c.Unknown(wname+"/delimiter", w.fr.Decl.Pos(), "writer escapes neither \" nor `: cannot be paired with a scanner")
			continue
		}
		var rs []*escReader
		for _, r := range readers {
			if v, ok := r.pairs[string(rune(delim))]; ok && v == delim {
				rs = append(rs, r)
			}
		}
		if len(rs) == 0 {
			c.Bad(wname+"/scanner", w.fr.Decl.Pos(), "no lexer scanner decodes the escaped delimiter %q this writer emits", rune(delim))
			continue
		}
		// symbols and strings share the string scanners; a writer is checked
		// against every scanner of its delimiter that can see its output
		for _, r := range rs {
			rname := FuncName(r.fr.Decl)
			var vals []int64
			for v := range w.pairs {
				vals = append(vals, v)
			}
			sort.Slice(vals, func(i, j int) bool { return vals[i] < vals[j] })
			for _, v := range vals {
				letter := w.pairs[v]
				got, ok := r.pairs[letter]
				key := fmt.Sprintf("%s/%s/pair-%#02x", wname, rname, v)
				c.Check(ok && got == v, key, w.pairPos[v], "%s writes character %#x as `\\%s`, but %s decodes `\\%s` to %#x (ok=%v): the inspected text does not read back as the same value", wname, v, letter, rname, letter, got, ok)
			}
			var sp []int64
			for v := range r.special {
				sp = append(sp, v)
			}
			sort.Slice(sp, func(i, j int) bool { return sp[i] < sp[j] })
			for _, v := range sp {
				_, esc := w.pairs[v]
				key := fmt.Sprintf("%s/%s/special-%#02x", wname, rname, v)
				c.Check(esc, key, w.fr.Decl.Pos(), "%s treats an unescaped %q specially (delimiter, escape or interpolation opener) but %s writes it unescaped: a value containing it inspects to source that reads back differently", rname, rune(v), wname)
			}
		}
		for i, call := range w.xSites {
			key := fmt.Sprintf("%s/x-unit#%d", wname, i+1)
			bound, raw, ok := xBound(vinfo, w.fr.Decl, call)
			if !ok {
				c.Unknown(key, call.Pos(), "cannot bound the value formatted as \\x here")
				continue
			}
			byteReader := false
			for _, r := range rs {
				if r.xByte {
					byteReader = true
				}
			}
			c.Check(raw || bound < 0x80 || !byteReader, key, call.Pos(), "%s can write `\\x` for a decoded character up to %#x, but the scanner decodes `\\xNN` to the single byte NN, which for NN >= 0x80 is not the UTF-8 encoding of that character", wname, bound)
		}
	}
}

// oneByteDecoded: cond is `n == 1` where (v, n) come from one
// utf8.DecodeRune* call, and an earlier branch of the function diverts the
// invalid-byte case (a condition mentioning utf8.RuneError whose body ends in
// continue or return). A valid character encoded in one byte is below 0x80.
func oneByteDecoded(info *types.Info, fn *ast.FuncDecl, cond ast.Expr, v string) bool {
	be, ok := ast.Unparen(cond).(*ast.BinaryExpr)
	if !ok || be.Op != token.EQL {
		return false
	}
	nid, ok := ast.Unparen(be.X).(*ast.Ident)
	if !ok {
		return false
	}
	if k, ok := ConstInt(info, be.Y); !ok || k != 1 {
		return false
	}
	paired := false
	ast.Inspect(fn.Body, func(n ast.Node) bool {
		if as, ok := n.(*ast.AssignStmt); ok && len(as.Lhs) == 2 && len(as.Rhs) == 1 {
			a, okA := as.Lhs[0].(*ast.Ident)
			b, okB := as.Lhs[1].(*ast.Ident)
			if okA && okB && a.Name == v && info.ObjectOf(b) == info.ObjectOf(nid) {
				if call, ok := ast.Unparen(as.Rhs[0]).(*ast.CallExpr); ok {
					if f := Callee(info, call); f != nil && f.Pkg() != nil && f.Pkg().Path() == "unicode/utf8" && strings.HasPrefix(f.Name(), "DecodeRune") {
						paired = true
					}
				}
			}
		}
		return true
	})
	if !paired {
		return false
	}
	diverted := false
	ast.Inspect(fn.Body, func(n ast.Node) bool {
		ifs, ok := n.(*ast.IfStmt)
		if !ok || ifs.Pos() >= cond.Pos() || len(ifs.Body.List) == 0 {
			return true
		}
		if !strings.Contains(types.ExprString(ifs.Cond), "utf8.RuneError") {
			return true
		}
		switch last := ifs.Body.List[len(ifs.Body.List)-1].(type) {
		case *ast.BranchStmt:
			if last.Tok == token.CONTINUE {
				diverted = true
			}
		case *ast.ReturnStmt:
			diverted = true
		}
		return true
	})
	return diverted
}
