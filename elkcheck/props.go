package main

func init() {
	props["C29"] = &PropSpec{
		Rules:      []string{"optable/handled", "optable/width"},
		Decides:    "that the three places which must agree on the instruction encoding do agree, for every opcode: the VM run loop, the disassembler and every emission site of the compiler (existence of a handler, and the number of operand bytes).",
		NotCovered: "operand-stack depth consistency and the numeric values of jump offsets for particular programs (properties of emitted sequences, not of the emitter's shape).",
	}
}
