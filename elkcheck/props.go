package main

func init() {
	props["C07"] = &PropSpec{
		Rules:      []string{"switch/shift-siblings", "shift/unsigned-count"},
		Decides:    "that no shift implementation converts a 64-bit unsigned shift count to a signed type without a range check (a count of 2^63 or more would turn negative and reverse the shift); that every shift implementation (the four helpers shared by Int8..UInt64/UInt and the Int shifts) accepts the same set of operand representations, so no shift rejects with a TypeError an AnyInt operand its siblings accept.",
		NotCovered: "the modular and IEEE-754 results themselves (delegated to Go's sized arithmetic; they depend on operand values), overflow at conversion boundaries.",
	}
	props["C08"] = &PropSpec{
		Rules:      []string{"ops/typedguard", "ops/token-family"},
		Decides:    "that no emission site of the compiler that knows which operator it is compiling (a test of the operator token is in scope) emits an opcode the compiler's own operator table assigns to a different operator; that each specialised opcode the compiler chooses from static types (under IsSubtype(_, Std::Int / Std::Float)) is executed by a handler that reads the operand with the accessors of exactly those representations; otherwise the specialised path reinterprets the operand's bits and disagrees with the generic path.",
		NotCovered: "equality of results where generic and specialised paths legitimately call different functions; constant folding versus run-time evaluation; statically bound versus dynamically resolved calls.",
	}
	props["C05"] = &PropSpec{
		Rules:      []string{"prec/ladder", "prec/assoc", "cover/astprint", "cover/astequal"},
		Decides:    "(a) the printer's precedence table orders the binary/logical operators and operator-like node kinds exactly as the parser's production ladder does (equal within a rung, strictly increasing from rung to rung), so no tree is printed without parentheses the parser needs, and the printer's associativity table says left for every operator whose production folds in a loop and right for every operator whose production recurses into itself; (b) every node's String method reads every syntactic field, so two different trees cannot print alike; every node's Equal compares every syntactic field.",
		NotCovered: "that the concrete text each printer emits is what the parser accepts for that node; type and pattern precedence tables; associativity choices that only produce redundant parentheses.",
	}
	props["C31"] = &PropSpec{
		Rules:      []string{"cover/astsplice", "cover/asttraverse", "macro/boundary-scope", "macro/env-walkers", "effect/selfrec"},
		Decides:    "that every function of the checker that walks up the chain of local environments tests for the macro-boundary environment (the one place where hygiene is enforced); that the body of every macro boundary is compiled and checked inside a scope of its own on every path, so locals of an expansion cannot land in the caller's scope; that macro expansion cannot lose part of a quoted tree: every node's splice carries every field over and every node's traverse visits every field that can hold a sub-tree; no node method is an unconditional self call.",
		NotCovered: "capture-freedom under colliding names (scope handling of macro boundaries in checker and compiler); that expansion results are wrapped in macro boundary nodes.",
	}
	props["C33"] = &PropSpec{
		Rules:      []string{"path/abort-before-backedge", "path/abort-before-jump", "cover/flagprop", "path/ctx-blocking"},
		Decides:    "that the context-aware variants of the blocking channel operations really are interruptible (every channel send/receive in a function taking a context is an arm of a select that also receives from ctx.Done(), and none delegates to the bare blocking sibling); that `continue` and tail calls, which go round without passing the end of a loop body or a return, carry a cancellation point of their own; that every user-level loop the compiler emits has a cancellation point on its back edge when abort checks are requested (each emitLoop site is preceded by the CHECK_ABORT guard; two bounded internal loops are reasoned exceptions), and that the request reaches every nested compiler (methods, closures, defers, class/module/mixin/interface/singleton bodies inherit additionalAbortChecks and the diagnostic list from their parent).",
		NotCovered: "promptness (timing); native methods that block without watching the thread's abort context (sleep, Mutex#lock, WaitGroup#wait, channel iteration): candidates located by reading, not armed.",
	}
	props["C12"] = &PropSpec{
		Rules:      []string{"path/savedrestore-checker", "path/snapshot-first", "path/setter-restore", "alias/snapshot-truncate", "cache/invalidate"},
		Decides:    "that a saved slice-typed context (catch scopes, loops, scope stacks) is not emptied by re-slicing it in place, which would let the nested construct's pushes overwrite the snapshot through the shared backing array; that checker and compiler context (mode, flags, catch scopes, return/throw type, ...) which a function saves, changes and restores is restored on every exit path, from a snapshot that really is the value on entry (nothing has written the field before the snapshot is taken), that a function bracketing several fields does not reset a sibling field to a constant instead, that a part of a field set through a setter (one bit of the flags) is put back through the same setter when the whole field is not restored, and that memoised copies of the scope stacks are dropped when the stacks are swapped; a leak is exactly how an unused nested construct (a closure literal, a failed compatibility check) changes the verdict on the code that follows it.",
		NotCovered: "renaming, parenthesisation, reordering of declarations: relations between two whole checker runs.",
	}
	props["C34"] = &PropSpec{
		Rules:      []string{"test/filter-guard", "test/exit-status", "test/suite-filter-eval", "test/full-match-sound", "path/savedrestore-test"},
		Decides:    "that a filter which selects cases by a regular expression on their names never declares a whole suite matched (which would run the suite's cases without trying the expression on them); that a case or sub-suite is registered only on the matching branch of the filter test; that the filter combination function SuiteMatchesFilters has the specified result for every sequence of up to three filter answers (exhaustive over a finite domain it touches only through comparisons); that `elk test` exits non-zero unless the report exists and is TEST_SUCCESS; that `describe` restores the current suite on every exit.",
		NotCovered: "that every registered case runs exactly once and that reports aggregate child statuses correctly; path/regex filter matching itself.",
	}
	props["C26"] = &PropSpec{
		Rules:      []string{"path/lock-symboltable"},
		Decides:    "the locking discipline that makes interning atomic: every access to the name and id tables holds the table's RWMutex in a sufficient mode on every path, Add looks the name up and inserts it inside one write-locked section (no check-then-act window), and only the type's own functions touch the tables.",
		NotCovered: "nothing further is needed for the discipline; bijectivity then follows from the five-line sequential body of Add, which is assumed, not proved. ExistsId's unlocked length read is a reasoned exception.",
	}
	props["C11"] = &PropSpec{
		Rules:      []string{"path/lock-containers", "path/lock-symboltable"},
		Decides:    "that the symbol interner the parallel workers share decides and inserts in one write-locked section (two workers interning the same new name cannot both insert it, which would make equal symbol literals unequal depending on the schedule); that the synchronised containers shared by the parallel method-body checker (concurrent.Slice/Map/Set/OrderedMap, SyncDiagnosticList) take their own mutex, in a sufficient mode, around every access to the wrapped collection in every method not explicitly marked unsynchronised.",
		NotCovered: "which other state the parallel region shares and whether it is locked (a whole-program shared-write analysis is not claimed yet); equality of diagnostics and compiled code across schedules (symbol ids, ordering), which is a property of interleavings.",
	}
	props["C10"] = &PropSpec{
		Rules:      []string{"cover/rebase", "stack/stale-after-reentry"},
		Decides:    "that no VM function keeps using a Go-level address into the value stack (argument slice, slot pointer) after a call that can run Elk code or grow the stack, which would touch the abandoned copy whenever the configured size made a reallocation fall in between; that growing the value stack (the one place where a sizing parameter changes what the VM does) moves every location holding a stack address by exactly new + (p - old), updates every field derived from the stack length, visits the complete open-upvalue list once and leaves native call frames alone. The set of locations is recomputed by taint on every run, so a new cached pointer or size-derived field becomes an obligation automatically.",
		NotCovered: "equality of program output across configurations in general; the unchecked push headroom (growth is only tested at calls, at 70% occupancy); thread-pool and channel sizing.",
	}
	props["C13"] = &PropSpec{
		Rules:      []string{"path/closeupvalues", "path/continue-closes", "path/loop-closes-upvalues", "upvalue/capture-walk", "cover/rebase"},
		Decides:    "that the walk over the open-upvalue list stops at (not past) an entry for the captured slot and reuses it, so two closures capturing one variable share one upvalue; that every loop form the compiler emits closes the upvalues captured in an iteration before it jumps back (inner scope left, or an explicit closing), so closures of different iterations do not share a variable; that an open upvalue never outlives the stack slot it points at: every VM function that releases or reuses the current frame's slots closes the frame's upvalues first (frame restore, in-place tail call); `continue` lands on the end-of-iteration upvalue closing the compiler emits; stack growth rebases every open upvalue.",
		NotCovered: "the sorted-list invariant of the open-upvalue list under arbitrary capture orders (captureUpvalue), and which scope a given local is closed with in every loop form.",
	}
	props["C29"] = &PropSpec{
		Rules:      []string{"optable/handled", "optable/width", "optable/siteinfo", "cover/offsets", "layout/prepend-bytes", "pool/patched-slot-unique", "layout/params-first", "stack/result-protocol"},
		Decides:    "that a node compiler answers \"nothing left on the operand stack\" only when its caller said the value is ignored (otherwise the stack depth the compiler assumes and the depth that runs differ by one); that parameters are the first local indices allocated; that a value-pool slot the compiler reserves with a placeholder and patches later cannot be shared with another load (the pool does not de-duplicate the placeholder's representation); that a function prepending a prologue to a finished instruction stream shifts stored offsets and line-info counts by exactly the number of bytes it prepended on every path; that the three places which must agree on the instruction encoding do agree, for every opcode: the VM run loop, the disassembler and every emission site of the compiler (existence of a handler, and the number of operand bytes); that a call opcode is always paired with the call-site record type its handler reinterprets; and that the functions rewriting a finished instruction stream move every stored offset.",
		NotCovered: "operand-stack depth consistency and the numeric values of jump offsets for particular programs (properties of emitted sequences, not of the emitter's shape).",
	}
}

func init() {
	props["C28"] = &PropSpec{
		Rules:      []string{"hdr/native", "hdr/includes", "hdr/native-exists", "native/argidx", "native/argrep", "native/retrep", "native/recvcast", "ast/class-unique", "arith/result-follows-operand"},
		Decides:    "that a native method stored in the method table of a class converts its receiver to a Go type of that class (not of the class the file was copied from), and that the class of every evident return value of a native (a constructor whose class is fixed by its Go type, followed through single-class helpers) is one the header's return type names, where that type is built from classes, mixins, nilables and unions; that every class, mixin and module the headers define exists at run time under the same constant path, and that every `include` the headers declare for such a namespace is matched by the run-time hierarchy of package value (directly, through an included mixin or a superclass) - calls on built-in classes are bound against the run-time objects, so a method the checker finds through an include the run-time class lacks is bound to nothing; that the mixed-kind arithmetic methods behind Int, Float and BigFloat operators return every non-error result from inside the dispatch on the operand's representation (the headers declare a different result class per operand class, so a result returned for all operand kinds alike has the wrong class for all but one); for every native method whose header declares a parameter (or the receiver) as one of the simple built-in value classes (about 1100 argument positions): the accessors the native applies directly to that argument assume only representations that class can have, so a typed overload such as Float#+@1(other: Int) is not implemented by a body that reads a Float; for every method the std headers declare native and for which a native registration on the same class resolves (about 2400 pairs): the registration takes exactly the parameters the header declares (the VM sizes the argument slice from the registration, so fewer means an out-of-range read, more means shifted arguments); and every native method body indexes its argument slice only within the parameter count it is registered with.",
		NotCovered: "44 declared natives have no registration anywhere in the run-time hierarchy (hdr/native-exists; open known findings, one mechanism F67); natives registered on containers the analysis does not resolve (counted in the evidence, not decided); parameter and return *types* (see C01/C02 rules); thrown-error classes; semantic correctness of results.",
	}
}

func init() {
	props["C06"] = &PropSpec{
		Rules:      []string{"bigint/truncdiv", "bigint/nomutate", "bigint/normalise", "arith/result-follows-operand"},
		Decides:    "three representation-independence conditions of Int arithmetic: (1) no Euclidean big.Int division/modulo anywhere in the runtime, so big and small operands divide the same way; (2) no math/big operation writes into the storage of an existing Int (Int values are shared by reference, so this would change other variables); (3) every *BigInt returned from Int arithmetic sits on the failing branch of a fits-in-SmallInt test, so an integer has one representation.",
		NotCovered: "the arithmetic correctness of the overflow predicates (AddOverflow, MultiplyOverflow, ...) and of math/big themselves: these depend on operand values, not on the shape of the code.",
	}
}

func init() {
	props["C17"] = &PropSpec{
		Rules:      []string{"hash/counters", "hash/noempty", "hash/liveness", "hash/grow-by-occupied", "cover/reset"},
		Decides:    "that a table which grows because its occupied-slot count reached the load limit grows to at least twice that count (so the rehash cannot be skipped and a free slot always remains); that Reset() of every iterator re-assigns each field its constructor derives from the collection (cached length, version stamp, snapshot), so a reset iterator does not walk a changed collection with stale bounds; for the open-addressing tables behind HashMap, HashRecord and HashSet: (1) a population counter is incremented only when the filled slot was empty/tombstone or on a table under construction, occupiedSlots never shrinks, elements-- only next to a tombstone store, so length() equals the number of distinct keys; (2) no function stores the empty marker into an existing table, so deletion cannot cut a probe chain; (3) every liveness test of a HashSet slot recognises both dead markers.",
		NotCovered: "the probe sequence itself (hash -> start index, wrap-around, termination when the table is full of tombstones), agreement of equality with hashing, and the Go-map-backed native variants.",
	}
	props["C24"] = &PropSpec{
		Rules:      []string{"alias/append-fresh", "alias/make-len-index", "loop/remove-in-place", "conv/checked-int", "effect/selfrec"},
		Decides:    "that no collection operation stores by index beyond the length of a slice it made with a larger capacity (an out-of-range panic for every such call); that an index loop which deletes the element at its index steps back or leaves; that the checked Int-to-index conversion refuses unsigned values above the int range instead of wrapping them to negative indices; that no list or tuple operation builds a new value by appending onto the storage of an existing one without storing the result back (which would make two lists share a backing array); that no list/tuple operation (nor any other function of the module) is an unconditional self call with unchanged arguments, which would abort the interpreter with an unrecoverable stack overflow.",
		NotCovered: "sequence semantics (results of index, slice, insert, remove over operation histories); bounds handling of individual operations.",
	}
}

func init() {
	props["C03"] = &PropSpec{
		Rules:      []string{"path/nilpair", "front/parse-gate", "switch/panic-default", "front/rune-truncation", "front/loop-eof", "front/recursion-bounded", "effect/selfrec"},
		Decides:    "one fatal-error mechanism - the recursion of the main parser is bounded: every cycle of the Parser's call graph passes the production that counts the nesting and refuses to go deeper, so no input reaches a Go stack overflow, which nothing can recover - one hang mechanism - every path around an unconditional scanning loop of the two lexers passes an end-of-input test that cannot be taken once the input is exhausted - one misclassification mechanism - no rune is truncated to a byte before it is classified - and four crash mechanisms of the front end: (1) a (pointer, bool) result that is nil when the bool is false is dereferenced only where the bool was tested true, at every call site in the module; (2) a tree that came with syntax diagnostics never reaches the checker (the gate under which the node switches may assume well-formed trees); (3) the checker's pattern dispatcher, whose default arm panics, has a case for every pattern node kind except the reviewed ones that cannot reach it; (4) no front-end function is an unconditional self call (unrecoverable stack overflow).",
		NotCovered: "termination (a progress measure over run-time token streams), index-out-of-range and nil dereferences whose guard depends on run-time values, the narrow node switches whose operand set is determined by one grammar production (counted in the evidence, not decided), the macro and regex front ends beyond rule 1.",
	}
	props["C04"] = &PropSpec{
		Rules:      []string{"lexer/position-owners", "lexer/backup-ascii", "lexer/newline-tracked", "lexer/source-identity", "lexer/colorize-slices"},
		Decides:    "the bookkeeping conditions under which a token's line/column can agree with its byte offset: the text the lexer counts positions on is the caller's text, unmodified; every consumption of a character that nobody has looked at goes through a line-tracking primitive or is examined for a newline afterwards; only the position primitives of the two lexers write the cursor and the line/column counters; every rewind undoes characters that are provably one byte wide (or rewinds to a recorded byte offset with the matching column count) and never crosses a line increment; and the colouring functions emit nothing but slices of their input between recorded offsets, wrapped in colour codes.",
		NotCovered: "the partition property itself: that the spans the scanners produce are ordered, non-overlapping and cover what they should is a property of a 2500-line state machine over input bytes; skipByte callers (assumed to skip ASCII bytes).",
	}
	props["C19"] = &PropSpec{
		Rules:      []string{"esc/rw"},
		Decides:    "agreement of the escape tables that are written twice: for String, Char and Symbol inspect and the lexer scanners that read their output, every single-letter escape written for a character is decoded to that character, every character the scanner treats specially when unescaped (delimiter, backslash, interpolation openers) is escaped by the writer, and `\\xNN`, which the scanner decodes to one byte, is written only for values below 0x80 or for raw bytes of the string.",
		NotCovered: "numeric formatting (float %g round trip, big floats, literal bases and suffixes), String#to_int, regex inspect, and nesting of collections: these depend on numeric values, not on table shape.",
	}
	props["C01"] = &PropSpec{
		Rules:      []string{"native/argidx", "native/argrep", "hash/grow-by-occupied", "optable/siteinfo", "cover/offsets", "cover/rebase", "stack/stale-after-reentry", "effect/mayfatal-unlock", "path/recoverguard", "path/snapshot-first", "effect/selfrec", "layout/params-first", "stack/result-protocol", "path/throw-continues", "hdr/includes", "native/retrep", "native/recvcast"},
		Decides:    "nine host-crash mechanisms, each enumerated over all of its sites: a native method indexes its argument slice only within the parameter count it is registered with; a call instruction is always paired with the call-site record type its handler reinterprets through an unsafe pointer, also after instructions were moved; growing the value stack rebases every saved address, and no VM function uses a stack address across a call that can grow the stack; no program-driven unlock can reach the runtime's unrecoverable fatal error; sends, closes, selects and wait-group decrements on program-held objects are recovered or guarded; a method's defer prologue cannot be lost to a flag snapshot taken too late; no function is an unconditional self call.",
		NotCovered: "index-out-of-range, nil dereference and explicit panic sites whose guard depends on run-time values; representation mismatches between a native method's declared parameter types and the accessors it applies (planned ARGREP engine, not built); Go map concurrent-write fatals from racy Elk programs; soundness of the Elk type system itself. Open finding: select with a send case on a closed channel (listed under C25).",
	}
	props["C02"] = &PropSpec{
		Rules:      []string{"ops/typedguard", "native/argrep", "bind/static-guard", "cover/deepcopy"},
		Decides:    "three places where a static type is turned into an unchecked run-time assumption: a typed opcode chosen under IsSubtype(_, Int/Float) is executed by a handler that reads the operand with exactly those accessors; a call on a class-typed receiver is bound statically only under `exact || class has no children`; and the Children sets (with every other field) survive the deep copy of the type environment that the REPL restores, so the no-children test stays truthful.",
		NotCovered: "narrowing soundness, subtyping, generic instantiation, and whether each native method returns a value of its declared return type (planned ARGREP results, not built; the Regex#* example named in the property is therefore not decided).",
	}
	props["C18"] = &PropSpec{
		Rules:      []string{"switch/matrix", "cmp/mixed-basis", "native/argrep"},
		Decides:    "that all comparison functions between an Int and a Float convert in the same direction (a function comparing on another basis disagrees with its siblings above 2**53); two coverage conditions of the comparison code: every implementation of lax equality for a numeric kind has an arm for every numeric representation any of its siblings handles (so `a =~ b` cannot hold in one direction only because an arm is missing), and the four ordering operators of each kind accept identical operand sets; and the native == of every class reads its `any` operand only through checked accessors, so == is total.",
		NotCovered: "that equal values hash equally, transitivity, and numeric agreement across Int/Float precision boundaries: they depend on the values compared. Reflexivity and symmetry of == for collections.",
	}
	props["C20"] = &PropSpec{
		Rules:      []string{"str/units", "str/invalid-byte-source"},
		Decides:    "that the raw byte substituted for an invalid UTF-8 byte is the one at the decode position (first byte after a forward decode, last byte after a backward decode); unit consistency of the string implementation: in value/string.go, value/char.go and the native String methods, no comparison or addition/subtraction mixes a byte quantity (len, ByteCount), a code-point quantity (RuneCount, CharCount, Length) and a grapheme quantity (uniseg counts, GraphemeCount), given the documented unit of each index/length parameter.",
		NotCovered: "case mapping, comparison, grapheme segmentation, slicing and searching results: they depend on string contents and on the Unicode tables of the Go library, not on the shape of the code.",
	}
	props["C21"] = &PropSpec{
		Rules:      []string{"reflags/rw", "reflags/effective", "regex/compose-ambient"},
		Decides:    "the flags only: every flag is either interpreted by the transpiler itself or written into the Go pattern by the entry point of the translation (a flag that is neither changes nothing); `+` compiles its operands, embedded with their own enabled flags, without ambient flags; each of the six regex flags has one letter, and that letter maps to that flag along every chain that spells it (flag table, Elk lexer -> flag token -> Elk parser, regex parser's scoped groups), and exactly the flags i, m, s, U - whose meaning in Go's RE2 equals the Elk meaning - are passed through to Go's engine. If these disagree, every literal or composed regex using the flag compiles to a pattern with another meaning.",
		NotCovered: "everything else: equivalence of the language of the Elk pattern and of the emitted RE2 text (character classes, escapes, quantifiers, extended-mode whitespace and comments) quantifies over subject strings and is not decided here.",
	}
	props["C30"] = &PropSpec{
		Rules:      []string{"ops/token-family", "pattern/or-binder-first"},
		Decides:    "two clauses. Binding under a short circuit: wherever the compiler builds an alternative pattern from an operand that can bind variables and one that cannot (`P?` is `P || nil`), the binding operand runs first, so a value the other operand matches cannot leave the variables of P unassigned. The comparison operators of relational and literal patterns: the opcode the compiler hands to the pattern helpers under `case token.T` (== != =~ !~ === !== < <= > >=) belongs to the family the compiler's own operator table assigns to T in expressions, so `case < 5` tests what `x < 5` tests.",
		NotCovered: "first-match order, binding of nested parts, exhaustiveness, and every other pattern form: relations between compiled code and a reference matcher over all values.",
	}
	props["C32"] = &PropSpec{
		Rules:      []string{"lineinfo/paired", "layout/prepend-bytes", "cover/offsets"},
		Decides:    "the accounting that makes a frame's line number computable: the line of an instruction is found by summing the per-line instruction counts, so every function that lengthens or shortens an instruction stream changes those counts by the same symbolic amount (7 functions, the only ones that assign to Instructions), a prepended prologue shifts the first entry by exactly its byte length, and the functions that move instructions also move every stored offset (catch entries, recorded call sites) that error handling and the stack trace consult.",
		NotCovered: "that the frames listed are the active call chain and that the line recorded for each emitted instruction is the right source line: relations between a run and the source program.",
	}
	props["C14"] = &PropSpec{
		Rules:      []string{"layout/finally-entry", "path/shortcircuit", "path/snapshot-first", "cover/offsets", "layout/prepend-bytes", "pool/patched-slot-unique", "layout/params-first", "path/throw-continues"},
		Decides:    "eight shape conditions of structured control flow: no instruction leaves the interpreter loop after it has jumped to a catch handler (the handler would never run); the value-pool slot a break/continue through finally reads its target from is a slot of its own (patching one exit cannot retarget another); the hidden defer-stack local of a method, function or macro is allocated after the parameters, so that installing it cannot overwrite an argument; the distance at which the VM enters a finally block for break/continue equals the bytes the compiler emits before that entry point; the searches for an error handler and for a pending finally use the same range test on catch entries; the conditional jump of && || ?? is emitted between the operands and patched after the right one on every path; a method's defer flag survives the checking of nested closures; catch ranges move with the code when a prologue is prepended.",
		NotCovered: "that each finally/defer runs exactly once and innermost first, and the values control-flow expressions produce: execution-order properties of the generated code over all programs.",
	}
	props["C15"] = &PropSpec{
		Rules:      []string{"path/exactlyone", "cover/offsets", "layout/prepend-bytes", "stack/stale-after-reentry", "layout/params-first", "stack/result-protocol", "path/throw-continues"},
		Decides:    "that an instruction which rethrows the error of a rejected promise goes on at the catch handler instead of leaving the interpreter loop (where the worker would resolve the promise with the error as if it were the body's result); that a `yield` (or any other node) whose value is used leaves a value on the stack, so that resuming a generator inside a loop body does not pop one of the frame's locals per iteration; that the saved stack of a generator or async body is copied into the running thread through an address that is still valid (not one taken before a call that may have reallocated the value stack); that the hidden thread-pool argument of an async method and its parameters occupy the frame slots the VM passes them in; that the value (or error) of an async body reaches its awaiters exactly once:every path through the worker functions settles the promise exactly once, every settlement decrements the promise's wait group once and enqueues the continuations once, every constructor of an unsettled promise increments the wait group once; and that the prologue prepended to generator and async bodies shifts every stored offset (catch entries, recorded call sites) by its own length, without which the property's own generator example crashes.",
		NotCovered: "that wrapping a body as a generator or async function preserves the values it yields and returns (resumption at the right instruction with the right stack): a relation between two executions.",
	}
	props["C16"] = &PropSpec{
		Rules:      []string{"await/handover", "await/queue-blocking", "await/task-not-dropped", "path/exactlyone"},
		Decides:    "the lock protocol that closes the lost-wake-up window of `await` (the AWAIT instruction tests `settled` under the promise's mutex and hands the held mutex to the worker, which registers the continuation before releasing it; the continuation list is only touched under that mutex; every settlement enqueues the continuations exactly once; a task whose send on the task queue can fail - a non-blocking send, directly or through a helper reporting `false` - is handed on some other way on every path where it failed), and the blocking sends on the pool's own bounded task queue that are reachable from a worker or performed under a promise's mutex - each of the latter is a way for the runtime to deadlock and is reported.",
		NotCovered: "absence of deadlock and lost wake-ups over all interleavings and queue capacities: that is a model-checking question. The five blocking sends of await/queue-blocking are open known findings (one mechanism, F5).",
	}
	props["C22"] = &PropSpec{
		Rules:      []string{"date/year-packing", "fmt/rw"},
		Decides:    "two shape conditions: every place that packs a computed year into a Date checks it against the representable range first (the packing itself silently wraps), and every format directive the Date / Time / DateTime formatters can write has an arm in the matching parser. Both have open findings on the pinned tree (three unchecked packing sites; the nine Unix-epoch directives of DateTime).",
		NotCovered: "agreement of the arithmetic with the proleptic Gregorian calendar, a + (b - a) == b, and the values produced by parsing: they depend on date values and on Go's time package.",
	}
	props["C23"] = &PropSpec{
		Rules:      []string{"range/kind-matrix", "range/literal-and-loop-tables", "native/argrep", "cover/reset"},
		Decides:    "four agreement conditions of the range and iterator code: a range literal is the same kind for the type checker, the constant folder and the NEW_RANGE instruction for every operator and every combination of present bounds, and the counting loop a `for in` over a range (literal, or variable of a range class) is lowered to starts and stops where that kind's containment test says; for each of the eight range kinds, is_left_closed / is_right_closed answer what the containment test's comparison with Start / End implies; the native ==, contains and friends of ranges (and of every other class) read their `any` argument only through checked accessors; every iterator's Reset re-derives the state its constructor derived from the collection.",
		NotCovered: "agreement of map, filter, reduce, zip, slicing and range iteration with a list model: relations over element sequences.",
	}
	props["C25"] = &PropSpec{
		Rules:      []string{"effect/mayfatal-unlock", "path/recoverguard", "path/ctx-blocking"},
		Decides:    "the `errors rather than crashes` half of the property: (1) no unlock of a sync mutex driven by the program can reach the Go runtime's unrecoverable fatal error (every unpaired Unlock/RUnlock is dominated by a test of state the wrapper tracks); (2) every send, close, reflect.Select and wait-group decrement on an object the program holds is either under a deferred recover() or guarded by a tracked counter; (3) the context-aware channel operations are arms of a select that also watches the context.",
		NotCovered: "FIFO delivery, exactly-once delivery, mutual exclusion, select fairness and Once's run-once guarantee: properties of schedules, delegated to Go's channels and sync package.",
	}
	props["C27"] = &PropSpec{
		Rules:      []string{"cover/deepcopy", "repl/snapshot-restore", "repl/persistent-fields", "cache/invalidate"},
		Decides:    "that no field of the incremental checker carries state from one input into the next unmanaged: every field a function reachable from CheckProgram assigns (outside a save/restore bracket) is put back on the failure branch, re-initialised before anything reads it, drained by a phase every program runs, or is a listed, reasoned exception; and the rollback half of the property (a rejected input leaves no trace) at the level of record fields: every DeepCopyEnv method of the type environment writes every field of the copy it returns (or the field is read nowhere, or it is rebuilt by the registerAsChild protocol), and the checker's REPL entry point stores back every snapshot it took, on every path, when the input is rejected, and drops the memoised copies of the scope stacks it replaces.",
		NotCovered: "that the deep copies are deep enough (aliasing between the live environment and the snapshot through shared maps or slices), the VM side of a session (persistent stack, globals after a runtime error), and equality of incremental and batch output in general: relations over input histories.",
	}
}
