package main

import (
	"go/ast"
	"go/types"
	"sort"
	"strings"
)

// class/object-constructor-fits (C01, C28): a class created without a
// constructor of its own gets plain objects as instances. If the natives of
// the class convert their receiver to some other Go type, a plain object
// makes every one of them panic. Where the headers let the program call the
// class and declare no `init`, such a class needs a constructor installed by
// the package that owns the implementation (`HashSet()` produced an object no
// HashSet method could work with).

func init() {
	register(&Rule{
		ID:    "class/object-constructor-fits",
		Text:  "every class of package value created without ClassWithConstructor whose natives convert their receiver (args[0]) to a Go type other than *value.Object, and which the headers allow to be instantiated without declaring an init, gets a ConstructorFunc assigned by some package",
		Floor: 1,
		Run:   runObjectConstructorFits,
	})
}

func runObjectConstructorFits(c *Ctx) {
	h := c.parseHeaders()
	nt := c.parseNatives()
	names := nt.ElkName
	vp := c.Pkg("value")
	info := vp.TypesInfo
	// classes created with the default constructor
	defaultCtor := map[types.Object]ast.Node{}
	for _, f := range vp.Syntax {
		ast.Inspect(f, func(n ast.Node) bool {
			as, ok := n.(*ast.AssignStmt)
			if !ok || len(as.Lhs) != 1 || len(as.Rhs) != 1 {
				return true
			}
			id, ok := as.Lhs[0].(*ast.Ident)
			if !ok {
				return true
			}
			call, ok := ast.Unparen(as.Rhs[0]).(*ast.CallExpr)
			if !ok {
				return true
			}
			fn := Callee(info, call)
			if fn == nil || (fn.Name() != "NewClass" && fn.Name() != "NewClassWithOptions") {
				return true
			}
			if strings.Contains(types.ExprString(call), "ClassWithConstructor") {
				return true
			}
			if o := info.ObjectOf(id); o != nil {
				defaultCtor[o] = as
			}
			return true
		})
	}
	assigned := map[types.Object]bool{}
	for _, p := range c.Pkgs {
		pinfo := p.TypesInfo
		for _, f := range p.Syntax {
			ast.Inspect(f, func(n ast.Node) bool {
				as, ok := n.(*ast.AssignStmt)
				if !ok {
					return true
				}
				for _, l := range as.Lhs {
					if sel, ok := ast.Unparen(l).(*ast.SelectorExpr); ok && sel.Sel.Name == "ConstructorFunc" {
						if o := exprObj(pinfo, sel.X); o != nil {
							assigned[o] = true
						}
					}
				}
				return true
			})
		}
	}
	hasInit := map[string]bool{}
	for _, m := range h.Methods {
		if m.Name == "#init" && !m.Singleton {
			hasInit[m.NS] = true
		}
	}
	// receiver conversions per class
	castOf := map[string]string{}
	for _, nd := range nt.Defs {
		if nd.Func == nil || nd.Singleton || h.Kind[nd.NS] != "class" {
			continue
		}
		ninfo := nd.Pkg.Info
		if nd.Func.Type.Params == nil || len(nd.Func.Type.Params.List) < 2 {
			continue
		}
		last := nd.Func.Type.Params.List[len(nd.Func.Type.Params.List)-1]
		if len(last.Names) == 0 {
			continue
		}
		argsObj := ninfo.Defs[last.Names[len(last.Names)-1]]
		isArg0 := func(e ast.Expr) bool {
			e = ast.Unparen(e)
			if call, ok := e.(*ast.CallExpr); ok && len(call.Args) == 0 {
				if sel, ok := call.Fun.(*ast.SelectorExpr); ok {
					e = ast.Unparen(sel.X)
				}
			}
			ix, ok := e.(*ast.IndexExpr)
			if !ok {
				return false
			}
			id, ok := ast.Unparen(ix.X).(*ast.Ident)
			if !ok || ninfo.Uses[id] != argsObj {
				return false
			}
			v, ok := ConstInt(ninfo, ix.Index)
			return ok && v == 0
		}
		ast.Inspect(nd.Func.Body, func(n ast.Node) bool {
			var t types.Type
			switch x := n.(type) {
			case *ast.FuncLit:
				return false
			case *ast.TypeAssertExpr:
				if x.Type != nil && isArg0(x.X) {
					t = ninfo.TypeOf(x.Type)
				}
			case *ast.CallExpr:
				if tv, ok := ninfo.Types[x.Fun]; ok && tv.IsType() && len(x.Args) == 1 && isArg0(x.Args[0]) {
					t = tv.Type
				}
			}
			if t != nil {
				name := NamedOf(t)
				if name != "value.Object" && name != "" && castOf[nd.NS] == "" {
					castOf[nd.NS] = name
				}
			}
			return true
		})
	}
	var objs []types.Object
	for o := range defaultCtor {
		objs = append(objs, o)
	}
	sort.Slice(objs, func(i, j int) bool { return objs[i].Name() < objs[j].Name() })
	for _, o := range objs {
		ns := names[o]
		if ns == "" || castOf[ns] == "" {
			continue
		}
		if _, declared := h.Kind[ns]; !declared {
			continue
		}
		flags := h.ClassFlags[ns]
		if len(flags) >= 4 && (flags[0] || flags[3]) {
			c.OKTrivial(ns, defaultCtor[o].Pos(), "abstract or noinit: the program cannot call the class")
			continue
		}
		if hasInit[ns] {
			c.OK(ns, defaultCtor[o].Pos(), "the headers declare an init, whose native returns the object")
			continue
		}
		c.Check(assigned[o], ns, defaultCtor[o].Pos(), "%s is created without a constructor of its own, so `%s()` is a plain object, but its natives convert their receiver to %s; the headers let the program call the class and declare no init: the first method call on such an instance is a Go panic", ns, ns, castOf[ns])
	}
}
