package main

import (
	"go/ast"
	"go/types"
)

// stack/catch-depth (C29, C15): a throw can happen at any operand-stack depth
// (in the middle of building a collection literal, between the arguments of a
// call). The handler is compiled for one depth: that of the `do` expression's
// start plus the thrown value and the stack trace. The function that
// transfers control to a handler therefore has to bring the stack pointer
// back to a depth recorded for the handler before it pushes those two; if it
// only pushes, the handler runs on top of whatever operands were live at the
// throw, and the paths "body completed" and "handler completed" join with
// different depths.

func init() {
	register(&Rule{
		ID:    "stack/catch-depth",
		Text:  "in package vm, every function that sets the instruction pointer to the JumpAddress of a CatchEntry assigns the thread's stack pointer (directly, or through a helper that does) before it continues at the handler",
		Floor: 1,
		Run:   runCatchDepth,
	})
}

func runCatchDepth(c *Ctx) {
	p := c.Pkg("vm")
	info := p.TypesInfo
	// helpers that assign vm.sp from something other than sp itself +- n (a reset, not a push/pop)
	resetsSP := func(body *ast.BlockStmt) bool {
		found := false
		ast.Inspect(body, func(n ast.Node) bool {
			as, ok := n.(*ast.AssignStmt)
			if !ok || len(as.Lhs) != 1 {
				return true
			}
			sel, ok := ast.Unparen(as.Lhs[0]).(*ast.SelectorExpr)
			if !ok || sel.Sel.Name != "sp" || NamedOf(info.TypeOf(sel.X)) != "vm.Thread" {
				return true
			}
			// mentions a CatchEntry field or the frame pointer on the right
			ast.Inspect(as.Rhs[0], func(m ast.Node) bool {
				if s2, ok := m.(*ast.SelectorExpr); ok {
					if NamedOf(info.TypeOf(s2.X)) == "vm.CatchEntry" || (s2.Sel.Name == "fp" && NamedOf(info.TypeOf(s2.X)) == "vm.Thread") {
						found = true
					}
				}
				if call, ok := m.(*ast.CallExpr); ok {
					if fn := Callee(info, call); fn != nil && (fn.Name() == "fpAdd" || fn.Name() == "fpAddRaw") {
						found = true
					}
				}
				return true
			})
			return true
		})
		return found
	}
	resetters := map[*types.Func]bool{}
	c.Funcs("vm", func(fr *FuncRef) {
		if resetsSP(fr.Decl.Body) {
			resetters[fr.Obj] = true
		}
	})
	c.Funcs("vm", func(fr *FuncRef) {
		if recvTypeName(fr.Decl) != "Thread" {
			return
		}
		var at ast.Node
		finallyOnly := true
		ast.Inspect(fr.Decl.Body, func(n ast.Node) bool {
			call, ok := n.(*ast.CallExpr)
			if !ok || len(call.Args) != 1 {
				return true
			}
			fn := Callee(info, call)
			if fn == nil || fn.Name() != "ipSetOffset" {
				return true
			}
			sel, ok := ast.Unparen(call.Args[0]).(*ast.SelectorExpr)
			if ok && sel.Sel.Name == "JumpAddress" && NamedOf(info.TypeOf(sel.X)) == "vm.CatchEntry" {
				at = call
			}
			return true
		})
		if at == nil {
			return
		}
		// transfers for return/break/continue through finally keep the operands
		// (the value being returned lies on top): only the transfer of a throw,
		// which pushes the thrown value and the stack trace, must reset
		pushes := 0
		ast.Inspect(fr.Decl.Body, func(n ast.Node) bool {
			if call, ok := n.(*ast.CallExpr); ok {
				if fn := Callee(info, call); fn != nil && fn.Name() == "push" {
					pushes++
				}
			}
			return true
		})
		if pushes >= 2 {
			finallyOnly = false
		}
		if finallyOnly {
			return
		}
		ok := resetsSP(fr.Decl.Body)
		ast.Inspect(fr.Decl.Body, func(n ast.Node) bool {
			if call, isCall := n.(*ast.CallExpr); isCall {
				if fn := Callee(info, call); fn != nil && resetters[fn.Origin()] {
					ok = true
				}
			}
			return true
		})
		c.Check(ok, FuncName(fr.Decl), at.Pos(), "%s continues at a catch handler after pushing the thrown value and the stack trace on top of whatever operands were live at the throw; it never brings the stack pointer back to a depth recorded for the handler: a throw in the middle of an expression (`[1, 2, thrower()]` inside `do ... catch`) enters the handler with the partial operands still on the stack, and the value of the `do` expression ends up one or more slots too high", FuncName(fr.Decl))
	})
}
