package main

import (
	"go/ast"
	"go/types"
)

// stack/relative-offset-args (C01, C10): spAdd(n) and fpAdd(n) address the
// slot n places away from the stack / frame pointer. spOffset() and
// fpOffset() are absolute positions counted from the bottom of the stack.
// Feeding an absolute position into a relative accessor addresses a slot
// about twice as far up as intended - past the end of the stack once it is
// more than half full.

func init() {
	register(&Rule{
		ID:    "stack/relative-offset-args",
		Text:  "in package vm, no argument of the pointer-relative slot accessors (spAdd, fpAdd, spAddRaw, fpAddRaw) is computed from an absolute stack position (spOffset(), fpOffset(), len of the stack), directly or through a variable assigned from one",
		Floor: 50,
		Run:   runRelativeOffsetArgs,
	})
}

func runRelativeOffsetArgs(c *Ctx) {
	p := c.Pkg("vm")
	info := p.TypesInfo
	absolute := func(e ast.Node, tainted map[types.Object]bool) bool {
		found := false
		ast.Inspect(e, func(n ast.Node) bool {
			switch x := n.(type) {
			case *ast.CallExpr:
				if fn := Callee(info, x); fn != nil && recvNameOf(fn) == "Thread" && (fn.Name() == "spOffset" || fn.Name() == "fpOffset") {
					found = true
				}
				if id, ok := x.Fun.(*ast.Ident); ok && id.Name == "len" && len(x.Args) == 1 {
					if sel, ok := ast.Unparen(x.Args[0]).(*ast.SelectorExpr); ok && sel.Sel.Name == "stack" && NamedOf(info.TypeOf(sel.X)) == "vm.Thread" {
						found = true
					}
				}
			case *ast.Ident:
				if tainted[info.Uses[x]] {
					found = true
				}
			}
			return true
		})
		return found
	}
	c.Funcs("vm", func(fr *FuncRef) {
		if recvTypeName(fr.Decl) != "Thread" {
			return
		}
		tainted := map[types.Object]bool{}
		for round := 0; round < 3; round++ {
			ast.Inspect(fr.Decl.Body, func(n ast.Node) bool {
				as, ok := n.(*ast.AssignStmt)
				if !ok || len(as.Lhs) != len(as.Rhs) {
					return true
				}
				for i, l := range as.Lhs {
					if id, ok := l.(*ast.Ident); ok && absolute(as.Rhs[i], tainted) {
						if o := info.ObjectOf(id); o != nil {
							tainted[o] = true
						}
					}
				}
				return true
			})
		}
		n := 0
		ast.Inspect(fr.Decl.Body, func(nd ast.Node) bool {
			call, ok := nd.(*ast.CallExpr)
			if !ok || len(call.Args) != 1 {
				return true
			}
			fn := Callee(info, call)
			if fn == nil || recvNameOf(fn) != "Thread" {
				return true
			}
			switch fn.Name() {
			case "spAdd", "fpAdd", "spAddRaw", "fpAddRaw":
			default:
				return true
			}
			n++
			key := FuncName(fr.Decl) + "/" + fn.Name() + "#" + itoa(n)
			c.Check(!absolute(call.Args[0], tainted), key, call.Pos(), "%s passes `%s`, which is computed from an absolute stack position, to %s, which addresses relative to the stack/frame pointer: the slot addressed lies about twice as far up as intended, past the end of the stack once it is more than half full", FuncName(fr.Decl), types.ExprString(call.Args[0]), fn.Name())
			return true
		})
	})
}
