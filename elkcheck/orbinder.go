package main

import (
	"go/ast"
	"go/types"
	"strings"
)

// pattern/or-binder-first (C30): an alternative pattern `A || B` is compiled
// with a short circuit: when A matches, the code of B is skipped. A
// sub-pattern that binds variables (an identifier or `as` pattern somewhere
// inside) does so while it runs. If the operand that can bind comes second
// and the first operand cannot bind anything, a value matched by the first
// operand leaves the variables of the second unassigned although the case is
// selected - `x?` matched against nil would not set x.

func init() {
	register(&Rule{
		ID:    "pattern/or-binder-first",
		Text:  "at every call of the bytecode compiler's short-circuit pattern combinator (the method that runs its first closure, emits a conditional jump and runs its second closure) that can be an alternative (operator OR_OR or not constant): if the closure evaluated second can reach the emission of a local-variable store, so can the closure evaluated first",
		Floor: 2,
		Run:   runOrBinderFirst,
	})
}

func runOrBinderFirst(c *Ctx) {
	p := c.Pkg("compiler")
	info := p.TypesInfo
	byObj := map[*types.Func]*FuncRef{}
	c.Funcs("compiler", func(fr *FuncRef) { byObj[fr.Obj] = fr })
	// functions that emit a SET_LOCAL* opcode
	binds := map[*types.Func]bool{}
	for fn, fr := range byObj {
		if recvTypeName(fr.Decl) != "BytecodeCompiler" {
			continue
		}
		ast.Inspect(fr.Decl.Body, func(n ast.Node) bool {
			if sel, ok := n.(*ast.SelectorExpr); ok {
				if k, ok := info.Uses[sel.Sel].(*types.Const); ok && k.Pkg() != nil && relPkg(k.Pkg().Path()) == "bytecode" && strings.HasPrefix(k.Name(), "SET_LOCAL") {
					binds[fn] = true
				}
			}
			return true
		})
	}
	if len(binds) == 0 {
		c.Stale("compiler: BytecodeCompiler methods emitting SET_LOCAL opcodes")
	}
	// reachability (calls inside function literals count: they run when the
	// enclosing compile function runs them)
	mayBind := map[*types.Func]bool{}
	for fn := range binds {
		mayBind[fn] = true
	}
	for changed := true; changed; {
		changed = false
		for fn, fr := range byObj {
			if mayBind[fn] || recvTypeName(fr.Decl) != "BytecodeCompiler" {
				continue
			}
			ast.Inspect(fr.Decl.Body, func(n ast.Node) bool {
				if mayBind[fn] {
					return false
				}
				if call, ok := n.(*ast.CallExpr); ok {
					if cal := Callee(info, call); cal != nil && mayBind[cal.Origin()] {
						mayBind[fn] = true
						changed = true
					}
				}
				return true
			})
		}
	}
	nodeMayBind := func(n ast.Node) bool {
		f := false
		ast.Inspect(n, func(m ast.Node) bool {
			if call, ok := m.(*ast.CallExpr); ok {
				if cal := Callee(info, call); cal != nil && mayBind[cal.Origin()] {
					f = true
				}
			}
			return true
		})
		return f
	}
	// the combinator: a method with two func() parameters that calls one,
	// emits a jump, then calls the other
	type comb struct {
		first, second int // parameter indices in evaluation order
		opIdx         int // index of the token.Type parameter, -1 if none
	}
	combs := map[*types.Func]comb{}
	for fn, fr := range byObj {
		if recvTypeName(fr.Decl) != "BytecodeCompiler" {
			continue
		}
		sig := fn.Type().(*types.Signature)
		var funcParams []int
		opIdx := -1
		for i := 0; i < sig.Params().Len(); i++ {
			t := sig.Params().At(i).Type()
			if s, ok := t.Underlying().(*types.Signature); ok && s.Params().Len() == 0 && s.Results().Len() == 0 {
				funcParams = append(funcParams, i)
			}
			if NamedOf(t) == "token.Type" {
				opIdx = i
			}
		}
		if len(funcParams) != 2 {
			continue
		}
		pobj := map[types.Object]int{}
		for _, i := range funcParams {
			pobj[sig.Params().At(i)] = i
		}
		var order []int
		jumpBetween := false
		for _, st := range fr.Decl.Body.List {
			es, ok := st.(*ast.ExprStmt)
			if ok {
				if call, ok := es.X.(*ast.CallExpr); ok {
					if id, ok := call.Fun.(*ast.Ident); ok {
						if i, isParam := pobj[info.Uses[id]]; isParam {
							order = append(order, i)
							continue
						}
					}
				}
			}
			if len(order) == 1 {
				ast.Inspect(st, func(n ast.Node) bool {
					if call, ok := n.(*ast.CallExpr); ok {
						if cal := Callee(info, call); cal != nil && cal.Name() == "emitJump" {
							jumpBetween = true
						}
					}
					return true
				})
			}
		}
		if len(order) == 2 && order[0] != order[1] && jumpBetween {
			combs[fn] = comb{order[0], order[1], opIdx}
		}
	}
	if len(combs) == 0 {
		c.Stale("compiler: a BytecodeCompiler method with two func() parameters that runs one, emits a jump and runs the other (binaryPattern)")
	}
	c.Stats["short_circuit_combinators"] = len(combs)
	n := map[string]int{}
	c.Funcs("compiler", func(fr *FuncRef) {
		ast.Inspect(fr.Decl.Body, func(m ast.Node) bool {
			call, ok := m.(*ast.CallExpr)
			if !ok {
				return true
			}
			cal := Callee(info, call)
			if cal == nil {
				return true
			}
			cb, ok := combs[cal.Origin()]
			if !ok || cb.first >= len(call.Args) || cb.second >= len(call.Args) {
				return true
			}
			op := ""
			if cb.opIdx >= 0 && cb.opIdx < len(call.Args) {
				op = constName(info, call.Args[cb.opIdx])
			}
			n[FuncName(fr.Decl)]++
			key := FuncName(fr.Decl) + "/" + cal.Name() + "#" + itoa(n[FuncName(fr.Decl)])
			if op != "" && op != "OR_OR" {
				c.OK(key, call.Pos(), "operator %s: both operands always run when the pattern matches", op)
				return true
			}
			a, b := nodeMayBind(call.Args[cb.first]), nodeMayBind(call.Args[cb.second])
			c.Check(!(b && !a), key, call.Pos(), "%s compiles an alternative whose second operand can bind variables while the first cannot: when the first operand matches, the second is skipped by the short circuit and the variables it declares stay unassigned although the case is selected (e.g. `x?` matched against nil leaves x unset)", FuncName(fr.Decl))
			return true
		})
	})
}
