package main

import (
	"go/ast"
	"go/constant"
	"go/types"
	"sort"
	"strings"
)

// reflags/rw (C21, narrow claim): the six regex flags are spelled in four
// places - the letter table of package regex/flag, the Elk lexer (letter ->
// flag token), the Elk parser (flag token -> bit), and the regex parser's
// scoped groups (letter -> bit) - and which of them are passed through to Go's
// engine is decided by the ORDER of the constants (flag <= UngreedyFlag). If
// two of these disagree, a regex literal or a composed regex compiles to a
// pattern with another meaning for every subject string.

func init() {
	register(&Rule{
		ID:    "reflags/rw",
		Text:  "for each flag constant of regex/flag: the letter the flag table assigns to it is the letter the Elk lexer turns into the flag token that the Elk parser turns back into that constant, and the letter for which the regex parser's scoped-group switch selects that constant; and the flags IsSupportedByGo lets through to Go's engine (by constant order) are exactly those spelled i, m, s, U, the letters whose RE2 meaning equals the Elk meaning",
		Floor: 15,
		Run:   runReFlags,
	})
}

func runReFlags(c *Ctx) {
	fp := c.Pkg("regex/flag")
	finfo := fp.TypesInfo
	// flag constants
	flagConst := map[string]int64{} // name -> value
	for _, n := range fp.Types.Scope().Names() {
		if k, ok := fp.Types.Scope().Lookup(n).(*types.Const); ok && strings.HasSuffix(n, "Flag") {
			if v, ok := constant.Int64Val(constant.ToInt(k.Val())); ok {
				flagConst[n] = v
			}
		}
	}
	if len(flagConst) < 4 {
		c.Stale("regex/flag: flag constants")
	}
	// T1: the letter table: a package-level map literal flag -> rune
	letterOf := map[string]int64{}
	for _, f := range fp.Syntax {
		ast.Inspect(f, func(n ast.Node) bool {
			cl, ok := n.(*ast.CompositeLit)
			if !ok {
				return true
			}
			if _, isMap := finfo.TypeOf(cl).Underlying().(*types.Map); !isMap {
				return true
			}
			for _, el := range cl.Elts {
				kv, ok := el.(*ast.KeyValueExpr)
				if !ok {
					continue
				}
				kn := constName(finfo, kv.Key)
				if v, ok := runeConst(finfo, kv.Value); ok && kn != "" {
					letterOf[kn] = v
				}
			}
			return true
		})
	}
	if len(letterOf) < len(flagConst) {
		c.Stale("regex/flag: map literal from flag constants to letters")
	}
	// helper: switches mapping case labels to something in the clause body
	type swmap struct {
		where string
		m     map[string]string
	}
	// T2: lexer: rune label -> flag token returned
	lexLetterTok := map[int64]string{}
	{
		p := c.Pkg("lexer")
		info := p.TypesInfo
		c.Funcs("lexer", func(fr *FuncRef) {
			for _, sw := range runeSwitches(info, fr.Decl.Body) {
				for _, cl := range sw.Body.List {
					cc := cl.(*ast.CaseClause)
					tok := ""
					ast.Inspect(cc, func(n ast.Node) bool {
						if sel, ok := n.(*ast.SelectorExpr); ok && strings.HasPrefix(sel.Sel.Name, "REGEX_FLAG_") {
							tok = sel.Sel.Name
						}
						return true
					})
					if tok == "" {
						continue
					}
					for _, e := range cc.List {
						if v, ok := runeConst(info, e); ok {
							lexLetterTok[v] = tok
						}
					}
				}
			}
		})
	}
	// T3: parser: flag token label -> flag constant set
	parTokConst := map[string]string{}
	{
		p := c.Pkg("parser")
		info := p.TypesInfo
		c.Funcs("parser", func(fr *FuncRef) {
			ast.Inspect(fr.Decl.Body, func(n ast.Node) bool {
				cc, ok := n.(*ast.CaseClause)
				if !ok {
					return true
				}
				var toks []string
				for _, e := range cc.List {
					if k := constName(info, e); strings.HasPrefix(k, "REGEX_FLAG_") {
						toks = append(toks, k)
					}
				}
				if len(toks) == 0 {
					return true
				}
				for _, st := range cc.Body {
					ast.Inspect(st, func(m ast.Node) bool {
						if sel, ok := m.(*ast.SelectorExpr); ok {
							if _, isFlag := flagConst[sel.Sel.Name]; isFlag {
								for _, t := range toks {
									parTokConst[t] = sel.Sel.Name
								}
							}
						}
						return true
					})
				}
				return true
			})
		})
	}
	// T4: regex parser: rune label -> flag constant
	reLetterConst := map[int64]string{}
	{
		p := c.Pkg("regex/parser")
		info := p.TypesInfo
		c.Funcs("regex/parser", func(fr *FuncRef) {
			ast.Inspect(fr.Decl.Body, func(n ast.Node) bool {
				cc, ok := n.(*ast.CaseClause)
				if !ok || len(cc.List) == 0 {
					return true
				}
				var k string
				for _, st := range cc.Body {
					ast.Inspect(st, func(m ast.Node) bool {
						if sel, ok := m.(*ast.SelectorExpr); ok {
							if _, isFlag := flagConst[sel.Sel.Name]; isFlag {
								k = sel.Sel.Name
							}
						}
						return true
					})
				}
				if k == "" {
					return true
				}
				for _, e := range cc.List {
					if v, ok := runeConst(info, e); ok {
						reLetterConst[v] = k
					}
				}
				return true
			})
		})
	}
	var names []string
	for n := range flagConst {
		names = append(names, n)
	}
	sort.Strings(names)
	pos := fp.Syntax[0].Pos()
	for _, n := range names {
		letter, ok := letterOf[n]
		if !ok {
			c.Bad(n+"/letter", pos, "flag %s has no letter in the flag table", n)
			continue
		}
		tok := lexLetterTok[letter]
		back := parTokConst[tok]
		c.Check(tok != "" && back == n, n+"/literal", pos, "flag table spells %s as %q; the Elk lexer turns %q into token %q, which the Elk parser turns into %q: a regex literal written with this flag gets another flag", n, rune(letter), rune(letter), tok, back)
		c.Check(reLetterConst[letter] == n, n+"/scoped-group", pos, "flag table spells %s as %q but the regex parser's scoped-group switch maps %q to %q: composed regexes (which print their flags as (?x-y:...)) change meaning", n, rune(letter), rune(letter), reLetterConst[letter])
	}
	// IsSupportedByGo: threshold by constant order
	fr := c.Func("regex/flag", "", "IsSupportedByGo")
	threshold := ""
	ast.Inspect(fr.Decl.Body, func(n ast.Node) bool {
		if be, ok := n.(*ast.BinaryExpr); ok {
			if k := constName(finfo, be.Y); k != "" {
				threshold = be.Op.String() + " " + k
			}
		}
		return true
	})
	var passed []string
	for _, n := range names {
		parts := strings.Fields(threshold)
		if len(parts) != 2 {
			break
		}
		tv := flagConst[parts[1]]
		ok := false
		switch parts[0] {
		case "<=":
			ok = flagConst[n] <= tv
		case "<":
			ok = flagConst[n] < tv
		}
		if ok {
			passed = append(passed, string(rune(letterOf[n])))
		}
	}
	sort.Strings(passed)
	c.Check(strings.Join(passed, "") == "Uims", "go-passthrough", fr.Decl.Pos(), "IsSupportedByGo (%s) lets the flags %q through to Go's regexp engine; only i, m, s and U mean the same there", threshold, strings.Join(passed, ""))
	// every lexer letter is a flag letter and vice versa
	for letter, tok := range lexLetterTok {
		found := false
		for _, n := range names {
			if letterOf[n] == letter {
				found = true
			}
		}
		c.Check(found, "lexer-letter/"+string(rune(letter)), pos, "the Elk lexer accepts %q as regex flag (%s) but the flag table has no such letter", rune(letter), tok)
	}
}
