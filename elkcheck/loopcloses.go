package main

import (
	"fmt"
	"go/ast"
	"go/token"
	"go/types"
)

// path/loop-closes-upvalues (C13): closures created in a loop body must
// capture the variables of their own iteration. Every loop form therefore
// closes the upvalues of an iteration before it jumps back: either the body
// is compiled in an inner scope that is left (leaveScope closes what it
// captured) or closeUpvaluesInCurrentScope is called before the back edge.
// The for-in loop lacked both (every closure saw the last element).

func init() {
	register(&Rule{
		ID:    "path/loop-closes-upvalues",
		Text:  "in every function of the bytecode compiler that emits a backward jump (emitLoop(loc, start)), between the statement that records `start` and the emitLoop call there is a call that closes the upvalues captured in the iteration: leaveScope of a scope entered inside the iteration, closeUpvaluesInCurrentScope, or a helper that calls it",
		Floor: 7,
		Run:   runLoopClosesUpvalues,
	})
}

var loopClosesExempt = map[string]string{
	"BytecodeCompiler.emitLoop": "the emitter itself",
}

func runLoopClosesUpvalues(c *Ctx) {
	p := c.Pkg("compiler")
	info := p.TypesInfo
	// helpers that call closeUpvaluesInCurrentScope
	closers := map[*types.Func]bool{}
	c.Funcs("compiler", func(fr *FuncRef) {
		ast.Inspect(fr.Decl.Body, func(n ast.Node) bool {
			if call, ok := n.(*ast.CallExpr); ok {
				if fn := Callee(info, call); fn != nil && fn.Name() == "closeUpvaluesInCurrentScope" {
					closers[fr.Obj] = true
				}
			}
			return true
		})
	})
	c.Funcs("compiler", func(fr *FuncRef) {
		if recvTypeName(fr.Decl) != "BytecodeCompiler" {
			return
		}
		if _, ok := loopClosesExempt[FuncName(fr.Decl)]; ok {
			return
		}
		n := 0
		ast.Inspect(fr.Decl.Body, func(nd ast.Node) bool {
			call, ok := nd.(*ast.CallExpr)
			if !ok || !IsCall(info, call, "compiler.BytecodeCompiler.emitLoop") || len(call.Args) != 2 {
				return true
			}
			n++
			key := fmt.Sprintf("%s/backedge#%d", FuncName(fr.Decl), n)
			// where the loop starts: definition of the variable passed as start
			startPos := fr.Decl.Body.Pos()
			if id, ok := ast.Unparen(call.Args[1]).(*ast.Ident); ok {
				if o := info.Uses[id]; o != nil && o.Pos() > startPos {
					startPos = o.Pos()
				}
			}
			closed := false
			var what string
			ast.Inspect(fr.Decl.Body, func(m ast.Node) bool {
				c2, ok := m.(*ast.CallExpr)
				if !ok || c2.Pos() <= startPos || c2.Pos() >= call.Pos() {
					return true
				}
				fn := Callee(info, c2)
				if fn == nil {
					// a body callback (then()) may compile anything; not a closer
					return true
				}
				switch {
				case fn.Name() == "closeUpvaluesInCurrentScope", fn.Name() == "leaveScope":
					closed, what = true, fn.Name()
				case closers[fn.Origin()] && fn.Origin() != fr.Obj:
					closed, what = true, fn.Name()
				}
				return true
			})
			if reason, ok := loopBoundedExempt[FuncName(fr.Decl)]; ok {
				c.OK(key, call.Pos(), "reasoned exception: %s", reason)
				return true
			}
			c.Check(closed, key, call.Pos(), "%s jumps back to the start of the loop without closing the upvalues captured during the iteration (no leaveScope of an inner scope, no closeUpvaluesInCurrentScope between the loop start and the back edge): closures created in different iterations share one variable", FuncName(fr.Decl))
			_ = what
			return true
		})
	})
	_ = token.NoPos
}

// loopBoundedExempt: internal loops the compiler emits that run no user
// statements creating closures.
var loopBoundedExempt = map[string]string{
	"BytecodeCompiler.listOrTuplePattern": "internal loop over the elements matched by a rest pattern: its body is compiler-generated index arithmetic and sub-pattern tests, no user statement (hence no closure literal) is compiled inside it",
	"BytecodeCompiler.emitFinalReturn":    "the generator tail (STOP_ITERATION; LOOP back to itself) runs after the body has finished; nothing is captured there",
}
